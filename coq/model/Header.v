(* Header.v - model of maflib/header.py (and the parts of schemes.py /
   scheme_factory.py / sort_order.py the header consults):
   MafHeaderRecord.from_line, the four special record classes, MafHeader (an
   insertion-ordered dict of records), the accessors, scheme(), validate,
   __str__, from_lines (with the contigs re-application), from_reader /
   from_defaults.  The scheme registry (all_schemes()) is a Section variable.
   A second part models header objects in a store, for the independence of a
   header derived by from_reader (deepcopy). *)
From MafVerif Require Import lib.Base lib.Str model.Validation.

Definition K_VERSION : str := [118;101;114;115;105;111;110]%N. (* version *)
Definition K_ANNOT : str := [97;110;110;111;116;97;116;105;111;110;46;115;112;101;99]%N. (* annotation.spec *)
Definition K_SORT : str := [115;111;114;116;46;111;114;100;101;114]%N. (* sort.order *)
Definition K_CONTIGS : str := [99;111;110;116;105;103;115]%N. (* contigs *)
Definition N_UNKNOWN : str := [85;110;107;110;111;119;110]%N. (* Unknown *)
Definition N_UNSORTED : str := [85;110;115;111;114;116;101;100]%N. (* Unsorted *)
Definition N_BARCODES : str := [66;97;114;99;111;100;101;115;65;110;100;67;111;111;114;100;105;110;97;116;101]%N. (* BarcodesAndCoordinate *)
Definition N_COORD : str := [67;111;111;114;100;105;110;97;116;101]%N. (* Coordinate *)
Definition NO_VERSION : str := [110;111;45;118;101;114;115;105;111;110]%N. (* no-version *)
Definition NO_ANNOT : str := [110;111;45;97;110;110;111;116;97;116;105;111;110;45;115;112;101;99;105;102;105;99;97;116;105;111;110]%N. (* no-annotation-specification *)

(* ---------- sort orders (sort_order.py: SortOrder.all()) ---------- *)
Inductive sorder := SoUnknown | SoUnsorted | SoBarcodes | SoCoordinate.

Definition so_name (o : sorder) : str :=
  match o with
  | SoUnknown => N_UNKNOWN | SoUnsorted => N_UNSORTED
  | SoBarcodes => N_BARCODES | SoCoordinate => N_COORD
  end.

(* [Unknown, Unsorted, BarcodesAndCoordinate, Coordinate] *)
Definition so_all : list sorder := [SoUnknown; SoUnsorted; SoBarcodes; SoCoordinate].

(* next((so() for so in SortOrder.all() if so.name() == value), Unknown):
   None stands for the default, the *class* Unknown, which then fails the
   issubclass(type(value), SortOrder) test *)
Definition so_of_name (s : str) : option sorder :=
  find (fun o => str_eqb (so_name o) s) so_all.

(* issubclass(type(value), Coordinate) *)
Definition so_is_coord (o : sorder) : bool :=
  match o with SoBarcodes | SoCoordinate => true | _ => false end.

(* ---------- header records ---------- *)
(* the value held by a record: text; a SortOrder instance (with the _contigs
   of a Coordinate order, [] for the others); a list of contig names *)
Inductive hvalue :=
| HText (s : str)
| HOrder (o : sorder) (contigs : list str)
| HContigs (cs : list str).

Record hrec := { hkey : str; hval : hvalue }.

(* str(value) for text and sort orders (SortOrder.__str__ is the name); the
   contig record prints ','.join(value) in its own __str__ *)
Definition hval_text (v : hvalue) : str :=
  match v with
  | HText s => s
  | HOrder o _ => so_name o
  | HContigs cs => join [COMMA] cs
  end.

(* MafHeaderRecord.__str__ / MafHeaderContigRecord.__str__ *)
Definition hrec_print (r : hrec) : str := HASH :: hkey r ++ SP :: hval_text (hval r).

(* `if contigs` / `if value` on a list *)
Definition nonempty {X} (l : list X) : bool := match l with [] => false | _ => true end.

(* MafHeaderSortOrderRecord.__init__ for a str value (fasta_index not
   modelled): PlainException stands for `raise Exception(...)` *)
Definition sort_record_of_name (name : str) (contigs : option (list str)) : res hrec :=
  match so_of_name name with
  | None => Raise PlainException
  | Some o =>
      let cs := match contigs with Some c => c | None => [] end in
      if nonempty cs && so_is_coord o
      then Ok {| hkey := K_SORT; hval := HOrder o cs |}     (* value.__class__(contigs=contigs) *)
      else Ok {| hkey := K_SORT; hval := HOrder o [] |}     (* so() *)
  end.

(* ... for a SortOrder instance *)
Definition sort_record_of_inst (o : sorder) (own : list str) (contigs : option (list str)) : hrec :=
  let cs := match contigs with Some c => c | None => [] end in
  if nonempty cs && so_is_coord o
  then {| hkey := K_SORT; hval := HOrder o cs |}
  else {| hkey := K_SORT; hval := HOrder o own |}.

(* MafHeaderRecord.from_line: (record, error), exactly one of them set *)
Definition hrec_from_line (line : str) (ln : option Z) : hrec + verr :=
  if negb (startswith line [HASH]) then
    inr (mkerr T_HEADER_LINE_MISSING_START_SYMBOL ln)
  else
    match split1 SP (tl line) with          (* line[1:].split(" ", 1) *)
    | (_, None) => inr (mkerr T_HEADER_LINE_MISSING_SEPARATOR ln)
    | (key, Some value0) =>
        let value := rstrip_ws value0 in
        if negb (nonempty key) then inr (mkerr T_HEADER_LINE_EMPTY_KEY ln)
        else if negb (nonempty value) then inr (mkerr T_HEADER_LINE_EMPTY_VALUE ln)
        else if str_eqb key K_VERSION then inl {| hkey := K_VERSION; hval := HText value |}
        else if str_eqb key K_ANNOT then inl {| hkey := K_ANNOT; hval := HText value |}
        else if str_eqb key K_SORT then
          match sort_record_of_name value None with
          | Ok r => inl r
          | Raise _ => inr (mkerr T_HEADER_UNSUPPORTED_SORT_ORDER ln)   (* except Exception *)
          end
        else if str_eqb key K_CONTIGS then
          inl {| hkey := K_CONTIGS; hval := HContigs (split COMMA value) |}
        else inl {| hkey := key; hval := HText value |}
    end.

(* ---------- schemes as far as the header and the reader need them ---------- *)
Section Schemes.
  Context {C : Type}.          (* column class identifiers *)

  (* a MafScheme instance (or its class): version(), annotation_spec(), the
     ordered column dict, and whether it is NoRestrictionsScheme *)
  Record scheme := {
    s_version : str; s_annot : str;
    s_cols : list (str * C);
    s_norestr : bool
  }.

  (* MafScheme.is_basic *)
  Definition s_is_basic (s : scheme) : bool := str_eqb (s_version s) (s_annot s).

  (* all_schemes(): the registry, NoRestrictionsScheme included *)
  Variable registry : list scheme.

  (* `not version` for an Optional[str] *)
  Definition falsy_ostr (o : option str) : bool :=
    match o with Some (_ :: _) => false | _ => true end.
  Definition ostr_eqb (s : str) (o : option str) : bool :=
    match o with Some t => str_eqb s t | None => false end.

  (* scheme_factory.find_scheme_class *)
  Definition find_scheme_class (version annotation : option str) : res (option scheme) :=
    if falsy_ostr version && falsy_ostr annotation then Raise ValueError
    else if falsy_ostr annotation then
      Ok (find (fun s => ostr_eqb (s_version s) version && ostr_eqb (s_annot s) version) registry)
    else if falsy_ostr version then
      Ok (find (fun s => ostr_eqb (s_annot s) annotation) registry)
    else
      Ok (find (fun s => ostr_eqb (s_version s) version && ostr_eqb (s_annot s) annotation) registry).

  (* scheme_factory.find_scheme (repaired: None for the no-restrictions class) *)
  Definition find_scheme (version annotation : option str) : res (option scheme) :=
    match find_scheme_class version annotation with
    | Raise e => Raise e
    | Ok None => Ok None
    | Ok (Some s) => if s_norestr s then Ok None else Ok (Some s)
    end.

  (* ---------- MafHeader ---------- *)
  Record header := {
    hrecs : list (str * hrec);      (* the OrderedDict key -> record *)
    herrs : list verr;              (* validation_errors *)
    hmode : mode                    (* validation_stringency *)
  }.

  Definition header_new (m : option mode) : header :=
    {| hrecs := []; herrs := [];
       hmode := match m with None => Silent | Some x => x end |}.

  Definition h_contains (k : str) (recs : list (str * hrec)) : bool := is_some (assoc k recs).

  (* version() / annotation(): str(record.value) *)
  Definition h_version (recs : list (str * hrec)) : option str :=
    option_map (fun r => hval_text (hval r)) (assoc K_VERSION recs).
  Definition h_annotation (recs : list (str * hrec)) : option str :=
    option_map (fun r => hval_text (hval r)) (assoc K_ANNOT recs).
  (* contigs(): the value of the contigs record *)
  Definition h_contigs (recs : list (str * hrec)) : option (list str) :=
    match assoc K_CONTIGS recs with
    | Some r => match hval r with
                | HContigs cs => Some cs
                | _ => Some []        (* a contigs record always holds a list *)
                end
    | None => None
    end.
  (* sort_order(): the value of the sort.order record, Unsorted() if absent *)
  Definition h_sort_order (recs : list (str * hrec)) : sorder * list str :=
    match assoc K_SORT recs with
    | Some r => match hval r with
                | HOrder o cs => (o, cs)
                | _ => (SoUnsorted, [])   (* a sort.order record always holds an order *)
                end
    | None => (SoUnsorted, [])
    end.

  (* scheme(): find_scheme, `except ValueError: return None` *)
  Definition h_scheme (recs : list (str * hrec)) : res (option scheme) :=
    match find_scheme (h_version recs) (h_annotation recs) with
    | Raise ValueError => Ok None
    | r => r
    end.

  (* `value not in [s.version() for s in all_schemes()]` on the raw value *)
  Definition hval_is_text (v : hvalue) (s : str) : bool :=
    match v with HText t => str_eqb t s | _ => false end.

  (* the errors validate() appends, in order *)
  Definition validate_errs (recs : list (str * hrec)) (sch : option scheme) : list verr :=
    (match assoc K_VERSION recs with
     | None => [mkerr T_HEADER_MISSING_VERSION None]
     | Some r =>
         if existsb (fun s => hval_is_text (hval r) (s_version s)) registry then []
         else [mkerr T_HEADER_UNSUPPORTED_VERSION None]
     end) ++
    (if match sch with Some s => s_is_basic s | None => false end then
       if h_contains K_ANNOT recs then [mkerr T_HEADER_UNSUPPORTED_ANNOTATION_SPEC None] else []
     else
       match assoc K_ANNOT recs with
       | None => [mkerr T_HEADER_MISSING_ANNOTATION_SPEC None]
       | Some r =>
           if existsb (fun s => hval_is_text (hval r) (s_annot s)) registry then []
           else [mkerr T_HEADER_UNSUPPORTED_ANNOTATION_SPEC None]
       end).

  (* MafHeader.validate: the header afterwards (errors stored) *)
  Definition header_validate (h : header) (m : option mode) (lg : logger) (reset : bool) : out header :=
    let errs0 := if reset then [] else herrs h in
    match h_scheme (hrecs h) with
    | Raise e => oraise e
    | Ok sch =>
        let m' := match m with None => hmode h | Some x => x end in   (* `if not validation_stringency` *)
        let errs := errs0 ++ validate_errs (hrecs h) sch in
        let h' := {| hrecs := hrecs h; herrs := errs; hmode := hmode h |} in
        obind (process m' lg errs) (fun _ => oret h')
    end.

  (* MafHeader.__str__ as the list of record lines, and joined by "\n" *)
  Definition header_print_lines (recs : list (str * hrec)) : list str :=
    map (fun kr => hrec_print (snd kr)) recs.
  Definition header_print (recs : list (str * hrec)) : str := join [LF] (header_print_lines recs).

  (* the loop of from_lines: records and errors collected so far *)
  Fixpoint parse_header_lines (n : Z) (lines : list str) (recs : list (str * hrec)) (errs : list verr)
    : list (str * hrec) * list verr :=
    match lines with
    | [] => (recs, errs)
    | line :: rest =>
        let ln := n + 1 in                         (* 1-based *)
        match hrec_from_line line (Some ln) with
        | inr e => parse_header_lines ln rest recs (errs ++ [e])
        | inl r =>
            if h_contains (hkey r) recs
            then parse_header_lines ln rest recs (errs ++ [mkerr T_HEADER_DUPLICATE_KEYS (Some ln)])
            else parse_header_lines ln rest (dset (hkey r) r recs) errs
        end
    end.

  (* `if header.contigs(): if header.sort_order() and issubclass(..., Coordinate): ...` *)
  Definition reapply_contigs (recs : list (str * hrec)) : res (list (str * hrec)) :=
    match h_contigs recs with
    | Some cs =>
        if nonempty cs then
          let '(o, _) := h_sort_order recs in
          if so_is_coord o then
            match sort_record_of_name (so_name o) (Some cs) with
            | Ok r => Ok (dset K_SORT r recs)
            | Raise e => Raise e
            end
          else Ok recs
        else Ok recs
    | None => Ok recs
    end.

  (* MafHeader.from_lines *)
  Definition header_from_lines (lines : list str) (m : option mode) (lg : logger) : out header :=
    let h0 := header_new m in
    let '(recs, errs) := parse_header_lines 0 lines (hrecs h0) (herrs h0) in
    match reapply_contigs recs with
    | Raise e => oraise e
    | Ok recs' =>
        header_validate {| hrecs := recs'; herrs := errs; hmode := hmode h0 |} None lg false
    end.

  (* MafHeader.from_lines(lines, ..., first_line_number=first): the lines are
     numbered first, first+1, ... (from_lines above is the default, first = 1) *)
  Definition header_from_lines_at (first : Z) (lines : list str) (m : option mode) (lg : logger) : out header :=
    let h0 := header_new m in
    let '(recs, errs) := parse_header_lines (first - 1) lines (hrecs h0) (herrs h0) in
    match reapply_contigs recs with
    | Raise e => oraise e
    | Ok recs' =>
        header_validate {| hrecs := recs'; herrs := errs; hmode := hmode h0 |} None lg false
    end.

  (* ---------- from_reader / from_defaults ---------- *)
  Inductive so_arg := SoArgName (s : str) | SoArgInst (o : sorder) (own : list str).

  (* the override block shared by from_reader and from_defaults (the
     fasta_index branches are not modelled) *)
  Definition apply_overrides (recs : list (str * hrec))
             (version annotation : option str) (so : option so_arg) (contigs : option (list str))
    : res (list (str * hrec)) :=
    let r1 := match version with
              | Some (c :: v) => dset K_VERSION {| hkey := K_VERSION; hval := HText (c :: v) |} recs
              | _ => recs end in
    let r2 := match annotation with
              | Some (c :: v) => dset K_ANNOT {| hkey := K_ANNOT; hval := HText (c :: v) |} r1
              | _ => r1 end in
    let r3 := match contigs with
              | Some (c :: cs) => dset K_CONTIGS {| hkey := K_CONTIGS; hval := HContigs (c :: cs) |} r2
              | _ => r2 end in
    match so with
    | None => Ok r3
    | Some (SoArgName []) => Ok r3                      (* `if sort_order:` on "" *)
    | Some a =>
        match (match a with
               | SoArgName n => sort_record_of_name n contigs
               | SoArgInst o own => Ok (sort_record_of_inst o own contigs)
               end) with
        | Raise e => Raise e
        | Ok r =>
            let r4 := dset K_SORT r r3 in
            let own := match hval r with HOrder _ cs => cs | _ => [] end in
            if negb (nonempty (match contigs with Some c => c | None => [] end)) && nonempty own
            then Ok (dset K_CONTIGS {| hkey := K_CONTIGS; hval := HContigs own |} r4)
            else Ok r4
        end
    end.

  (* MafHeader.from_reader: deepcopy(reader.header()) then the overrides; in
     this value model the copy is the identity (see the store model below for
     what deepcopy adds) *)
  Definition header_from_reader (src : header)
             (version annotation : option str) (so : option so_arg) (contigs : option (list str))
    : res header :=
    match apply_overrides (hrecs src) version annotation so contigs with
    | Raise e => Raise e
    | Ok recs => Ok {| hrecs := recs; herrs := herrs src; hmode := hmode src |}
    end.

  Definition header_from_defaults
             (version annotation : option str) (so : option so_arg) (contigs : option (list str))
    : res header :=
    match apply_overrides [] version annotation so contigs with
    | Raise e => Raise e
    | Ok recs => Ok {| hrecs := recs; herrs := []; hmode := Silent |}
    end.
End Schemes.

Arguments scheme : clear implicits.


(* ====================================================================== *)
(* Store model: header records and contig lists as heap objects, so that
   aliasing between a header and one derived from it can be stated.        *)
(* ====================================================================== *)
Module Store.
  Definition ref := nat.

  (* a cell is a header record object or a python list of contig names *)
  Inductive svalue :=
  | SText (s : str)
  | SOrder (o : sorder) (contigs : option ref)   (* _contigs: a list object (shared with the
                                                    contigs record after from_lines) or its own [] *)
  | SContigs (l : ref).
  Inductive cell :=
  | CRec (key : str) (v : svalue)
  | CList (items : list str).

  (* the heap: cell i lives at index i *)
  Definition heap := list cell.
  (* a header object: key -> ref of its record *)
  Definition sheader := list (str * ref).

  Definition alloc (hp : heap) (c : cell) : heap * ref := (hp ++ [c], length hp).
  Definition hget (hp : heap) (r : ref) : option cell := nth_error hp r.
  Definition hput (hp : heap) (r : ref) (c : cell) : heap := lset r c hp.

  (* reading a header back into the value model *)
  Definition list_at (hp : heap) (r : ref) : list str :=
    match hget hp r with Some (CList l) => l | _ => [] end.
  Definition value_at (hp : heap) (v : svalue) : hvalue :=
    match v with
    | SText s => HText s
    | SOrder o None => HOrder o []
    | SOrder o (Some l) => HOrder o (list_at hp l)
    | SContigs l => HContigs (list_at hp l)
    end.
  Definition view (hp : heap) (h : sheader) : list (str * hrec) :=
    map (fun kr => match hget hp (snd kr) with
                   | Some (CRec k v) => (fst kr, {| hkey := k; hval := value_at hp v |})
                   | _ => (fst kr, {| hkey := fst kr; hval := HText [] |})
                   end) h.

  (* allocate a value-model header in the heap the way from_lines builds it:
     one list object per contigs record, shared with the re-applied sort order *)
  Fixpoint alloc_header (hp : heap) (recs : list (str * hrec)) (shared : option ref) : heap * sheader :=
    match recs with
    | [] => (hp, [])
    | (k, r) :: rest =>
        let '(hp1, sv, shared') :=
          match hval r with
          | HText s => (hp, SText s, shared)
          | HContigs cs =>
              match shared with
              | Some l => (hp, SContigs l, shared)
              | None => let '(hp', l) := alloc hp (CList cs) in (hp', SContigs l, Some l)
              end
          | HOrder o [] => (hp, SOrder o None, shared)
          | HOrder o cs =>
              match shared with
              | Some l => (hp, SOrder o (Some l), shared)
              | None => let '(hp', l) := alloc hp (CList cs) in (hp', SOrder o (Some l), Some l)
              end
          end in
        let '(hp2, rf) := alloc hp1 (CRec (hkey r) sv) in
        let '(hp3, sh) := alloc_header hp2 rest shared' in
        (hp3, (k, rf) :: sh)
    end.

  (* copy.deepcopy of a header: every reachable object is copied once (memo),
     sharing inside the copy is preserved, nothing is shared with the source *)
  Definition copy_list (hp : heap) (memo : list (ref * ref)) (l : ref) : heap * list (ref * ref) * ref :=
    match find (fun p => Nat.eqb (fst p) l) memo with
    | Some p => (hp, memo, snd p)
    | None => let '(hp', l') := alloc hp (CList (list_at hp l)) in (hp', (l, l') :: memo, l')
    end.

  Fixpoint deepcopy (hp : heap) (memo : list (ref * ref)) (h : sheader) : heap * sheader :=
    match h with
    | [] => (hp, [])
    | (k, r) :: rest =>
        match hget hp r with
        | Some (CRec key v) =>
            let '(hp1, memo1, v') :=
              match v with
              | SText s => (hp, memo, SText s)
              | SOrder o None => (hp, memo, SOrder o None)
              | SOrder o (Some l) =>
                  let '(hp', memo', l') := copy_list hp memo l in (hp', memo', SOrder o (Some l'))
              | SContigs l =>
                  let '(hp', memo', l') := copy_list hp memo l in (hp', memo', SContigs l')
              end in
            let '(hp2, r') := alloc hp1 (CRec key v') in
            let '(hp3, h') := deepcopy hp2 memo1 rest in
            (hp3, (k, r') :: h')
        | _ => deepcopy hp memo rest      (* not a record object: cannot occur for a header *)
        end
    end.

  (* mutations a caller can apply to a header object it holds *)
  Inductive mut :=
  | MSetText (k : str) (v : str)        (* h[k] = MafHeaderRecord(k, v): a new record object *)
  | MDel (k : str)                      (* del h[k] *)
  | MAssignValue (k : str) (v : str)    (* h[k].value = v: mutates the record object in place *)
  | MAssignKey (k : str) (k' : str)     (* h[k].key = k' *)
  | MAppendContig (k : str) (c : str)   (* h[k].value.append(c): mutates the list object in place *)
  | MSetContigs (cs : list str).        (* h["contigs"] = MafHeaderContigRecord(cs) *)

  Definition apply_mut (hp : heap) (h : sheader) (m : mut) : heap * sheader :=
    match m with
    | MSetText k v =>
        let '(hp', r) := alloc hp (CRec k (SText v)) in (hp', dset k r h)
    | MDel k => (hp, ddel k h)
    | MAssignValue k v =>
        match assoc k h with
        | Some r => match hget hp r with
                    | Some (CRec key _) => (hput hp r (CRec key (SText v)), h)
                    | _ => (hp, h)
                    end
        | None => (hp, h)
        end
    | MAssignKey k k' =>
        match assoc k h with
        | Some r => match hget hp r with
                    | Some (CRec _ v) => (hput hp r (CRec k' v), h)
                    | _ => (hp, h)
                    end
        | None => (hp, h)
        end
    | MAppendContig k c =>
        match assoc k h with
        | Some r => match hget hp r with
                    | Some (CRec _ (SContigs l)) | Some (CRec _ (SOrder _ (Some l))) =>
                        (hput hp l (CList (list_at hp l ++ [c])), h)
                    | _ => (hp, h)
                    end
        | None => (hp, h)
        end
    | MSetContigs cs =>
        let '(hp1, l) := alloc hp (CList cs) in
        let '(hp2, r) := alloc hp1 (CRec K_CONTIGS (SContigs l)) in
        (hp2, dset K_CONTIGS r h)
    end.

  Fixpoint apply_muts (hp : heap) (h : sheader) (ms : list mut) : heap * sheader :=
    match ms with
    | [] => (hp, h)
    | m :: rest => let '(hp', h') := apply_mut hp h m in apply_muts hp' h' rest
    end.
End Store.
