(* ReaderDispatch.v - wire decoding for the "reader" cluster (C13, C17, C16,
   C03) and the instantiation of the generic model used by the extracted run:
   column classes are integers (0 = MafColumnRecord), a typed class's
   behaviour on the field texts of a case comes from the table the harness
   obtained from the real library for exactly those texts, int(text) likewise.

   case := (0 mode lines registry)                                  MafHeader.from_lines (+ print, reparse)
         | (1 mode override registry tables lines)                  MafReader(...) iterated to the end
         | (2 recspec mode tables)                                  MafRecord.from_line
         | (3 recspec vmode reset scheme? tables [tampers])         from_line(Silent), in-place edits of stored columns, then record.validate
         | (4 mode hlines registry tables (recspec ...))            MafWriter on the parsed header, each record added
         | (5 hlines registry (mut ...) (mut ...))                  from_reader copy: mutate copy, mutate source, view both
         | (6 hlines registry (hop ...))                            header edited through the mapping API, validate() + observation after every op
         | (7 mode rawlines registry reads)                         MafHeader.from_line_reader(LineReader(handle)), then reads x read_line()
         | (8 hlines? registry version? annotation? sortorder? contigs?)  MafHeader.from_defaults / from_reader(reader, ...)
         | (9 case ...)                                             several cases, one reply each
   mode := () | (1) | (2) | (3)        None / Strict / Lenient / Silent
   scheme := (version annot norestr ((name cls) ...))     registry entry: columns may be elided: (version annot norestr ())
   recspec := (line names? scheme? lineno?)
   tables := (((cls text outcome) ...) ((text int?) ...) ((cls cls) ...))
   outcome := () build failed | (invalid str? keytext? keyint?) *)
From MafVerif Require Import lib.Base lib.Str model.RecordOps model.Validation model.Header
  model.RecordParse model.Reader model.WriterMode model.LineReader.

(* ---------- table-driven column semantics ---------- *)
Record tentry := {
  te_missing : bool;             (* the harness did not supply this (class, text): reported as a bad case *)
  te_invalid : bool;
  te_str : option str;
  te_ktext : option str;
  te_kint : option Z
}.
Definition te_absent : tentry :=
  {| te_missing := true; te_invalid := false; te_str := Some []; te_ktext := None; te_kint := None |}.

Record tables := {
  tb_typed : list (Z * str * option tentry);
  tb_ints : list (str * option Z);
  tb_sub : list (Z * Z)           (* (a, b): class a is a proper subclass of class b *)
}.

Fixpoint lookup_typed (k : Z) (t : str) (l : list (Z * str * option tentry)) : option (option tentry) :=
  match l with
  | [] => None
  | (k', t', e) :: r => if (k =? k') && str_eqb t t' then Some e else lookup_typed k t r
  end.

Definition table_sem (tb : tables) : colsem Z tentry :=
  {| cs_build := fun k t => match lookup_typed k t (tb_typed tb) with
                            | Some e => e
                            | None => Some te_absent
                            end;
     cs_invalid := fun _ e => te_invalid e;
     cs_str := fun _ e => te_str e;
     cs_isinst := fun a b =>
       match b with
       | CPlain => true
       | CTyped kb => match a with
                      | CPlain => false
                      | CTyped ka => (ka =? kb) || existsb (fun p => (fst p =? ka) && (snd p =? kb)) (tb_sub tb)
                      end
       end;
     cs_key_text := fun _ e => te_ktext e;
     cs_key_int := fun _ e => te_kint e |}.

Definition table_int (tb : tables) (t : str) : option Z :=
  match assoc t (tb_ints tb) with Some o => o | None => None end.

Notation tcls := (cls Z).
Notation tscheme := (scheme tcls).
Notation tmrec := (mrec Z tentry).

(* ---------- decoding ---------- *)
Definition as_mode_opt (s : sexp) : option (option mode) := as_opt as_mode s.

Definition dec_cls (s : sexp) : option tcls :=
  match s with A 0 => Some CPlain | A k => Some (CTyped k) | _ => None end.

Definition dec_colspec (s : sexp) : option (str * tcls) :=
  match s with
  | L [n; c] => match as_str n, dec_cls c with Some n', Some c' => Some (n', c') | _, _ => None end
  | _ => None
  end.

(* a scheme whose columns may be elided (registry entries the case cannot reach) *)
Definition dec_scheme_e (s : sexp) : option (tscheme * bool) :=
  match s with
  | L [v; a; nr; L []] =>
      match as_str v, as_str a, as_bool nr with
      | Some v', Some a', Some nr' =>
          Some ({| s_version := v'; s_annot := a'; s_cols := []; s_norestr := nr' |}, true)
      | _, _, _ => None
      end
  | L [v; a; nr; L [cols]] =>
      match as_str v, as_str a, as_bool nr, as_listof dec_colspec cols with
      | Some v', Some a', Some nr', Some cols' =>
          Some ({| s_version := v'; s_annot := a'; s_cols := cols'; s_norestr := nr' |}, false)
      | _, _, _, _ => None
      end
  | _ => None
  end.
Definition dec_scheme (s : sexp) : option tscheme :=
  match dec_scheme_e s with Some (x, false) => Some x | _ => None end.

Definition dec_entry (s : sexp) : option (option tentry) :=
  match s with
  | L [] => Some None
  | L [inv; st; kt; ki] =>
      match as_bool inv, as_opt as_str st, as_opt as_str kt, as_opt as_Z ki with
      | Some inv', Some st', Some kt', Some ki' =>
          Some (Some {| te_missing := false; te_invalid := inv'; te_str := st'; te_ktext := kt'; te_kint := ki' |})
      | _, _, _, _ => None
      end
  | _ => None
  end.

Definition dec_typed (s : sexp) : option (Z * str * option tentry) :=
  match s with
  | L [A k; t; e] => match as_str t, dec_entry e with Some t', Some e' => Some (k, t', e') | _, _ => None end
  | _ => None
  end.
Definition dec_int (s : sexp) : option (str * option Z) :=
  match s with
  | L [t; i] => match as_str t, as_opt as_Z i with Some t', Some i' => Some (t', i') | _, _ => None end
  | _ => None
  end.
Definition dec_pair (s : sexp) : option (Z * Z) :=
  match s with L [A a; A b] => Some (a, b) | _ => None end.

Definition dec_tables (s : sexp) : option tables :=
  match s with
  | L [ty; ints; sub] =>
      match as_listof dec_typed ty, as_listof dec_int ints, as_listof dec_pair sub with
      | Some ty', Some ints', Some sub' => Some {| tb_typed := ty'; tb_ints := ints'; tb_sub := sub' |}
      | _, _, _ => None
      end
  | _ => None
  end.

Record recspec := { rs_line : str; rs_names : option (list str); rs_scheme : option tscheme; rs_ln : option Z }.
Definition dec_recspec (s : sexp) : option recspec :=
  match s with
  | L [ln; names; sch; num] =>
      match as_str ln, as_opt (as_listof as_str) names, as_opt dec_scheme sch, as_opt as_Z num with
      | Some ln', Some names', Some sch', Some num' =>
          Some {| rs_line := ln'; rs_names := names'; rs_scheme := sch'; rs_ln := num' |}
      | _, _, _, _ => None
      end
  | _ => None
  end.

(* ---------- encoding ---------- *)
Definition enc_log (l : log) : sexp := s_of_list s_of_logrec l.
Definition enc_errs (l : list verr) : sexp := s_of_list s_of_verr l.
Definition enc_res {X} (f : X -> sexp) (r : res X) : sexp :=
  match r with Ok x => L [A 0; f x] | Raise e => L [A 1; s_of_exn e] end.
Definition enc_out {X} (f : X -> sexp) (o : out X) : sexp := L [enc_log (fst o); enc_res f (snd o)].

Definition enc_hvalue (v : hvalue) : sexp :=
  match v with
  | HText s => L [A 0; s_of_str s]
  | HOrder o cs => L [A 1; s_of_str (so_name o); s_of_list s_of_str cs]
  | HContigs cs => L [A 2; s_of_list s_of_str cs]
  end.
Definition enc_hrecs (recs : list (str * hrec)) : sexp :=
  s_of_list (fun kr => L [s_of_str (fst kr); s_of_str (hkey (snd kr)); enc_hvalue (hval (snd kr))]) recs.

Section WithRegistry.
  Variable registry : list tscheme.

  Definition enc_scheme_id (s : tscheme) : sexp :=
    L [s_of_str (s_version s); s_of_str (s_annot s); s_of_bool (s_norestr s)].
  Definition enc_scheme_full (s : tscheme) : sexp :=
    L [s_of_str (s_version s); s_of_str (s_annot s); s_of_bool (s_norestr s);
       s_of_list s_of_str (s_names s)].

  Definition enc_header (h : header) : sexp :=
    let recs := hrecs h in
    L [ enc_hrecs recs; enc_errs (herrs h);
        s_of_opt s_of_str (h_version recs); s_of_opt s_of_str (h_annotation recs);
        (let '(o, cs) := h_sort_order recs in L [s_of_str (so_name o); s_of_list s_of_str cs]);
        s_of_opt (s_of_list s_of_str) (h_contigs recs);
        s_of_list s_of_str (header_print_lines recs);
        enc_res (s_of_opt enc_scheme_id) (h_scheme registry recs) ].
End WithRegistry.

Definition enc_slot (tb : tables) (o : option (col (payload Z tentry))) : sexp :=
  match o with
  | None => L []
  | Some c => L [L [s_of_str (ckey c); s_of_opt A (cidx c);
                    s_of_opt s_of_str (col_text (table_sem tb) (pv (cval c)))]]
  end.
Definition enc_mrec (tb : tables) (r : tmrec) : sexp :=
  L [ s_of_opt A (mline r); s_of_list (enc_slot tb) (rlist (mcols r));
      s_of_list (fun kc => s_of_str (fst kc)) (rdict (mcols r)); enc_errs (merrs r) ].

(* did a stored value come from a (class, text) pair the tables lack? *)
Definition slot_missing (o : option (col (payload Z tentry))) : bool :=
  match o with
  | Some c => match pv (cval c) with PTyped _ e => te_missing e | PPlain _ => false end
  | None => false
  end.
Definition mrec_missing (r : tmrec) : bool := existsb slot_missing (rlist (mcols r)).

(* does the table hold every (class, text) pair parsing `line` under these
   names and this scheme will build?  (a case whose tables are incomplete is
   answered with the bad-case marker, never with a guess) *)
Definition line_complete (tb : tables) (sch : option tscheme) (names : option (list str)) (line : str) : bool :=
  match (match names with
         | Some ns => Some ns
         | None => option_map (fun s => s_names s) sch
         end) with
  | None => true
  | Some ns =>
      let vs := split TAB (rstrip_crlf line) in
      if Nat.eqb (length ns) (length vs) then
        forallb (fun nv =>
                   match sch with
                   | Some s =>
                       if s_truthy s then
                         match s_class s (fst nv) with
                         | Some (CTyped k) => is_some (lookup_typed k (snd nv) (tb_typed tb))
                         | _ => true
                         end
                       else true
                   | None => true
                   end) (zip ns vs)
      else true
  end.

Definition enc_ending (e : ending) : sexp :=
  match e with EndStop => L [] | EndRaise x => L [s_of_exn x] end.

(* ---------- entry points ---------- *)
(* is the scheme a lookup would select one whose columns were elided? *)
Definition elided_hit (reg : list (tscheme * bool)) (recs : list (str * hrec)) : bool :=
  match h_scheme (map fst reg) recs with
  | Ok (Some s) =>
      existsb (fun p => snd p && str_eqb (s_version (fst p)) (s_version s)
                        && str_eqb (s_annot (fst p)) (s_annot s)) reg
  | _ => false
  end.

Definition run_header (m : option mode) (lines : list str) (reg : list (tscheme * bool)) : sexp :=
  let registry := map fst reg in
  let o := header_from_lines registry lines m LgRoot in
  let again :=
    match snd o with
    | Ok h => enc_out (enc_header registry)
                      (header_from_lines registry (header_print_lines (hrecs h)) (Some Silent) LgRoot)
    | Raise _ => L []
    end in
  L [enc_out (enc_header registry) o; again].

Definition run_reader (m : option mode) (override : option tscheme) (reg : list (tscheme * bool))
           (tb : tables) (lines : list str) : sexp :=
  let registry := map fst reg in
  let sem := table_sem tb in
  let r := read_run sem registry (skey_of sem (table_int tb)) skey_lt lines m override in
  let bad :=
    existsb mrec_missing (run_recs r)
    || match run_init r with
       | Ok rd => elided_hit reg (hrecs (rd_header rd))
                  || negb (forallb (line_complete tb (rd_scheme rd) None) lines)
       | Raise _ => false
       end in
  if bad then s_bad
  else
    L [ enc_log (run_log r);
        enc_res (fun rd => L [ enc_header registry (rd_header rd);
                               s_of_opt enc_scheme_full (rd_scheme rd);
                               enc_errs (rd_errs rd) ]) (run_init r);
        s_of_list (enc_mrec tb) (run_recs r);
        enc_ending (run_end r);
        enc_errs (run_errs r) ].

Definition run_from_line (rs : recspec) (m : option mode) (tb : tables) : out tmrec :=
  from_line (table_sem tb) (rs_line rs) (rs_names rs) (rs_scheme rs) (rs_ln rs) m LgRoot.

Definition spec_complete (tb : tables) (rs : recspec) : bool :=
  line_complete tb (rs_scheme rs) (rs_names rs) (rs_line rs).

Definition guard_mrec (tb : tables) (o : out tmrec) : sexp :=
  match snd o with
  | Ok r => if mrec_missing r then s_bad else enc_out (enc_mrec tb) o
  | Raise _ => enc_out (enc_mrec tb) o
  end.

(* a caller modifying a stored column object in place: record[name].column_index = i
   or record[name].key = k (the object is in the name map and in its slot) *)
Inductive tamper := TIdx (name : str) (i : option Z) | TKey (name newkey : str).
Definition dec_tamper (s : sexp) : option tamper :=
  match s with
  | L [A 0; n; i] => match as_str n, as_opt as_Z i with Some n', Some i' => Some (TIdx n' i') | _, _ => None end
  | L [A 1; n; k] => match as_str n, as_str k with Some n', Some k' => Some (TKey n' k') | _, _ => None end
  | _ => None
  end.
Definition apply_tamper (r : rec (payload Z tentry)) (t : tamper) : rec (payload Z tentry) :=
  let name := match t with TIdx n _ => n | TKey n _ => n end in
  match assoc name (rdict r) with
  | None => r
  | Some c0 =>
      let c1 := match t with
                | TIdx _ i => {| ckey := ckey c0; cidx := i; cval := cval c0 |}
                | TKey _ k => {| ckey := k; cidx := cidx c0; cval := cval c0 |}
                end in
      let same (c : col (payload Z tentry)) := poid (cval c) =? poid (cval c0) in
      {| rdict := map (fun kc => if str_eqb (fst kc) name then (fst kc, c1) else kc) (rdict r);
         rlist := map (fun o => match o with
                                | Some c => if same c then Some c1 else Some c
                                | None => None
                                end) (rlist r) |}
  end.

(* `pre` Silent validate() calls (same reset flag and scheme) on the same record
   object before the observed one *)
Fixpoint pre_validate (tb : tables) (r : tmrec) (reset : bool) (sch : option tscheme) (n : nat) : tmrec :=
  match n with
  | O => r
  | S n' => match record_validate (table_sem tb) r (Some Silent) LgRoot reset sch with
            | (_, Ok r1) => pre_validate tb r1 reset sch n'
            | (_, Raise _) => r
            end
  end.

Definition run_validate (rs : recspec) (vm : option mode) (reset : bool) (sch : option tscheme)
           (tb : tables) (ts : list tamper) (pre : nat) : sexp :=
  match run_from_line rs (Some Silent) tb with
  | (_, Ok r) =>
      if mrec_missing r then s_bad
      else
        let r' := {| mline := mline r; mcols := fold_left apply_tamper ts (mcols r);
                     merrs := merrs r; mmode := mmode r |} in
        L [A 0; guard_mrec tb (record_validate (table_sem tb) (pre_validate tb r' reset sch pre) vm LgRoot reset sch)]
  | (_, Raise e) => L [A 1; s_of_exn e]
  end.

Fixpoint build_records (tb : tables) (specs : list recspec) : option (list tmrec) :=
  match specs with
  | [] => Some []
  | rs :: rest =>
      match run_from_line rs (Some Silent) tb, build_records tb rest with
      | (_, Ok r), Some rs' => if mrec_missing r then None else Some (r :: rs')
      | _, _ => None
      end
  end.

Definition run_writer (m : option mode) (hlines : list str) (reg : list (tscheme * bool))
           (tb : tables) (specs : list recspec) : sexp :=
  let registry := map fst reg in
  match header_from_lines registry hlines (Some Silent) LgRoot, build_records tb specs with
  | (_, Ok h), Some rs =>
      if elided_hit reg (hrecs h) then s_bad
      else
        match writer_init registry h m with
        | (lg, Raise e) => L [enc_log lg; L [A 1; s_of_exn e]]
        | (lg, Ok w) =>
            let '(os, w') := writer_adds (table_sem tb) w rs in
            L [ enc_log lg;
                L [A 0; enc_errs (herrs (w_header w))];
                s_of_list (fun o => L [enc_log (fst o); enc_res (fun r => enc_errs (merrs r)) (snd o)]) os;
                s_of_list s_of_str (w_out w') ]
        end
  | _, _ => s_bad
  end.

(* store model: parse a header, deep-copy it as from_reader does, mutate the
   copy, then the source, and show both *)
Definition dec_mut (s : sexp) : option Store.mut :=
  match s with
  | L [A 0; k; v] => match as_str k, as_str v with Some k', Some v' => Some (Store.MSetText k' v') | _, _ => None end
  | L [A 1; k] => option_map Store.MDel (as_str k)
  | L [A 2; k; v] => match as_str k, as_str v with Some k', Some v' => Some (Store.MAssignValue k' v') | _, _ => None end
  | L [A 3; k; v] => match as_str k, as_str v with Some k', Some v' => Some (Store.MAssignKey k' v') | _, _ => None end
  | L [A 4; k; v] => match as_str k, as_str v with Some k', Some v' => Some (Store.MAppendContig k' v') | _, _ => None end
  | L [A 5; cs] => option_map Store.MSetContigs (as_listof as_str cs)
  | _ => None
  end.

Definition run_store (hlines : list str) (reg : list (tscheme * bool))
           (mc ms : list Store.mut) : sexp :=
  match header_from_lines (map fst reg) hlines (Some Silent) LgRoot with
  | (_, Ok h) =>
      let '(hp0, src) := Store.alloc_header [] (hrecs h) None in
      let '(hp1, cp) := Store.deepcopy hp0 [] src in
      let '(hp2, cp') := Store.apply_muts hp1 cp mc in
      let '(hp3, src') := Store.apply_muts hp2 src ms in
      L [ enc_hrecs (Store.view hp1 src); enc_hrecs (Store.view hp1 cp);
          enc_hrecs (Store.view hp2 src); enc_hrecs (Store.view hp2 cp');
          enc_hrecs (Store.view hp3 src'); enc_hrecs (Store.view hp3 cp') ]
  | _ => s_bad
  end.

(* a header (from_lines, Silent) edited through the MutableMapping API; after
   every operation validate() is run and the header observed *)
Inductive hop := HSet (k : str) (r : hrec) | HDel (k : str) | HClear | HPopItem
  | HValue (k : str) (v : str).      (* header[k].value = v: the stored record object is edited in place *)
Definition dec_hop (s : sexp) : option hop :=
  match s with
  | L [A 0; k; L [A 0; v]] =>
      match as_str k, as_str v with Some k', Some v' => Some (HSet k' {| hkey := k'; hval := HText v' |}) | _, _ => None end
  | L [A 0; k; L [A 1; n; cs]] =>
      match as_str k, as_str n, as_opt (as_listof as_str) cs with
      | Some k', Some n', Some cs' =>
          match sort_record_of_name n' cs' with Ok r => Some (HSet k' r) | Raise _ => None end
      | _, _, _ => None
      end
  | L [A 0; k; L [A 2; cs]] =>
      match as_str k, as_listof as_str cs with
      | Some k', Some cs' => Some (HSet k' {| hkey := K_CONTIGS; hval := HContigs cs' |})
      | _, _ => None
      end
  | L [A 1; k] => option_map HDel (as_str k)
  | L [A 2] => Some HClear
  | L [A 3] => Some HPopItem
  | L [A 4; k; v] => match as_str k, as_str v with Some k', Some v' => Some (HValue k' v') | _, _ => None end
  | _ => None
  end.

(* __setitem__ asserts key == value.key; __delitem__ / pop raise KeyError for
   an absent key; popitem removes the first key (KeyError when empty) *)
Definition apply_hop (recs : list (str * hrec)) (o : hop) : list (str * hrec) * res unit :=
  match o with
  | HSet k r => if str_eqb k (hkey r) then (dset k r recs, Ok tt) else (recs, Raise AssertionError)
  | HDel k => match assoc k recs with Some _ => (ddel k recs, Ok tt) | None => (recs, Raise KeyError) end
  | HClear => ([], Ok tt)
  | HPopItem => match recs with [] => (recs, Raise KeyError) | (k, _) :: rest => (ddel k recs, Ok tt) end
  | HValue k v =>
      match assoc k recs with
      | Some r => (dset k {| hkey := hkey r; hval := HText v |} recs, Ok tt)
      | None => (recs, Raise KeyError)
      end
  end.

Fixpoint run_hops (registry : list tscheme) (h : header) (ops : list hop) : list sexp :=
  match ops with
  | [] => []
  | o :: rest =>
      let '(recs', out) := apply_hop (hrecs h) o in
      let h1 := {| hrecs := recs'; herrs := herrs h; hmode := hmode h |} in
      match header_validate registry h1 None LgRoot true with
      | (_, Ok h2) =>
          L [match out with Ok _ => L [] | Raise e => L [s_of_exn e] end; enc_header registry h2]
          :: run_hops registry h2 rest
      | (_, Raise e) => [L [L [s_of_exn e]; L []]]
      end
  end.

Definition run_header_ops (lines : list str) (reg : list (tscheme * bool)) (ops : list hop) : sexp :=
  let registry := map fst reg in
  match header_from_lines registry lines (Some Silent) LgRoot with
  | (_, Ok h) => L [enc_header registry h; L (run_hops registry h ops)]
  | _ => s_bad
  end.

(* MafHeader.from_line_reader on LineReader(handle): the header, then the
   reader's line_number(), peek_line() and the results of `reads` read_line() calls *)
Fixpoint lr_reads (lr : linereader) (n : nat) : list sexp :=
  match n with
  | O => []
  | S n' => let '(l, lr') := lr_read_line lr in
            L [s_of_str l; A (lr_no lr')] :: lr_reads lr' n'
  end.
Fixpoint lr_skip (lr : linereader) (n : nat) : linereader :=
  match n with O => lr | S n' => lr_skip (snd (lr_read_line lr)) n' end.
Definition run_line_reader (m : option mode) (handle : list str) (reg : list (tscheme * bool)) (reads pre : nat) : sexp :=
  let registry := map fst reg in
  (* `pre` read_line() calls before the header is read *)
  let '(o, lr') := header_from_line_reader registry (lr_skip (lr_new handle) pre) m LgRoot in
  L [enc_out (enc_header registry) o; A (lr_no lr'); s_of_str (lr_peek lr'); L (lr_reads lr' reads)].

(* MafHeader.from_defaults(...) / MafHeader.from_reader(reader, ...) *)
Definition dec_so_arg (s : sexp) : option (so_arg) :=
  match s with
  | L [A 0; n] => option_map SoArgName (as_str n)
  | L [A 1; n; own] =>
      match as_str n, as_listof as_str own with
      | Some n', Some own' => match so_of_name n' with Some o => Some (SoArgInst o own') | None => None end
      | _, _ => None
      end
  | _ => None
  end.
Definition run_derive_args (src : option (list str)) (reg : list (tscheme * bool))
           (v a : option str) (so : option so_arg) (cs : option (list str)) : sexp :=
  let registry := map fst reg in
  match src with
  | None => enc_res (enc_header registry) (header_from_defaults v a so cs)
  | Some hl =>
      match header_from_lines registry hl (Some Silent) LgRoot with
      | (_, Ok h) => enc_res (enc_header registry) (header_from_reader h v a so cs)
      | _ => s_bad
      end
  end.

Definition dispatch1 (s : sexp) : sexp :=
  match s with
  | L [A 0; m; lines; reg] =>
      match as_mode_opt m, as_listof as_str lines, as_listof dec_scheme_e reg with
      | Some m', Some lines', Some reg' => run_header m' lines' reg'
      | _, _, _ => s_bad
      end
  | L [A 1; m; ov; reg; tb; lines] =>
      match as_mode_opt m, as_opt dec_scheme ov, as_listof dec_scheme_e reg, dec_tables tb,
            as_listof as_str lines with
      | Some m', Some ov', Some reg', Some tb', Some lines' => run_reader m' ov' reg' tb' lines'
      | _, _, _, _, _ => s_bad
      end
  | L [A 2; rs; m; tb] =>
      match dec_recspec rs, as_mode_opt m, dec_tables tb with
      | Some rs', Some m', Some tb' =>
          if spec_complete tb' rs' then guard_mrec tb' (run_from_line rs' m' tb') else s_bad
      | _, _, _ => s_bad
      end
  | L [A 3; rs; vm; reset; sch; tb] =>
      match dec_recspec rs, as_mode_opt vm, as_bool reset, as_opt dec_scheme sch, dec_tables tb with
      | Some rs', Some vm', Some reset', Some sch', Some tb' =>
          if spec_complete tb' rs' then run_validate rs' vm' reset' sch' tb' [] O else s_bad
      | _, _, _, _, _ => s_bad
      end
  | L [A 3; rs; vm; reset; sch; tb; ts] =>
      match dec_recspec rs, as_mode_opt vm, as_bool reset, as_opt dec_scheme sch, dec_tables tb,
            as_listof dec_tamper ts with
      | Some rs', Some vm', Some reset', Some sch', Some tb', Some ts' =>
          if spec_complete tb' rs' then run_validate rs' vm' reset' sch' tb' ts' O else s_bad
      | _, _, _, _, _, _ => s_bad
      end
  | L [A 3; rs; vm; reset; sch; tb; ts; A pre] =>
      match dec_recspec rs, as_mode_opt vm, as_bool reset, as_opt dec_scheme sch, dec_tables tb,
            as_listof dec_tamper ts with
      | Some rs', Some vm', Some reset', Some sch', Some tb', Some ts' =>
          if spec_complete tb' rs' then run_validate rs' vm' reset' sch' tb' ts' (Z.to_nat pre) else s_bad
      | _, _, _, _, _, _ => s_bad
      end
  | L [A 4; m; hl; reg; tb; specs] =>
      match as_mode_opt m, as_listof as_str hl, as_listof dec_scheme_e reg, dec_tables tb,
            as_listof dec_recspec specs with
      | Some m', Some hl', Some reg', Some tb', Some specs' =>
          if forallb (spec_complete tb') specs' then run_writer m' hl' reg' tb' specs' else s_bad
      | _, _, _, _, _ => s_bad
      end
  | L [A 7; m; handle; reg; A reads] =>
      match as_mode_opt m, as_listof as_str handle, as_listof dec_scheme_e reg with
      | Some m', Some handle', Some reg' => run_line_reader m' handle' reg' (Z.to_nat reads) O
      | _, _, _ => s_bad
      end
  | L [A 7; m; handle; reg; A reads; A pre] =>
      match as_mode_opt m, as_listof as_str handle, as_listof dec_scheme_e reg with
      | Some m', Some handle', Some reg' => run_line_reader m' handle' reg' (Z.to_nat reads) (Z.to_nat pre)
      | _, _, _ => s_bad
      end
  | L [A 8; src; reg; v; a; so; cs] =>
      match as_opt (as_listof as_str) src, as_listof dec_scheme_e reg, as_opt as_str v, as_opt as_str a,
            as_opt dec_so_arg so, as_opt (as_listof as_str) cs with
      | Some src', Some reg', Some v', Some a', Some so', Some cs' => run_derive_args src' reg' v' a' so' cs'
      | _, _, _, _, _, _ => s_bad
      end
  | L [A 6; hl; reg; ops] =>
      match as_listof as_str hl, as_listof dec_scheme_e reg, as_listof dec_hop ops with
      | Some hl', Some reg', Some ops' => run_header_ops hl' reg' ops'
      | _, _, _ => s_bad
      end
  | L [A 5; hl; reg; mc; ms] =>
      match as_listof as_str hl, as_listof dec_scheme_e reg, as_listof dec_mut mc, as_listof dec_mut ms with
      | Some hl', Some reg', Some mc', Some ms' => run_store hl' reg' mc' ms'
      | _, _, _, _ => s_bad
      end
  | _ => s_bad
  end.

(* (9 case ...): several sub-cases answered in one reply (the same input under
   the three stringencies) *)
Definition dispatch (s : sexp) : sexp :=
  match s with
  | L (A 9 :: cases) => L (map dispatch1 cases)
  | _ => dispatch1 s
  end.
