(* RecordDispatch.v - wire decoding for the "record" cluster (C15).
   case  := (op ...)            ops applied to an empty MafRecord
   op    := (0 key col) | (1 col) | (2 key)        set / add / del
   key   := (0 i) | (1 str) | (2 col) | (3) | (4)  int / name / column / None / other type
   col   := (str optidx val)                       a new column object
          | (9 h)    the h-th object created so far (mod their number)
          | (8 j)    the object stored in slot j
   reply := ((outcome obs) ...) one per op, obs = state after the op, the
            caller's objects (in creation order) last *)
From MafVerif Require Import lib.Base model.RecordOps model.RecordPool.

Definition dec_col (s : sexp) : option (col Z) :=
  match s with
  | L [n; i; A v] =>
      match as_str n, as_opt as_Z i with
      | Some n', Some i' => Some {| ckey := n'; cidx := i'; cval := v |}
      | _, _ => None
      end
  | _ => None
  end.

Definition dec_cref (s : sexp) : option (cref Z) :=
  match s with
  | L [A 9; A h] => if h <? 0 then None else Some (CPool (Z.to_nat h))
  | L [A 8; A j] => if j <? 0 then None else Some (CSlot (Z.to_nat j))
  | _ => option_map CLit (dec_col s)
  end.

Definition dec_key (s : sexp) : option (pkey Z) :=
  match s with
  | L [A 0; A i] => Some (PK (KInt i))
  | L [A 1; n] => option_map (fun n => PK (KStr n)) (as_str n)
  | L [A 2; c] => option_map PKRef (dec_cref c)
  | L [A 3] => Some (PK KNone)
  | L [A 4] => Some (PK KOther)
  | _ => None
  end.

Definition dec_op (s : sexp) : option (pop Z) :=
  match s with
  | L [A 0; k; c] => match dec_key k, dec_cref c with Some k', Some c' => Some (PSet k' c') | _, _ => None end
  | L [A 1; c] => option_map PAdd (dec_cref c)
  | L [A 2; k] => option_map PDel (dec_key k)
  | _ => None
  end.

Definition dflt_col : col Z := {| ckey := [65%N]; cidx := None; cval := 0 |}.

Definition enc_col (c : col Z) : sexp := L [s_of_str (ckey c); s_of_opt A (cidx c); A (cval c)].

Definition enc_obs (r : rec Z) : sexp :=
  L [ A (rlen r);
      s_of_list (s_of_opt s_of_str) (iter_names r);
      s_of_list (fun kv => L [s_of_str (fst kv); enc_col (snd kv)]) (rdict r);
      s_of_list (s_of_opt enc_col) (rlist r) ].

Definition enc_pobs (st : rec Z * list (col Z)) : sexp :=
  match enc_obs (fst st) with
  | L xs => L (xs ++ [s_of_list enc_col (snd st)])
  | x => x
  end.

Definition enc_out (o : res unit) : sexp :=
  match o with Ok _ => L [] | Raise e => s_of_exn e end.

Fixpoint run_obs (st : rec Z * list (col Z)) (ops : list (pop Z)) : list sexp :=
  match ops with
  | [] => []
  | o :: rest =>
      let '(st', out) := pstep dflt_col st o in
      L [enc_out out; enc_pobs st'] :: run_obs st' rest
  end.

Definition dispatch (s : sexp) : sexp :=
  match as_listof dec_op s with
  | Some ops => L (run_obs (empty_rec, []) ops)
  | None => s_bad
  end.
