(* RecordDispatch.v - wire decoding for the "record" cluster (C15).
   case  := (op ...)            ops applied to an empty MafRecord
   op    := (0 key col) | (1 col) | (2 key)        set / add / del
   key   := (0 i) | (1 str) | (2 col) | (3) | (4)  int / name / column / None / other type
   col   := (str optidx val)
   reply := ((outcome obs) ...) one per op, obs = state after the op *)
From MafVerif Require Import lib.Base model.RecordOps.

Definition dec_col (s : sexp) : option (col Z) :=
  match s with
  | L [n; i; A v] =>
      match as_str n, as_opt as_Z i with
      | Some n', Some i' => Some {| ckey := n'; cidx := i'; cval := v |}
      | _, _ => None
      end
  | _ => None
  end.

Definition dec_key (s : sexp) : option (key Z) :=
  match s with
  | L [A 0; A i] => Some (KInt i)
  | L [A 1; n] => option_map KStr (as_str n)
  | L [A 2; c] => option_map KCol (dec_col c)
  | L [A 3] => Some KNone
  | L [A 4] => Some KOther
  | _ => None
  end.

Definition dec_op (s : sexp) : option (op Z) :=
  match s with
  | L [A 0; k; c] => match dec_key k, dec_col c with Some k', Some c' => Some (OSet k' c') | _, _ => None end
  | L [A 1; c] => option_map OAdd (dec_col c)
  | L [A 2; k] => option_map ODel (dec_key k)
  | _ => None
  end.

Definition enc_col (c : col Z) : sexp := L [s_of_str (ckey c); s_of_opt A (cidx c); A (cval c)].

Definition enc_obs (r : rec Z) : sexp :=
  L [ A (rlen r);
      s_of_list (s_of_opt s_of_str) (iter_names r);
      s_of_list (fun kv => L [s_of_str (fst kv); enc_col (snd kv)]) (rdict r);
      s_of_list (s_of_opt enc_col) (rlist r) ].

Definition enc_out (o : res unit) : sexp :=
  match o with Ok _ => L [] | Raise e => s_of_exn e end.

Fixpoint run_obs (r : rec Z) (ops : list (op Z)) : list sexp :=
  match ops with
  | [] => []
  | o :: rest =>
      let '(r', out) := step r o in
      L [enc_out out; enc_obs r'] :: run_obs r' rest
  end.

Definition dispatch (s : sexp) : sexp :=
  match as_listof dec_op s with
  | Some ops => L (run_obs empty_rec ops)
  | None => s_bad
  end.
