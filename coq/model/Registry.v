(* Registry.v - model of the process-wide scheme registry of
   maflib/scheme_factory.py (__ALL_SCHEMES, __LOADED_ALL_SCHEMES,
   __EXTRA_FILENAMES, all_schemes, find_scheme_class, find_scheme), of
   MafScheme.is_basic (maflib/schemes.py) and of the registry-dependent part
   of MafHeader.scheme / MafHeader.validate (maflib/header.py).
   Definitions only.

   The world the registry reads is fixed for a whole history: [types] (names
   of get_column_types()), [fs] (the files; every (re)load reads all of them
   again), [builtins] (get_built_in_filenames()), [mixok] (extend_class). *)
From MafVerif Require Import lib.Base lib.Str model.SchemeFactory.

Record registry := {
  loaded : bool;             (* __LOADED_ALL_SCHEMES *)
  extras : list str;         (* __EXTRA_FILENAMES *)
  cache : list scheme }.     (* __ALL_SCHEMES *)

Definition init_registry : registry := {| loaded := false; extras := []; cache := [] |}.

(* header validation error types that depend on the registry *)
Inductive herr :=
| HEADER_MISSING_VERSION | HEADER_UNSUPPORTED_VERSION
| HEADER_MISSING_ANNOTATION_SPEC | HEADER_UNSUPPORTED_ANNOTATION_SPEC.

(* the two pragmas validate() looks at: None = no such header line *)
Record header := { hversion : option str; hannot : option str }.

(* `not x` for an Optional[str] *)
Definition falsy (o : option str) : bool :=
  match o with None => true | Some [] => true | Some (_ :: _) => false end.

Definition ostr_eqb (o : option str) (s : str) : bool :=
  match o with Some x => str_eqb x s | None => false end.

Section Registry.
  Variable mixok : cls -> cls -> bool.
  Variable types : list str.
  Variable fs : str -> fileres.
  Variable builtins : list str.

  (* for filename in extra_filenames or []:
       if filename not in __EXTRA_FILENAMES and filename not in new_filenames: append *)
  Fixpoint new_filenames (known acc : list str) (l : list str) : list str :=
    match l with
    | [] => acc
    | f :: r =>
        if negb (mem f known) && negb (mem f acc)
        then new_filenames known (acc ++ [f]) r
        else new_filenames known acc r
    end.

  (* all_schemes(extra_filenames); None and [] are the same argument *)
  Definition all_schemes (st : registry) (extra : list str) : res (list scheme) * registry :=
    let new := new_filenames (extras st) [] extra in
    if negb (loaded st) || negb (match new with [] => true | _ => false end) then
      match load_all_schemes mixok types fs builtins (extras st ++ new) with
      | Ok schemes =>
          (Ok schemes, {| loaded := true; extras := extras st ++ new; cache := schemes |})
      | Raise e => (Raise e, st)       (* nothing was assigned yet *)
      end
    else (Ok (cache st), st).

  Definition find_first (p : scheme -> bool) (l : list scheme) : option scheme := find p l.

  (* find_scheme_class(version, annotation) *)
  Definition find_scheme_class (st : registry) (version annotation : option str)
    : res (option scheme) * registry :=
    let '(r, st') := all_schemes st [] in
    match r with
    | Raise e => (Raise e, st')
    | Ok schemes =>
        if falsy version && falsy annotation then (Raise ValueError, st')
        else if falsy annotation then
          (Ok (find_first (fun s => ostr_eqb version (s_version s) && ostr_eqb version (s_annot s)) schemes), st')
        else if falsy version then
          (Ok (find_first (fun s => ostr_eqb annotation (s_annot s)) schemes), st')
        else
          (Ok (find_first (fun s => ostr_eqb version (s_version s) && ostr_eqb annotation (s_annot s)) schemes), st')
    end.

  (* find_scheme: an instance of the class, None for no class and for
     NoRestrictionsScheme; an instance shows its class's version, annotation
     and column dict, so it is represented by the built scheme itself *)
  Definition find_scheme (st : registry) (version annotation : option str)
    : res (option bscheme) * registry :=
    let '(r, st') := find_scheme_class st version annotation in
    match r with
    | Raise e => (Raise e, st')
    | Ok None => (Ok None, st')
    | Ok (Some NoRestrictions) => (Ok None, st')
    | Ok (Some (Built b)) => (Ok (Some b), st')
    end.

  (* MafScheme.is_basic *)
  Definition is_basic (b : bscheme) : bool := str_eqb (bversion b) (bannot b).

  (* MafHeader.scheme(): except ValueError: return None *)
  Definition header_scheme (st : registry) (h : header) : res (option bscheme) * registry :=
    let '(r, st') := find_scheme st (hversion h) (hannot h) in
    match r with
    | Raise ValueError => (Ok None, st')
    | _ => (r, st')
    end.

  (* the error list MafHeader.validate() adds (reset_errors / the stringency
     processing that follows are not part of this cluster) *)
  Definition header_validate (st : registry) (h : header) : res (list herr) * registry :=
    let '(rs, st1) := header_scheme st h in
    match rs with
    | Raise e => (Raise e, st1)
    | Ok scheme =>
        (* version *)
        let '(r1, st2) :=
          match hversion h with
          | None => (Ok [HEADER_MISSING_VERSION], st1)
          | Some v =>
              let '(ra, st') := all_schemes st1 [] in
              match ra with
              | Raise e => (Raise e, st')
              | Ok l => (Ok (if mem v (map s_version l) then [] else [HEADER_UNSUPPORTED_VERSION]), st')
              end
          end in
        match r1 with
        | Raise e => (Raise e, st2)
        | Ok errs1 =>
            (* annotation.spec *)
            if match scheme with Some b => is_basic b | None => false end then
              (Ok (errs1 ++ match hannot h with
                            | Some _ => [HEADER_UNSUPPORTED_ANNOTATION_SPEC]
                            | None => []
                            end), st2)
            else
              match hannot h with
              | None => (Ok (errs1 ++ [HEADER_MISSING_ANNOTATION_SPEC]), st2)
              | Some a =>
                  let '(ra, st3) := all_schemes st2 [] in
                  match ra with
                  | Raise e => (Raise e, st3)
                  | Ok l => (Ok (errs1 ++ if mem a (map s_annot l) then []
                                          else [HEADER_UNSUPPORTED_ANNOTATION_SPEC]), st3)
                  end
              end
        end
    end.

  (* ---------- histories ---------- *)
  Inductive op :=
  | ORegister (files : list str)                     (* all_schemes(extra_filenames=files) *)
  | OFindClass (version annotation : option str)     (* find_scheme_class *)
  | OFind (version annotation : option str)          (* find_scheme *)
  | OValidate (h : header).                          (* MafHeader.from_lines(...).validate *)

  Inductive outcome :=
  | RSchemes (r : res (list scheme))
  | RClass (r : res (option scheme))
  | RScheme (r : res (option bscheme))
  | RErrors (r : res (list herr)).

  Definition step (st : registry) (o : op) : outcome * registry :=
    match o with
    | ORegister files => let '(r, st') := all_schemes st files in (RSchemes r, st')
    | OFindClass v a => let '(r, st') := find_scheme_class st v a in (RClass r, st')
    | OFind v a => let '(r, st') := find_scheme st v a in (RScheme r, st')
    | OValidate h => let '(r, st') := header_validate st h in (RErrors r, st')
    end.

  Fixpoint run (st : registry) (ops : list op) : registry :=
    match ops with
    | [] => st
    | o :: r => run (snd (step st o)) r
    end.
End Registry.
