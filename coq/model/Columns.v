(* Columns.v - model of maflib/column.py and maflib/column_types.py:
   python values, resolved classes, and the interpreter of the behavioural
   methods (__build__, __validate__, __string_it__, build, validate, __str__,
   is_null) driven by the generated class table.  One Gallina clause per
   (class, method) body of the source; `super()` continues down the chain of
   definers computed from the instance's MRO. *)
From Coq Require Import String Ascii.
From MafVerif Require Import lib.Base lib.Str lib.PyInt gen.GenClasses gen.GenEnums model.Classes.
Open Scope string_scope.

Definition s2l (s : string) : str :=
  map (fun a => N_of_ascii a) (list_ascii_of_string s).

(* ---------- python values that can sit in a column ---------- *)
Inductive pyval :=
| VNone | VBool (b : bool) | VInt (z : Z)
| VFloat (repr : str)            (* canonical repr(float) supplied by the host oracle *)
| VStr (s : str)
| VEnum (e : string) (i : nat)   (* member i (declaration order) of enum class e *)
| VUuid (canon : str)            (* str(UUID(..)) supplied by the host oracle *)
| VList (l : list pyval) | VTuple (l : list pyval)
| VOther.                        (* any other python object *)

(* host oracles: float(text) and uuid.UUID(text) as canonical text *)
Record oracles := { fval : str -> option str; uval : str -> option str }.

(* ---------- enums ---------- *)
Definition enum_members (e : string) : list (string * string) :=
  match find (fun x => String.eqb (fst (fst x)) e) enum_table with
  | Some (_, _, ms) => ms
  | None => []
  end.

Fixpoint find_index {X} (p : X -> bool) (l : list X) (i : nat) : option nat :=
  match l with [] => None | x :: r => if p x then Some i else find_index p r (S i) end.

(* enum_cls(value) then enum_cls[name] *)
Definition enum_lookup (e : string) (t : str) : res pyval :=
  match find_index (fun m => str_eqb (s2l (snd m)) t) (enum_members e) 0 with
  | Some i => Ok (VEnum e i)
  | None =>
      match find_index (fun m => str_eqb (s2l (fst m)) t) (enum_members e) 0 with
      | Some i => Ok (VEnum e i)
      | None => Raise KeyError
      end
  end.

Definition enum_value (e : string) (i : nat) : str :=
  match nth_error (enum_members e) i with Some m => s2l (snd m) | None => [] end.
Definition enum_index_of_name (e m : string) : nat :=
  match find_index (fun x => String.eqb (fst x) m) (enum_members e) 0 with Some i => i | None => 0 end.

(* ---------- python str(), ==, truthiness on these values ---------- *)
Definition py_str (v : pyval) : res str :=
  match v with
  | VNone => Ok (s2l "None") | VBool true => Ok (s2l "True") | VBool false => Ok (s2l "False")
  | VInt z => Ok (render_int z) | VFloat r => Ok r | VStr s => Ok s
  | VEnum e i => Ok (enum_value e i)        (* MafEnum.__str__ = str(self.value) *)
  | VUuid c => Ok c
  | VList _ | VTuple _ | VOther => Raise NotImplementedError   (* repr of containers: not modelled *)
  end.

Definition z_of_val (v : pyval) : option Z :=
  match v with VInt z => Some z | VBool b => Some (if b then 1 else 0) | _ => None end.

Fixpoint py_eq (a b : pyval) : bool :=
  match a, b with
  | VNone, VNone => true
  | VStr x, VStr y => str_eqb x y
  | VFloat x, VFloat y => str_eqb x y
  | VEnum e i, VEnum f j => String.eqb e f && Nat.eqb i j
  | VUuid x, VUuid y => str_eqb x y
  | VList x, VList y | VTuple x, VTuple y =>
      (fix go (p q : list pyval) : bool :=
         match p, q with
         | [], [] => true
         | u :: p', w :: q' => py_eq u w && go p' q'
         | _, _ => false
         end) x y
  | _, _ =>
      match z_of_val a, z_of_val b with
      | Some x, Some y => Z.eqb x y
      | _, _ => false
      end
  end.

Definition truthy (v : pyval) : bool :=
  match v with
  | VNone => false | VBool b => b | VInt z => negb (Z.eqb z 0)
  | VFloat r => negb (str_eqb r (s2l "0.0") || str_eqb r (s2l "-0.0"))
  | VStr s => negb (str_eqb s []) | VList l | VTuple l => match l with [] => false | _ => true end
  | VEnum _ _ | VUuid _ | VOther => true
  end.

(* ---------- resolved classes ---------- *)
Record ecls := {
  e_custom : bool;                  (* MafCustomColumnRecord is in the MRO *)
  e_null : option (list (str * pyval));   (* __nullable_dict__() *)
  e_min : option Z; e_max : option Z;
  e_enum : option string;
  e_build : list string; e_validate : list string; e_string_it : list string
}.
Record rcls := { r_cls : cref; r_mro : list cref; r_self : ecls; r_elem : option ecls }.

Definition conv_ndict (d : ndict) : option (list (str * pyval)) :=
  match d with
  | ND_none => None
  | ND_dict items =>
      Some (map (fun kv =>
                   (match fst kv with NK_lit s => s2l s | NK_member_name _ m => s2l m end,
                    match snd kv with
                    | NV_none => VNone | NV_empty_list => VList []
                    | NV_member e m => VEnum e (enum_index_of_name e m)
                    end)) items)
  end.

Definition join_opt {X} (o : option (option X)) : option X := match o with Some x => x | None => None end.

Definition ecls_of_mro (tbl : list class_info) (mr : list cref) : ecls :=
  {| e_custom := mem_cref (CSrc "MafCustomColumnRecord") mr;
     e_null := match first_attr tbl ci_nullable mr with Some d => conv_ndict d | None => None end;
     e_min := join_opt (first_attr tbl ci_min mr);
     e_max := join_opt (first_attr tbl ci_max mr);
     e_enum := first_attr tbl ci_enum mr;
     e_build := chain tbl "__build__" mr;
     e_validate := chain tbl "__validate__" mr;
     e_string_it := chain tbl "__string_it__" mr |}.

Definition resolve (tbl : list class_info) (c : cref) : option rcls :=
  match mro tbl mro_fuel c with
  | None => None
  | Some mr =>
      let elem :=
        match first_attr tbl ci_elem mr with
        | Some en => match mro tbl mro_fuel (CSrc en) with
                     | Some emr => Some (ecls_of_mro tbl emr)
                     | None => None
                     end
        | None => None
        end in
      Some {| r_cls := c; r_mro := mr; r_self := ecls_of_mro tbl mr; r_elem := elem |}
  end.

(* ---------- __build__ : one clause per defining class ---------- *)
Definition acgt (c : char) : bool := (N.eqb c 65 || N.eqb c 67 || N.eqb c 71 || N.eqb c 84)%N.

Definition build_int (t : str) : res pyval :=
  match py_int t with Some z => Ok (VInt z) | None => Raise ValueError end.

Fixpoint map_res {X Y} (f : X -> res Y) (l : list X) : res (list Y) :=
  match l with
  | [] => Ok []
  | x :: r =>
      match f x with
      | Ok y => match map_res f r with Ok ys => Ok (y :: ys) | Raise e => Raise e end
      | Raise e => Raise e
      end
  end.

(* ch: the classes defining __build__ in MRO order (head runs, `super()` goes
   to the tail); en: the dynamic cls.__enum_class__(); seq: what
   SequenceOfValuesColumn.__build__ does for the dynamic cls.__column_class__() *)
Fixpoint eval_build (O : oracles) (en : option string) (seq : str -> res pyval)
         (ch : list string) (t : str) : res pyval :=
  match ch with
  | [] => Raise TypeError
  | c :: sup =>
      if String.eqb c "MafCustomColumnRecord" then Ok VNone
      else if String.eqb c "_BuildStringColumn" then Ok (VStr t)
      else if String.eqb c "StringIntegerOrFloatColumn" then
        match fval O t with
        | Some r => Ok (VFloat r)
        | None => match py_int t with Some z => Ok (VInt z) | None => Ok (VStr t) end
        end
      else if String.eqb c "StringOrIntegerColumn" then
        match py_int t with Some z => Ok (VInt z) | None => Ok (VStr t) end
      else if String.eqb c "IntegerColumn" || String.eqb c "TranscriptStrand" then build_int t
      else if String.eqb c "EntrezGeneId" then
        match eval_build O en seq sup t with
        | Ok v => if py_eq v (VInt 0) then Ok VNone else Ok v
        | Raise x => Raise x
        end
      else if String.eqb c "FloatColumn" then
        match fval O t with Some r => Ok (VFloat r) | None => Raise ValueError end
      else if String.eqb c "EnumColumn" then
        match en with Some e => enum_lookup e t | None => Raise TypeError end
      else if String.eqb c "SequenceOfValuesColumn" then seq t
      else if String.eqb c "Canonical" then
        let u := upper_a t in
        if str_eqb u [] then Ok (VBool false)
        else if str_eqb u (s2l "YES") then Ok (VBool true) else Raise ValueError
      else if String.eqb c "NullableYesOrNo" || String.eqb c "NullableYOrN" || String.eqb c "PickColumn" then
        eval_build O en seq sup (capitalize_a t)
      else if String.eqb c "YesNoOrUnknown" then eval_build O en seq sup t
      else if String.eqb c "BooleanColumn" then
        let u := upper_a t in
        if str_eqb u (s2l "TRUE") then Ok (VBool true)
        else if str_eqb u (s2l "FALSE") then Ok (VBool false) else Raise ValueError
      else if String.eqb c "UUIDColumn" then
        match uval O t with Some u => Ok (VUuid u) | None => Raise ValueError end
      else Raise NotImplementedError      (* a defining class the model has no body for *)
  end.

Definition no_seq (t : str) : res pyval := Raise TypeError.

(* cls.__build__(text) for a resolved class *)
Definition cls_build_raw (O : oracles) (r : rcls) (t : str) : res pyval :=
  let seq t :=
    match r_elem r with
    | None => Raise TypeError
    | Some el =>
        match map_res (eval_build O (e_enum el) no_seq (e_build el)) (split SEMI t) with
        | Ok vs => Ok (VList vs)
        | Raise x => Raise x
        end
    end in
  eval_build O (e_enum (r_self r)) seq (e_build (r_self r)) t.

(* MafCustomColumnRecord.build / MafColumnRecord.build without a scheme: the
   value a column of this class gets for a field text *)
Definition cls_build (O : oracles) (r : rcls) (t : str) : res pyval :=
  if e_custom (r_self r) then
    match e_null (r_self r) with
    | Some d => match assoc t d with Some v => Ok v | None => cls_build_raw O r t end
    | None => cls_build_raw O r t
    end
  else Ok (VStr t).      (* MafColumnRecord.build returns a plain MafColumnRecord *)

(* the class of the object that build returns *)
Definition built_class (r : rcls) : cref :=
  if e_custom (r_self r) then r_cls r else CSrc "MafColumnRecord".

(* ---------- __string_it__ and __str__ ---------- *)
Fixpoint eval_string_it (ch : list string) (v : pyval) : res str :=
  match ch with
  | [] => Raise TypeError
  | c :: _ =>
      if String.eqb c "MafColumnRecord" then py_str v
      else if String.eqb c "EnumColumn" then
        match v with VEnum e i => Ok (enum_value e i) | _ => Raise TypeError end   (* AttributeError on .value *)
      else if String.eqb c "SequenceOfValuesColumn" then
        match v with
        | VList l | VTuple l =>
            match map_res py_str l with Ok ps => Ok (join [SEMI] ps) | Raise x => Raise x end
        | VStr s => Ok (join [SEMI] (map (fun c => [c]) s))     (* a str iterates by character *)
        | _ => Raise TypeError
        end
      else if String.eqb c "Canonical" then Ok (if truthy v then s2l "YES" else [])
      else Raise NotImplementedError
  end.

(* MafColumnRecord.__str__ *)
Definition ecls_str (e : ecls) (v : pyval) : res str :=
  let keys := match e_null e with
              | Some d => map fst (filter (fun kv => py_eq (snd kv) v) d)
              | None => [] end in
  match keys with
  | k :: _ => if existsb (fun x => str_eqb x []) keys then Ok [] else Ok k
  | [] => eval_string_it (e_string_it e) v
  end.
Definition col_str (r : rcls) (v : pyval) : res str := ecls_str (r_self r) v.

(* ---------- __validate__ : one clause per defining class; None = valid ---------- *)
Definition in_null_values (e : ecls) (v : pyval) : bool :=
  match e_null e with Some d => existsb (fun kv => py_eq (snd kv) v) d | None => false end.

Fixpoint eval_validate (e : ecls) (seqv : pyval -> bool) (ch : list string) (v : pyval) : bool (* true = a message *) :=
  match ch with
  | [] => false
  | c :: sup =>
      if String.eqb c "MafCustomColumnRecord" then false
      else if String.eqb c "RequireNullValue" then true
      else if String.eqb c "NullableStringColumn" then
        match v with VStr _ => false | _ => true end
      else if String.eqb c "StringColumn" then
        if eval_validate e seqv sup v then true else negb (truthy v)
      else if String.eqb c "StringIntegerOrFloatColumn" then
        match v with VInt _ | VBool _ | VFloat _ | VStr _ => false | _ => true end
      else if String.eqb c "StringOrIntegerColumn" then
        match v with VInt _ | VBool _ | VStr _ => false | _ => true end
      else if String.eqb c "IntegerColumn" then
        match v with
        | VInt z =>
            match e_min e with
            | Some m => if (z <? m)%Z then true else match e_max e with Some M => (M <? z)%Z | None => false end
            | None => match e_max e with Some M => (M <? z)%Z | None => false end
            end
        | _ => true
        end
      else if String.eqb c "FloatColumn" then match v with VFloat _ => false | _ => true end
      else if String.eqb c "EnumColumn" then
        match v, e_enum e with
        | VEnum en _, Some en' => negb (String.eqb en en')
        | _, _ => true
        end
      else if String.eqb c "SequenceOfValuesColumn" then seqv v
      else if String.eqb c "NullableDnaString" then
        match v with
        | VStr s => if str_eqb s [DASH] then false else negb (forallb acgt s)
        | _ => true
        end
      else if String.eqb c "DnaString" then
        if eval_validate e seqv sup v then true else negb (truthy v)
      else if String.eqb c "Canonical" || String.eqb c "BooleanColumn" then
        match v with VBool _ => false | _ => true end
      else if String.eqb c "UUIDColumn" then match v with VUuid _ => false | _ => true end
      else if String.eqb c "TranscriptStrand" then
        match v with VInt z => negb (Z.eqb z 1 || Z.eqb z (-1)) | _ => true end
      else true        (* unknown body: the model refuses (and the correspondence will show it) *)
  end.

Definition no_seqv (v : pyval) : bool := true.

Definition contains_sep (s : str) : bool := existsb (fun c => N.eqb c TAB || N.eqb c CR || N.eqb c LF) s.

(* self.__validate__() of a column object of resolved class r *)
Definition cls_validate_raw (r : rcls) (v : pyval) : bool :=
  let seqv v :=
    match r_elem r with
    | None => true
    | Some el =>
        match v with
        | VList l | VTuple l =>
            existsb (fun x =>
                       if eval_validate el no_seqv (e_validate el) x then true
                       else match ecls_str el x with
                            | Ok t => existsb (N.eqb SEMI) t
                            | Raise _ => true
                            end) l
        | _ => true
        end
    end in
  eval_validate (r_self r) seqv (e_validate (r_self r)) v.

(* the message part of MafCustomColumnRecord.validate: true = RECORD_COLUMN_WRONG_FORMAT *)
Definition cls_value_invalid (r : rcls) (v : pyval) : bool :=
  if e_custom (r_self r) then
    if in_null_values (r_self r) v then false else cls_validate_raw r v
  else false.

(* the separator rule of MafColumnRecord.validate: true = RECORD_INVALID_COLUMN_VALUE *)
Definition cls_text_has_sep (r : rcls) (v : pyval) : bool :=
  match col_str r v with Ok t => contains_sep t | Raise _ => false end.

Definition col_is_null (r : rcls) (v : pyval) : bool := in_null_values (r_self r) v.
