(* LineReader.v - model of maflib/util.py LineReader (a reader that can show
   the next line without consuming it) and of MafHeader.from_line_reader
   (maflib/header.py).  The handle is the list of raw lines readline() will
   return (each with its terminator, except possibly the last); at the end of
   the input readline() returns "" for ever. *)
From MafVerif Require Import lib.Base lib.Str model.Validation model.Header.

Record linereader := {
  lr_line : str;            (* _line: the line peek_line() shows, "" at the end of the input *)
  lr_rest : list str;       (* what the handle still holds *)
  lr_no : Z                 (* _line_number: the number of lines read so far *)
}.

(* __read_line: self._file.readline().rstrip("\r\n") *)
Definition lr_fetch (rest : list str) : str * list str :=
  match rest with
  | [] => ([], [])
  | l :: r => (rstrip_crlf l, r)
  end.

(* LineReader(fh) *)
Definition lr_new (handle : list str) : linereader :=
  let '(l, r) := lr_fetch handle in {| lr_line := l; lr_rest := r; lr_no := 0 |}.

Definition lr_peek (lr : linereader) : str := lr_line lr.

(* read_line: returns the current line; advances only `if self._line:` - at the
   end of the input, and equally on an empty line, nothing moves *)
Definition lr_read_line (lr : linereader) : str * linereader :=
  match lr_line lr with
  | [] => ([], lr)
  | cur =>
      let '(l, r) := lr_fetch (lr_rest lr) in
      (cur, {| lr_line := l; lr_rest := r; lr_no := lr_no lr + 1 |})
  end.

(* __next__: an empty line ends the iteration like the end of the input *)
Definition lr_next (lr : linereader) : res str * linereader :=
  match lr_line lr with
  | [] => (Raise StopIteration, lr)
  | _ => let '(l, lr') := lr_read_line lr in (Ok l, lr')
  end.

(* the `while True:` loop of from_line_reader: peek; stop unless the line
   starts with '#'; read it.  A line that starts with '#' is not empty, so
   read_line advances: the recursion is structural on what the handle holds. *)
Fixpoint lr_take_pragmas (cur : str) (rest : list str) (n : Z) (acc : list str)
  : list str * linereader :=
  if startswith cur [HASH] then
    match rest with
    | [] => (acc ++ [cur], {| lr_line := []; lr_rest := []; lr_no := n + 1 |})
    | l :: r => lr_take_pragmas (rstrip_crlf l) r (n + 1) (acc ++ [cur])
    end
  else (acc, {| lr_line := cur; lr_rest := rest; lr_no := n |}).

Section FromLineReader.
  Context {C : Type}.
  Variable registry : list (scheme C).

  (* MafHeader.from_line_reader: the header, and the reader afterwards *)
  Definition header_from_line_reader (lr : linereader) (m : option mode) (lg : logger)
    : out header * linereader :=
    let '(lines, lr') := lr_take_pragmas (lr_line lr) (lr_rest lr) (lr_no lr) [] in
    (* first_line_number = line_reader.line_number() + 1, taken before the loop *)
    (header_from_lines_at registry (lr_no lr + 1) lines m lg, lr').

  (* MafHeader.scheme_header_lines(scheme) *)
  Definition scheme_header_lines (s : scheme C) : list str :=
    [ HASH :: K_VERSION ++ SP :: s_version s; HASH :: K_ANNOT ++ SP :: s_annot s ].
End FromLineReader.
