(* Reader.v - model of maflib/reader.py (MafReader.__init__,
   __update_scheme__, __next_line__, __next__, __iter__) together with
   SortOrderChecker / SortOrderEnforcingIterator of maflib/sort_order.py as the
   reader uses them.  Sort keys are a Section parameter (key_of / key_lt); a
   concrete instance mirroring _CoordinateKey / _BarcodesAndCoordinateKey is
   given at the end for the extracted run. *)
From MafVerif Require Import lib.Base lib.Str model.RecordOps model.Validation model.Header
  model.RecordParse.

Section Reader.
  Context {C W : Type}.
  Variable sem : colsem C W.
  Notation cls := (cls C).
  Notation scheme := (scheme cls).

  Notation mrec := (mrec C W).
  Variable registry : list scheme.          (* all_schemes() *)

  Context {K : Type}.
  (* sort_order.sort_key()(record) for a Coordinate-like order with the given
     _contigs; and key1 < key2 *)
  Variable key_of : sorder -> list str -> rec (payload C W) -> res K.
  Variable key_lt : K -> K -> bool.

  (* the reader after __init__ *)
  Record reader := {
    rd_next : option str;          (* __next_line *)
    rd_lineno : Z;                 (* __line_number *)
    rd_pending : list str;         (* what the line iterator still holds *)
    rd_header : header;
    rd_scheme : option scheme;
    rd_errs : list verr;           (* validation_errors *)
    rd_mode : mode
  }.

  (* the `while True: self.__next_line__() ...` loop that collects header lines:
     (header lines, __next_line, __line_number, rest of the iterator) *)
  Fixpoint read_header_lines (ls : list str) (n : Z) (acc : list str)
    : list str * option str * Z * list str :=
    match ls with
    | [] => (acc, None, n, [])                  (* StopIteration: counter not advanced *)
    | l :: rest =>
        let l' := rstrip_crlf l in
        if startswith l' [HASH] then read_header_lines rest (n + 1) (acc ++ [l'])
        else (acc, Some l', n + 1, rest)
    end.

  (* errors of the column-name comparison, for names of equal count *)
  Fixpoint name_mismatches (found expected : list str) (ln : option Z) : list verr :=
    match found, expected with
    | f :: fr, e :: er =>
        (if str_eqb f e then [] else [mkerr T_SCHEME_MISMATCHING_COLUMN_NAMES ln])
        ++ name_mismatches fr er ln
    | _, _ => []
    end.

  (* MafReader.__init__ *)
  Definition reader_init (lines : list str) (m : option mode) (override : option scheme) : out reader :=
    let mode := match m with None => Silent | Some x => x end in
    let '(hl, nxt, n, rest) := read_header_lines lines 0 [] in
    obind (header_from_lines registry hl (Some mode) LgRoot) (fun h =>
      let errs := herrs h in                        (* for error in header.validation_errors: add_error *)
      let col_ln := n in                            (* column_names_line_number *)
      (* column names and the look-ahead *)
      let '(column_names, nxt', n', rest') :=
        match nxt with
        | Some l =>
            match rest with
            | [] => (Some (split TAB l), None, n, [])
            | l2 :: rest2 => (Some (split TAB l), Some (rstrip_crlf l2), n + 1, rest2)
            end
        | None => (None, None, n, rest)
        end in
      (* __update_scheme__ *)
      match h_scheme registry (hrecs h) with
      | Raise e => oraise e
      | Ok hs =>
          let '(sch1, errs1) :=
            match override with
            | Some o =>
                (Some o,
                 errs ++ match hs with
                         | Some s => if negb (str_eqb (s_version o) (s_version s))
                                     then [mkerr T_HEADER_MISMATCH_SCHEME None] else []
                         | None => []
                         end)
            | None => (hs, errs)
            end in
          match column_names with
          | Some names =>
              let fallback := match sch1 with None => true | Some s => s_norestr s end in
              let lg := if fallback && negb (mode_eqb mode Silent) then [LNoScheme] else [] in
              let s := match sch1 with
                       | Some s => if s_norestr s then no_restrictions names else s
                       | None => no_restrictions names
                       end in
              let expected := s_names s in
              let errs2 :=
                errs1 ++
                (if negb (Nat.eqb (length names) (length expected))
                 then [mkerr T_SCHEME_MISMATCHING_NUMBER_OF_COLUMN_NAMES (Some col_ln)]
                 else name_mismatches names expected (Some col_ln)) in
              olog lg
                (obind (process mode LgReader errs2) (fun _ =>
                   oret {| rd_next := nxt'; rd_lineno := n'; rd_pending := rest'; rd_header := h;
                           rd_scheme := Some s; rd_errs := errs2; rd_mode := mode |}))
          | None =>
              let errs2 := errs1 ++ [mkerr T_HEADER_MISSING_COLUMN_NAMES (Some (n' + 1))] in
              obind (process mode LgReader errs2) (fun _ =>
                oret {| rd_next := nxt'; rd_lineno := n'; rd_pending := rest'; rd_header := h;
                        rd_scheme := sch1; rd_errs := errs2; rd_mode := mode |})
          end
      end).

  (* ---------- iteration: SortOrderEnforcingIterator over the reader ---------- *)
  (* SortOrderChecker.__init__: sort_key() raises NotImplementedError for
     Unknown and Unsorted *)
  Definition sortable (o : sorder) : bool := so_is_coord o.

  (* `if record:` on a MafRecord (a MutableMapping: false when it has no columns) *)
  Definition mrec_truthy (r : mrec) : bool := nonempty (rlist (mcols r)).

  (* SortOrderChecker.__iadd__ *)
  Definition check_order (o : sorder) (cs : list str) (last : option mrec) (r : mrec) : res unit :=
    match last with
    | Some lr =>
        if mrec_truthy lr && sortable o then
          match key_of o cs (mcols r) with
          | Raise e => Raise e
          | Ok k =>
              match key_of o cs (mcols lr) with
              | Raise e => Raise e
              | Ok kl => if key_lt k kl then Raise ValueError else Ok tt
              end
          end
        else Ok tt
    | None => Ok tt
    end.

  Inductive ending := EndStop | EndRaise (e : exn).

  (* one __next__ of the enforcing iterator per line: parse `cur` (physical
     number n), append its errors to the reader's, advance, check the order.
     Result: log, records yielded, how the iteration ended, errors appended to
     the reader's list. *)
  Fixpoint iterate (cur : str) (n : Z) (pending : list str) (sch : option scheme) (mode : mode)
           (o : sorder) (cs : list str) (last : option mrec)
    : log * list mrec * ending * list verr :=
    match from_line sem cur None sch (Some n) (Some mode) LgRoot with
    | (lg, Raise e) => (lg, [], EndRaise e, [])
    | (lg, Ok r) =>
        match check_order o cs last r with
        | Raise e => (lg, [], EndRaise e, merrs r)
        | Ok _ =>
            match pending with
            | [] => (lg, [r], EndStop, merrs r)
            | l :: pending' =>
                let '(lg', rs, e, es) :=
                  iterate (rstrip_crlf l) (n + 1) pending' sch mode o cs (Some r) in
                (lg ++ lg', r :: rs, e, merrs r ++ es)
            end
        end
    end.

  (* `for record in reader` to exhaustion *)
  Definition reader_iterate (rd : reader) : log * list mrec * ending * list verr :=
    match rd_next rd with
    | None => ([], [], EndStop, [])             (* raise StopIteration *)
    | Some cur =>
        let '(o, cs) := h_sort_order (hrecs (rd_header rd)) in
        iterate cur (rd_lineno rd) (rd_pending rd) (rd_scheme rd) (rd_mode rd) o cs None
    end.

  Record run := {
    run_log : log;
    run_init : res reader;
    run_recs : list mrec;
    run_end : ending;
    run_errs : list verr            (* reader.validation_errors afterwards *)
  }.

  Definition read_run (lines : list str) (m : option mode) (override : option scheme) : run :=
    match reader_init lines m override with
    | (lg, Raise e) =>
        {| run_log := lg; run_init := Raise e; run_recs := []; run_end := EndRaise e; run_errs := [] |}
    | (lg, Ok rd) =>
        let '(lg', rs, e, es) := reader_iterate rd in
        {| run_log := lg ++ lg'; run_init := Ok rd; run_recs := rs; run_end := e;
           run_errs := rd_errs rd ++ es |}
    end.

  (* MafReader(lines, ...) then list(reader) *)
  Definition read_all (lines : list str) (m : option mode) (override : option scheme) : res (list mrec) :=
    let r := read_run lines m override in
    match run_end r with
    | EndStop => Ok (run_recs r)
    | EndRaise e => Raise e
    end.
End Reader.

Arguments reader : clear implicits.
Arguments run : clear implicits.

(* ---------- a concrete sort key (sort_order.py, repaired code) ---------- *)
Definition C_CHROM : str := [67;104;114;111;109;111;115;111;109;101]%N. (* Chromosome *)
Definition C_START : str := [83;116;97;114;116;95;80;111;115;105;116;105;111;110]%N. (* Start_Position *)
Definition C_END : str := [69;110;100;95;80;111;115;105;116;105;111;110]%N. (* End_Position *)
Definition C_TUMOR : str := [84;117;109;111;114;95;83;97;109;112;108;101;95;66;97;114;99;111;100;101]%N. (* Tumor_Sample_Barcode *)
Definition C_NORMAL : str := [77;97;116;99;104;101;100;95;78;111;114;109;95;83;97;109;112;108;101;95;66;97;114;99;111;100;101]%N. (* Matched_Norm_Sample_Barcode *)

Section ConcreteKey.
  Context {C W : Type}.
  Variable sem : colsem C W.
  Variable py_int : str -> option Z.      (* int(text), None when it raises *)

  Inductive chrom := ChName (s : str) | ChIndex (i : Z).
  Record skey := {
    k_tumor : option str; k_normal : option str;
    k_chrom : option chrom; k_start : option Z; k_end : option Z
  }.

  (* record[name].value as the key sees it; a missing column (KeyError) is None *)
  Definition field_text (r : rec (payload C W)) (name : str) : option str :=
    match assoc name (rdict r) with
    | None => None
    | Some c => match pv (cval c) with
                | PPlain s => Some s
                | PTyped k w => cs_key_text sem k w
                end
    end.
  Definition field_int (r : rec (payload C W)) (name : str) : option Z :=
    match assoc name (rdict r) with
    | None => None
    | Some c => match pv (cval c) with
                | PPlain s => py_int s
                | PTyped k w => cs_key_int sem k w
                end
    end.

  (* _CoordinateKey.__init__ / _BarcodesAndCoordinateKey.__init__ *)
  Definition skey_of (o : sorder) (contigs : list str) (r : rec (payload C W)) : res skey :=
    let barcodes := match o with SoBarcodes => true | _ => false end in
    let tumor := if barcodes then field_text r C_TUMOR else None in
    let normal := if barcodes then field_text r C_NORMAL else None in
    match (match field_text r C_CHROM with
           | None => Ok None
           | Some name =>
               if nonempty contigs then
                 match index_of name contigs 0 with
                 | Some i => Ok (Some (ChIndex i))
                 | None => Raise ValueError          (* "Could not find contig ..." *)
                 end
               else Ok (Some (ChName name))
           end) with
    | Raise e => Raise e
    | Ok ch =>
        Ok {| k_tumor := tumor; k_normal := normal; k_chrom := ch;
              k_start := field_int r C_START; k_end := field_int r C_END |}
    end.

  (* str < str: lexicographic by code point *)
  Fixpoint str_cmp (a b : str) : comparison :=
    match a, b with
    | [], [] => Eq
    | [], _ :: _ => Lt
    | _ :: _, [] => Gt
    | x :: a', y :: b' => match N.compare x y with Eq => str_cmp a' b' | c => c end
    end.

  (* SortOrderKey.compare: None sorts last *)
  Definition cmp_opt {X} (cmp : X -> X -> comparison) (a b : option X) : comparison :=
    match a, b with
    | None, None => Eq
    | None, Some _ => Gt
    | Some _, None => Lt
    | Some x, Some y => cmp x y
    end.
  Definition chrom_cmp (a b : chrom) : comparison :=
    match a, b with
    | ChName x, ChName y => str_cmp x y
    | ChIndex x, ChIndex y => Z.compare x y
    | ChIndex _, ChName _ => Lt        (* not reachable: both keys use the same contig list *)
    | ChName _, ChIndex _ => Gt
    end.
  Definition lex (c : comparison) (d : comparison) : comparison :=
    match c with Eq => d | _ => c end.

  (* __cmp__ of the two key classes (the barcodes are None under Coordinate) *)
  Definition skey_cmp (a b : skey) : comparison :=
    lex (cmp_opt str_cmp (k_tumor a) (k_tumor b))
   (lex (cmp_opt str_cmp (k_normal a) (k_normal b))
   (lex (cmp_opt chrom_cmp (k_chrom a) (k_chrom b))
   (lex (cmp_opt Z.compare (k_start a) (k_start b))
        (cmp_opt Z.compare (k_end a) (k_end b))))).
  Definition skey_lt (a b : skey) : bool :=
    match skey_cmp a b with Lt => true | _ => false end.
End ConcreteKey.
