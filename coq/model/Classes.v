(* Classes.v - python class machinery over the generated class table:
   C3 linearisation (the algorithm behind `type(name, (extra, base), {})` in
   util.extend_class and behind every class statement), isinstance, and
   method resolution "first class in the MRO that defines the method".
   `object` is left out of every MRO (it would always be last). *)
From Coq Require Import String.
From MafVerif Require Import lib.Base gen.GenClasses.

(* a class object: a class of column.py/column_types.py, or one synthesised by
   extend_class(base, extra) = type(base.__name__, (extra, base), {}) *)
Inductive cref := CSrc (n : string) | CMix (extra base : cref).

Fixpoint cref_eqb (a b : cref) : bool :=
  match a, b with
  | CSrc x, CSrc y => String.eqb x y
  | CMix e1 b1, CMix e2 b2 => cref_eqb e1 e2 && cref_eqb b1 b2
  | _, _ => false
  end.

Definition find_class (tbl : list class_info) (n : string) : option class_info :=
  find (fun ci => String.eqb (ci_name ci) n) tbl.

Definition mem_cref (c : cref) (l : list cref) : bool := existsb (cref_eqb c) l.

(* ---- C3 merge ---- *)
Definition in_some_tail (h : cref) (seqs : list (list cref)) : bool :=
  existsb (fun s => match s with [] => false | _ :: t => mem_cref h t end) seqs.

Fixpoint pick_head (cands seqs : list (list cref)) : option cref :=
  match cands with
  | [] => None
  | [] :: r => pick_head r seqs
  | (h :: _) :: r => if in_some_tail h seqs then pick_head r seqs else Some h
  end.

Definition drop_head (h : cref) (s : list cref) : list cref :=
  match s with x :: t => if cref_eqb x h then t else s | [] => [] end.

Definition nonempty_seqs (seqs : list (list cref)) : list (list cref) :=
  filter (fun s => match s with [] => false | _ => true end) seqs.

Fixpoint c3_merge (fuel : nat) (seqs : list (list cref)) : option (list cref) :=
  match nonempty_seqs seqs with
  | [] => Some []
  | live =>
      match fuel with
      | O => None
      | S f =>
          match pick_head live live with
          | None => None                       (* TypeError: inconsistent MRO *)
          | Some h =>
              match c3_merge f (map (drop_head h) live) with
              | Some rest => Some (h :: rest)
              | None => None
              end
          end
      end
  end.

Definition total_len (seqs : list (list cref)) : nat := fold_right (fun s n => length s + n)%nat O seqs.

(* ---- MRO ---- *)
Fixpoint mro (tbl : list class_info) (fuel : nat) (c : cref) : option (list cref) :=
  match fuel with
  | O => None
  | S f =>
      let bases :=
        match c with
        | CSrc n => match find_class tbl n with Some ci => Some (map CSrc (ci_bases ci)) | None => None end
        | CMix e b => Some [e; b]
        end in
      match bases with
      | None => None
      | Some [] => Some [c]
      | Some bs =>
          match opt_all (map (mro tbl f) bs) with
          | None => None
          | Some ls =>
              let seqs := app ls [bs] in
              match c3_merge (S (total_len seqs)) seqs with
              | Some m => Some (c :: m)
              | None => None
              end
          end
      end
  end.

Definition mro_fuel : nat := 24.

Definition isinstance (tbl : list class_info) (obj cls : cref) : bool :=
  match mro tbl mro_fuel obj with Some m => mem_cref cls m | None => false end.

(* ---- method resolution ---- *)
Definition defines (tbl : list class_info) (m : string) (c : cref) : bool :=
  match c with
  | CSrc n => match find_class tbl n with
              | Some ci => existsb (String.eqb m) (ci_methods ci)
              | None => false
              end
  | CMix _ _ => false
  end.

(* names of the classes defining m, in MRO order: head = the method that runs,
   tail = what successive super() calls reach *)
Definition chain (tbl : list class_info) (m : string) (mr : list cref) : list string :=
  flat_map (fun c => match c with CSrc n => if defines tbl m c then [n] else [] | CMix _ _ => [] end) mr.

(* first class in the MRO carrying a data-like attribute *)
Fixpoint first_attr {X} (tbl : list class_info) (get : class_info -> option X) (mr : list cref) : option X :=
  match mr with
  | [] => None
  | CSrc n :: r =>
      match find_class tbl n with
      | Some ci => match get ci with Some x => Some x | None => first_attr tbl get r end
      | None => first_attr tbl get r
      end
  | CMix _ _ :: r => first_attr tbl get r
  end.
