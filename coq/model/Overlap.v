(* Overlap.v - model of maflib/overlap_iter.py (whole file), of
   maflib/util.py PeekableIterator, and of the part of maflib/sort_order.py
   that overlap iteration uses (_CoordinateKey / _BarcodesAndCoordinateKey:
   construction, __cmp__, __lt__; Coordinate / BarcodesAndCoordinate choice).

   Iterators are (consumed count, remaining list); every python statement that
   can raise returns the state reached so far together with the exception.
   The generic part is a Section over the record type R, the key class type C
   (barcode pair + chromosome component of a key) and the key function; the
   concrete instance for MAF-like records follows the Section.
   No proofs in this file. *)
From MafVerif Require Import lib.Base.

(* result of a python call that can also run out of model fuel (the real code
   would loop for ever) *)
Inductive outcome (X : Type) := Done (x : X) | Exc (e : exn) | OutOfFuel.
Arguments Done {X} x.
Arguments Exc {X} e.
Arguments OutOfFuel {X}.

Section Overlap.
  Context {R C : Type}.
  (* bool(record): a MafRecord is false iff it has no columns; plain Locatable
     objects are always true *)
  Variable truthy : R -> bool.
  (* SortOrderKey.compare on the class part (tumor, normal, chromosome) *)
  Variable cls_cmp : C -> C -> comparison.
  (* the `==` tests of __overlaps / __overlaps_with_barcode on the class part *)
  Variable cls_eqb : C -> C -> bool.

  (* _CoordinateKey / _BarcodesAndCoordinateKey: class part, start, end.
     The object is mutable: overlap iteration assigns min_key.end *)
  Record key := { kcls : C; kstart : Z; kend : Z }.
  Definition with_end (k : key) (e : Z) : key := {| kcls := kcls k; kstart := kstart k; kend := e |}.

  (* __cmp__: chromosome (after barcodes), then start, then end *)
  Definition key_cmp (a b : key) : comparison :=
    match cls_cmp (kcls a) (kcls b) with
    | Eq => match Z.compare (kstart a) (kstart b) with
            | Eq => Z.compare (kend a) (kend b)
            | c => c
            end
    | c => c
    end.
  (* SortOrderKey.__lt__ : self.__cmp__(other) < 0 *)
  Definition key_lt (a b : key) : bool :=
    match key_cmp a b with Lt => true | _ => false end.

  (* sort_order.sort_key(): builds the key, may raise (unknown contig) *)
  Variable keyf : R -> res key.

  (* one input: the caller's iterator (consumed, rest), wrapped by
     _SortOrderEnforcingIterator (_last_rec) and PeekableIterator (_peek) *)
  Record input := { consumed : nat; rest : list R; last_rec : option R; peek : option R }.

  Definition opt_truthy (o : option R) : bool :=
    match o with Some r => truthy r | None => false end.

  (* _SortOrderEnforcingIterator.__next__ *)
  Definition enf_next (i : input) : input * res R :=
    match rest i with
    | [] => (i, Raise StopIteration)                 (* rec = next(self._iter) *)
    | rec :: tl =>
      let i1 := {| consumed := S (consumed i); rest := tl; last_rec := last_rec i; peek := peek i |} in
      let accept := ({| consumed := S (consumed i); rest := tl; last_rec := Some rec; peek := peek i |}, Ok rec) in
      match last_rec i with
      | Some last =>
        if truthy last then                          (* if self._last_rec: *)
          match keyf rec with
          | Raise e => (i1, Raise e)
          | Ok rec_key =>
            match keyf last with
            | Raise e => (i1, Raise e)
            | Ok last_key =>
              if key_lt rec_key last_key then (i1, Raise PlainException)
              else accept
            end
          end
        else accept
      | None => accept
      end
    end.

  Definition set_peek (i : input) (p : option R) : input :=
    {| consumed := consumed i; rest := rest i; last_rec := last_rec i; peek := p |}.

  (* PeekableIterator.__update_peek: self._peek = next(self._iter, None) *)
  Definition update_peek (i : input) : input * res unit :=
    match enf_next i with
    | (i', Ok r) => (set_peek i' (Some r), Ok tt)
    | (i', Raise StopIteration) => (set_peek i' None, Ok tt)
    | (i', Raise e) => (i', Raise e)
    end.

  (* PeekableIterator.__next__ *)
  Definition peek_next (i : input) : input * res R :=
    match peek i with
    | None => (i, Raise StopIteration)
    | Some to_return =>
      match update_peek i with
      | (i', Ok _) => (i', Ok to_return)
      | (i', Raise e) => (i', Raise e)
      end
    end.

  Definition fresh (xs : list R) : input :=
    {| consumed := 0; rest := xs; last_rec := None; peek := None |}.

  (* LocatableOverlapIterator.__init__: wrap every input; the peekable
     wrapper pulls the first element *)
  Fixpoint init_inputs (xss : list (list R)) : res (list input) :=
    match xss with
    | [] => Ok []
    | xs :: r =>
      match update_peek (fresh xs) with
      | (i, Ok _) => match init_inputs r with Ok is => Ok (i :: is) | Raise e => Raise e end
      | (_, Raise e) => Raise e
      end
    end.

  (* __to_sort_key: self._sort_key(rec) if rec else None *)
  Definition to_sort_key (p : option R) : res (option key) :=
    match p with
    | Some r => if truthy r then match keyf r with Ok k => Ok (Some k) | Raise e => Raise e end
                else Ok None
    | None => Ok None
    end.

  Fixpoint head_keys (ins : list input) : res (list (option key)) :=
    match ins with
    | [] => Ok []
    | i :: r =>
      match to_sort_key (peek i) with
      | Raise e => Raise e
      | Ok k => match head_keys r with Ok ks => Ok (k :: ks) | Raise e => Raise e end
      end
    end.

  (* [k for k in keys if k] : key objects are always true, None is false *)
  Fixpoint present (ks : list (option key)) : list key :=
    match ks with
    | [] => []
    | Some k :: r => k :: present r
    | None :: r => present r
    end.

  (* builtin min: keeps the first of equal minima (replaces on item < best) *)
  Fixpoint min_from (best : key) (l : list key) : key :=
    match l with
    | [] => best
    | k :: r => min_from (if key_lt k best then k else best) r
    end.

  (* __overlaps (class part compared by cls_eqb, which the instance chooses
     according to by_barcodes) *)
  Definition overlaps (min_key cur_key : key) : bool :=
    cls_eqb (kcls min_key) (kcls cur_key)
    && (kstart min_key <=? kstart cur_key) && (kstart cur_key <=? kend min_key).

  (* per input during one __next__: the wrapped iterator, keys[i], records[i] *)
  Record cell := { c_in : input; c_key : option key; c_slot : list R }.

  (* one pass of `for i, _iter in enumerate(self._iters)` *)
  Fixpoint sweep (mk : key) (added : bool) (cells : list cell)
    : list cell * key * bool * option exn :=
    match cells with
    | [] => ([], mk, added, None)
    | c :: tl =>
      let skip :=
        let '(tl', mk', added', ex) := sweep mk added tl in (c :: tl', mk', added', ex) in
      match peek (c_in c) with
      | None => skip
      | Some rec =>
        if truthy rec then
          match (match c_key c with Some k => Ok k | None => keyf rec end) with
          | Raise e => (c :: tl, mk, added, Some e)
          | Ok k =>
            if overlaps mk k then
              match peek_next (c_in c) with
              | (i', Raise e) =>
                ({| c_in := i'; c_key := Some k; c_slot := c_slot c |} :: tl, mk, added, Some e)
              | (i', Ok next_rec) =>
                let mk1 := if kend mk <? kend k then with_end mk (kend k) else mk in
                let c' := {| c_in := i'; c_key := None; c_slot := c_slot c ++ [next_rec] |} in
                let '(tl', mk', added', ex) := sweep mk1 true tl in
                (c' :: tl', mk', added', ex)
              end
            else
              let c1 := {| c_in := c_in c; c_key := Some k; c_slot := c_slot c |} in
              let '(tl', mk', added', ex) := sweep mk added tl in
              (c1 :: tl', mk', added', ex)
          end
        else skip
      end
    end.

  (* `while added:` *)
  Fixpoint group_loop (fuel : nat) (mk : key) (cells : list cell) : list cell * outcome unit :=
    match fuel with
    | O => (cells, OutOfFuel)
    | S f =>
      let '(cells', mk', added, ex) := sweep mk false cells in
      match ex with
      | Some e => (cells', Exc e)
      | None => if added then group_loop f mk' cells' else (cells', Done tt)
      end
    end.

  Definition remaining1 (i : input) : nat :=
    (length (rest i) + (match peek i with Some _ => 1 | None => 0 end))%nat.
  Definition remaining (ins : list input) : nat :=
    fold_right (fun i n => (remaining1 i + n)%nat) 0%nat ins.

  Fixpoint mk_cells (ins : list input) (ks : list (option key)) : list cell :=
    match ins, ks with
    | i :: ir, k :: kr => {| c_in := i; c_key := k; c_slot := [] |} :: mk_cells ir kr
    | _, _ => []
    end.

  (* LocatableOverlapIterator.__next__ *)
  Definition next_group (ins : list input) : list input * outcome (list (list R)) :=
    match head_keys ins with
    | Raise e => (ins, Exc e)
    | Ok keys =>
      match present keys with
      | [] => (ins, Exc StopIteration)              (* next(iter([...])) *)
      | k0 :: ks =>
        let min_key := min_from k0 ks in
        let '(cells, o) := group_loop (S (remaining ins)) min_key (mk_cells ins keys) in
        (map c_in cells,
         match o with
         | Done _ => Done (map c_slot cells)
         | Exc e => Exc e
         | OutOfFuel => OutOfFuel
         end)
      end
    end.

  (* ---------------- AlleleOverlapType and the allele-aware iterator -------- *)
  Variable rref : R -> str.
  Variable ralts : R -> list str.

  Inductive otype := Equality | Intersects | Subset.

  Fixpoint strs_eqb (a b : list str) : bool :=
    match a, b with
    | [], [] => true
    | x :: a', y :: b' => str_eqb x y && strs_eqb a' b'
    | _, _ => false
    end.
  Definition str_mem (x : str) (l : list str) : bool := existsb (str_eqb x) l.

  Definition alts_equality (base other : list str) : bool := strs_eqb base other.
  Definition alts_intersects (base other : list str) : bool :=
    existsb (fun i => str_mem i base) other || strs_eqb base other.
  Definition alts_subset (base other : list str) : bool :=
    forallb (fun i => str_mem i base) other.
  Definition compare_by (t : otype) : list str -> list str -> bool :=
    match t with
    | Equality => alts_equality
    | Intersects => alts_intersects
    | Subset => alts_subset
    end.

  Variable ot : otype.

  (* __should_add *)
  Definition should_add (items : list R) (other : R) : bool :=
    existsb (fun item => str_eqb (rref item) (rref other)
                         && compare_by ot (ralts item) (ralts other)) items.

  (* the `for _items in self._list_of_items` loop with its break:
     Some = appended to the first accepting class, None = no class accepted *)
  Fixpoint place (classes : list (list R)) (item : R) : option (list (list R)) :=
    match classes with
    | [] => None
    | c :: r =>
      if should_add c item then Some ((c ++ [item]) :: r)
      else match place r item with Some r' => Some (c :: r') | None => None end
    end.

  (* `while _iter:` partition of the first slot *)
  Fixpoint partition_first (classes : list (list R)) (it : list R) : list (list R) :=
    match it with
    | [] => classes
    | item :: r =>
      match place classes item with
      | Some cl' => partition_first cl' r
      | None =>
        if truthy item then partition_first (classes ++ [[item]]) r   (* if item: *)
        else partition_first classes r
      end
    end.

  Record astate := { a_ins : list input;
                     a_items : option (list (list R));   (* _list_of_items *)
                     a_others : list (list R) }.         (* _other_iters *)

  (* iters = super().__next__(); while not iters[0]: iters = super().__next__() *)
  Fixpoint first_nonempty (fuel : nat) (ins : list input) : list input * outcome (list (list R)) :=
    match fuel with
    | O => (ins, OutOfFuel)
    | S f =>
      match next_group ins with
      | (ins', Done g) =>
        match g with
        | [] => (ins', Exc IndexError)
        | [] :: _ => first_nonempty f ins'
        | (_ :: _) :: _ => (ins', Done g)
        end
      | (ins', o) => (ins', o)
      end
    end.

  Definition items_falsy (o : option (list (list R))) : bool :=
    match o with None | Some [] => true | Some (_ :: _) => false end.

  Definition emit (st : astate) : astate * outcome (list (list R)) :=
    match a_items st with
    | Some (items :: tl) =>
      ({| a_ins := a_ins st; a_items := Some tl; a_others := a_others st |},
       Done (items :: map (filter (should_add items)) (a_others st)))
    | _ => (st, Exc AssertionError)                  (* assert len(...) > 0 *)
    end.

  (* LocatableByAlleleOverlapIterator.__next__ *)
  Definition allele_next (st : astate) : astate * outcome (list (list R)) :=
    if items_falsy (a_items st) then
      match first_nonempty (S (remaining (a_ins st))) (a_ins st) with
      | (ins', Done g) =>
        emit {| a_ins := ins';
                a_items := Some (partition_first [] (hd [] g));
                a_others := tl g |}
      | (ins', Exc e) =>
        ({| a_ins := ins'; a_items := a_items st; a_others := a_others st |}, Exc e)
      | (ins', OutOfFuel) =>
        ({| a_ins := ins'; a_items := a_items st; a_others := a_others st |}, OutOfFuel)
      end
    else emit st.

  (* ---------------- whole runs -------------------------------------------- *)
  (* list(iterator): call next until StopIteration; any other exception ends
     the run.  `fuel` bounds the number of calls. *)
  Fixpoint run_all (fuel : nat) (ins : list input) : outcome (list (list (list R))) :=
    match fuel with
    | O => OutOfFuel
    | S f =>
      match next_group ins with
      | (ins', Done g) =>
        match run_all f ins' with
        | Done gs => Done (g :: gs)
        | o => o
        end
      | (_, Exc StopIteration) => Done []
      | (_, Exc e) => Exc e
      | (_, OutOfFuel) => OutOfFuel
      end
    end.

  Definition total (xss : list (list R)) : nat := length (concat xss).

  (* list(LocatableOverlapIterator(inputs, ...)) *)
  Definition overlap_iter (xss : list (list R)) : outcome (list (list (list R))) :=
    match init_inputs xss with
    | Raise e => Exc e
    | Ok ins => run_all (S (total xss)) ins
    end.

  Fixpoint arun_all (fuel : nat) (st : astate) : outcome (list (list (list R))) :=
    match fuel with
    | O => OutOfFuel
    | S f =>
      match allele_next st with
      | (st', Done g) =>
        match arun_all f st' with
        | Done gs => Done (g :: gs)
        | o => o
        end
      | (_, Exc StopIteration) => Done []
      | (_, Exc e) => Exc e
      | (_, OutOfFuel) => OutOfFuel
      end
    end.

  Definition allele_iter (xss : list (list R)) : outcome (list (list (list R))) :=
    match init_inputs xss with
    | Raise e => Exc e
    | Ok ins => arun_all (S (total xss)) {| a_ins := ins; a_items := None; a_others := [] |}
    end.
End Overlap.

Arguments key : clear implicits.
Arguments input : clear implicits.
Arguments cell : clear implicits.
Arguments astate : clear implicits.

(* ======================= concrete instance =============================== *)
(* python str comparison: lexicographic by code point *)
Fixpoint str_cmp (a b : str) : comparison :=
  match a, b with
  | [], [] => Eq
  | [], _ :: _ => Lt
  | _ :: _, [] => Gt
  | x :: a', y :: b' => match N.compare x y with Eq => str_cmp a' b' | c => c end
  end.

(* records as overlap iteration sees them (plain Locatable[ByAllele] objects or
   MafRecords): identity tag, truth value, the two barcodes (record.value(...):
   None when the column is absent or a nullable typed column is empty),
   chromosome name, start, end, reference allele, alternate alleles *)
Record orec := { rid : Z; rtruthy : bool; rtumor : option str; rnormal : option str;
                 rchr : str; rstart : Z; rend : Z; oref : str; oalts : list str }.

(* chromosome component of a key: index in the contig list when one is
   configured, else the name *)
Inductive chromk := CRank (n : nat) | CName (s : str).
Record ccls := { cbar : option (option str * option str); cchr : chromk }.

Record cfg := { by_barcodes : bool; contigs : list str }.

(* [str(c) for c in contigs].index(chromosome) *)
Fixpoint index_of (s : str) (l : list str) : option nat :=
  match l with
  | [] => None
  | x :: r => if str_eqb s x then Some 0%nat
              else match index_of s r with Some n => Some (S n) | None => None end
  end.

(* _CoordinateKey.__init__ / _BarcodesAndCoordinateKey.__init__ *)
Definition okey (c : cfg) (r : orec) : res (key ccls) :=
  let bar := if by_barcodes c then Some (rtumor r, rnormal r) else None in
  match contigs c with
  | [] => Ok {| kcls := {| cbar := bar; cchr := CName (rchr r) |}; kstart := rstart r; kend := rend r |}
  | _ :: _ =>
    match index_of (rchr r) (contigs c) with
    | Some n => Ok {| kcls := {| cbar := bar; cchr := CRank n |}; kstart := rstart r; kend := rend r |}
    | None => Raise ValueError
    end
  end.

Definition chromk_cmp (a b : chromk) : comparison :=
  match a, b with
  | CRank x, CRank y => Nat.compare x y
  | CName x, CName y => str_cmp x y
  | CRank _, CName _ => Lt          (* never mixed under one configuration *)
  | CName _, CRank _ => Gt
  end.
(* SortOrderKey.compare on one barcode: None sorts after every text *)
Definition ostr_cmp (a b : option str) : comparison :=
  match a, b with
  | None, None => Eq
  | None, Some _ => Gt
  | Some _, None => Lt
  | Some x, Some y => str_cmp x y
  end.
Definition bar_cmp (a b : option (option str * option str)) : comparison :=
  match a, b with
  | None, None => Eq
  | None, Some _ => Lt              (* never mixed under one configuration *)
  | Some _, None => Gt
  | Some (t1, n1), Some (t2, n2) =>
    match ostr_cmp t1 t2 with Eq => ostr_cmp n1 n2 | c => c end
  end.
(* _BarcodesAndCoordinateKey.__cmp__ prefix: tumor, normal, then chromosome *)
Definition ccls_cmp (a b : ccls) : comparison :=
  match bar_cmp (cbar a) (cbar b) with Eq => chromk_cmp (cchr a) (cchr b) | c => c end.

Definition chromk_eqb (a b : chromk) : bool :=
  match a, b with
  | CRank x, CRank y => Nat.eqb x y
  | CName x, CName y => str_eqb x y
  | _, _ => false
  end.
(* python == on one barcode (None == None) *)
Definition ostr_eqb (a b : option str) : bool :=
  match a, b with
  | None, None => true
  | Some x, Some y => str_eqb x y
  | _, _ => false
  end.
Definition bar_eqb (a b : option (option str * option str)) : bool :=
  match a, b with
  | None, None => true
  | Some (t1, n1), Some (t2, n2) => ostr_eqb t1 t2 && ostr_eqb n1 n2
  | _, _ => false
  end.
(* __overlaps_with_barcode: tumor ==, normal ==, chromosome == ;
   __overlaps: chromosome == only (keys then carry no barcodes) *)
Definition ccls_eqb (a b : ccls) : bool := bar_eqb (cbar a) (cbar b) && chromk_eqb (cchr a) (cchr b).

Definition o_next_group (c : cfg) := next_group rtruthy ccls_cmp ccls_eqb (okey c).
Definition o_init (c : cfg) := init_inputs rtruthy ccls_cmp (okey c).
Definition o_overlap_iter (c : cfg) := overlap_iter rtruthy ccls_cmp ccls_eqb (okey c).
Definition o_allele_next (c : cfg) (t : otype) :=
  allele_next rtruthy ccls_cmp ccls_eqb (okey c) oref oalts t.
Definition o_allele_iter (c : cfg) (t : otype) :=
  allele_iter rtruthy ccls_cmp ccls_eqb (okey c) oref oalts t.
