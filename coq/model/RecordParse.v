(* RecordParse.v - model of MafRecord.from_line and MafRecord.validate
   (maflib/record.py), MafColumnRecord.validate / MafCustomColumnRecord.validate
   and build (maflib/column.py), and the MafScheme lookups they use
   (maflib/schemes.py), over the MafRecord container of RecordOps.v.

   The model is generic over a *column semantics* `colsem`: what building a
   typed column class from a field text yields, whether the class's custom
   __validate__ objects, how the built column prints, and the subclass test.
   The untyped class MafColumnRecord (value = the text itself, no custom
   validation) is built in. *)
From MafVerif Require Import lib.Base lib.Str model.RecordOps model.Validation model.Header.

Section RecordParse.
  Context {C W : Type}.       (* typed column classes; values built by typed classes *)

  (* a column class: MafColumnRecord itself, or a class of column_types.py /
     one synthesised for a scheme column *)
  Inductive cls := CPlain | CTyped (c : C).

  Record colsem := {
    (* cls.build(name=..., value=text, column_index=...): None when it raises
       (any Exception: the nullable lookup, __build__, the constructor) *)
    cs_build : C -> str -> option W;
    (* MafCustomColumnRecord.validate: the value is not one of the nullable
       values and __validate__ returned a message *)
    cs_invalid : C -> W -> bool;
    (* str(column) (null spelling or __string_it__); None when it raises *)
    cs_str : C -> W -> option str;
    (* isinstance(column of class a, class b) *)
    cs_isinst : cls -> cls -> bool;
    (* what the coordinate accessors see: None when column.value is None, else
       str(column.value); and int(column.value) when that succeeds *)
    cs_key_text : C -> W -> option str;
    cs_key_int : C -> W -> option Z
  }.
  Variable sem : colsem.

  (* what a column object holds besides key and index: its class and value,
     its own validation_errors list, and the object's identity (python's
     `is`): a record keeps a column both in its name map and in its slot list,
     the model keeps two copies, and `poid` says which copies are one object.
     from_line gives the column built for position i the identity i. *)
  Inductive pvalue := PPlain (s : str) | PTyped (c : C) (w : W).
  Record payload := { pv : pvalue; perrs : list verr; poid : Z }.
  Notation column := (col payload).
  Notation scheme := (scheme cls).

  Definition cls_of (p : pvalue) : cls :=
    match p with PPlain _ => CPlain | PTyped c _ => CTyped c end.

  (* str(column): MafColumnRecord.__str__ of a text value is the text *)
  Definition col_text (p : pvalue) : option str :=
    match p with PPlain s => Some s | PTyped c w => cs_str sem c w end.

  (* ---------- MafScheme lookups ---------- *)
  Definition s_names (s : scheme) : list str := map fst (s_cols s).
  Definition s_class (s : scheme) (name : str) : option cls := assoc name (s_cols s).
  Fixpoint index_of (name : str) (l : list str) (i : Z) : option Z :=
    match l with
    | [] => None
    | x :: r => if str_eqb name x then Some i else index_of name r (i + 1)
    end.
  Definition s_index (s : scheme) (name : str) : option Z := index_of name (s_names s) 0.
  Definition s_len (s : scheme) : Z := Z.of_nat (length (s_cols s)).
  (* `if scheme:` - MafScheme defines __len__ *)
  Definition s_truthy (s : scheme) : bool := nonempty (s_cols s).

  (* NoRestrictionsScheme(column_names): OrderedDict((name, MafColumnRecord)
     for name in column_names) - a repeated name keeps its first position *)
  Definition no_restrictions (names : list str) : scheme :=
    {| s_version := NO_VERSION; s_annot := NO_ANNOT;
       s_cols := fold_left (fun d n => dset n CPlain d) names [];
       s_norestr := true |}.

  (* ---------- column validation ---------- *)
  Definition is_sep (ch : char) : bool := N.eqb ch TAB || N.eqb ch CR || N.eqb ch LF.
  Definition has_sep (t : str) : bool := existsb is_sep t.

  (* MafCustomColumnRecord.validate followed by MafColumnRecord.validate: the
     column's validation_errors list afterwards (which is also what is returned) *)
  Definition column_validate (c : column) (reset : bool) (sch : option scheme) (ln : option Z)
    : list verr :=
    let e0 := if reset then [] else perrs (cval c) in
    let e1 := match pv (cval c) with
              | PTyped k w => if cs_invalid sem k w then [mkerr T_RECORD_COLUMN_WRONG_FORMAT ln] else []
              | PPlain _ => []
              end in
    (* try: text = str(self) except Exception: text = "" *)
    let text := match col_text (pv (cval c)) with Some t => t | None => [] end in
    let e2 := if has_sep text then [mkerr T_RECORD_INVALID_COLUMN_VALUE ln] else [] in
    let e3 :=
      match sch with
      | None => []
      | Some s =>
          if negb (s_truthy s) then []
          else
            match s_index s (ckey c) with
            | None => [mkerr T_SCHEME_MISMATCHING_COLUMN_NAMES ln]
            | Some si =>
                if match cidx c with Some ci => negb (si =? ci) | None => false end
                then [mkerr T_RECORD_COLUMN_OUT_OF_ORDER ln]
                else match s_class s (ckey c) with
                     | Some k => if cs_isinst sem (cls_of (pv (cval c))) k then []
                                 else [mkerr T_RECORD_COLUMN_WRONG_FORMAT ln]
                     | None => []
                     end
            end
      end in
    e0 ++ e1 ++ e2 ++ e3.

  Definition with_perrs (c : column) (errs : list verr) : column :=
    {| ckey := ckey c; cidx := cidx c;
       cval := {| pv := pv (cval c); perrs := errs; poid := poid (cval c) |} |}.

  (* ---------- MafRecord with its bookkeeping ---------- *)
  Record mrec := {
    mline : option Z;              (* __line_number *)
    mcols : rec payload;           (* __columns_dict / __columns_list *)
    merrs : list verr;             (* validation_errors *)
    mmode : mode                   (* validation_stringency *)
  }.

  Definition mrec_new (ln : option Z) (m : option mode) : mrec :=
    {| mline := ln; mcols := empty_rec; merrs := [];
       mmode := match m with None => Silent | Some x => x end |}.

  (* the loop over __columns_list in validate: errors added, whether a None
     slot was seen, and the columns with their own error lists updated *)
  Fixpoint validate_slots (slots : list (option column)) (i : Z) (reset : bool)
           (sch : option scheme) (ln : option Z)
    : list verr * bool * list (option column) :=
    match slots with
    | [] => ([], false, [])
    | None :: rest =>
        let '(es, _, rest') := validate_slots rest (i + 1) reset sch ln in
        (mkerr T_RECORD_COLUMN_WITH_NO_VALUE ln :: es, true, None :: rest')
    | Some c :: rest =>
        let ce := column_validate c reset sch None in
        let '(es, fn, rest') := validate_slots rest (i + 1) reset sch ln in
        (ce ++ es, fn, Some (with_perrs c ce) :: rest')
    end.

  (* the self-consistency block of validate (run when no slot is None; repaired
     code: problems are validation errors, not assertions).
     `self.__columns_dict.get(column.key) is not column` compares object
     identities: the column the name map holds under the slot column's (current)
     key must be that very object *)
  Definition slot_in_sync (d : list (str * column)) (o : option column) : bool :=
    match o with
    | None => true
    | Some c =>
        match assoc (ckey c) d with
        | Some c' => poid (cval c') =? poid (cval c)
        | None => false
        end
    end.

  (* `if column_index != column.column_index` for every slot *)
  Fixpoint index_sync_errs (slots : list (option column)) (i : Z) (ln : option Z) : list verr :=
    match slots with
    | [] => []
    | None :: rest => index_sync_errs rest (i + 1) ln
    | Some c :: rest =>
        (if match cidx c with Some ci => ci =? i | None => false end then []
         else [mkerr T_RECORD_COLUMN_INDEX_OUT_OF_SYNC ln])
        ++ index_sync_errs rest (i + 1) ln
    end.

  Definition sync_errs (r : rec payload) (ln : option Z) : list verr :=
    (if negb (Nat.eqb (length (rdict r)) (length (rlist r)))
        || negb (forallb (slot_in_sync (rdict r)) (rlist r))
     then [mkerr T_RECORD_OUT_OF_SYNC ln] else [])
    ++ index_sync_errs (rlist r) 0 ln.

  (* MafRecord.validate *)
  Definition record_validate (r : mrec) (m : option mode) (lg : logger) (reset : bool)
             (sch : option scheme) : out mrec :=
    let errs0 := if reset then [] else merrs r in
    let m' := match m with None => mmode r | Some x => x end in
    let e_count :=
      match sch with
      | Some s => if s_truthy s && negb (s_len s =? rlen (mcols r))
                  then [mkerr T_RECORD_MISMATCH_NUMBER_OF_COLUMNS None] else []
      | None => []
      end in
    let '(es, found_none, slots') := validate_slots (rlist (mcols r)) 0 reset sch (mline r) in
    let e_sync := if found_none then [] else sync_errs (mcols r) (mline r) in
    let errs := errs0 ++ e_count ++ es ++ e_sync in
    let upd (c : column) := with_perrs c (column_validate c reset sch None) in
    let cols' := {| rdict := map (fun kc => (fst kc, upd (snd kc))) (rdict (mcols r));
                    rlist := slots' |} in
    let r' := {| mline := mline r; mcols := cols'; merrs := errs; mmode := mmode r |} in
    obind (process m' lg errs) (fun _ => oret r').

  (* the loop of from_line over zip(column_names, column_values) *)
  Fixpoint from_line_loop (i : Z) (nvs : list (str * str)) (sch : option scheme) (ln : option Z)
           (r : rec payload) (errs : list verr) : res (rec payload * list verr) :=
    match nvs with
    | [] => Ok (r, errs)
    | (name, text) :: rest =>
        (* scheme.column_class(name=column_name) if scheme else None *)
        let sclass := match sch with
                      | Some s => if s_truthy s then s_class s name else None
                      | None => None
                      end in
        let built : option pvalue :=
          match sclass with
          | None | Some CPlain => Some (PPlain text)
          | Some (CTyped k) => option_map (PTyped k) (cs_build sem k text)
          end in
        match built with
        | None =>                                     (* except Exception as error *)
            from_line_loop (i + 1) rest sch ln r (errs ++ [mkerr T_RECORD_INVALID_COLUMN_VALUE ln])
        | Some p =>
            let c0 : column := {| ckey := name; cidx := Some i;
                                  cval := {| pv := p; perrs := []; poid := i |} |} in
            let ce := column_validate c0 true sch ln in
            match ce with
            | [] =>
                match setitem r (KStr name) (with_perrs c0 ce) with    (* record[column_name] = column *)
                | (r', Ok _) => from_line_loop (i + 1) rest sch ln r' (errs ++ ce)
                | (_, Raise e) => Raise e
                end
            | _ => from_line_loop (i + 1) rest sch ln r (errs ++ ce)
            end
        end
    end.

  (* zip *)
  Fixpoint zip {X Y} (a : list X) (b : list Y) : list (X * Y) :=
    match a, b with
    | x :: a', y :: b' => (x, y) :: zip a' b'
    | _, _ => []
    end.

  (* MafRecord.from_line *)
  Definition from_line (line : str) (column_names : option (list str)) (sch : option scheme)
             (ln : option Z) (m : option mode) (lg : logger) : out mrec :=
    let r0 := mrec_new ln m in
    match (match column_names with
           | Some ns => Ok ns
           | None => match sch with
                     | None => Raise ValueError
                     | Some s => Ok (s_names s)
                     end
           end) with
    | Raise e => oraise e
    | Ok names =>
        let values := split TAB (rstrip_crlf line) in
        if negb (Nat.eqb (length names) (length values)) then
          record_validate
            {| mline := ln; mcols := mcols r0;
               merrs := [mkerr T_RECORD_MISMATCH_NUMBER_OF_COLUMNS ln]; mmode := mmode r0 |}
            None lg false None
        else
          match from_line_loop 0 (zip names values) sch ln (mcols r0) [] with
          | Raise e => oraise e
          | Ok (cols, errs) =>
              record_validate {| mline := ln; mcols := cols; merrs := errs; mmode := mmode r0 |}
                              None lg false None
          end
    end.
End RecordParse.

Arguments cls : clear implicits.
Arguments colsem : clear implicits.
Arguments pvalue : clear implicits.
Arguments payload : clear implicits.
Arguments mrec : clear implicits.
