(* extraction of the documented zones (zone2 of proofs/ColumnFacts2.v) for the
   cross-check against harness/colspec.py (harness/c01_zones_check.py).
   case   := (descr text ftab utab)
   descr  := (0 nonempty nullable) | (1 (lo)? nullable) | (2) | (3) | (4 nullable)
           | (5 enum cap ((key idx) ...) nullable) | (6 nullable) | (7 nullable)
           | (8) | (9) | (10) | (11 elem) | (12 base)
   tables := ((text (repr)?) ...)      float oracle, uuid oracle
   result := (0 pyval) accept | (1) reject | (2) dontcare        pyval as in ColumnsDispatch.v *)
From Coq Require Extraction ExtrOcamlBasic.
From Coq Require Import String Ascii.
From MafVerif Require Import lib.Base lib.Str model.Classes model.Columns model.ColumnsDispatch
     spec.SpecLayouts proofs.ColumnFacts proofs.ColumnFacts2.

Definition dec_null (s : sexp) : option (string * nat) :=
  match s with
  | L [k; A i] => option_map (fun x => (l2s x, Z.to_nat i)) (as_str k)
  | _ => None
  end.

Fixpoint dec_descr (fuel : nat) (s : sexp) : option descr :=
  match fuel with
  | O => None
  | S f =>
      match s with
      | L [A 0; a; b] => match as_bool a, as_bool b with Some x, Some y => Some (DText x y) | _, _ => None end
      | L [A 1; lo; b] => match as_opt as_Z lo, as_bool b with Some x, Some y => Some (DInt x y) | _, _ => None end
      | L [A 2] => Some DEntrez
      | L [A 3] => Some DTextOrInt
      | L [A 4; b] => option_map DFloat (as_bool b)
      | L [A 5; e; c; L ns; b] =>
          match as_str e, as_bool c, opt_all (map dec_null ns), as_bool b with
          | Some e', Some c', Some ns', Some b' => Some (DEnum (l2s e') c' ns' b')
          | _, _, _, _ => None
          end
      | L [A 6; b] => option_map DDna (as_bool b)
      | L [A 7; b] => option_map DUuid (as_bool b)
      | L [A 8] => Some DCanonical
      | L [A 9] => Some DBool
      | L [A 10] => Some DStrand
      | L [A 11; e] => option_map DSeq (dec_descr f e)
      | L [A 12; b] => option_map DMustNull (dec_descr f b)
      | _ => None
      end
  end.

Definition enc_zone (z : zres) : sexp :=
  match z with ZAccept v => L [A 0; enc_val v] | ZReject => L [A 1] | ZDontCare => L [A 2] end.

Definition dispatch (s : sexp) : sexp :=
  match s with
  | L [d; t; ft; ut] =>
      match dec_descr 8 d, as_str t, dec_table ft, dec_table ut with
      | Some d', Some t', Some ft', Some ut' => enc_zone (zone2 (mk_oracles ft' ut') d' t')
      | _, _, _, _ => s_bad
      end
  | _ => s_bad
  end.

Extraction "x_zones.ml" dispatch.
