(* extraction of the "sorter" cluster; output lands in the directory coqc runs in *)
From Coq Require Extraction ExtrOcamlBasic.
From MafVerif Require Import model.SorterDispatch.
Extraction "x_sorter.ml" dispatch.
