(* extraction of the "reader" cluster; output lands in the directory coqc runs in *)
From Coq Require Extraction ExtrOcamlBasic.
From MafVerif Require Import model.ReaderDispatch.
Extraction "x_reader.ml" dispatch.
