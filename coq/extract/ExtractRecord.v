(* extraction of the "record" cluster; output lands in the directory coqc runs in *)
From Coq Require Extraction ExtrOcamlBasic.
From MafVerif Require Import model.RecordDispatch.
Extraction "x_record.ml" dispatch.
