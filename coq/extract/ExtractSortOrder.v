(* extraction of the "sortorder" cluster; output lands in the directory coqc runs in *)
From Coq Require Extraction ExtrOcamlBasic.
From MafVerif Require Import model.SortOrderDispatch.
Extraction "x_sortorder.ml" dispatch.
