(* extraction of the "fileio" cluster; output lands in the directory coqc runs in *)
From Coq Require Extraction ExtrOcamlBasic.
From MafVerif Require Import model.FileIODispatch.
Extraction "x_fileio.ml" dispatch.
