(* extraction of the "overlap" cluster (C11, C12, C19); output lands in the directory coqc runs in *)
From Coq Require Extraction ExtrOcamlBasic.
From MafVerif Require Import model.OverlapDispatch.
Extraction "x_overlap.ml" dispatch.
