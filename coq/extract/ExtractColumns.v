(* extraction of the "columns" cluster *)
From Coq Require Extraction ExtrOcamlBasic.
From MafVerif Require Import model.ColumnsDispatch.
Extraction "x_columns.ml" dispatch.
