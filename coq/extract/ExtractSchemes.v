(* extraction of the "schemes" cluster (C14, C20); output lands in the directory coqc runs in *)
From Coq Require Extraction ExtrOcamlBasic.
From MafVerif Require Import model.SchemesDispatch.
Extraction "x_schemes.ml" dispatch.
