(* ShapeFacts.v - the classes the regenerated layouts put at each pinned
   position resolve (C3 MRO over the regenerated class table) to the shape the
   per-domain lemmas of ColumnFacts.v are about. *)
From Coq Require Import String Ascii.
From MafVerif Require Import lib.Base lib.Str lib.PyInt gen.GenClasses gen.GenEnums gen.GenSchemas
     model.Classes model.Columns model.Layouts spec.SpecLayouts proofs.LayoutFacts proofs.ColumnFacts.
Open Scope string_scope.

Fixpoint lstring_eqb (a b : list string) : bool :=
  match a, b with
  | [], [] => true
  | x :: a', y :: b' => String.eqb x y && lstring_eqb a' b'
  | _, _ => false
  end.
Lemma lstring_eqb_eq a b : lstring_eqb a b = true -> a = b.
Proof.
  revert b; induction a as [|x a IH]; intros [|y b]; simpl; try discriminate; auto.
  intros H. apply andb_true_iff in H as [H1 H2]. apply String.eqb_eq in H1. subst. f_equal. auto.
Qed.

Definition optZ_eqb (a b : option Z) : bool :=
  match a, b with Some x, Some y => Z.eqb x y | None, None => true | _, _ => false end.
Lemma optZ_eqb_eq a b : optZ_eqb a b = true -> a = b.
Proof. destruct a, b; simpl; try discriminate; auto. intros H. apply Z.eqb_eq in H. now subst. Qed.

Definition optS_eqb (a b : option string) : bool :=
  match a, b with Some x, Some y => String.eqb x y | None, None => true | _, _ => false end.
Lemma optS_eqb_eq a b : optS_eqb a b = true -> a = b.
Proof. destruct a, b; simpl; try discriminate; auto. intros H. apply String.eqb_eq in H. now subst. Qed.

(* only the null values that occur in nullable dicts *)
Definition nullval_eqb (a b : pyval) : bool :=
  match a, b with
  | VNone, VNone => true
  | VList [], VList [] => true
  | VEnum e i, VEnum f j => String.eqb e f && Nat.eqb i j
  | _, _ => false
  end.
Lemma nullval_eqb_eq a b : nullval_eqb a b = true -> a = b.
Proof.
  destruct a, b; simpl; try discriminate; auto;
    repeat match goal with
    | |- context [match ?l with [] => _ | _ :: _ => _ end] => destruct l
    end; try discriminate; auto.
  intros H. apply andb_true_iff in H as [H1 H2]. apply String.eqb_eq in H1. apply Nat.eqb_eq in H2. now subst.
Qed.

Fixpoint nd_eqb (a b : list (str * pyval)) : bool :=
  match a, b with
  | [], [] => true
  | (k, v) :: a', (k', v') :: b' => seqb k k' && nullval_eqb v v' && nd_eqb a' b'
  | _, _ => false
  end.
Lemma nd_eqb_eq a b : nd_eqb a b = true -> a = b.
Proof.
  revert b; induction a as [|[k v] a IH]; intros [|[k' v'] b]; simpl; try discriminate; auto.
  intros H. apply andb_true_iff in H as [H H3]. apply andb_true_iff in H as [H1 H2].
  apply seqb_eq in H1. apply nullval_eqb_eq in H2. subst. f_equal. auto.
Qed.

Definition optnd_eqb (a b : option (list (str * pyval))) : bool :=
  match a, b with Some x, Some y => nd_eqb x y | None, None => true | _, _ => false end.
Lemma optnd_eqb_eq a b : optnd_eqb a b = true -> a = b.
Proof. destruct a, b; simpl; try discriminate; auto. intros H. apply nd_eqb_eq in H. now subst. Qed.

Definition ecls_eqb (a b : ecls) : bool :=
  Bool.eqb (e_custom a) (e_custom b) && optnd_eqb (e_null a) (e_null b)
  && optZ_eqb (e_min a) (e_min b) && optZ_eqb (e_max a) (e_max b) && optS_eqb (e_enum a) (e_enum b)
  && lstring_eqb (e_build a) (e_build b) && lstring_eqb (e_validate a) (e_validate b)
  && lstring_eqb (e_string_it a) (e_string_it b).
Lemma ecls_eqb_eq a b : ecls_eqb a b = true -> a = b.
Proof.
  unfold ecls_eqb. intros H.
  repeat match type of H with _ && _ = true => apply andb_true_iff in H; destruct H as [H ?] end.
  apply Bool.eqb_prop in H.
  destruct a, b; simpl in *.
  repeat match goal with
  | H : optnd_eqb _ _ = true |- _ => apply optnd_eqb_eq in H
  | H : optZ_eqb _ _ = true |- _ => apply optZ_eqb_eq in H
  | H : optS_eqb _ _ = true |- _ => apply optS_eqb_eq in H
  | H : lstring_eqb _ _ = true |- _ => apply lstring_eqb_eq in H
  end. subst. reflexivity.
Qed.

(* position-wise check of one pinned layout against the built one *)
Definition col_shape_ok (c : str * cref) (d : descr) : bool :=
  match resolve class_table (snd c) with
  | None => false
  | Some r =>
      match shape d with
      | Some e => ecls_eqb (r_self r) e && is_none (r_elem r)
      | None => true          (* domain kinds tied by the correspondence only *)
      end
  end.

Fixpoint forallb2 {X Y} (f : X -> Y -> bool) (a : list X) (b : list Y) : bool :=
  match a, b with
  | [], [] => true
  | x :: a', y :: b' => f x y && forallb2 f a' b'
  | _, _ => false
  end.

Lemma forallb2_nth {X Y} (f : X -> Y -> bool) a b i x y :
  forallb2 f a b = true -> nth_error a i = Some x -> nth_error b i = Some y -> f x y = true.
Proof.
  revert b i; induction a as [|x0 a IH]; intros [|y0 b] [|i]; simpl; try discriminate.
  - intros H Hx Hy. injection Hx as <-. injection Hy as <-. now apply andb_true_iff in H as [H _].
  - intros H Hx Hy. apply andb_true_iff in H as [_ H]. eauto.
Qed.

Definition shapes_match_in (ls : list layout) (sl : string * string * list (string * descr)) : bool :=
  let '(ver, annot, cols) := sl in
  match find_layout ls annot with
  | Some l => forallb2 col_shape_ok (l_cols l) (map snd cols)
  | None => false
  end.

Lemma all_shapes_match : forallb (shapes_match_in layouts_ok) spec_layouts = true.
Proof. vm_compute. reflexivity. Qed.

(* how many pinned positions are covered by the proved kinds *)
Definition covered_positions : nat * nat :=
  fold_left (fun acc sl => let '(_, _, cols) := sl in
                           fold_left (fun a c => (if is_some (shape (snd c)) then S (fst a) else fst a, S (snd a))) cols acc)
            spec_layouts (O, O).

(* the field-level theorem over all pinned positions is field_domain_as_documented_all in DomainAll.v *)
