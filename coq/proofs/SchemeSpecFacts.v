(* SchemeSpecFacts.v - from the model-level dichotomy of SchemeBuildFacts to
   the statements of C14 in terms of Spec: layouts, well-formedness, the ways
   of being ill-formed, one scheme per pair after load_all_schemes. *)
From Coq Require Import Permutation.
From MafVerif Require Import lib.Base lib.Str model.SchemeFactory spec.SpecSchemes
     proofs.SchemeFactoryFacts proofs.SchemeBuildFacts.

Section SpecFacts.
  Variable mixok : cls -> cls -> bool.
  Notation lay := (glayout (mcomb mixok)).

  Lemma layout_fuel_glayout n ds d :
    layout_fuel mixok n ds d = glayout (spec_combine mixok) n ds d.
  Proof.
    revert d. induction n as [|n IH]; intros d; [reflexivity|].
    simpl. destruct (base_name d); [|reflexivity].
    destruct (lookup_def ds s); [|reflexivity]. now rewrite IH.
  Qed.

  Lemma mcomb_spec base extras filtered :
    NoDup (map cname extras) -> NoDup (map fst base) ->
    mcomb mixok base extras filtered = spec_combine mixok base extras filtered.
  Proof.
    intros H1 H2. unfold mcomb. pose proof (combine_spec mixok base extras filtered H1 H2) as C.
    destruct (combine_columns mixok base extras filtered); now rewrite C.
  Qed.

  (* on definitions that declare every column once the two layouts coincide *)
  Lemma lay_eq_spec ds :
    clean_defs ds -> forall n d, In d ds ->
    lay n ds d = layout_fuel mixok n ds d /\
    forall l, layout_fuel mixok n ds d = Some l -> NoDup (map fst l).
  Proof.
    intros Cl. induction n as [|n IH]; intros d Hd; [split; [reflexivity|discriminate]|].
    simpl. destruct (base_name d) as [b|].
    - destruct (lookup_def ds b) as [p|] eqn:Lk; [|split; [reflexivity|discriminate]].
      apply lookup_def_some in Lk. destruct Lk as [Hp _].
      destruct (IH p Hp) as [E ND]. rewrite E.
      destruct (layout_fuel mixok n ds p) as [bl|]; [|split; [reflexivity|discriminate]].
      split.
      + apply mcomb_spec; [apply Cl; assumption|apply ND; reflexivity].
      + intros l Hl. eapply spec_combine_nodup; [apply Cl; exact Hd|apply ND; reflexivity|exact Hl].
    - split.
      + apply mcomb_spec; [apply Cl; assumption|constructor].
      + intros l Hl. eapply (spec_combine_nodup mixok []); [apply Cl; exact Hd|constructor|exact Hl].
  Qed.

  Lemma mwf_iff_wf ds : clean_defs ds -> (mwf mixok ds <-> wf_defs mixok ds).
  Proof.
    intros Cl. unfold mwf, wf_defs, layout. split; intros [ND W]; (split; [assumption|]);
      intros d Hd; destruct (W d Hd) as [l Hl]; exists l;
      destruct (lay_eq_spec ds Cl (length ds) d Hd) as [E _]; congruence.
  Qed.

  Lemma clean_defs_perm ds ds' : Permutation ds ds' -> clean_defs ds -> clean_defs ds'.
  Proof.
    intros P Cl d Hd. apply Cl. eapply Permutation_in; [apply Permutation_sym; exact P|exact Hd].
  Qed.

  (* ---------- (a) well-formed sets are built as the specification lays them out ---------- *)
  Theorem build_wf_layout ds :
    clean_defs ds -> wf_defs mixok ds ->
    exists m, build_schemes mixok ds = Ok m /\
      Permutation (map fst m) (map dannot ds) /\
      forall d, In d ds -> exists sc, assoc (dannot d) m = Some sc /\ expected_scheme mixok ds d sc.
  Proof.
    intros Cl W. apply (mwf_iff_wf ds Cl) in W.
    pose proof (build_dichotomy mixok ds) as D.
    destruct (build_schemes mixok ds) as [m|e]; [|contradiction].
    destruct D as [_ [P [_ A]]]. exists m. split; [reflexivity|split; [assumption|]].
    intros d Hd. destruct (A d Hd) as [l [E L]]. exists (sch d l). split; [assumption|].
    unfold expected_scheme, layout. simpl. repeat split.
    destruct (lay_eq_spec ds Cl (length ds) d Hd) as [Eq _]. congruence.
  Qed.

  Lemma not_mwf_raises ds ds' :
    ~ mwf mixok ds -> Permutation ds ds' -> exists e, build_schemes mixok ds' = Raise e.
  Proof.
    intros NW P. pose proof (build_dichotomy mixok ds') as D.
    destruct (build_schemes mixok ds') as [m|e]; [|now exists e].
    destruct D as [W _]. exfalso. apply NW. eapply mwf_perm; [apply Permutation_sym; exact P|exact W].
  Qed.

  (* ---------- (b) ill-formed sets are rejected in every order ---------- *)
  Theorem build_ill_formed ds ds' :
    clean_defs ds -> ~ wf_defs mixok ds -> Permutation ds ds' ->
    exists e, build_schemes mixok ds' = Raise e.
  Proof.
    intros Cl NW P. apply (not_mwf_raises ds ds'); [|assumption].
    intros W. apply NW. now apply (mwf_iff_wf ds Cl).
  Qed.

  Theorem duplicate_annotation_rejected ds ds' :
    duplicate_annotation ds -> Permutation ds ds' -> exists e, build_schemes mixok ds' = Raise e.
  Proof.
    intros Dup P. apply (not_mwf_raises ds ds'); [|assumption]. intros [ND _]. now apply Dup.
  Qed.

  Theorem unknown_base_rejected ds ds' :
    unknown_base ds -> Permutation ds ds' -> exists e, build_schemes mixok ds' = Raise e.
  Proof.
    intros [d [b [Hd [Bn Hno]]]] P. apply (not_mwf_raises ds ds'); [|assumption].
    intros [_ W]. destruct (W d Hd) as [l Hl].
    destruct (length ds) as [|n]; [discriminate|]. simpl in Hl. rewrite Bn in Hl.
    destruct (lookup_def ds b) as [p|] eqn:Lk; [|discriminate].
    apply lookup_def_some in Lk. destruct Lk as [Hp Ep]. now apply (Hno p Hp).
  Qed.

  Lemma chain_facts ds : forall l f last,
    chain ds f l last -> l <> [] ->
    In last l /\ (exists y, In y l /\ base_name f = Some (dannot y)) /\
    (forall x, In x l -> In x ds) /\
    (forall x, In x l -> x = last \/ exists y, In y l /\ base_name x = Some (dannot y)).
  Proof.
    induction l as [|x r IH]; intros f last C NE; [congruence|].
    simpl in C. destruct C as [Hx [Bf C]].
    destruct r as [|x' r'].
    - simpl in C. subst last. repeat split.
      + now left.
      + exists x. split; [now left|assumption].
      + intros y [Hy|[]]. now subst.
      + intros y [Hy|[]]. now left.
    - destruct (IH x last C) as [H1 [H2 [H3 H4]]]; [discriminate|]. repeat split.
      + now right.
      + exists x. split; [now left|assumption].
      + intros y [Hy|Hy]; [now subst|auto].
      + intros y [Hy|Hy].
        * subst y. right. destruct H2 as [z [Hz Bz]]. exists z. split; [now right|assumption].
        * destruct (H4 y Hy) as [E|[z [Hz Bz]]]; [now left|]. right. exists z. split; [now right|assumption].
  Qed.

  Theorem inheritance_cycle_rejected ds ds' :
    inheritance_cycle ds -> Permutation ds ds' -> exists e, build_schemes mixok ds' = Raise e.
  Proof.
    intros [d [l [Hd [NE C]]]] P. apply (not_mwf_raises ds ds'); [|assumption].
    intros [ND W].
    destruct (chain_facts ds l d d C NE) as [Hlast [Hfirst [Hsub Hnext]]].
    assert (Hclosed : forall x, In x l -> exists y, In y l /\ base_name x = Some (dannot y)).
    { intros x Hx. destruct (Hnext x Hx) as [E|H]; [subst; exact Hfirst|exact H]. }
    assert (Hall : forall n x, In x l -> lay n ds x = None).
    { induction n as [|n IHn]; intros x Hx; [reflexivity|].
      destruct (Hclosed x Hx) as [y [Hy By]]. simpl. rewrite By.
      rewrite (lookup_def_in ds y ND (Hsub y Hy)). now rewrite (IHn y Hy). }
    destruct (W d Hd) as [l0 Hl]. rewrite (Hall _ d Hlast) in Hl. discriminate.
  Qed.

  Theorem bad_combination_rejected ds ds' :
    clean_defs ds -> bad_combination mixok ds -> Permutation ds ds' ->
    exists e, build_schemes mixok ds' = Raise e.
  Proof.
    intros Cl [d [Hd Hbad]] P. apply (build_ill_formed ds ds' Cl); [|assumption].
    intros [ND W]. destruct (W d Hd) as [l Hl]. unfold layout in *.
    destruct (length ds) as [|n] eqn:Len; [discriminate|]. simpl in Hl.
    destruct (base_name d) as [b|]; [|congruence].
    destruct Hbad as [p [bl [Lk [Lp Hc]]]]. rewrite Lk in Hl.
    destruct (layout_fuel mixok n ds p) as [bl'|] eqn:Lp'; [|discriminate].
    rewrite !layout_fuel_glayout in *.
    rewrite (glayout_det _ _ _ _ _ _ _ Lp' Lp) in Hl. congruence.
  Qed.

  Lemma root_filter_missing_bad d :
    root_filter_missing d -> spec_combine mixok [] (dcolumns d) (dfiltered d) = None.
  Proof.
    intros [_ [fl [f [Hf [Hin Hnot]]]]]. unfold spec_combine. simpl. rewrite Hf.
    destruct (forallb _ fl) eqn:F; [|reflexivity].
    exfalso. rewrite forallb_forall in F. specialize (F f Hin). apply mem_in in F.
    apply Hnot. rewrite map_map in F. simpl in F.
    apply in_map_iff in F. destruct F as [c [Ec Hc]]. apply filter_In in Hc.
    apply in_map_iff. exists c. tauto.
  Qed.

  Theorem root_filter_missing_rejected ds ds' d :
    clean_defs ds -> In d ds -> root_filter_missing d -> Permutation ds ds' ->
    exists e, build_schemes mixok ds' = Raise e.
  Proof.
    intros Cl Hd Hr P. apply (bad_combination_rejected ds ds' Cl); [|assumption].
    exists d. split; [assumption|]. destruct Hr as [Bn Hr]. rewrite Bn.
    apply root_filter_missing_bad. split; assumption.
  Qed.

  (* ---------- the shape of a derived layout ---------- *)
  (* names: base names in base order, then the new names in declaration order,
     minus the filtered names; a redefined column sits where the base had it
     and carries the synthesised (extra, base) class *)
  Theorem spec_combine_names base extras filtered r :
    spec_combine mixok base extras filtered = Some r ->
    map fst r = filter (fun k => negb (match filtered with Some fl => mem k fl | None => false end))
                       (map fst base ++ filter (fun k => negb (mem k (map fst base))) (map cname extras)).
  Proof.
    unfold spec_combine. destruct (opt_all (map (override1 mixok extras) base)) as [over|] eqn:O; [|discriminate].
    pose proof (override1_keys mixok _ _ _ O) as K.
    assert (Hn : map fst (over ++ map (fun e => (cname e, e))
                   (filter (fun e => negb (mem (cname e) (map fst base))) extras))
                 = map fst base ++ filter (fun k => negb (mem k (map fst base))) (map cname extras)).
    { rewrite map_app, K, map_map. simpl. f_equal. clear O K.
      induction extras as [|e r' IH]; simpl; [reflexivity|].
      destruct (negb (mem (cname e) (map fst base))); simpl; now rewrite IH. }
    destruct filtered as [fl|].
    - destruct (forallb _ fl); [|discriminate]. intros H; inversion H; subst. rewrite <- Hn.
      generalize (over ++ map (fun e => (cname e, e)) (filter (fun e => negb (mem (cname e) (map fst base))) extras)).
      intros l. induction l as [|x l' IH]; simpl; [reflexivity|].
      destruct (negb (mem (fst x) fl)); simpl; now rewrite IH.
    - intros H; inversion H; subst. rewrite <- Hn.
      generalize (over ++ map (fun e => (cname e, e)) (filter (fun e => negb (mem (cname e) (map fst base))) extras)).
      intros l. induction l as [|x l' IH]; simpl; [reflexivity|f_equal; exact IH].
  Qed.

  Theorem spec_combine_redefined base extras r i k bc e :
    spec_combine mixok base extras None = Some r ->
    nth_error base i = Some (k, bc) ->
    find (fun e => str_eqb (cname e) k) extras = Some e ->
    exists c, nth_error r i = Some (k, c) /\ ccls c = CMix (ccls e) (ccls bc) /\ cdesc c = cdesc e.
  Proof.
    unfold spec_combine. destruct (opt_all (map (override1 mixok extras) base)) as [over|] eqn:O; [|discriminate].
    intros H Hn Hf. inversion H; subst. apply opt_all_map_inv in O.
    assert (G : exists c, nth_error over i = Some (k, c) /\ ccls c = CMix (ccls e) (ccls bc) /\ cdesc c = cdesc e).
    { revert i Hn. induction O as [|x y l l' Hxy _ IH]; intros i Hn; [destruct i; discriminate|].
      destruct i as [|i]; simpl in *.
      - inversion Hn; subst. unfold override1 in Hxy. simpl in Hxy. rewrite Hf in Hxy.
        destruct (mixok (ccls e) (ccls bc)); [|discriminate]. inversion Hxy; subst.
        eexists. split; [reflexivity|]. simpl. auto.
      - now apply IH. }
    destruct G as [c [G1 G2]]. exists c. split; [|assumption].
    rewrite nth_error_app1; [assumption|]. apply nth_error_Some. congruence.
  Qed.

  (* ---------- reading the files: shape and type checks ---------- *)
  Lemma load_columns_bad types cs c e :
    In c cs -> load_column types c = Raise e -> exists e', load_columns types cs = Raise e'.
  Proof.
    induction cs as [|x r IH]; simpl; [tauto|]. intros [H|H] Hc.
    - subst. rewrite Hc. simpl. eauto.
    - destruct (load_column types x); simpl; [|eauto].
      destruct (IH H Hc) as [e' E]. rewrite E. simpl. eauto.
  Qed.

  Lemma load_column_unknown_type types n t :
    mem t types = false -> load_column types [n; t] = Raise ValueError /\
                           forall d, load_column types [n; t; d] = Raise ValueError.
  Proof. intros H. simpl. rewrite H. auto. Qed.

  Theorem load_bad_column_rejected fs types filenames f j c e :
    In f filenames -> fs f = FJson j -> In c (jcolumns j) -> load_column types c = Raise e ->
    exists e', load_all_scheme_data fs types filenames = Raise e'.
  Proof.
    induction filenames as [|x r IH]; simpl; [tauto|]. intros [H|H] Hf Hc Hl.
    - subst. rewrite Hf. simpl. destruct (load_columns_bad types _ c e Hc Hl) as [e' E].
      rewrite E. simpl. eauto.
    - destruct (load_file types (fs x)); simpl; [|eauto].
      destruct (IH H Hf Hc Hl) as [e' E]. rewrite E. simpl. eauto.
  Qed.

  (* ---------- validate_schemes, sorting, load_all_schemes ---------- *)
  Definition pair_of (s : scheme) : str * str := (s_version s, s_annot s).

  Lemma same_pair_iff a b : same_pair a b = true <-> pair_of a = pair_of b.
  Proof.
    unfold same_pair, pair_of. rewrite andb_true_iff, !str_eqb_eq. split.
    - intros [H1 H2]. now rewrite H1, H2.
    - intros H. inversion H. auto.
  Qed.

  Lemma validate_ok l b : validate_schemes l = Ok b -> NoDup (map pair_of l).
  Proof.
    induction l as [|s r IH]; simpl; intros H; [constructor|].
    destruct (existsb (same_pair s) r) eqn:E; [discriminate|].
    constructor; [|auto]. intros Hin. apply in_map_iff in Hin. destruct Hin as [x [Ex Hx]].
    assert (existsb (same_pair s) r = true); [|congruence].
    apply existsb_exists. exists x. split; [assumption|]. apply same_pair_iff. auto.
  Qed.

  Lemma validate_nodup l : NoDup (map pair_of l) -> validate_schemes l = Ok true.
  Proof.
    induction l as [|s r IH]; simpl; intros H; [reflexivity|].
    inversion H as [|? ? Hn Hr]; subst.
    destruct (existsb (same_pair s) r) eqn:E; [|auto].
    exfalso. apply Hn. apply existsb_exists in E. destruct E as [x [Hx Ex]].
    apply same_pair_iff in Ex. rewrite Ex. now apply in_map.
  Qed.

  Lemma insert_key_perm {X} (x : list atom * X) l r : insert_key x l = Ok r -> Permutation (x :: l) r.
  Proof.
    revert r. induction l as [|y l' IH]; simpl; intros r H.
    - inversion H. reflexivity.
    - destruct (key_lt (fst y) (fst x)) as [b|e]; simpl in H; [|discriminate].
      destruct b.
      + destruct (insert_key x l') as [r'|e] eqn:E; simpl in H; [|discriminate].
        inversion H; subst. eapply Permutation_trans; [apply perm_swap|].
        apply perm_skip. now apply IH.
      + inversion H. reflexivity.
  Qed.

  Lemma sort_keyed_perm {X} (l r : list (list atom * X)) : sort_keyed l = Ok r -> Permutation l r.
  Proof.
    revert r. induction l as [|x l' IH]; simpl; intros r H.
    - inversion H. reflexivity.
    - destruct (sort_keyed l') as [r'|e] eqn:E; simpl in H; [|discriminate].
      eapply Permutation_trans; [apply perm_skip; apply IH; reflexivity|].
      now apply insert_key_perm.
  Qed.

  Lemma with_keys_snd l kl : with_keys l = Ok kl -> map snd kl = l.
  Proof.
    revert kl. induction l as [|s r IH]; simpl; intros kl H.
    - inversion H. reflexivity.
    - destruct (scheme_sort_key s); simpl in H; [|discriminate].
      destruct (with_keys r) eqn:E; simpl in H; [|discriminate].
      inversion H; subst. simpl. f_equal. now apply IH.
  Qed.

  Lemma sort_schemes_perm l r : sort_schemes l = Ok r -> Permutation l r.
  Proof.
    unfold sort_schemes. destruct (with_keys l) as [kl|] eqn:W; simpl; [|discriminate].
    destruct (sort_keyed kl) as [sl|] eqn:S; simpl; [|discriminate].
    intros H; inversion H; subst. rewrite <- (with_keys_snd _ _ W).
    apply Permutation_map. now apply sort_keyed_perm.
  Qed.

  (* what a successful load_all_schemes consists of *)
  Lemma load_all_schemes_ok types fs builtins extra l :
    load_all_schemes mixok types fs builtins extra = Ok l ->
    exists data m,
      load_all_scheme_data fs types (builtins ++ extra) = Ok data /\
      build_schemes mixok data = Ok m /\
      NoDup (map pair_of (NoRestrictions :: map (fun kv => Built (snd kv)) m)) /\
      Permutation (NoRestrictions :: map (fun kv => Built (snd kv)) m) l.
  Proof.
    unfold load_all_schemes.
    destruct (load_all_scheme_data fs types (builtins ++ extra)) as [data|] eqn:D; cbn [bind]; [|discriminate].
    destruct (build_schemes mixok data) as [m|] eqn:B; cbn [bind]; [|discriminate].
    destruct (validate_schemes _) as [b|] eqn:V; cbn [bind]; [|discriminate].
    intros S. exists data, m. repeat split; auto.
    - eapply validate_ok; eauto.
    - now apply sort_schemes_perm.
  Qed.

  Theorem load_all_schemes_one_per_pair types fs builtins extra l :
    load_all_schemes mixok types fs builtins extra = Ok l -> NoDup (map pair_of l).
  Proof.
    intros H. destruct (load_all_schemes_ok _ _ _ _ _ H) as [data [m [_ [_ [ND P]]]]].
    eapply Permutation_NoDup; [apply Permutation_map; exact P|exact ND].
  Qed.
End SpecFacts.
