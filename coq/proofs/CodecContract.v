(* CodecContract.v - the codec premise of C10/C07 (`maf_codec_contract` of
   proofs/SortOrderCompose.v) discharged from C04's line-level fixpoint, for
   the configuration the sorting writer uses: MafSorterCodec with the scheme,
   i.e. encode = str(record), decode = MafRecord.from_line(text, scheme=...,
   Strict) under a built layout.

   Items of the sorter are the records a Strict reader of the layout produces
   (`accepted`): for those, C04 says the rendering parses back to the IDENTICAL
   record, so rendering, sort key (for ANY view of the record as a locatable)
   and non-emptiness are preserved.  For records assembled through the API in
   other ways the contract is false in general (VStr "007" in Chromosome
   renders "007", which parses to the integer 7: another key), which is why the
   item type is restricted rather than all of `crec`.

   Layouts with a non-strict column (SOMATIC/PHENO: SequenceOfNullableYesOrNo,
   the recorded C04 finding) get the contract on the records that do not hold
   the one-element list [Null] there: the decoder is guarded by `g`. *)
From Coq Require Import String Ascii.
From MafVerif Require Import lib.Base lib.Str gen.GenClasses model.Classes model.Columns model.Layouts
     model.RecordOps model.ColRecord proofs.LayoutFacts proofs.ColumnFacts proofs.ParseFacts
     proofs.RenderFacts proofs.RenderFacts2.
From MafVerif Require model.SortOrder proofs.SortOrderCompose.
Open Scope string_scope.

Section Codec.
  Variable tbl : list class_info.
  Variable O : oracles.
  Variable s : scheme.
  (* the guard of the decoder (constantly true for strict layouts) *)
  Variable g : crec -> bool.

  Definition parse (l : str) : res (crec * list verr) := from_line tbl O Strict None (Some s) None l.

  (* C04 at line level, in the form needed here *)
  Hypothesis Hfix : forall line r, parse line = Ok (r, []) -> g r = true ->
    exists l', rec_str tbl r = Ok l' /\ parse l' = Ok (r, []).

  (* the sorter's items: records a Strict reader of the layout produced (and the guard lets through) *)
  Definition accepted (r : crec) : Prop := (exists line, parse line = Ok (r, [])) /\ g r = true.
  Definition item : Type := { r : crec | accepted r }.

  (* MafSorterCodec.encode *)
  Definition enc (a : item) : str := match rec_str tbl (proj1_sig a) with Ok l => l | Raise _ => [] end.

  (* MafSorterCodec.decode: from_line in Strict mode (which never returns errors alongside a record) *)
  Definition dec_guard (l : str) (r : crec) (H : parse l = Ok (r, [])) (b : bool) : g r = b -> res item :=
    match b with
    | true => fun Hg => Ok (exist _ r (conj (ex_intro _ l H) Hg))
    | false => fun _ => Raise ValueError
    end.
  Definition dec_aux (l : str) (x : res (crec * list verr)) : parse l = x -> res item :=
    match x with
    | Ok (r, []) => fun H => dec_guard l r H (g r) eq_refl
    | Ok (_, _ :: _) => fun _ => Raise AssertionError
    | Raise e => fun _ => Raise e
    end.
  Definition dec (l : str) : res item := dec_aux l (parse l) eq_refl.

  Lemma dec_guard_true l r H : g r = true -> forall b (e : g r = b), exists p, dec_guard l r H b e = Ok (exist _ r p).
  Proof. intros Hg b e. destruct b; [simpl; eauto|congruence]. Qed.

  Lemma dec_spec l r : parse l = Ok (r, []) -> g r = true -> exists p, dec l = Ok (exist _ r p).
  Proof.
    intros H Hg. unfold dec.
    assert (A : forall x (e : parse l = x), x = Ok (r, []) -> exists p, dec_aux l x e = Ok (exist _ r p)).
    { intros x e ->. simpl. now apply dec_guard_true. }
    now apply A.
  Qed.

  Theorem codec_contract (v0 : crec -> SortOrder.locatable) :
    SortOrderCompose.maf_codec_contract item (fun a => v0 (proj1_sig a)) enc dec.
  Proof.
    intros kf [r [[line Hl] Hg]] k Hk. cbn [proj1_sig] in *.
    destruct (Hfix line r Hl Hg) as (l' & Hs & Hp).
    destruct (dec_spec l' r Hp Hg) as [p Hd].
    exists (exist _ r p). unfold enc. cbn [proj1_sig]. rewrite Hs. auto.
  Qed.
End Codec.

(* ---------- instances over a scheme all of whose columns are covered (tables abstract) ---------- *)
Section Instances.
  Variable tbl : list class_info.
  Variable O : oracles.
  Hypothesis HO : oracle_laws O.
  Variable s : scheme.
  Hypothesis Hnd : NoDup (map fst s).
  Hypothesis Hcols : forallb (col_class_ok tbl) s = true.

  (* strict layouts: decode is exactly from_line *)
  Lemma strict_fix : forallb (col_class_strict tbl) s = true ->
    forall line r, parse tbl O s line = Ok (r, []) -> (fun _ : crec => true) r = true ->
      exists l', rec_str tbl r = Ok l' /\ parse tbl O s l' = Ok (r, []).
  Proof.
    intros Hst line r Hl _. unfold parse in *.
    destruct (line_fixpoint_strict tbl O HO s Hnd Hcols None line r [] Hst Hl) as (l' & H1 & _ & _ & _ & H5 & _).
    eauto.
  Qed.

  (* any covered layout: records not holding a one-element list printing '' at a non-strict position *)
  Fixpoint se_okb (sc : scheme) (sl : list (option ccol)) : bool :=
    match sc, sl with
    | [], [] => true
    | nc :: sc', o :: sl' =>
        (col_class_strict tbl nc || match o with Some c => negb (single_empty (v_val (cval c))) | None => true end)
        && se_okb sc' sl'
    | _, _ => false
    end.

  Lemma se_okb_sound : forall sc sl, se_okb sc sl = true ->
    forall j c, nth_error sl j = Some (Some c) ->
      (exists nc, nth_error sc j = Some nc /\ col_class_strict tbl nc = true) \/ single_empty (v_val (cval c)) = false.
  Proof.
    induction sc as [|nc sc IH]; intros [|o sl] H j c Hj; simpl in H; try discriminate.
    - destruct j; discriminate.
    - apply andb_true_iff in H as [H1 H2]. destruct j as [|j]; simpl in Hj.
      + injection Hj as ->. apply orb_true_iff in H1 as [H1|H1].
        * left. exists nc. auto.
        * right. now apply negb_true_iff in H1.
      + destruct (IH sl H2 j c Hj) as [(nc' & Hn & Hs)|Hs]; [left; exists nc'; auto|now right].
  Qed.

  Definition guard (r : crec) : bool := se_okb s (rlist r).

  Lemma guarded_fix :
    forall line r, parse tbl O s line = Ok (r, []) -> guard r = true ->
      exists l', rec_str tbl r = Ok l' /\ parse tbl O s l' = Ok (r, []).
  Proof.
    intros line r Hl Hg. unfold parse in *.
    destruct (line_fixpoint tbl O HO s Hnd Hcols None line r [] Hl (se_okb_sound s (rlist r) Hg))
      as (l' & H1 & _ & _ & _ & H5 & _).
    eauto.
  Qed.

  Definition strict_codec_contract (Hst : forallb (col_class_strict tbl) s = true) v0 :=
    codec_contract tbl O s (fun _ => true) (strict_fix Hst) v0.
  Definition guarded_codec_contract v0 := codec_contract tbl O s guard guarded_fix v0.
End Instances.

(* ---------- the built layouts ---------- *)
Definition layout_item (Or : oracles) (l : layout) : Type := item class_table Or (l_cols l) (guard class_table (l_cols l)).
Definition layout_enc (Or : oracles) (l : layout) : layout_item Or l -> str := enc class_table Or (l_cols l) (guard class_table (l_cols l)).
Definition layout_dec (Or : oracles) (l : layout) : str -> res (layout_item Or l) := dec class_table Or (l_cols l) (guard class_table (l_cols l)).

Theorem built_layout_codec_contract (Or : oracles) (HO : oracle_laws Or) l (v0 : crec -> SortOrder.locatable) :
  In l layouts_ok ->
  SortOrderCompose.maf_codec_contract (layout_item Or l) (fun a => v0 (proj1_sig a)) (layout_enc Or l) (layout_dec Or l).
Proof.
  intros Hin. destruct (layout_hyps l Hin) as [Hnd Hcols].
  exact (guarded_codec_contract class_table Or HO (l_cols l) Hnd Hcols v0).
Qed.

(* a faithful view of a typed record as the name -> value dictionary the sort keys read
   (the key columns hold int / text / None; other kinds of values are not read by any key) *)
Definition pv_of_val (v : pyval) : SortOrder.pv :=
  match v with VInt z => SortOrder.PInt z | VStr t => SortOrder.PStr t | _ => SortOrder.PNone end.
Definition crec_view (r : crec) : SortOrder.locatable :=
  SortOrder.Maf (map (fun kc => (fst kc, pv_of_val (v_val (cval (snd kc))))) (rdict r)).

(* layouts all of whose columns are strict: the decoder is exactly from_line (no guard) *)
Theorem strict_layout_codec_contract (Or : oracles) (HO : oracle_laws Or) l (v0 : crec -> SortOrder.locatable) :
  In l layouts_ok -> forallb (col_class_strict class_table) (l_cols l) = true ->
  SortOrderCompose.maf_codec_contract (item class_table Or (l_cols l) (fun _ => true)) (fun a => v0 (proj1_sig a))
    (enc class_table Or (l_cols l) (fun _ => true)) (dec class_table Or (l_cols l) (fun _ => true)).
Proof.
  intros Hin Hst. destruct (layout_hyps l Hin) as [Hnd Hcols].
  exact (strict_codec_contract class_table Or HO (l_cols l) Hnd Hcols Hst v0).
Qed.

(* non-vacuity: the item type is inhabited and the codec runs - a line of the base
   layout is decoded to an item, encoded (canonical spellings), decoded again, encoded to the same text *)
Definition O_ex : oracles :=
  {| fval := fun _ => None; uval := fun t => if str_eqb t (s2l "ab") then Some (s2l "ab") else None |}.
Definition codec_demo (annot : string) (fields : list string) : bool :=
  match find_layout layouts_ok annot with
  | None => false
  | Some l =>
      match layout_dec O_ex l (join [TAB] (map s2l fields)) with
      | Ok a =>
          negb (seqb (layout_enc O_ex l a) (join [TAB] (map s2l fields))) &&
          match layout_dec O_ex l (layout_enc O_ex l a) with
          | Ok b => seqb (layout_enc O_ex l b) (layout_enc O_ex l a)
          | Raise _ => false
          end
      | Raise _ => false
      end
  end.
Example codec_demo_runs :
  codec_demo "gdc-1.0.0"
    ["TP53"; "00"; "BI;WUGSC"; "GRCh38"; "chr17"; " 7_5"; "+80"; "+"; "MissenseMutation"; "SNP"; "A"; "A"; "T"; "";
     ""; "TCGA-T"; "TCGA-N"; ""; ""; ""; ""; ""; ""; ""; ""; "Somatic"; ""; ""; ""; ""; ""; "IlluminaHiSeq;454"; "ab"; "ab"] = true.
Proof. vm_compute. reflexivity. Qed.
