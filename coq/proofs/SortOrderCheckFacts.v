(* SortOrderCheckFacts.v - lemmas for C09: what the sort-order enforcing
   iteration yields, in terms of the key order. *)
From MafVerif Require Import lib.Base lib.Str lib.SortOrderLib model.SortOrder model.OrderCheck
  spec.SpecOrder proofs.SortOrderFacts.
From Coq Require Import Sorted.

(* a record the checker can key: its key is built and well formed *)
Definition keyed (kf : keyfn) (r : locatable) : Prop :=
  exists k, build_key kf r = Ok k /\ wf_skey kf k = true.
(* ... and which is truthy (a MafRecord with at least one column, or a plain Locatable) *)
Definition good (kf : keyfn) (r : locatable) : Prop := l_truthy r = true /\ keyed kf r.

Definition keyof (kf : keyfn) (r : locatable) : skey :=
  match build_key kf r with
  | Ok k => k
  | Raise _ => KCoord {| k_chrom := PNone; k_start := PNone; k_end := PNone |}
  end.
(* "a sorts strictly before b" *)
Definition rec_ltb (kf : keyfn) (a b : locatable) : bool := key_ltb (keyof kf a) (keyof kf b).

Lemma rec_ltb_false_trans kf a b c :
  rec_ltb kf b a = false -> rec_ltb kf c b = false -> rec_ltb kf c a = false.
Proof. apply key_ltb_false_trans. Qed.

(* ---------- one step of the checker ---------- *)
Lemma checker_add_none f r :
  checker_add {| ch_last := None; ch_sort_f := f |} r = ({| ch_last := Some r; ch_sort_f := f |}, Ok tt).
Proof. reflexivity. Qed.

Lemma checker_add_nokey p r :
  checker_add {| ch_last := p; ch_sort_f := None |} r = ({| ch_last := Some r; ch_sort_f := None |}, Ok tt).
Proof. unfold checker_add. simpl. now destruct p. Qed.

Lemma checker_add_falsy f p r : l_truthy p = false ->
  checker_add {| ch_last := Some p; ch_sort_f := f |} r = ({| ch_last := Some r; ch_sort_f := f |}, Ok tt).
Proof. intros H. unfold checker_add. simpl. rewrite H. now destruct f. Qed.

Lemma checker_add_good kf p r : good kf p -> keyed kf r ->
  checker_add {| ch_last := Some p; ch_sort_f := Some kf |} r =
  if rec_ltb kf r p then ({| ch_last := Some p; ch_sort_f := Some kf |}, Raise ValueError)
  else ({| ch_last := Some r; ch_sort_f := Some kf |}, Ok tt).
Proof.
  intros [Tp [kp [Ep Wp]]] [kr [Er Wr]]. unfold checker_add, rec_ltb, keyof. simpl.
  rewrite Tp, Er, Ep. simpl. rewrite (key_lt_ltb kf kr kp Wr Wp). simpl.
  now destruct (key_ltb kr kp).
Qed.

(* ---------- the loop, as a function of the key order ---------- *)
Fixpoint run_from (lt : locatable -> locatable -> bool) (p : locatable) (rs : list locatable)
  : list locatable * res unit :=
  match rs with
  | [] => ([], Ok tt)
  | r :: rest =>
      if lt r p then ([], Raise ValueError)
      else let '(ys, fin) := run_from lt r rest in (r :: ys, fin)
  end.

Lemma enforce_run_from kf p rs : good kf p -> Forall (good kf) rs ->
  enforce {| ch_last := Some p; ch_sort_f := Some kf |} rs = run_from (rec_ltb kf) p rs.
Proof.
  revert p; induction rs as [|r rest IH]; intros p Hp Hrs; [reflexivity|].
  inversion Hrs as [|? ? Hr Hrest]; subst. simpl.
  rewrite (checker_add_good kf p r Hp (proj2 Hr)).
  destruct (rec_ltb kf r p); [reflexivity|]. now rewrite IH.
Qed.

Lemma enforce_init kf rs : Forall (good kf) rs ->
  enforce {| ch_last := None; ch_sort_f := Some kf |} rs =
  match rs with
  | [] => ([], Ok tt)
  | r :: rest => let '(ys, fin) := run_from (rec_ltb kf) r rest in (r :: ys, fin)
  end.
Proof.
  destruct rs as [|r rest]; [reflexivity|]. intros H. inversion H; subst.
  simpl. now rewrite enforce_run_from.
Qed.

(* with no key function nothing is ever rejected *)
Lemma enforce_nokey p rs : enforce {| ch_last := p; ch_sort_f := None |} rs = (rs, Ok tt).
Proof.
  revert p; induction rs as [|r rest IH]; intros p; [reflexivity|].
  simpl. rewrite checker_add_nokey. now rewrite IH.
Qed.

Section Chain.
  Variable lt : locatable -> locatable -> bool.

  Lemma run_from_all p rs : run_from lt p rs = (rs, Ok tt) <-> chain_ok lt (p :: rs).
  Proof.
    revert p; induction rs as [|r rest IH]; intros p.
    - simpl. tauto.
    - cbn [run_from]. destruct (lt r p) eqn:E.
      + split; [discriminate|]. intros [H _]. simpl in H. congruence.
      + specialize (IH r). destruct (run_from lt r rest) as [ys fin].
        split.
        * intros H. injection H as -> ->. split; [exact E|]. now apply IH.
        * intros [_ H]. apply IH in H. injection H as -> ->. reflexivity.
  Qed.

  Lemma run_from_descent p pre a b post :
    chain_ok lt (p :: pre ++ [a]) -> lt b a = true ->
    run_from lt p (pre ++ a :: b :: post) = (pre ++ [a], Raise ValueError).
  Proof.
    revert p; induction pre as [|x pre IH]; intros p Hc Hd.
    - simpl in *. destruct Hc as [E _]. now rewrite E, Hd.
    - cbn [app run_from]. destruct Hc as [E Hc]. cbn [app] in E. rewrite E.
      now rewrite (IH x Hc Hd).
  Qed.

  (* an unsorted sequence has a first descent *)
  Lemma first_descent l : ~ chain_ok lt l ->
    exists pre a b post, l = pre ++ a :: b :: post /\ chain_ok lt (pre ++ [a]) /\ lt b a = true.
  Proof.
    induction l as [|a r IH]; [simpl; tauto|].
    destruct r as [|b r'].
    - simpl. tauto.
    - intros H. destruct (lt b a) eqn:E.
      + exists [], a, b, r'. simpl. auto.
      + assert (Hr : ~ chain_ok lt (b :: r')) by (intros Hc; apply H; split; assumption).
        destruct (IH Hr) as [pre [x [y [post [Heq [Hc Hd]]]]]].
        exists (a :: pre), x, y, post. rewrite Heq. split; [reflexivity|]. split; [|exact Hd].
        cbn [app]. split; [|exact Hc].
        destruct pre as [|z pre']; simpl in *; injection Heq as -> _; exact E.
  Qed.

  (* with a transitive "not before", consecutive order is order of all pairs *)
  Hypothesis lt_false_trans : forall a b c, lt b a = false -> lt c b = false -> lt c a = false.

  Lemma chain_sorted l : chain_ok lt l <-> StronglySorted (fun a b => lt b a = false) l.
  Proof.
    induction l as [|a r IH]; [split; constructor|].
    split.
    - intros [H Hc]. constructor; [now apply IH|].
      apply IH in Hc. clear IH. revert a H. induction Hc as [|b r' Hs IH' Hall]; intros a H; constructor.
      + exact H.
      + destruct r' as [|c r'']; [constructor|].
        apply IH'. inversion Hall as [|? ? Hbc _]; subst. eapply lt_false_trans; eauto.
    - intros H. inversion H as [|? ? Hs Hall]; subst. split; [|now apply IH].
      destruct r as [|b r']; [exact I|]. now inversion Hall.
  Qed.
End Chain.

(* ---------- statements about the enforcing iteration ---------- *)
Definition init_checker (kf : keyfn) : checker := {| ch_last := None; ch_sort_f := Some kf |}.

Lemma enforce_all_iff kf rs : Forall (good kf) rs ->
  (enforce (init_checker kf) rs = (rs, Ok tt) <-> chain_ok (rec_ltb kf) rs).
Proof.
  intros H. unfold init_checker. rewrite (enforce_init kf rs H).
  destruct rs as [|r rest]; [simpl; tauto|].
  pose proof (run_from_all (rec_ltb kf) r rest) as Hr.
  destruct (run_from (rec_ltb kf) r rest) as [ys fin]. split.
  - intros E. injection E as -> ->. now apply Hr.
  - intros Hc. apply Hr in Hc. injection Hc as -> ->. reflexivity.
Qed.

Lemma enforce_first_descent kf pre a b post : Forall (good kf) (pre ++ a :: b :: post) ->
  chain_ok (rec_ltb kf) (pre ++ [a]) -> rec_ltb kf b a = true ->
  enforce (init_checker kf) (pre ++ a :: b :: post) = (pre ++ [a], Raise ValueError).
Proof.
  intros H Hc Hd. unfold init_checker. rewrite (enforce_init kf _ H).
  destruct pre as [|x pre].
  - simpl. now rewrite Hd.
  - cbn [app]. now rewrite (run_from_descent (rec_ltb kf) x pre a b post Hc Hd).
Qed.

Lemma enforce_sorted_iff kf rs : Forall (good kf) rs ->
  (enforce (init_checker kf) rs = (rs, Ok tt) <->
   StronglySorted (fun a b => rec_ltb kf b a = false) rs).
Proof.
  intros H. rewrite (enforce_all_iff kf rs H). apply chain_sorted. apply rec_ltb_false_trans.
Qed.

(* the outcome is always one of the two *)
Lemma enforce_dichotomy kf rs : Forall (good kf) rs ->
  enforce (init_checker kf) rs = (rs, Ok tt) \/
  exists pre a b post, rs = pre ++ a :: b :: post /\ chain_ok (rec_ltb kf) (pre ++ [a]) /\
    rec_ltb kf b a = true /\ enforce (init_checker kf) rs = (pre ++ [a], Raise ValueError).
Proof.
  intros H.
  assert (D : chain_ok (rec_ltb kf) rs \/ ~ chain_ok (rec_ltb kf) rs).
  { clear H. induction rs as [|a r IH]; [left; exact I|].
    destruct IH as [IH|IH]; [|right; intros [_ Hc]; tauto].
    destruct r as [|b r']; [left; split; [exact I|exact IH]|].
    destruct (rec_ltb kf b a) eqn:E; [right; intros [Hc _]; simpl in Hc; congruence|left; split; assumption]. }
  destruct D as [D|D]; [left; now apply enforce_all_iff|right].
  destruct (first_descent (rec_ltb kf) rs D) as [pre [a [b [post [-> [Hc Hd]]]]]].
  exists pre, a, b, post. repeat split; auto. now apply enforce_first_descent.
Qed.

(* ---------- the reader ---------- *)
Lemma reader_iter_sortable hl rs kf :
  sort_key (h_sort_order (header_from_lines hl)) = Ok kf ->
  reader_iter hl rs = enforce (init_checker kf) rs.
Proof. intros H. unfold reader_iter, checker_init. now rewrite H. Qed.

Lemma reader_iter_not_sortable hl rs :
  is_coordinate (so_cls (h_sort_order (header_from_lines hl))) = false ->
  reader_iter hl rs = (rs, Ok tt).
Proof.
  intros H. unfold reader_iter, checker_init, sort_key.
  destruct (so_cls (h_sort_order (header_from_lines hl))); try discriminate; apply enforce_nokey.
Qed.

(* a record without columns is falsy: the record after it is not compared *)
Lemma enforce_skips_after_falsy kf p r rest : l_truthy p = false ->
  enforce {| ch_last := Some p; ch_sort_f := Some kf |} (r :: rest) =
  let '(ys, fin) := enforce {| ch_last := Some r; ch_sort_f := Some kf |} rest in (r :: ys, fin).
Proof. intros H. simpl. now rewrite (checker_add_falsy (Some kf) p r H). Qed.
