(* LineFacts.v - C01 lifted from fields to whole lines: a line whose every
   field lies in the documented domain is accepted and binds field i to column
   i with the denoted value; a field outside its domain is reported against its
   column with the line number and is not exposed, in every mode. *)
From Coq Require Import String Ascii.
From MafVerif Require Import lib.Base lib.Str lib.PyInt gen.GenClasses gen.GenEnums gen.GenSchemas
     model.Classes model.Columns model.Layouts model.RecordOps model.ColRecord spec.SpecLayouts
     proofs.RecordFacts proofs.LayoutFacts proofs.ColumnFacts proofs.ShapeFacts proofs.ColumnFacts2
     proofs.ShapeFacts2 proofs.ParseFacts.
Open Scope string_scope.

Fixpoint nodupb (l : list str) : bool :=
  match l with [] => true | x :: r => negb (existsb (seqb x) r) && nodupb r end.
Lemma seqb_refl a : seqb a a = true.
Proof. induction a; simpl; [reflexivity|]. now rewrite N.eqb_refl. Qed.
Lemma nodupb_sound l : nodupb l = true -> NoDup l.
Proof.
  induction l as [|x r IH]; simpl; [constructor|]. intros H. apply andb_true_iff in H as [H1 H2].
  constructor; [|auto]. intros Hin. apply negb_true_iff in H1.
  assert (existsb (seqb x) r = true) by (apply existsb_exists; exists x; split; [exact Hin|apply seqb_refl]).
  congruence.
Qed.

Section Abstract.
  Variable tbl : list class_info.
  Variable O : oracles.

  (* ---- one field, in terms of field_outcome ---- *)
  Lemma scheme_index_nth (s : scheme) : forall st j n,
    NoDup (map fst s) -> nth_error (map fst s) j = Some n -> scheme_index s n st = Some (st + j)%nat.
  Proof.
    induction s as [|[k c] s IH]; intros st j n Hnd Hn; [destruct j; discriminate|].
    simpl in *. inversion Hnd as [|? ? Hnotin Hnd']; subst.
    destruct j as [|j]; simpl in Hn.
    - injection Hn as ->. rewrite str_eqb_refl. f_equal. lia.
    - destruct (str_eqb k n) eqn:E.
      + apply str_eqb_eq in E. subst. exfalso. apply Hnotin. eapply nth_error_In; eauto.
      + rewrite (IH (S st) j n Hnd' Hn). f_equal. lia.
  Qed.

  Lemma scheme_class_nth (s : scheme) : forall j n c,
    NoDup (map fst s) -> nth_error s j = Some (n, c) -> scheme_class s n = Some c.
  Proof.
    unfold scheme_class. induction s as [|[k c0] s IH]; intros j n c Hnd Hn; [destruct j; discriminate|].
    simpl in *. inversion Hnd as [|? ? Hnotin Hnd']; subst.
    destruct j as [|j]; simpl in Hn.
    - injection Hn as -> ->. now rewrite str_eqb_refl.
    - destruct (str_eqb n k) eqn:E.
      + apply str_eqb_eq in E. subst. exfalso. apply Hnotin.
        apply nth_error_In in Hn. change k with (fst (k, c)). now apply in_map.
      + eauto.
  Qed.

  Definition col_ok (sc : cref) : bool :=
    match resolve tbl sc with
    | Some r => e_custom (r_self r) && isinstance tbl sc sc
    | None => false
    end.

  Lemma parse_field_outcome (s : scheme) ln j n sc r t :
    NoDup (map fst s) -> nth_error s j = Some (n, sc) -> resolve tbl sc = Some r -> col_ok sc = true ->
    match field_outcome O r t with
    | Valid v => parse_field tbl O (Some s) ln j n t =
                 (Some {| ckey := n; cidx := Some (Z.of_nat j); cval := {| v_cls := sc; v_val := v |} |}, [])
    | Invalid => exists es, parse_field tbl O (Some s) ln j n t = (None, es) /\ es <> [] /\
                            Forall (fun e => ecol e = Some n /\ eline e = ln) es
    end.
  Proof.
    intros Hnd Hn Hr Hok.
    unfold col_ok in Hok. rewrite Hr in Hok. apply andb_true_iff in Hok as [Hc Hinst].
    assert (Htr : scheme_truthy s = true) by (destruct s; [destruct j; discriminate|reflexivity]).
    assert (Hn' : nth_error (map fst s) j = Some n) by (rewrite nth_error_map, Hn; reflexivity).
    pose proof (scheme_index_nth s 0 j n Hnd Hn') as Hidx. simpl in Hidx.
    pose proof (scheme_class_nth s j n sc Hnd Hn) as Hcls.
    assert (Hrp : resolve_or_plain tbl sc = r) by (unfold resolve_or_plain; now rewrite Hr).
    assert (Hbc : built_class r = sc) by (unfold built_class; now rewrite Hc, (resolve_cls tbl _ _ Hr)).
    unfold parse_field, field_outcome. rewrite Htr, Hcls, Hrp.
    destruct (cls_build O r t) as [v|x].
    - rewrite Hbc. unfold col_validate. cbn [ckey cidx cval v_cls v_val]. rewrite Hrp, Htr, Hidx, Hcls.
      rewrite Z.eqb_refl. cbn [negb]. rewrite Hinst.
      destruct (cls_value_invalid r v) eqn:E1; cbn [orb].
      + eexists. split; [reflexivity|]. split; [discriminate|].
        destruct (cls_text_has_sep r v); repeat constructor; auto.
      + destruct (cls_text_has_sep r v) eqn:E2.
        * eexists. split; [reflexivity|]. split; [discriminate|]. repeat constructor; auto.
        * reflexivity.
    - eexists. split; [reflexivity|]. split; [discriminate|]. repeat constructor; auto.
  Qed.

  (* positional version of the field-loop invariant: only the (name, text)
     pairs that actually occur at a position are considered *)
  Lemma parse_fields_inv_pos (P : str -> cv -> Prop) sch ln :
    forall names texts i r errs r' errs',
      (forall j n t c es, nth_error names j = Some n -> nth_error texts j = Some t ->
          parse_field tbl O sch ln (i + j) n t = (Some c, es) -> P n (cval c)) ->
      Coherent r -> (forall k c, In (k, c) (rdict r) -> P k (cval c)) ->
      parse_fields tbl O sch ln i names texts r errs = Ok (r', errs') ->
      Coherent r' /\ (forall k c, In (k, c) (rdict r') -> P k (cval c)).
  Proof.
    induction names as [|n ns IH]; intros texts i r errs r' errs' HP Hc Hinv H.
    - simpl in H. injection H as <- <-. auto.
    - destruct texts as [|t ts]; [simpl in H; injection H as <- <-; auto|].
      cbn [parse_fields] in H.
      destruct (parse_field tbl O sch ln i n t) as [oc es] eqn:Hpf.
      assert (HP' : forall j n0 t0 c es0, nth_error ns j = Some n0 -> nth_error ts j = Some t0 ->
                parse_field tbl O sch ln (S i + j) n0 t0 = (Some c, es0) -> P n0 (cval c)).
      { intros j n0 t0 c es0 Hn0 Ht0 Hp0. apply (HP (S j) n0 t0 c es0); auto.
        rewrite <- Hp0. f_equal. lia. }
      destruct oc as [c|].
      + destruct (setitem r (KStr n) c) as [r1 out] eqn:Hs.
        destruct out as [[]|e]; [|discriminate].
        pose proof (setitem_preserves _ _ _ _ _ Hc Hs) as Hc1.
        apply setitem_ok_shape in Hs as (c2 & m & Hk & Hv & Hi & Hd & _).
        apply (IH ts (S i) r1 (errs ++ es)%list r' errs' HP' Hc1); [|exact H].
        intros k c' Hin. rewrite Hd in Hin. apply in_dset_weak in Hin as [[-> ->]|Hin]; [|auto].
        destruct (parse_field_key tbl O _ _ _ _ _ _ _ Hpf) as (Hck & _ & _).
        rewrite Hv, Hck. apply (HP 0%nat n t c es); auto. now rewrite Nat.add_0_r.
      + apply (IH ts (S i) r (errs ++ es)%list r' errs' HP' Hc Hinv H).
  Qed.

  (* ---- whole lines under a scheme whose columns are all "ok" classes ---- *)
  Section Lines.
    Variable s : scheme.
    Hypothesis Hnd : NoDup (map fst s).
    Hypothesis Hcols : forallb (fun c => col_ok (snd c)) s = true.

    Lemma col_resolved j n sc : nth_error s j = Some (n, sc) ->
      exists r, resolve tbl sc = Some r /\ col_ok sc = true.
    Proof.
      intros Hn. pose proof (proj1 (forallb_forall _ _) Hcols _ (nth_error_In _ _ Hn)) as H. simpl in H.
      unfold col_ok in H |- *. destruct (resolve tbl sc) as [r|] eqn:E; [|discriminate]. eauto.
    Qed.

    (* ACCEPT: every field Valid => Strict accepts, field i is bound to column i with its value *)
    Theorem line_accepted ln line :
      let texts := split TAB (rstrip_crlf line) in
      length texts = length s ->
      (forall j n sc r t, nth_error s j = Some (n, sc) -> resolve tbl sc = Some r -> nth_error texts j = Some t ->
          exists v, field_outcome O r t = Valid v) ->
      exists rec cs, from_line tbl O Strict None (Some s) ln line = Ok (rec, []) /\ dense rec cs /\
        length cs = length s /\
        forall j n sc r t, nth_error s j = Some (n, sc) -> resolve tbl sc = Some r -> nth_error texts j = Some t ->
          exists c v, nth_error cs j = Some c /\ ckey c = n /\ cidx c = Some (Z.of_nat j) /\
                      field_outcome O r t = Valid v /\ cval c = {| v_cls := sc; v_val := v |}.
    Proof.
      intros texts Hlen Hall.
      assert (Hstore : forall j n t, nth_error (map fst s) j = Some n -> nth_error texts j = Some t ->
                exists c, parse_field tbl O (Some s) ln j n t = (Some c, [])).
      { intros j n t Hn Ht. rewrite nth_error_map in Hn.
        destruct (nth_error s j) as [[n' sc]|] eqn:Hs; [|discriminate]. simpl in Hn. injection Hn as ->.
        destruct (col_resolved j n sc Hs) as [r [Hr Hok]].
        destruct (Hall j n sc r t Hs Hr Ht) as [v Hv].
        pose proof (parse_field_outcome s ln j n sc r t Hnd Hs Hr Hok) as Hpf. rewrite Hv in Hpf. eauto. }
      destruct (from_line_accepts tbl O s ln line Hnd Hlen Hstore) as (rec & cs & Hfl & Hd & Hl & Hst).
      exists rec, cs. split; [exact Hfl|split; [exact Hd|split; [exact Hl|]]].
      intros j n sc r t Hs Hr Ht.
      assert (Hn : nth_error (map fst s) j = Some n) by (rewrite nth_error_map, Hs; reflexivity).
      destruct (Hst j n t Hn Ht) as [c [Hc Hpf]].
      destruct (col_resolved j n sc Hs) as [r' [Hr' Hok]]. rewrite Hr in Hr'. injection Hr' as <-.
      destruct (Hall j n sc r t Hs Hr Ht) as [v Hv].
      pose proof (parse_field_outcome s ln j n sc r t Hnd Hs Hr Hok) as Hpf'. rewrite Hv in Hpf'.
      rewrite Hpf in Hpf'. injection Hpf' as Hceq. exists c, v. rewrite Hceq. simpl. rewrite <- Hceq. auto.
    Qed.

    (* REJECT: a field that is Invalid is never exposed, and is reported against its column *)
    Theorem line_rejected_field m ln line j n sc r t rec errs :
      let texts := split TAB (rstrip_crlf line) in
      nth_error s j = Some (n, sc) -> resolve tbl sc = Some r -> nth_error texts j = Some t ->
      field_outcome O r t = Invalid ->
      from_line tbl O m None (Some s) ln line = Ok (rec, errs) ->
      m <> Strict /\ rec_value rec n = VNone /\
      (length texts = length s -> exists e, In e errs /\ ecol e = Some n /\ eline e = ln).
    Proof.
      intros texts Hs Hr Ht Hinv Hfl.
      destruct (col_resolved j n sc Hs) as [r' [Hr' Hok]]. rewrite Hr in Hr'. injection Hr' as <-.
      pose proof (parse_field_outcome s ln j n sc r t Hnd Hs Hr Hok) as Hpf. rewrite Hinv in Hpf.
      destruct Hpf as (es & Hpf & Hne & Hattr).
      assert (Hnj : nth_error (map fst s) j = Some n) by (rewrite nth_error_map, Hs; reflexivity).
      (* unfold from_line once, keeping the pieces *)
      unfold from_line in Hfl. fold texts in Hfl.
      destruct (negb (Nat.eqb (length (map fst s)) (length texts))) eqn:Hlen.
      - (* wrong count: the record is empty *)
        unfold rec_validate, process_errors in Hfl. simpl in Hfl.
        destruct m; try discriminate; injection Hfl as <- <-;
          (split; [discriminate|split; [reflexivity|]]);
          intros Hl; apply negb_true_iff, Nat.eqb_neq in Hlen; rewrite map_length in Hlen; congruence.
      - destruct (parse_fields tbl O (Some s) ln 0 (map fst s) texts empty_rec []) as [[r1 e1]|] eqn:Hp; [|discriminate].
        pose proof (parse_fields_errors tbl O _ _ _ _ _ _ _ _ _ Hp) as He1. simpl in He1.
        pose proof (field_results_nth tbl O (Some s) ln _ _ 0 j n t Hnj Ht) as Hres. simpl in Hres. rewrite Hpf in Hres.
        assert (Hin_es : forall e, In e es -> In e e1).
        { intros e He. rewrite He1. apply in_concat. exists es. split; [|exact He].
          apply in_map_iff. exists (None, es). split; [reflexivity|]. eapply nth_error_In; eauto. }
        (* nothing is stored under the name n *)
        set (P := fun (k : str) (x : cv) => k <> n).
        assert (HP : forall j' n' t' c es', nth_error (map fst s) j' = Some n' -> nth_error texts j' = Some t' ->
                  parse_field tbl O (Some s) ln (0 + j') n' t' = (Some c, es') -> P n' (cval c)).
        { intros j' n' t' c es' Hn' Ht' Hpf' Heq. subst n'. simpl in Hpf'.
          assert (j' = j).
          { apply (proj1 (NoDup_nth_error (map fst s)) Hnd); [apply nth_error_Some; congruence|congruence]. }
          subst j'. rewrite Ht in Ht'. injection Ht' as <-. rewrite Hpf in Hpf'. discriminate. }
        destruct (parse_fields_inv_pos P (Some s) ln _ _ _ _ _ _ _ HP coherent_empty
                    (fun k c (F : In (k, c) []) => match F with end) Hp) as [Hco Hd].
        assert (Hval : rec_value r1 n = VNone).
        { unfold rec_value. destruct (assoc n (rdict r1)) as [c|] eqn:Ea; [|reflexivity].
          apply assoc_in in Ea. exfalso. now apply (Hd _ _ Ea). }
        destruct es as [|e0 es']; [congruence|].
        unfold rec_validate, process_errors in Hfl.
        destruct m.
        + (* Strict: the error list is not empty, so from_line raises *)
          rewrite He1 in Hfl. exfalso.
          assert (Hin0 : In e0 e1) by (apply Hin_es; now left).
          rewrite <- He1 in Hfl. destruct e1 as [|x e1']; [destruct Hin0|]. simpl in Hfl. discriminate.
        + injection Hfl as <- <-. split; [discriminate|]. split; [exact Hval|].
          intros _. exists e0. inversion Hattr as [|? ? [Ha1 Ha2] _]; subst.
          repeat split; auto. apply in_or_app. left. apply Hin_es. now left.
        + injection Hfl as <- <-. split; [discriminate|]. split; [exact Hval|].
          intros _. exists e0. inversion Hattr as [|? ? [Ha1 Ha2] _]; subst.
          repeat split; auto. apply in_or_app. left. apply Hin_es. now left.
    Qed.
  End Lines.
End Abstract.

(* ---------- tied to the pinned documented layouts ---------- *)
Section Pinned.
  Variable tbl : list class_info.
  Variable ls : list layout.
  Variable sls : list (string * string * list (string * descr)).
  Variable Or : oracles.

  Definition layout_ok_g (l : layout) : bool :=
    nodupb (map fst (l_cols l)) && forallb (fun c => col_ok tbl (snd c)) (l_cols l).

  Hypothesis Hnames : forallb (names_match_in ls) sls = true.
  Hypothesis Hfits : forallb (fits_match_in_g tbl ls) sls = true.
  Hypothesis Hlay : forallb layout_ok_g ls = true.
  Hypothesis Hclean : oracle_clean Or.

  Lemma find_layout_in annot l : find_layout ls annot = Some l -> In l ls.
  Proof. unfold find_layout. intros H. now apply find_some in H as [H _]. Qed.

  Lemma pinned_layout ver annot cols :
    In (ver, annot, cols) sls ->
    exists l, find_layout ls annot = Some l /\ NoDup (map fst (l_cols l)) /\
              forallb (fun c => col_ok tbl (snd c)) (l_cols l) = true /\
              length (l_cols l) = length cols.
  Proof.
    intros Hin.
    pose proof (proj1 (forallb_forall _ _) Hnames _ Hin) as H.
    destruct (names_match_sound ls ver annot cols H) as (l & Hl & _ & Hn).
    pose proof (proj1 (forallb_forall _ _) Hlay _ (find_layout_in _ _ Hl)) as H2.
    unfold layout_ok_g in H2. apply andb_true_iff in H2 as [H2 H3].
    exists l. repeat split; auto.
    - now apply nodupb_sound.
    - rewrite <- (map_length fst), Hn, map_length. reflexivity.
  Qed.

  (* C01 accept: all fields in their documented domain *)
  Theorem pinned_line_accepted ver annot cols ln line :
    In (ver, annot, cols) sls ->
    let texts := split TAB (rstrip_crlf line) in
    length texts = length cols ->
    (forall i name d t, nth_error cols i = Some (name, d) -> nth_error texts i = Some t ->
        contains_sep t = false /\ exists v, zone2 Or d t = ZAccept v) ->
    exists l rec cs,
      find_layout ls annot = Some l /\
      from_line tbl Or Strict None (Some (l_cols l)) ln line = Ok (rec, []) /\
      dense rec cs /\ length cs = length cols /\
      forall i name d t, nth_error cols i = Some (name, d) -> nth_error texts i = Some t ->
        exists c v, nth_error cs i = Some c /\ ckey c = s2l name /\ cidx c = Some (Z.of_nat i) /\
                    zone2 Or d t = ZAccept v /\ v_val (cval c) = v.
  Proof.
    intros Hin texts Hlen Hall.
    destruct (pinned_layout ver annot cols Hin) as (l & Hl & Hnd & Hcols & Hll).
    assert (Hpos : forall j n sc r t, nth_error (l_cols l) j = Some (n, sc) -> resolve tbl sc = Some r ->
              nth_error texts j = Some t ->
              exists name d, nth_error cols j = Some (name, d) /\ n = s2l name /\
                (forall v, zone2 Or d t = ZAccept v -> field_outcome Or r t = Valid v) /\
                contains_sep t = false /\ exists v, zone2 Or d t = ZAccept v).
    { intros j n sc r t Hs Hr Ht.
      assert (Hj : (j < length cols)%nat) by (rewrite <- Hll; apply nth_error_Some; congruence).
      destruct (nth_error cols j) as [[name d]|] eqn:Hc; [|apply nth_error_None in Hc; lia].
      destruct (field_domain_all_g tbl ls sls Hnames Hfits Or ver annot cols j name d Hclean Hin Hc)
        as (l' & cname & cls & r' & Hl' & Hn' & Hcn & Hr' & _ & Hz).
      rewrite Hl in Hl'. injection Hl' as <-. rewrite Hs in Hn'. injection Hn' as <- <-.
      rewrite Hr in Hr'. injection Hr' as <-.
      destruct (Hall j name d t Hc Ht) as [Hsep Hv].
      exists name, d. repeat split; auto. intros v Hzv. now apply (proj1 (Hz t Hsep)). }
    destruct (line_accepted tbl Or (l_cols l) Hnd Hcols ln line) as (rec & cs & Hfl & Hd & Hlc & Hst).
    - fold texts. congruence.
    - intros j n sc r t Hs Hr Ht. fold texts in Ht.
      destruct (Hpos j n sc r t Hs Hr Ht) as (name & d & _ & _ & Hz & _ & [v Hv]). eauto.
    - exists l, rec, cs. split; [exact Hl|split; [exact Hfl|split; [exact Hd|split; [congruence|]]]].
      intros i name d t Hc Ht.
      assert (Hi : (i < length (l_cols l))%nat) by (rewrite Hll; apply nth_error_Some; congruence).
      destruct (nth_error (l_cols l) i) as [[n sc]|] eqn:Hs; [|apply nth_error_None in Hs; lia].
      destruct (col_resolved tbl (l_cols l) Hcols i n sc Hs) as [r [Hr _]].
      destruct (Hpos i n sc r t Hs Hr Ht) as (name' & d' & Hc' & Hn & Hz & _ & [v Hv]).
      rewrite Hc in Hc'. injection Hc' as <- <-.
      destruct (Hst i n sc r t Hs Hr Ht) as (c & v' & Hcs & Hk & Hci & Hfo & Hcv).
      rewrite (Hz v Hv) in Hfo. injection Hfo as <-.
      exists c, v. repeat split; auto; [congruence|]. now rewrite Hcv.
  Qed.

  (* C01 reject: a field outside its documented domain *)
  Theorem pinned_field_rejected ver annot cols m ln line i name d t l rec errs :
    In (ver, annot, cols) sls -> find_layout ls annot = Some l ->
    let texts := split TAB (rstrip_crlf line) in
    nth_error cols i = Some (name, d) -> nth_error texts i = Some t ->
    contains_sep t = false -> zone2 Or d t = ZReject ->
    from_line tbl Or m None (Some (l_cols l)) ln line = Ok (rec, errs) ->
    m <> Strict /\ rec_value rec (s2l name) = VNone /\
    (length texts = length cols -> exists e, In e errs /\ ecol e = Some (s2l name) /\ eline e = ln).
  Proof.
    intros Hin Hl texts Hc Ht Hsep Hz Hfl.
    destruct (pinned_layout ver annot cols Hin) as (l' & Hl' & Hnd & Hcols & Hll).
    rewrite Hl in Hl'. injection Hl' as <-.
    destruct (field_domain_all_g tbl ls sls Hnames Hfits Or ver annot cols i name d Hclean Hin Hc)
      as (l' & cname & cls & r & Hl' & Hn & Hcn & Hr & _ & Hzz).
    rewrite Hl in Hl'. injection Hl' as <-. subst cname.
    pose proof (proj2 (Hzz t Hsep) Hz) as Hinv.
    destruct (line_rejected_field tbl Or (l_cols l) Hnd Hcols m ln line i (s2l name) cls r t rec errs Hn Hr Ht Hinv Hfl)
      as (H1 & H2 & H3).
    split; [exact H1|split; [exact H2|]]. intros Hlen. apply H3. fold texts. congruence.
  Qed.
End Pinned.

(* ---------- the concrete sweep and the final statements ---------- *)
Lemma all_layouts_ok : forallb (layout_ok_g class_table) layouts_ok = true.
Proof. vm_compute. reflexivity. Qed.

Definition line_accepted_as_documented (Or : oracles) (Hc : oracle_clean Or) :=
  pinned_line_accepted class_table layouts_ok spec_layouts Or all_names_match all_fits all_layouts_ok Hc.
Definition field_rejected_as_documented (Or : oracles) (Hc : oracle_clean Or) :=
  pinned_field_rejected class_table layouts_ok spec_layouts Or all_names_match all_fits all_layouts_ok Hc.
