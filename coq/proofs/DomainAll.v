(* DomainAll.v - C01 at field level for ALL documented domain kinds: the final
   statements over the regenerated tables (instances of the abstract theorems
   of ShapeFacts2.v with the vm_compute'd sweeps), ready to be cited from
   props/C01.v, with examples by vm_compute for every new kind. *)
From Coq Require Import String Ascii.
From MafVerif Require Import lib.Base lib.Str lib.PyInt gen.GenClasses gen.GenEnums gen.GenSchemas
     model.Classes model.Columns model.Layouts spec.SpecLayouts
     proofs.LayoutFacts proofs.ColumnFacts proofs.ShapeFacts proofs.ColumnFacts2 proofs.ShapeFacts2.
Open Scope string_scope.

(* For every pinned layout, EVERY column position and every field text without
   TAB/CR/LF: the class the regenerated definitions put there (resolved by C3
   over the regenerated class table) fits the documented domain, accepts the
   text with exactly the denoted value when the text lies in the domain, and
   rejects it (never exposes a value) when it lies outside.  The host's
   float()/uuid.UUID() are the oracle `Or`; its law (reprs contain no
   TAB/CR/LF) is the explicit hypothesis `oracle_clean Or`. *)
Theorem field_domain_as_documented_all :
  forall (Or : oracles) ver annot cols i name d,
    oracle_clean Or ->
    In (ver, annot, cols) spec_layouts -> nth_error cols i = Some (name, d) ->
    exists l cname cls r,
      find_layout layouts_ok annot = Some l /\ nth_error (l_cols l) i = Some (cname, cls) /\
      cname = s2l name /\ resolve class_table cls = Some r /\ fits d (r_self r) (r_elem r) = true /\
      forall t, contains_sep t = false ->
        (forall v, zone2 Or d t = ZAccept v -> field_outcome Or r t = Valid v) /\
        (zone2 Or d t = ZReject -> field_outcome Or r t = Invalid).
Proof. exact (field_domain_all_g class_table layouts_ok spec_layouts all_names_match all_fits). Qed.

(* the same for any resolved class (self, element) that fits a descriptor,
   whatever layout it sits in *)
Theorem class_meets_domain_all :
  forall (Or : oracles) d e el t,
    oracle_clean Or -> fits d e el = true -> contains_sep t = false ->
    (forall v, zone2 Or d t = ZAccept v -> fo2 Or e el t = Valid v) /\
    (zone2 Or d t = ZReject -> fo2 Or e el t = Invalid).
Proof. exact class_meets_descr_all. Qed.

(* on the kinds of ColumnFacts.v the extended zone is the old one *)
Theorem zone2_extends_zone :
  forall Or d t, is_some (shape d) = true -> zone2 Or d t = zone d t.
Proof. intros Or d t H. destruct d; try reflexivity; discriminate. Qed.

(* the pinned vocabularies are contained in the regenerated enum table: same
   (member name, value) pairs in the same order (removing or renaming a
   documented term breaks this; adding one does not) *)
Theorem vocabularies_contained :
  forall e ms, In (e, ms) spec_enums -> Subseq ms (enum_members e).
Proof. exact (vocab_contained_g spec_enums spec_enums_contained). Qed.

(* every documented term is a member of the regenerated class; its value text
   denotes exactly that member (the class is @unique), its name is accepted too *)
Theorem documented_term_accepted :
  forall e ms name value, In (e, ms) spec_enums -> In (name, value) ms ->
    exists i, nth_error (enum_members e) i = Some (name, value) /\
              zone_enum_lookup e (s2l value) = ZAccept (VEnum e i) /\
              exists j, zone_enum_lookup e (s2l name) = ZAccept (VEnum e j).
Proof. exact (documented_term_accepted_g spec_enums spec_enums_contained spec_enums_unique). Qed.

(* ---------- non-vacuity ---------- *)
Example covered_all : covered_positions_all = (1731%nat, 1731%nat).
Proof. vm_compute. reflexivity. Qed.

(* an oracle for the examples: two floats, one UUID *)
Definition ex_oracle : oracles :=
  {| fval := fun t => if str_eqb t (s2l "1e3") then Some (s2l "1000.0")
                      else if str_eqb t (s2l "0.5") then Some (s2l "0.5") else None;
     uval := fun t => if str_eqb t (s2l "{12345678-1234-5678-1234-567812345678}")
                      then Some (s2l "12345678-1234-5678-1234-567812345678") else None |}.

Definition NYN : descr := DEnum "NullableYesOrNoEnum" true [("Null", 0%nat); ("", 0%nat)] false.
Definition el_string : ecls :=
  mk None None ["_BuildStringColumn"; MCCR] ["StringColumn"; "NullableStringColumn"; MCCR] ["MafColumnRecord"].
Definition el_nyn : ecls :=
  sh_enum ["NullableYesOrNo"] "NullableYesOrNoEnum"
          (Some [(s2l "Null", VEnum "NullableYesOrNoEnum" 0); ([], VEnum "NullableYesOrNoEnum" 0)]).

Example zones_canonical_bool :
  map (zone2 ex_oracle DCanonical) [s2l "yEs"; s2l ""; s2l "no"; [233%N]]
  = [ZAccept (VBool true); ZAccept (VBool false); ZReject; ZDontCare]
  /\ map (fo2 ex_oracle sh_canonical None) [s2l "yEs"; s2l ""; s2l "no"]
  = [Valid (VBool true); Valid (VBool false); Invalid]
  /\ map (zone2 ex_oracle DBool) [s2l "tRuE"; s2l "FALSE"; s2l "1"; s2l ""]
  = [ZAccept (VBool true); ZAccept (VBool false); ZReject; ZReject]
  /\ map (fo2 ex_oracle sh_bool None) [s2l "tRuE"; s2l "FALSE"; s2l "1"; s2l ""]
  = [Valid (VBool true); Valid (VBool false); Invalid; Invalid].
Proof. vm_compute. repeat split; reflexivity. Qed.

Example zones_textorint :
  map (zone2 ex_oracle DTextOrInt) [s2l "17"; s2l "-3"; s2l "X"; s2l "chr1"; s2l ""; s2l "+7"; s2l "1_0"; s2l "007"]
  = [ZAccept (VInt 17); ZAccept (VInt (-3)); ZAccept (VStr (s2l "X")); ZAccept (VStr (s2l "chr1"));
     ZAccept (VStr []); ZDontCare; ZDontCare; ZDontCare]
  /\ map (fo2 ex_oracle sh_textorint None) [s2l "17"; s2l "X"; s2l ""]
  = [Valid (VInt 17); Valid (VStr (s2l "X")); Valid (VStr [])].
Proof. vm_compute. repeat split; reflexivity. Qed.

Example zones_float_uuid :
  map (zone2 ex_oracle (DFloat true)) [s2l "1e3"; s2l ""; s2l "abc"]
  = [ZAccept (VFloat (s2l "1000.0")); ZAccept VNone; ZReject]
  /\ map (fo2 ex_oracle (sh_float true) None) [s2l "1e3"; s2l ""; s2l "abc"]
  = [Valid (VFloat (s2l "1000.0")); Valid VNone; Invalid]
  /\ map (zone2 ex_oracle (DUuid false)) [s2l "{12345678-1234-5678-1234-567812345678}"; s2l ""]
  = [ZAccept (VUuid (s2l "12345678-1234-5678-1234-567812345678")); ZReject]
  /\ map (fo2 ex_oracle (sh_uuid false) None) [s2l "{12345678-1234-5678-1234-567812345678}"; s2l ""]
  = [Valid (VUuid (s2l "12345678-1234-5678-1234-567812345678")); Invalid].
Proof. vm_compute. repeat split; reflexivity. Qed.

Example zones_enum :
  map (zone2 ex_oracle NYN) [s2l "nULL"; s2l "Null"; s2l ""; s2l "1"; s2l "yES"; s2l "no"; s2l "2"; s2l "maybe"]
  = [ZAccept (VEnum "NullableYesOrNoEnum" 0); ZAccept (VEnum "NullableYesOrNoEnum" 0);
     ZAccept (VEnum "NullableYesOrNoEnum" 0); ZAccept (VEnum "NullableYesOrNoEnum" 2);
     ZAccept (VEnum "NullableYesOrNoEnum" 2); ZAccept (VEnum "NullableYesOrNoEnum" 1); ZReject; ZReject]
  /\ map (fo2 ex_oracle el_nyn None) [s2l "nULL"; s2l ""; s2l "yES"; s2l "2"]
  = [Valid (VEnum "NullableYesOrNoEnum" 0); Valid (VEnum "NullableYesOrNoEnum" 0);
     Valid (VEnum "NullableYesOrNoEnum" 2); Invalid]
  /\ map (zone2 ex_oracle (DEnum "VerificationStatusEnum" false [] true)) [s2l ""; s2l "Verified"; s2l "verified"]
  = [ZAccept VNone; ZAccept (VEnum "VerificationStatusEnum" 0); ZReject]
  /\ map (zone2 ex_oracle (DEnum "MutationStatusEnum" false [] false)) [s2l "None"; s2l "NoStatus"; s2l "LOH"; s2l ""]
  = [ZAccept (VEnum "MutationStatusEnum" 0); ZAccept (VEnum "MutationStatusEnum" 0);
     ZAccept (VEnum "MutationStatusEnum" 3); ZReject].
Proof. vm_compute. repeat split; reflexivity. Qed.

Example zones_seq :
  map (zone2 ex_oracle (DSeq (DText true false))) [s2l ""; s2l "a;b"; s2l "a;;b"; s2l ";"; s2l "a"]
  = [ZAccept (VList []); ZAccept (VList [VStr (s2l "a"); VStr (s2l "b")]); ZReject; ZReject;
     ZAccept (VList [VStr (s2l "a")])]
  /\ map (fo2 ex_oracle sh_seq (Some el_string)) [s2l ""; s2l "a;b"; s2l "a;;b"; s2l ";"]
  = [Valid (VList []); Valid (VList [VStr (s2l "a"); VStr (s2l "b")]); Invalid; Invalid]
  /\ map (zone2 ex_oracle (DSeq (DInt None false))) [s2l "1;-2"; s2l "1;x"; s2l "1;+2"; s2l "x;+2"]
  = [ZAccept (VList [VInt 1; VInt (-2)]); ZReject; ZDontCare; ZReject]
  /\ map (zone2 ex_oracle (DSeq NYN)) [s2l "1;;nO"; s2l "1;2"]
  = [ZAccept (VList [VEnum "NullableYesOrNoEnum" 2; VEnum "NullableYesOrNoEnum" 0; VEnum "NullableYesOrNoEnum" 1]);
     ZReject]
  /\ map (fo2 ex_oracle sh_seq (Some el_nyn)) [s2l "1;;nO"; s2l "1;2"]
  = [Valid (VList [VEnum "NullableYesOrNoEnum" 2; VEnum "NullableYesOrNoEnum" 0; VEnum "NullableYesOrNoEnum" 1]);
     Invalid].
Proof. vm_compute. repeat split; reflexivity. Qed.

(* the example shapes are the ones the sweeps are about *)
Example example_shapes_fit :
  fits DCanonical sh_canonical None = true /\ fits NYN el_nyn None = true
  /\ fits (DSeq (DText true false)) sh_seq (Some el_string) = true /\ fits (DSeq NYN) sh_seq (Some el_nyn) = true.
Proof. vm_compute. repeat split; reflexivity. Qed.

Print Assumptions field_domain_as_documented_all.
Print Assumptions class_meets_domain_all.
Print Assumptions vocabularies_contained.
Print Assumptions documented_term_accepted.
