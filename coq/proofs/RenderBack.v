(* RenderBack.v - the remaining premise of C06: for every column class of a
   built layout, the rendering of ANY well-formed value that validates (built
   through the API, not necessarily by parsing) is itself an accepted field
   text (possibly denoting another value: VInt 0 of EntrezGeneId renders "0" =
   None, VStr "" of a nullable text renders '' = None, a one-element [Null]
   list renders '' = []).

   `renders_back` of WriterFacts.v quantifies over ALL model values; that is
   false in the model for values no python program can build: VFloat r with r
   not a repr, VUuid u with u not a canonical uuid text, VEnum e i with i out
   of range all "validate" (isinstance tests only) but do not render to a text
   that parses (see renders_back_needs_wf below).  The provable statement
   carries `wf_val`, which the harness' values always satisfy.

   Tables abstract; the regenerated tables enter through one boolean sweep. *)
From Coq Require Import String Ascii.
From MafVerif Require Import lib.Base lib.Str lib.PyInt gen.GenClasses gen.GenEnums model.Classes model.Columns
     model.Layouts model.RecordOps model.ColRecord proofs.RecordFacts proofs.LayoutFacts proofs.ColumnFacts
     proofs.ParseFacts proofs.MaskFacts proofs.LineFacts proofs.WriterFacts proofs.RenderFacts.
Open Scope string_scope.

(* ---------- values python can actually hold ---------- *)
Fixpoint wf_val (O : oracles) (v : pyval) : Prop :=
  match v with
  | VFloat r => fval O r = Some r                      (* r is the repr of a float *)
  | VUuid u => uval O u = Some u                       (* u is str(UUID) *)
  | VEnum e i => (i < length (enum_members e))%nat     (* a member of the enumeration *)
  | VList l | VTuple l => (fix all (l : list pyval) : Prop :=
                             match l with [] => True | x :: r => wf_val O x /\ all r end) l
  | _ => True
  end.

Lemma wf_list_in O l x :
  (fix all (l : list pyval) : Prop := match l with [] => True | x :: r => wf_val O x /\ all r end) l ->
  In x l -> wf_val O x.
Proof. induction l as [|y l IH]; simpl; [tauto|]. intros [H1 H2] [<-|Hin]; auto. Qed.

(* ---------- one equation per __validate__ body ---------- *)
Section ValidateEquations.
  Variables (e : ecls) (sv : pyval -> bool) (sup : list string) (v : pyval).
  Lemma ev_rnv : eval_validate e sv ("RequireNullValue" :: sup) v = true.
  Proof. reflexivity. Qed.
  Lemma ev_nsc : eval_validate e sv ("NullableStringColumn" :: sup) v = match v with VStr _ => false | _ => true end.
  Proof. reflexivity. Qed.
  Lemma ev_sc : eval_validate e sv ("StringColumn" :: sup) v = if eval_validate e sv sup v then true else negb (truthy v).
  Proof. reflexivity. Qed.
  Lemma ev_ndna :
    eval_validate e sv ("NullableDnaString" :: sup) v =
    match v with VStr s => if str_eqb s [DASH] then false else negb (forallb acgt s) | _ => true end.
  Proof. reflexivity. Qed.
  Lemma ev_dna : eval_validate e sv ("DnaString" :: sup) v = if eval_validate e sv sup v then true else negb (truthy v).
  Proof. reflexivity. Qed.
  Lemma ev_int :
    eval_validate e sv ("IntegerColumn" :: sup) v =
    match v with
    | VInt z =>
        match e_min e with
        | Some m => if (z <? m)%Z then true else match e_max e with Some M => (M <? z)%Z | None => false end
        | None => match e_max e with Some M => (M <? z)%Z | None => false end
        end
    | _ => true
    end.
  Proof. reflexivity. Qed.
  Lemma ev_strand :
    eval_validate e sv ("TranscriptStrand" :: sup) v =
    match v with VInt z => negb (Z.eqb z 1 || Z.eqb z (-1)) | _ => true end.
  Proof. reflexivity. Qed.
  Lemma ev_float : eval_validate e sv ("FloatColumn" :: sup) v = match v with VFloat _ => false | _ => true end.
  Proof. reflexivity. Qed.
  Lemma ev_uuid : eval_validate e sv ("UUIDColumn" :: sup) v = match v with VUuid _ => false | _ => true end.
  Proof. reflexivity. Qed.
  Lemma ev_enum :
    eval_validate e sv ("EnumColumn" :: sup) v =
    match v, e_enum e with VEnum en _, Some en' => negb (String.eqb en en') | _, _ => true end.
  Proof. reflexivity. Qed.
  Lemma ev_canon : eval_validate e sv ("Canonical" :: sup) v = match v with VBool _ => false | _ => true end.
  Proof. reflexivity. Qed.
  Lemma ev_bool : eval_validate e sv ("BooleanColumn" :: sup) v = match v with VBool _ => false | _ => true end.
  Proof. reflexivity. Qed.
  Lemma ev_strorint :
    eval_validate e sv ("StringOrIntegerColumn" :: sup) v = match v with VInt _ | VBool _ | VStr _ => false | _ => true end.
  Proof. reflexivity. Qed.
End ValidateEquations.

(* validate chains that only let text through *)
Fixpoint vstr_chain (ch : list string) : bool :=
  match ch with
  | [] => false
  | c :: sup =>
      if String.eqb c "NullableStringColumn" || String.eqb c "NullableDnaString" then true
      else if String.eqb c "StringColumn" || String.eqb c "DnaString" then vstr_chain sup else false
  end.

Lemma vstr_chain_valid e sv ch : vstr_chain ch = true ->
  forall v, eval_validate e sv ch v = false -> exists s, v = VStr s.
Proof.
  induction ch as [|c sup IH]; intros H v Hv; [discriminate|]. cbn [vstr_chain] in H.
  destruct (String.eqb c "NullableStringColumn" || String.eqb c "NullableDnaString") eqn:E1.
  - apply orb_true_iff in E1 as [E|E]; apply String.eqb_eq in E; subst c.
    + rewrite ev_nsc in Hv. destruct v; try discriminate. eauto.
    + rewrite ev_ndna in Hv. destruct v; try discriminate. eauto.
  - destruct (String.eqb c "StringColumn" || String.eqb c "DnaString") eqn:E2; [|discriminate].
    apply orb_true_iff in E2 as [E|E]; apply String.eqb_eq in E; subst c.
    + rewrite ev_sc in Hv. destruct (eval_validate e sv sup v) eqn:Es; [discriminate|]. now apply (IH H v).
    + rewrite ev_dna in Hv. destruct (eval_validate e sv sup v) eqn:Es; [discriminate|]. now apply (IH H v).
Qed.

Definition vint_head (l : list string) : bool := hd_is l "IntegerColumn" || hd_is l "TranscriptStrand".
Lemma vint_head_valid e sv ch v : vint_head ch = true -> eval_validate e sv ch v = false -> exists z, v = VInt z.
Proof.
  unfold vint_head. intros H Hv. apply orb_true_iff in H as [H|H]; apply hd_is_eq in H as [sup ->].
  - rewrite ev_int in Hv. destruct v; try discriminate. eauto.
  - rewrite ev_strand in Hv. destruct v; try discriminate. eauto.
Qed.

Lemma null_ok_not_cons a x l : null_val_ok a = true -> py_eq a (VList (x :: l)) = false.
Proof. destruct a; simpl; try discriminate; auto. destruct l0; [auto|discriminate]. Qed.

(* ---------- the raw layer for arbitrary valid values ---------- *)
Definition raw_back (O : oracles) (r : rcls) : Prop :=
  forall v, cls_validate_raw r v = false -> in_null_values (r_self r) v = false -> wf_val O v ->
    exists t, eval_string_it (e_string_it (r_self r)) v = Ok t /\
      (contains_sep t = false -> not_null_key (r_self r) t ->
       exists v', cls_build_raw O r t = Ok v' /\
         (in_null_values (r_self r) v' = true \/
          (cls_validate_raw r v' = false /\
           exists t2, eval_string_it (e_string_it (r_self r)) v' = Ok t2 /\ contains_sep t2 = false))).

Lemma null_value_accepted (O : oracles) r w :
  e_custom (r_self r) = true -> e_null_ok (r_self r) = true -> in_null_values (r_self r) w = true ->
  cls_value_invalid r w = false /\ cls_text_has_sep r w = false.
Proof.
  intros Hc Hok Hin. destruct (null_value_fix O r w Hc Hok Hin) as (H1 & H2 & _). split.
  - unfold cls_value_invalid. now rewrite Hc, Hin.
  - unfold cls_text_has_sep. now rewrite H1.
Qed.

Theorem custom_back O r :
  e_custom (r_self r) = true -> e_null_ok (r_self r) = true -> raw_back O r ->
  forall v, cls_value_invalid r v = false -> cls_text_has_sep r v = false -> wf_val O v ->
    exists t v', col_str r v = Ok t /\ field_outcome O r t = Valid v'.
Proof.
  intros Hc Hok Hraw v Hinv Hsep Hwf.
  destruct (in_null_values (r_self r) v) eqn:Hin.
  - destruct (null_value_fix O r v Hc Hok Hin) as (H1 & _ & H3). eauto.
  - assert (Hvr : cls_validate_raw r v = false) by (unfold cls_value_invalid in Hinv; now rewrite Hc, Hin in Hinv).
    destruct (Hraw v Hvr Hin Hwf) as (t & Hs & Hrest).
    assert (Hstr : col_str r v = Ok t).
    { unfold col_str, ecls_str. unfold in_null_values in Hin.
      destruct (e_null (r_self r)) as [d|]; [|exact Hs]. now rewrite (filter_none _ _ Hin). }
    assert (Hsep' : contains_sep t = false) by (unfold cls_text_has_sep in Hsep; now rewrite Hstr in Hsep).
    exists t.
    (* is the rendering a null key? *)
    assert (Hcase : (exists w, cls_build O r t = Ok w /\ in_null_values (r_self r) w = true) \/ not_null_key (r_self r) t).
    { unfold not_null_key. destruct (e_null (r_self r)) as [d|] eqn:Hn; [|right; discriminate].
      destruct (assoc t d) as [w|] eqn:Ha.
      - left. exists w. split; [unfold cls_build; now rewrite Hc, Hn, Ha|].
        apply assoc_some_in in Ha. unfold e_null_ok in Hok. rewrite Hn in Hok.
        destruct (null_dict_ok_in d _ Hok Ha) as (Hv & _ & _). simpl in Hv.
        unfold in_null_values. rewrite Hn. apply existsb_exists. exists (t, w). split; [exact Ha|].
        now apply py_eq_null_refl.
      - right. intros d' Hd'. injection Hd' as <-. exact Ha. }
    destruct Hcase as [(w & Hb & Hw)|Hnk].
    + exists w. split; [exact Hstr|]. destruct (null_value_accepted O r w Hc Hok Hw) as [A1 A2].
      now apply field_outcome_valid_intro.
    + destruct (Hrest Hsep' Hnk) as (v' & Hb' & Hv').
      exists v'. split; [exact Hstr|].
      pose proof (build_not_key O r t v' Hc Hnk Hb') as Hb.
      destruct (in_null_values (r_self r) v') eqn:Hin'.
      * destruct (null_value_accepted O r v' Hc Hok Hin') as [A1 A2]. now apply field_outcome_valid_intro.
      * destruct Hv' as [Hv'|(Hvr' & t2 & Ht2 & Hs2)]; [discriminate|].
        apply field_outcome_valid_intro; [exact Hb| |].
        -- unfold cls_value_invalid. now rewrite Hc, Hin'.
        -- unfold cls_text_has_sep, col_str, ecls_str. unfold in_null_values in Hin'.
           destruct (e_null (r_self r)) as [d|]; [rewrite (filter_none _ _ Hin')|]; now rewrite Ht2.
Qed.

(* ---------- kinds ---------- *)
Definition b_str (e : ecls) : bool := k_str e && vstr_chain (e_validate e).
Definition b_int (e : ecls) : bool := int_head (e_build e) && mcr_str e && vint_head (e_validate e).
Definition b_entrez (e : ecls) : bool :=
  match e_build e with a :: sup => String.eqb a "EntrezGeneId" && int_head sup | [] => false end
  && mcr_str e && vint_head (e_validate e) && in_null_values e VNone.
Definition b_float (e : ecls) : bool := hd_is (e_build e) "FloatColumn" && mcr_str e && hd_is (e_validate e) "FloatColumn".
Definition b_uuid (e : ecls) : bool := hd_is (e_build e) "UUIDColumn" && mcr_str e && hd_is (e_validate e) "UUIDColumn".
Definition b_enum (e : ecls) : bool := k_enum e && hd_is (e_validate e) "EnumColumn".
Definition b_canon (e : ecls) : bool := k_canon e && hd_is (e_validate e) "Canonical".
Definition b_bool (e : ecls) : bool := k_bool e && hd_is (e_validate e) "BooleanColumn".
Definition b_strorint (e : ecls) : bool :=
  hd_is (e_build e) "StringOrIntegerColumn" && mcr_str e && hd_is (e_validate e) "StringOrIntegerColumn".

Definition elem_back_ok (el : ecls) : bool :=
  (ke_str el && vstr_chain (e_validate el)) || (ke_int el && vint_head (e_validate el))
  || (ke_enum el && hd_is (e_validate el) "EnumColumn").
Definition has_empty_key (e : ecls) : bool :=
  match e_null e with Some d => is_some (assoc [] d) | None => false end.
Definition b_seq (r : rcls) : bool :=
  hd_is (e_build (r_self r)) "SequenceOfValuesColumn" && hd_is (e_string_it (r_self r)) "SequenceOfValuesColumn"
  && hd_is (e_validate (r_self r)) "SequenceOfValuesColumn" && has_empty_key (r_self r)
  && match r_elem r with Some el => elem_back_ok el | None => false end.

Section BackKinds.
  Variable O : oracles.

  Ltac valid_head H Hv r :=
    unfold cls_validate_raw in Hv; apply hd_is_eq in H as [? H]; rewrite H in Hv.

  Lemma rnv_back r : k_rnv (r_self r) = true -> raw_back O r.
  Proof.
    intros H v Hv. exfalso. unfold k_rnv in H. apply hd_is_eq in H as [rest H].
    unfold cls_validate_raw in Hv. rewrite H, ev_rnv in Hv. discriminate.
  Qed.

  Lemma str_back r : b_str (r_self r) = true -> raw_back O r.
  Proof.
    intros H v Hv _ _. unfold b_str, k_str, mcr_str in H. split_andb H.
    pose proof Hv as Hv0. unfold cls_validate_raw in Hv.
    destruct (vstr_chain_valid _ _ _ H0 v Hv) as [s ->].
    apply hd_is_eq in H as [sup H]. apply hd_is_eq in H1 as [sup' H1].
    exists s. rewrite H1, esi_mcr. split; [reflexivity|]. intros Hsep _.
    exists (VStr s). unfold cls_build_raw. rewrite H, eb_str. split; [reflexivity|]. right.
    split; [exact Hv0|]. exists s. rewrite ?H1, ?esi_mcr. auto.
  Qed.

  Lemma int_back r : b_int (r_self r) = true -> raw_back O r.
  Proof.
    intros H v Hv _ _. unfold b_int, mcr_str in H. split_andb H.
    pose proof Hv as Hv0. unfold cls_validate_raw in Hv.
    destruct (vint_head_valid _ _ _ v H0 Hv) as [z ->].
    apply hd_is_eq in H1 as [sup' H1].
    exists (render_int z). rewrite H1, esi_mcr. split; [reflexivity|]. intros Hsep _.
    exists (VInt z). unfold cls_build_raw. rewrite (int_head_build O _ _ _ _ H), build_int_render.
    split; [reflexivity|]. right. split; [exact Hv0|]. exists (render_int z). rewrite ?H1, ?esi_mcr. auto.
  Qed.

  Lemma entrez_back r : b_entrez (r_self r) = true -> raw_back O r.
  Proof.
    intros H v Hv _ _. unfold b_entrez, mcr_str in H. split_andb H.
    destruct (e_build (r_self r)) as [|a sup] eqn:Eb; [discriminate|]. split_andb H.
    apply String.eqb_eq in H. subst a.
    pose proof Hv as Hv0. unfold cls_validate_raw in Hv.
    destruct (vint_head_valid _ _ _ v H1 Hv) as [z ->].
    apply hd_is_eq in H2 as [sup' H2].
    exists (render_int z). rewrite H2, esi_mcr. split; [reflexivity|]. intros Hsep _.
    unfold cls_build_raw. rewrite Eb, eb_entrez, (int_head_build O _ _ _ _ H3), build_int_render. simpl.
    destruct (Z.eqb z 0).
    - exists VNone. split; [reflexivity|]. now left.
    - exists (VInt z). split; [reflexivity|]. right. split; [exact Hv0|].
      exists (render_int z). rewrite ?H2, ?esi_mcr. auto.
  Qed.

  Lemma float_back r : b_float (r_self r) = true -> raw_back O r.
  Proof.
    intros H v Hv _ Hwf. unfold b_float, mcr_str in H. split_andb H.
    pose proof Hv as Hv0. unfold cls_validate_raw in Hv.
    apply hd_is_eq in H0 as [sv H0]. rewrite H0, ev_float in Hv. destruct v; try discriminate.
    simpl in Hwf. apply hd_is_eq in H as [sup H]. apply hd_is_eq in H1 as [sup' H1].
    exists repr. rewrite H1, esi_mcr. split; [reflexivity|]. intros Hsep _.
    exists (VFloat repr). unfold cls_build_raw. rewrite H, eb_float, Hwf. split; [reflexivity|]. right.
    split; [exact Hv0|]. exists repr. rewrite ?H1, ?esi_mcr. auto.
  Qed.

  Lemma uuid_back r : b_uuid (r_self r) = true -> raw_back O r.
  Proof.
    intros H v Hv _ Hwf. unfold b_uuid, mcr_str in H. split_andb H.
    pose proof Hv as Hv0. unfold cls_validate_raw in Hv.
    apply hd_is_eq in H0 as [sv H0]. rewrite H0, ev_uuid in Hv. destruct v; try discriminate.
    simpl in Hwf. apply hd_is_eq in H as [sup H]. apply hd_is_eq in H1 as [sup' H1].
    exists canon. rewrite H1, esi_mcr. split; [reflexivity|]. intros Hsep _.
    exists (VUuid canon). unfold cls_build_raw. rewrite H, eb_uuid, Hwf. split; [reflexivity|]. right.
    split; [exact Hv0|]. exists canon. rewrite ?H1, ?esi_mcr. auto.
  Qed.

  Lemma enum_valid_inv e sv sup v :
    eval_validate e sv ("EnumColumn" :: sup) v = false -> exists en i, v = VEnum en i /\ e_enum e = Some en.
  Proof.
    rewrite ev_enum. destruct v; try discriminate. destruct (e_enum e) as [en'|]; [|discriminate].
    intros H. apply negb_false_iff, String.eqb_eq in H. subst. eauto.
  Qed.

  Lemma enum_back r : b_enum (r_self r) = true -> raw_back O r.
  Proof.
    intros H v Hv Hnn Hwf. unfold b_enum, k_enum in H. split_andb H.
    pose proof Hv as Hv0. unfold cls_validate_raw in Hv.
    apply hd_is_eq in H0 as [sv H0]. rewrite H0 in Hv.
    destruct (enum_valid_inv _ _ _ _ Hv) as (en & i & -> & Een). rewrite Een in H1.
    simpl in Hwf. apply hd_is_eq in H2 as [sup' H2].
    unfold enum_sweep in H1. rewrite forallb_forall in H1.
    assert (Hin : In i (seq 0 (length (enum_members en)))) by (apply in_seq; lia).
    specialize (H1 _ Hin). unfold enum_member_ok in H1. rewrite Hnn in H1. cbn [orb] in H1.
    apply andb_true_iff in H1 as [_ Hrb]. apply res_is_member_eq in Hrb.
    exists (enum_value en i). rewrite H2, esi_enum. split; [reflexivity|]. intros Hsep _.
    exists (VEnum en i). unfold cls_build_raw. rewrite Een. split.
    - rewrite <- Hrb. now apply enum_chain_indep.
    - right. split; [exact Hv0|]. exists (enum_value en i). rewrite ?H2, ?esi_enum. auto.
  Qed.

  Lemma canon_back r : b_canon (r_self r) = true -> raw_back O r.
  Proof.
    intros H v Hv _ _. unfold b_canon, k_canon in H. split_andb H.
    pose proof Hv as Hv0. unfold cls_validate_raw in Hv.
    apply hd_is_eq in H0 as [sv H0]. rewrite H0, ev_canon in Hv. destruct v; try discriminate.
    apply hd_is_eq in H as [sup H]. apply hd_is_eq in H2 as [sup' H2].
    exists (if b then s2l "YES" else []). rewrite ?H2, ?esi_canon. split; [destruct b; reflexivity|]. intros Hsep _.
    exists (VBool b). unfold cls_build_raw. rewrite H, eb_canon. split; [destruct b; reflexivity|]. right.
    split; [exact Hv0|]. exists (if b then s2l "YES" else []). rewrite ?H2, ?esi_canon. split; [destruct b; reflexivity|exact Hsep].
  Qed.

  Lemma bool_back r : b_bool (r_self r) = true -> raw_back O r.
  Proof.
    intros H v Hv _ _. unfold b_bool, k_bool, mcr_str in H. split_andb H.
    pose proof Hv as Hv0. unfold cls_validate_raw in Hv.
    apply hd_is_eq in H0 as [sv H0]. rewrite H0, ev_bool in Hv. destruct v; try discriminate.
    apply hd_is_eq in H as [sup H]. apply hd_is_eq in H2 as [sup' H2].
    exists (if b then s2l "True" else s2l "False"). rewrite H2, esi_mcr. split; [destruct b; reflexivity|]. intros Hsep _.
    exists (VBool b). unfold cls_build_raw. rewrite H, eb_bool. split; [destruct b; reflexivity|]. right.
    split; [exact Hv0|]. exists (if b then s2l "True" else s2l "False"). rewrite ?H2, ?esi_mcr.
    split; [destruct b; reflexivity|exact Hsep].
  Qed.

  Lemma strorint_back r : b_strorint (r_self r) = true -> raw_back O r.
  Proof.
    intros H v Hv _ _. unfold b_strorint, mcr_str in H. split_andb H.
    unfold cls_validate_raw in Hv.
    apply hd_is_eq in H0 as [sv H0]. apply hd_is_eq in H as [sup H]. apply hd_is_eq in H1 as [sup' H1].
    rewrite H0, ev_strorint in Hv.
    assert (Hres : forall t, contains_sep t = false ->
              exists v', cls_build_raw O r t = Ok v' /\
                (in_null_values (r_self r) v' = true \/
                 (cls_validate_raw r v' = false /\
                  exists t2, eval_string_it (e_string_it (r_self r)) v' = Ok t2 /\ contains_sep t2 = false))).
    { intros t Hsep. unfold cls_build_raw, cls_validate_raw. rewrite H, H0, H1, eb_strorint.
      destruct (py_int t) as [z|].
      - exists (VInt z). split; [reflexivity|]. right. rewrite ev_strorint. split; [reflexivity|].
        exists (render_int z). rewrite esi_mcr. split; [reflexivity|apply contains_sep_int].
      - exists (VStr t). split; [reflexivity|]. right. rewrite ev_strorint. split; [reflexivity|].
        exists t. rewrite esi_mcr. auto. }
    rewrite H1 in Hres |- *. rewrite esi_mcr.
    destruct v; try discriminate.
    - exists (if b then s2l "True" else s2l "False"). split; [destruct b; reflexivity|]. intros Hsep _. now apply Hres.
    - exists (render_int z). split; [reflexivity|]. intros Hsep _. now apply Hres.
    - exists s. split; [reflexivity|]. intros Hsep _. now apply Hres.
  Qed.

  (* elements of a list column *)
  Definition elem_back (el : ecls) : Prop :=
    forall x, eval_validate el no_seqv (e_validate el) x = false -> wf_val O x ->
      (exists s, ecls_str el x = Ok s /\ no_semi s = true) ->
      exists p, py_str x = Ok p /\ no_semi p = true /\ eval_build O (e_enum el) no_seq (e_build el) p = Ok x.

  Lemma elem_back_ok_back el : elem_back_ok el = true -> elem_back el.
  Proof.
    intros H x Hv Hwf (s & Hs & Hns). unfold elem_back_ok in H.
    apply orb_true_iff in H as [H|H]; [apply orb_true_iff in H as [H|H]|]; apply andb_true_iff in H as [Hk Hvc].
    - destruct (vstr_chain_valid _ _ _ Hvc x Hv) as [tx ->].
      unfold ke_str, mcr_str in Hk. split_andb Hk.
      apply hd_is_eq in Hk as [sup Hk]. apply hd_is_eq in Hk1 as [sup' Hk1]. apply is_none_eq in Hk0.
      unfold ecls_str in Hs. rewrite Hk0, Hk1, esi_mcr in Hs. simpl in Hs. injection Hs as <-.
      exists tx. split; [reflexivity|]. split; [exact Hns|]. now rewrite Hk, eb_str.
    - destruct (vint_head_valid _ _ _ x Hvc Hv) as [z ->]. unfold ke_int in Hk.
      exists (render_int z). split; [reflexivity|]. split; [apply no_semi_int|].
      rewrite (int_head_build O _ _ _ _ Hk). apply build_int_render.
    - apply hd_is_eq in Hvc as [sv Hvc]. rewrite Hvc in Hv.
      destruct (enum_valid_inv _ _ _ _ Hv) as (en & i & -> & Een).
      unfold ke_enum in Hk. split_andb Hk. rewrite Een in *. simpl in Hwf.
      rewrite forallb_forall in Hk0.
      assert (Hin : In i (seq 0 (length (enum_members en)))) by (apply in_seq; lia).
      specialize (Hk0 _ Hin). unfold enum_elem_member_ok in Hk0. apply andb_true_iff in Hk0 as [Hn Hrb].
      apply res_is_member_eq in Hrb.
      exists (enum_value en i). split; [reflexivity|]. split; [exact Hn|].
      rewrite <- Hrb. now apply enum_chain_indep.
  Qed.

  Lemma elems_back el : elem_back el ->
    forall vs, (forall x, In x vs -> eval_validate el no_seqv (e_validate el) x = false /\ wf_val O x /\
                                    exists s, ecls_str el x = Ok s /\ no_semi s = true) ->
    exists ps, map_res py_str vs = Ok ps /\ Forall (fun p => ~ In SEMI p) ps /\ length ps = length vs /\
               map_res (eval_build O (e_enum el) no_seq (e_build el)) ps = Ok vs.
  Proof.
    intros Hel. induction vs as [|x vs IH]; intros Hall.
    - exists []. simpl. auto.
    - destruct (Hall x (or_introl eq_refl)) as (Hv & Hw & Hs).
      destruct (Hel x Hv Hw Hs) as (p & Hp & Hnp & Hbp).
      destruct (IH (fun y Hy => Hall y (or_intror Hy))) as (ps & H1 & H2 & H3 & H4).
      exists (p :: ps). simpl. rewrite Hp, H1, Hbp, H4. repeat split; auto.
      constructor; [now apply no_semi_not_in|exact H2].
  Qed.

  Lemma seq_back r : b_seq r = true -> raw_back O r.
  Proof.
    intros H v Hv _ Hwf. unfold b_seq in H. split_andb H.
    apply hd_is_eq in H as [sup H]. apply hd_is_eq in H3 as [sup' H3]. apply hd_is_eq in H2 as [sup'' H2].
    destruct (r_elem r) as [el|] eqn:Eel; [|discriminate].
    pose proof (elem_back_ok_back el H0) as Hel.
    unfold cls_validate_raw in Hv. rewrite H2, Eel, ev_seq in Hv.
    (* the value is a list or a tuple of valid elements *)
    assert (Hl : exists vs, (v = VList vs \/ v = VTuple vs) /\
              existsb (fun x => if eval_validate el no_seqv (e_validate el) x then true
                                else match ecls_str el x with Ok t0 => existsb (N.eqb SEMI) t0 | Raise _ => true end) vs = false /\
              forall x, In x vs -> wf_val O x).
    { destruct v; try discriminate; exists l; (split; [auto|]); (split; [exact Hv|]);
        intros x Hx; now apply (wf_list_in O l x Hwf). }
    destruct Hl as (vs & Hshape & Hex & Hwfs).
    assert (Hall : forall x, In x vs -> eval_validate el no_seqv (e_validate el) x = false /\ wf_val O x /\
                                        exists s, ecls_str el x = Ok s /\ no_semi s = true).
    { intros x Hx.
      assert (Hx' : (if eval_validate el no_seqv (e_validate el) x then true
                     else match ecls_str el x with Ok t0 => existsb (N.eqb SEMI) t0 | Raise _ => true end) = false).
      { destruct (if eval_validate el no_seqv (e_validate el) x then true
                  else match ecls_str el x with Ok t0 => existsb (N.eqb SEMI) t0 | Raise _ => true end) eqn:E; [|reflexivity].
        assert (existsb (fun x0 => if eval_validate el no_seqv (e_validate el) x0 then true
                                   else match ecls_str el x0 with Ok t0 => existsb (N.eqb SEMI) t0 | Raise _ => true end) vs = true);
          [|congruence]. apply existsb_exists. eauto. }
      destruct (eval_validate el no_seqv (e_validate el) x); [discriminate|]. split; [reflexivity|].
      split; [auto|]. destruct (ecls_str el x) as [s|]; [|discriminate]. exists s. split; [reflexivity|].
      unfold no_semi. now rewrite Hx'. }
    destruct (elems_back el Hel vs Hall) as (ps & Hps & Hns & Hlen & Hrb).
    exists (join [SEMI] ps). split.
    { rewrite H3, esi_seq. destruct Hshape as [-> | ->]; now rewrite Hps. }
    intros Hsep Hnk.
    assert (Hne : ps <> []).
    { intros ->. simpl in Hnk. unfold has_empty_key in H1.
      destruct (e_null (r_self r)) as [d|] eqn:Hn; [|discriminate].
      rewrite (Hnk d Hn) in H1. discriminate. }
    exists (VList vs). split.
    { unfold cls_build_raw. rewrite H, Eel, eb_seq, split_join by assumption. now rewrite Hrb. }
    right. split.
    { unfold cls_validate_raw. rewrite H2, Eel, ev_seq. exact Hex. }
    exists (join [SEMI] ps). rewrite H3, esi_seq, Hps. auto.
  Qed.
End BackKinds.

(* ---------- classifier, field theorem ---------- *)
Definition back_raw_ok (r : rcls) : bool :=
  let e := r_self r in
  k_rnv e || b_str e || b_int e || b_entrez e || b_float e || b_uuid e || b_enum e || b_canon e || b_bool e
  || b_strorint e || b_seq r.
Definition back_ok (r : rcls) : bool := e_custom (r_self r) && e_null_ok (r_self r) && back_raw_ok r.

Theorem field_renders_back O r v :
  back_ok r = true -> cls_value_invalid r v = false -> cls_text_has_sep r v = false -> wf_val O v ->
  exists t v', col_str r v = Ok t /\ field_outcome O r t = Valid v'.
Proof.
  intros H. unfold back_ok in H. split_andb H. apply (custom_back O r H H1).
  unfold back_raw_ok in H0.
  repeat match type of H0 with _ || _ = true => apply orb_true_iff in H0 as [H0|H0] end.
  - now apply rnv_back.
  - now apply str_back.
  - now apply int_back.
  - now apply entrez_back.
  - now apply float_back.
  - now apply uuid_back.
  - now apply enum_back.
  - now apply canon_back.
  - now apply bool_back.
  - now apply strorint_back.
  - now apply seq_back.
Qed.

(* ---------- schemes and the writer, tables abstract ---------- *)
Section BackWriter.
  Variable tbl : list class_info.
  Variable O : oracles.

  Definition col_back_ok (c : str * cref) : bool :=
    match resolve tbl (snd c) with Some r => back_ok r | None => false end.

  (* renders_back of WriterFacts.v restricted to well-formed values *)
  Definition renders_back_wf (s : scheme) : Prop :=
    forall j n sc r v, nth_error s j = Some (n, sc) -> resolve tbl sc = Some r ->
      cls_value_invalid r v = false -> cls_text_has_sep r v = false -> wf_val O v ->
      exists t v', col_str r v = Ok t /\ field_outcome O r t = Valid v'.

  Theorem scheme_renders_back (s : scheme) : forallb col_back_ok s = true -> renders_back_wf s.
  Proof.
    intros H j n sc r v Hj Hr Hinv Hsep Hwf.
    pose proof (proj1 (forallb_forall _ _) H _ (nth_error_In _ _ Hj)) as Hok.
    unfold col_back_ok in Hok. cbn [snd] in Hok. rewrite Hr in Hok.
    now apply field_renders_back.
  Qed.

  (* WriterFacts.emitted_line_is_accepted with the premise weakened to well-formed values *)
  Section OneScheme.
    Variable s : scheme.
    Hypothesis Hnd : NoDup (map fst s).
    Hypothesis Hcols : forallb (fun c => col_ok tbl (snd c)) s = true.
    Hypothesis Hne : s <> [].

    Theorem emitted_line_is_accepted_wf (r : crec) line ln :
      renders_back_wf s ->
      (forall j c, nth_error (rlist r) j = Some (Some c) -> wf_val O (v_val (cval c))) ->
      (forall j n sc c, nth_error s j = Some (n, sc) -> nth_error (rlist r) j = Some (Some c) -> v_cls (cval c) = sc) ->
      writer_emits_g tbl s r = Some line ->
      exists rec', from_line tbl O Strict None (Some s) ln line = Ok (rec', []).
    Proof.
      intros Hrb Hwf Hexact Hemit.
      destruct (emitted_record_shape tbl s Hnd Hcols Hne r line Hemit) as [Hlen Hshape].
      unfold writer_emits_g in Hemit.
      destruct (rec_validate tbl Strict (Some s) None [] r); [|discriminate].
      unfold rec_str in Hemit.
      destruct (map_res (slot_str tbl) (rlist r)) as [ts|] eqn:Hts; [|discriminate].
      injection Hemit as <-.
      destruct (map_res_ok_nth _ _ _ Hts) as [Hlts Hnth].
      assert (Hfield : forall j n sc, nth_error s j = Some (n, sc) ->
                exists t r0 v', nth_error ts j = Some t /\ resolve tbl sc = Some r0 /\
                                contains_sep t = false /\ field_outcome O r0 t = Valid v').
      { intros j n sc Hs.
        destruct (Hshape j n sc Hs) as (c & Hslot & Hk & Hinst & Hval & Hsep).
        pose proof (Hexact j n sc c Hs Hslot) as Hcls.
        destruct (col_resolved tbl s Hcols j n sc Hs) as [r0 [Hr0 _]].
        assert (Hrp : resolve_or_plain tbl (v_cls (cval c)) = r0)
          by (rewrite Hcls; unfold resolve_or_plain; now rewrite Hr0).
        rewrite Hrp in Hval, Hsep.
        destruct (Hrb j n sc r0 (v_val (cval c)) Hs Hr0 Hval Hsep (Hwf j c Hslot)) as (t & v' & Hstr & Hfo).
        destruct (Hnth j (Some c) Hslot) as [t' [Ht' Hst]].
        unfold slot_str in Hst. rewrite Hrp, Hstr in Hst. injection Hst as <-.
        exists t, r0, v'. repeat split; auto.
        unfold cls_text_has_sep in Hsep. now rewrite Hstr in Hsep. }
      assert (Hts_ne : ts <> []).
      { destruct s as [|[n sc] s']; [congruence|]. destruct (Hfield 0%nat n sc eq_refl) as (t & r0 & v' & Ht & _).
        destruct ts; [discriminate|discriminate]. }
      assert (Hall : forall t, In t ts -> contains_sep t = false).
      { intros t Hin. destruct (In_nth_error _ _ Hin) as [j Hj].
        assert (Hjt : (j < length ts)%nat) by (apply nth_error_Some; congruence).
        pose proof (eq_trans Hlts Hlen) as Hlen2.
        assert (Hjs : (j < length s)%nat) by lia.
        destruct (nth_error s j) as [[n sc]|] eqn:Hs; [|apply nth_error_None in Hs; lia].
        destruct (Hfield j n sc Hs) as (t' & r0 & v' & Ht' & _ & Hsep & _). congruence. }
      assert (Hsplit : split TAB (rstrip_crlf (join [TAB] ts)) = ts).
      { rewrite no_crlf_rstrip.
        - apply split_join; [exact Hts_ne|]. apply Forall_forall. intros t Hin Htab.
          destruct (contains_sep_false_chars t TAB (Hall t Hin) Htab) as [H _]. congruence.
        - apply forallb_forall. intros c Hc. apply in_join_sep in Hc as [->|[p [Hp Hcp]]].
          + reflexivity.
          + destruct (contains_sep_false_chars p c (Hall p Hp) Hcp) as (_ & H2 & H3).
            unfold is_crlf. apply negb_true_iff. apply orb_false_iff. split; now apply N.eqb_neq. }
      destruct (from_line_accepts tbl O s ln (join [TAB] ts) Hnd) as (rec' & cs & Hfl & _).
      - rewrite Hsplit. exact (eq_trans Hlts Hlen).
      - rewrite Hsplit. intros j n t Hn Ht. rewrite nth_error_map in Hn.
        destruct (nth_error s j) as [[n' sc]|] eqn:Hs; [|discriminate]. simpl in Hn. injection Hn as ->.
        destruct (Hfield j n sc Hs) as (t' & r0 & v' & Ht' & Hr0 & _ & Hfo).
        rewrite Ht in Ht'. injection Ht' as <-.
        destruct (col_resolved tbl s Hcols j n sc Hs) as [r1 [Hr1 Hok]]. rewrite Hr0 in Hr1. injection Hr1 as <-.
        pose proof (parse_field_outcome tbl O s ln j n sc r0 t Hnd Hs Hr0 Hok) as Hpf. rewrite Hfo in Hpf. eauto.
      - eauto.
    Qed.
  End OneScheme.

  Variable ls : list layout.
  Definition layout_back_ok (l : layout) : bool := forallb col_back_ok (l_cols l).
  Hypothesis Hlay : forallb (layout_ok_g tbl) ls = true.
  Hypothesis Hnonempty : forallb nonempty_layout ls = true.
  Hypothesis Hback : forallb layout_back_ok ls = true.

  Theorem layout_renders_back l : In l ls -> renders_back_wf (l_cols l).
  Proof.
    intros Hin. apply scheme_renders_back. exact (proj1 (forallb_forall _ _) Hback _ Hin).
  Qed.

  Theorem emitted_line_is_accepted_closed l (r : crec) line ln :
    In l ls ->
    (forall j c, nth_error (rlist r) j = Some (Some c) -> wf_val O (v_val (cval c))) ->
    (forall j n sc c, nth_error (l_cols l) j = Some (n, sc) -> nth_error (rlist r) j = Some (Some c) ->
                      v_cls (cval c) = sc) ->
    writer_emits_g tbl (l_cols l) r = Some line ->
    exists rec', from_line tbl O Strict None (Some (l_cols l)) ln line = Ok (rec', []).
  Proof.
    intros Hin Hwf Hexact Hemit.
    pose proof (proj1 (forallb_forall _ _) Hlay _ Hin) as Hok.
    unfold layout_ok_g in Hok. apply andb_true_iff in Hok as [Hnd Hcols]. apply LineFacts.nodupb_sound in Hnd.
    pose proof (proj1 (forallb_forall _ _) Hnonempty _ Hin) as Hne. unfold nonempty_layout in Hne.
    assert (Hne' : l_cols l <> []) by (intros E; rewrite E in Hne; discriminate).
    exact (emitted_line_is_accepted_wf (l_cols l) Hnd Hcols Hne' r line ln (layout_renders_back l Hin) Hwf Hexact Hemit).
  Qed.
End BackWriter.

(* ---------- the sweep over the regenerated tables ---------- *)
Lemma all_layouts_render_back : forallb (layout_back_ok class_table) layouts_ok = true.
Proof. vm_compute. reflexivity. Qed.

Definition built_layout_renders_back (Or : oracles) :=
  layout_renders_back class_table Or layouts_ok all_layouts_render_back.

(* why wf_val is needed: in the model a FloatColumn holding VFloat "x" validates,
   renders "x", and "x" is not accepted (no python float has that repr) *)
Definition get_r (o : option rcls) : rcls := match o with Some r => r | None => mk_r (mk None None [] [] []) None end.
Lemma renders_back_needs_wf :
  let r := get_r (resolve class_table (CSrc "FloatColumn")) in
  let O0' := {| fval := fun _ => None; uval := fun _ => None |} in
  cls_value_invalid r (VFloat (s2l "x")) = false /\ cls_text_has_sep r (VFloat (s2l "x")) = false /\
  col_str r (VFloat (s2l "x")) = Ok (s2l "x") /\ field_outcome O0' r (s2l "x") = Invalid.
Proof. vm_compute. repeat split; reflexivity. Qed.
