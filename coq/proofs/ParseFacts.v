(* ParseFacts.v - MafRecord.from_line under a scheme: what ends up in the
   record is exactly what the per-field outcome allows (C01, C04, C05 lifted
   from fields to lines). *)
From Coq Require Import String Ascii.
From MafVerif Require Import lib.Base lib.Str gen.GenClasses model.Classes model.Columns model.Layouts
     model.RecordOps model.ColRecord proofs.RecordFacts proofs.ColumnFacts.
Open Scope string_scope.

Section Parse.
  Variable tbl : list class_info.
  Variable O : oracles.

  Lemma in_dset_weak {V} (d : list (str * V)) name c2 k c :
    In (k, c) (dset name c2 d) -> (k = name /\ c = c2) \/ In (k, c) d.
  Proof.
    induction d as [|[k' v] d IH]; simpl.
    - intros [H|[]]. injection H as <- <-. now left.
    - destruct (str_eqb name k') eqn:E; simpl.
      + intros [H|H]; [injection H as <- <-; now left|right; now right].
      + intros [H|H]; [right; now left|]. destruct (IH H); auto.
  Qed.

  (* what parse_field can store *)
  Definition stored_by (sch : option scheme) (ln : option Z) (i : nat) (name text : str) (c : ccol) : Prop :=
    exists es, parse_field tbl O sch ln i name text = (Some c, es).

  Lemma parse_field_key sch ln i name text c es :
    parse_field tbl O sch ln i name text = (Some c, es) -> ckey c = name /\ cidx c = Some (Z.of_nat i) /\ es = [].
  Proof.
    unfold parse_field.
    destruct (match sch with Some s => if scheme_truthy s then scheme_class s name else None | None => None end) as [sc|].
    - destruct (cls_build O (resolve_or_plain tbl sc) text) as [v|]; [|discriminate].
      match goal with |- context [col_validate tbl sch ln ?c] => destruct (col_validate tbl sch ln c) eqn:E end;
        [|discriminate].
      intros H. injection H as <- <-. auto.
    - match goal with |- context [col_validate tbl sch ln ?c] => destruct (col_validate tbl sch ln c) eqn:E end;
        [|discriminate].
      intros H. injection H as <- <-. auto.
  Qed.

  (* the invariant carried along the field loop: a property of (name, class, value) *)
  Lemma parse_fields_inv (P : str -> cv -> Prop) sch ln :
    forall names texts i r errs r' errs',
      (forall n t c j, stored_by sch ln j n t c -> P n (cval c)) ->
      Coherent r -> (forall k c, In (k, c) (rdict r) -> P k (cval c)) ->
      parse_fields tbl O sch ln i names texts r errs = Ok (r', errs') ->
      Coherent r' /\ (forall k c, In (k, c) (rdict r') -> P k (cval c)).
  Proof.
    induction names as [|n ns IH]; intros texts i r errs r' errs' HP Hc Hinv H.
    - simpl in H. injection H as <- <-. auto.
    - destruct texts as [|t ts]; [simpl in H; injection H as <- <-; auto|].
      cbn [parse_fields] in H.
      destruct (parse_field tbl O sch ln i n t) as [oc es] eqn:Hpf.
      destruct oc as [c|].
      + destruct (setitem r (KStr n) c) as [r1 out] eqn:Hs.
        destruct out as [[]|e]; [|discriminate].
        pose proof (setitem_preserves _ _ _ _ _ Hc Hs) as Hc1.
        apply setitem_ok_shape in Hs as (c2 & m & Hk & Hv & Hi & Hd & _).
        apply (IH ts (S i) r1 (errs ++ es)%list r' errs' HP Hc1); [|exact H].
        intros k c' Hin. rewrite Hd in Hin. apply in_dset_weak in Hin as [[-> ->]|Hin]; [|auto].
        destruct (parse_field_key _ _ _ _ _ _ _ Hpf) as (Hck & _ & _).
        rewrite Hv, Hck. apply (HP n t c i). exists es. exact Hpf.
      + apply (IH ts (S i) r (errs ++ es)%list r' errs' HP Hc Hinv H).
  Qed.

  (* every column of a record parsed by from_line was stored by parse_field
     for its own name; every occupied slot is such a column *)
  Theorem from_line_columns (P : str -> cv -> Prop) m names sch ln line r errs :
    (forall n t c j, stored_by sch ln j n t c -> P n (cval c)) ->
    from_line tbl O m names sch ln line = Ok (r, errs) ->
    Coherent r /\
    (forall k c, In (k, c) (rdict r) -> P k (cval c)) /\
    (forall n c, nth_error (rlist r) n = Some (Some c) -> P (ckey c) (cval c)).
  Proof.
    intros HP H. unfold from_line in H.
    destruct (match names with Some ns => Ok ns | None => match sch with Some s => Ok (map fst s) | None => Raise ValueError end end)
      as [ns|]; [|discriminate].
    assert (Hgoal : forall r0, Coherent r0 -> (forall k c, In (k, c) (rdict r0) -> P k (cval c)) ->
              Coherent r0 /\ (forall k c, In (k, c) (rdict r0) -> P k (cval c)) /\
              (forall n c, nth_error (rlist r0) n = Some (Some c) -> P (ckey c) (cval c))).
    { intros r0 Hc Hd. split; [exact Hc|split; [exact Hd|]]. intros n c Hn. destruct (@co_list _ _ Hc n c Hn) as [_ Hin]. now apply Hd in Hin. }
    destruct (negb (Nat.eqb (length ns) (length (split TAB (rstrip_crlf line))))).
    - destruct (rec_validate tbl m None ln _ empty_rec) as [es|]; [|discriminate].
      injection H as <- <-. apply Hgoal; [apply coherent_empty|]. simpl. tauto.
    - destruct (parse_fields tbl O sch ln 0 ns (split TAB (rstrip_crlf line)) empty_rec []) as [[r1 e1]|] eqn:Hp;
        [|discriminate].
      destruct (rec_validate tbl m None ln e1 r1) as [es|]; [|discriminate].
      injection H as <- <-.
      destruct (parse_fields_inv P sch ln _ _ _ _ _ _ _ HP coherent_empty (fun k c (F : In (k, c) []) => match F with end) Hp)
        as [Hc Hd].
      now apply Hgoal.
  Qed.
End Parse.

(* ---------- what a stored column of a typed scheme position satisfies ---------- *)
Section Stored.
  Variable tbl : list class_info.
  Variable O : oracles.

  Lemma resolve_cls c r : resolve tbl c = Some r -> r_cls r = c.
  Proof.
    unfold resolve. destruct (mro tbl mro_fuel c); [|discriminate].
    intros H. injection H as <-. reflexivity.
  Qed.

  Lemma app_nil_both {X} (a b : list X) : (a ++ b)%list = [] -> a = [] /\ b = [].
  Proof. destruct a; simpl; [auto|discriminate]. Qed.

  Lemma stored_typed s ln i name t c es sc r :
    parse_field tbl O (Some s) ln i name t = (Some c, es) ->
    scheme_truthy s = true -> scheme_class s name = Some sc ->
    resolve tbl sc = Some r -> e_custom (r_self r) = true ->
    exists v, cval c = {| v_cls := sc; v_val := v |} /\ ckey c = name /\
              cls_build O r t = Ok v /\ cls_value_invalid r v = false /\ cls_text_has_sep r v = false.
  Proof.
    intros H Ht Hsc Hr Hc. unfold parse_field in H. rewrite Ht, Hsc in H.
    assert (Hrp : resolve_or_plain tbl sc = r) by (unfold resolve_or_plain; now rewrite Hr).
    rewrite Hrp in H.
    destruct (cls_build O r t) as [v|] eqn:Hb; [|discriminate].
    assert (Hbc : built_class r = sc) by (unfold built_class; now rewrite Hc, (resolve_cls _ _ Hr)).
    rewrite Hbc in H.
    match type of H with context [col_validate tbl ?a ?b ?cc] => destruct (col_validate tbl a b cc) eqn:Hv end;
      [|discriminate].
    injection H as <- <-. exists v. simpl. repeat split; auto.
    - unfold col_validate in Hv. simpl in Hv. rewrite Hrp in Hv.
      apply app_nil_both in Hv as [Hv _].
      destruct (cls_value_invalid r v); [discriminate|reflexivity].
    - unfold col_validate in Hv. simpl in Hv. rewrite Hrp in Hv.
      apply app_nil_both in Hv as [_ Hv]. apply app_nil_both in Hv as [Hv _].
      destruct (cls_text_has_sep r v); [discriminate|reflexivity].
  Qed.
End Stored.

(* ---------- the error list of from_line is the concatenation of the field errors ---------- *)
Section Errors.
  Variable tbl : list class_info.
  Variable O : oracles.

  Fixpoint field_results (sch : option scheme) (ln : option Z) (i : nat) (names texts : list str)
    : list (option ccol * list verr) :=
    match names, texts with
    | n :: ns, t :: ts => parse_field tbl O sch ln i n t :: field_results sch ln (S i) ns ts
    | _, _ => []
    end.

  Lemma parse_fields_errors sch ln : forall names texts i r errs r' errs',
    parse_fields tbl O sch ln i names texts r errs = Ok (r', errs') ->
    errs' = (errs ++ concat (map snd (field_results sch ln i names texts)))%list.
  Proof.
    induction names as [|n ns IH]; intros texts i r errs r' errs' H.
    - simpl in H. injection H as <- <-. simpl. now rewrite app_nil_r.
    - destruct texts as [|t ts]; [simpl in H; injection H as <- <-; simpl; now rewrite app_nil_r|].
      cbn [parse_fields field_results map concat] in *.
      destruct (parse_field tbl O sch ln i n t) as [oc es] eqn:Hpf. simpl.
      destruct oc as [c|].
      + destruct (setitem r (KStr n) c) as [r1 [[]|e]]; [|discriminate].
        rewrite (IH _ _ _ _ _ _ H). now rewrite app_assoc.
      + rewrite (IH _ _ _ _ _ _ H). now rewrite app_assoc.
  Qed.

  Lemma parse_field_none_has_errors sch ln i n t es :
    parse_field tbl O sch ln i n t = (None, es) -> es <> [].
  Proof.
    unfold parse_field.
    destruct (match sch with Some s => if scheme_truthy s then scheme_class s n else None | None => None end) as [sc|].
    - destruct (cls_build O (resolve_or_plain tbl sc) t) as [v|].
      + match goal with |- context [col_validate tbl sch ln ?c] => destruct (col_validate tbl sch ln c) eqn:E end;
          [discriminate|]. intros H. injection H as <-. discriminate.
      + intros H. injection H as <-. discriminate.
    - match goal with |- context [col_validate tbl sch ln ?c] => destruct (col_validate tbl sch ln c) eqn:E end;
        [discriminate|]. intros H. injection H as <-. discriminate.
  Qed.

  Lemma field_results_nth sch ln : forall names texts i j n t,
    nth_error names j = Some n -> nth_error texts j = Some t ->
    nth_error (field_results sch ln i names texts) j = Some (parse_field tbl O sch ln (i + j) n t).
  Proof.
    induction names as [|n0 ns IH]; intros texts i j n t Hn Ht; [destruct j; discriminate|].
    destruct texts as [|t0 ts]; [destruct j; discriminate|].
    destruct j as [|j]; simpl in *.
    - injection Hn as <-. injection Ht as <-. now rewrite Nat.add_0_r.
    - rewrite (IH ts (S i) j n t Hn Ht). f_equal. f_equal. lia.
  Qed.

  Lemma concat_nil_all {X} (ls : list (list X)) l : concat ls = [] -> In l ls -> l = [].
  Proof.
    induction ls as [|x ls IH]; simpl; [tauto|].
    intros H [<-|Hin]; apply app_nil_both in H as [H1 H2]; auto.
  Qed.

  (* Strict mode returns a record only when no error at all was collected,
     hence only when every field was stored *)
  Theorem strict_ok_no_errors names sch ln line r errs :
    from_line tbl O Strict names sch ln line = Ok (r, errs) -> errs = [].
  Proof.
    unfold from_line.
    destruct (match names with Some ns => Ok ns | None => match sch with Some s => Ok (map fst s) | None => Raise ValueError end end)
      as [ns|]; [|discriminate].
    destruct (negb (Nat.eqb (length ns) (length (split TAB (rstrip_crlf line))))).
    - unfold rec_validate. destruct (rec_asserts_ok empty_rec); [|discriminate]. simpl. discriminate.
    - destruct (parse_fields tbl O sch ln 0 ns (split TAB (rstrip_crlf line)) empty_rec []) as [[r1 e1]|]; [|discriminate].
      unfold rec_validate. destruct (rec_asserts_ok r1); [|discriminate].
      unfold process_errors.
      destruct (e1 ++ rec_validate_errors tbl None ln r1)%list eqn:E; [|discriminate].
      intros H. injection H as <- <-. reflexivity.
  Qed.

  Theorem strict_ok_every_field_stored sch ln line r errs :
    from_line tbl O Strict None (Some sch) ln line = Ok (r, errs) ->
    let texts := split TAB (rstrip_crlf line) in
    length texts = length sch /\
    forall j n t, nth_error (map fst sch) j = Some n -> nth_error texts j = Some t ->
      exists c, parse_field tbl O (Some sch) ln j n t = (Some c, []).
  Proof.
    intros H. unfold from_line in H.
    destruct (negb (Nat.eqb (length (map fst sch)) (length (split TAB (rstrip_crlf line))))) eqn:Hlen.
    - exfalso. unfold rec_validate in H. destruct (rec_asserts_ok empty_rec); [|discriminate].
      simpl in H. discriminate.
    - apply negb_false_iff, Nat.eqb_eq in Hlen. rewrite map_length in Hlen.
      split; [now symmetry|].
      destruct (parse_fields tbl O (Some sch) ln 0 (map fst sch) (split TAB (rstrip_crlf line)) empty_rec [])
        as [[r1 e1]|] eqn:Hp; [|discriminate].
      unfold rec_validate in H. destruct (rec_asserts_ok r1); [|discriminate].
      unfold process_errors in H.
      destruct (e1 ++ rec_validate_errors tbl None ln r1)%list eqn:E; [|discriminate].
      apply app_nil_both in E as [E1 _]. subst e1.
      apply parse_fields_errors in Hp. simpl in Hp. symmetry in Hp.
      intros j n t Hn Ht.
      pose proof (field_results_nth (Some sch) ln _ _ 0 j n t Hn Ht) as Hnth. simpl in Hnth.
      destruct (parse_field tbl O (Some sch) ln j n t) as [oc es] eqn:Hpf.
      assert (es = []).
      { apply (concat_nil_all _ es Hp). apply in_map_iff. exists (oc, es). split; [reflexivity|].
        eapply nth_error_In; eauto. }
      subst es. destruct oc as [c|]; [eauto|].
      exfalso. now apply (parse_field_none_has_errors _ _ _ _ _ _ Hpf).
  Qed.
End Errors.
