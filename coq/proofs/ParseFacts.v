(* ParseFacts.v - MafRecord.from_line under a scheme: what ends up in the
   record is exactly what the per-field outcome allows (C01, C04, C05 lifted
   from fields to lines). *)
From Coq Require Import String Ascii.
From MafVerif Require Import lib.Base lib.Str gen.GenClasses model.Classes model.Columns model.Layouts
     model.RecordOps model.ColRecord proofs.RecordFacts proofs.ColumnFacts.
Open Scope string_scope.

Section Parse.
  Variable tbl : list class_info.
  Variable O : oracles.

  Lemma in_dset_weak {V} (d : list (str * V)) name c2 k c :
    In (k, c) (dset name c2 d) -> (k = name /\ c = c2) \/ In (k, c) d.
  Proof.
    induction d as [|[k' v] d IH]; simpl.
    - intros [H|[]]. injection H as <- <-. now left.
    - destruct (str_eqb name k') eqn:E; simpl.
      + intros [H|H]; [injection H as <- <-; now left|right; now right].
      + intros [H|H]; [right; now left|]. destruct (IH H); auto.
  Qed.

  (* what parse_field can store *)
  Definition stored_by (sch : option scheme) (ln : option Z) (i : nat) (name text : str) (c : ccol) : Prop :=
    exists es, parse_field tbl O sch ln i name text = (Some c, es).

  Lemma parse_field_key sch ln i name text c es :
    parse_field tbl O sch ln i name text = (Some c, es) -> ckey c = name /\ cidx c = Some (Z.of_nat i) /\ es = [].
  Proof.
    unfold parse_field.
    destruct (match sch with Some s => if scheme_truthy s then scheme_class s name else None | None => None end) as [sc|].
    - destruct (cls_build O (resolve_or_plain tbl sc) text) as [v|]; [|discriminate].
      match goal with |- context [col_validate tbl sch ln ?c] => destruct (col_validate tbl sch ln c) eqn:E end;
        [|discriminate].
      intros H. injection H as <- <-. auto.
    - match goal with |- context [col_validate tbl sch ln ?c] => destruct (col_validate tbl sch ln c) eqn:E end;
        [|discriminate].
      intros H. injection H as <- <-. auto.
  Qed.

  (* the invariant carried along the field loop: a property of (name, class, value) *)
  Lemma parse_fields_inv (P : str -> cv -> Prop) sch ln :
    forall names texts i r errs r' errs',
      (forall n t c j, stored_by sch ln j n t c -> P n (cval c)) ->
      Coherent r -> (forall k c, In (k, c) (rdict r) -> P k (cval c)) ->
      parse_fields tbl O sch ln i names texts r errs = Ok (r', errs') ->
      Coherent r' /\ (forall k c, In (k, c) (rdict r') -> P k (cval c)).
  Proof.
    induction names as [|n ns IH]; intros texts i r errs r' errs' HP Hc Hinv H.
    - simpl in H. injection H as <- <-. auto.
    - destruct texts as [|t ts]; [simpl in H; injection H as <- <-; auto|].
      cbn [parse_fields] in H.
      destruct (parse_field tbl O sch ln i n t) as [oc es] eqn:Hpf.
      destruct oc as [c|].
      + destruct (setitem r (KStr n) c) as [r1 out] eqn:Hs.
        destruct out as [[]|e]; [|discriminate].
        pose proof (setitem_preserves _ _ _ _ _ Hc Hs) as Hc1.
        apply setitem_ok_shape in Hs as (c2 & m & Hk & Hv & Hi & Hd & _).
        apply (IH ts (S i) r1 (errs ++ es)%list r' errs' HP Hc1); [|exact H].
        intros k c' Hin. rewrite Hd in Hin. apply in_dset_weak in Hin as [[-> ->]|Hin]; [|auto].
        destruct (parse_field_key _ _ _ _ _ _ _ Hpf) as (Hck & _ & _).
        rewrite Hv, Hck. apply (HP n t c i). exists es. exact Hpf.
      + apply (IH ts (S i) r (errs ++ es)%list r' errs' HP Hc Hinv H).
  Qed.

  (* every column of a record parsed by from_line was stored by parse_field
     for its own name; every occupied slot is such a column *)
  Theorem from_line_columns (P : str -> cv -> Prop) m names sch ln line r errs :
    (forall n t c j, stored_by sch ln j n t c -> P n (cval c)) ->
    from_line tbl O m names sch ln line = Ok (r, errs) ->
    Coherent r /\
    (forall k c, In (k, c) (rdict r) -> P k (cval c)) /\
    (forall n c, nth_error (rlist r) n = Some (Some c) -> P (ckey c) (cval c)).
  Proof.
    intros HP H. unfold from_line in H.
    destruct (match names with Some ns => Ok ns | None => match sch with Some s => Ok (map fst s) | None => Raise ValueError end end)
      as [ns|]; [|discriminate].
    assert (Hgoal : forall r0, Coherent r0 -> (forall k c, In (k, c) (rdict r0) -> P k (cval c)) ->
              Coherent r0 /\ (forall k c, In (k, c) (rdict r0) -> P k (cval c)) /\
              (forall n c, nth_error (rlist r0) n = Some (Some c) -> P (ckey c) (cval c))).
    { intros r0 Hc Hd. split; [exact Hc|split; [exact Hd|]]. intros n c Hn. destruct (@co_list _ _ Hc n c Hn) as [_ Hin]. now apply Hd in Hin. }
    destruct (negb (Nat.eqb (length ns) (length (split TAB (rstrip_crlf line))))).
    - destruct (rec_validate tbl m None ln _ empty_rec) as [es|]; [|discriminate].
      injection H as <- <-. apply Hgoal; [apply coherent_empty|]. simpl. tauto.
    - destruct (parse_fields tbl O sch ln 0 ns (split TAB (rstrip_crlf line)) empty_rec []) as [[r1 e1]|] eqn:Hp;
        [|discriminate].
      destruct (rec_validate tbl m None ln e1 r1) as [es|]; [|discriminate].
      injection H as <- <-.
      destruct (parse_fields_inv P sch ln _ _ _ _ _ _ _ HP coherent_empty (fun k c (F : In (k, c) []) => match F with end) Hp)
        as [Hc Hd].
      now apply Hgoal.
  Qed.
End Parse.

(* ---------- what a stored column of a typed scheme position satisfies ---------- *)
Section Stored.
  Variable tbl : list class_info.
  Variable O : oracles.

  Lemma resolve_cls c r : resolve tbl c = Some r -> r_cls r = c.
  Proof.
    unfold resolve. destruct (mro tbl mro_fuel c); [|discriminate].
    intros H. injection H as <-. reflexivity.
  Qed.

  Lemma app_nil_both {X} (a b : list X) : (a ++ b)%list = [] -> a = [] /\ b = [].
  Proof. destruct a; simpl; [auto|discriminate]. Qed.

  Lemma stored_typed s ln i name t c es sc r :
    parse_field tbl O (Some s) ln i name t = (Some c, es) ->
    scheme_truthy s = true -> scheme_class s name = Some sc ->
    resolve tbl sc = Some r -> e_custom (r_self r) = true ->
    exists v, cval c = {| v_cls := sc; v_val := v |} /\ ckey c = name /\
              cls_build O r t = Ok v /\ cls_value_invalid r v = false /\ cls_text_has_sep r v = false.
  Proof.
    intros H Ht Hsc Hr Hc. unfold parse_field in H. rewrite Ht, Hsc in H.
    assert (Hrp : resolve_or_plain tbl sc = r) by (unfold resolve_or_plain; now rewrite Hr).
    rewrite Hrp in H.
    destruct (cls_build O r t) as [v|] eqn:Hb; [|discriminate].
    assert (Hbc : built_class r = sc) by (unfold built_class; now rewrite Hc, (resolve_cls _ _ Hr)).
    rewrite Hbc in H.
    match type of H with context [col_validate tbl ?a ?b ?cc] => destruct (col_validate tbl a b cc) eqn:Hv end;
      [|discriminate].
    injection H as <- <-. exists v. simpl. repeat split; auto.
    - unfold col_validate in Hv. simpl in Hv. rewrite Hrp in Hv.
      apply app_nil_both in Hv as [Hv _].
      destruct (cls_value_invalid r v); [discriminate|reflexivity].
    - unfold col_validate in Hv. simpl in Hv. rewrite Hrp in Hv.
      apply app_nil_both in Hv as [_ Hv]. apply app_nil_both in Hv as [Hv _].
      destruct (cls_text_has_sep r v); [discriminate|reflexivity].
  Qed.
End Stored.

(* ---------- the error list of from_line is the concatenation of the field errors ---------- *)
Section Errors.
  Variable tbl : list class_info.
  Variable O : oracles.

  Fixpoint field_results (sch : option scheme) (ln : option Z) (i : nat) (names texts : list str)
    : list (option ccol * list verr) :=
    match names, texts with
    | n :: ns, t :: ts => parse_field tbl O sch ln i n t :: field_results sch ln (S i) ns ts
    | _, _ => []
    end.

  Lemma parse_fields_errors sch ln : forall names texts i r errs r' errs',
    parse_fields tbl O sch ln i names texts r errs = Ok (r', errs') ->
    errs' = (errs ++ concat (map snd (field_results sch ln i names texts)))%list.
  Proof.
    induction names as [|n ns IH]; intros texts i r errs r' errs' H.
    - simpl in H. injection H as <- <-. simpl. now rewrite app_nil_r.
    - destruct texts as [|t ts]; [simpl in H; injection H as <- <-; simpl; now rewrite app_nil_r|].
      cbn [parse_fields field_results map concat] in *.
      destruct (parse_field tbl O sch ln i n t) as [oc es] eqn:Hpf. simpl.
      destruct oc as [c|].
      + destruct (setitem r (KStr n) c) as [r1 [[]|e]]; [|discriminate].
        rewrite (IH _ _ _ _ _ _ H). now rewrite app_assoc.
      + rewrite (IH _ _ _ _ _ _ H). now rewrite app_assoc.
  Qed.

  Lemma parse_field_none_has_errors sch ln i n t es :
    parse_field tbl O sch ln i n t = (None, es) -> es <> [].
  Proof.
    unfold parse_field.
    destruct (match sch with Some s => if scheme_truthy s then scheme_class s n else None | None => None end) as [sc|].
    - destruct (cls_build O (resolve_or_plain tbl sc) t) as [v|].
      + match goal with |- context [col_validate tbl sch ln ?c] => destruct (col_validate tbl sch ln c) eqn:E end;
          [discriminate|]. intros H. injection H as <-. discriminate.
      + intros H. injection H as <-. discriminate.
    - match goal with |- context [col_validate tbl sch ln ?c] => destruct (col_validate tbl sch ln c) eqn:E end;
        [discriminate|]. intros H. injection H as <-. discriminate.
  Qed.

  Lemma field_results_nth sch ln : forall names texts i j n t,
    nth_error names j = Some n -> nth_error texts j = Some t ->
    nth_error (field_results sch ln i names texts) j = Some (parse_field tbl O sch ln (i + j) n t).
  Proof.
    induction names as [|n0 ns IH]; intros texts i j n t Hn Ht; [destruct j; discriminate|].
    destruct texts as [|t0 ts]; [destruct j; discriminate|].
    destruct j as [|j]; simpl in *.
    - injection Hn as <-. injection Ht as <-. now rewrite Nat.add_0_r.
    - rewrite (IH ts (S i) j n t Hn Ht). f_equal. f_equal. lia.
  Qed.

  Lemma concat_nil_all {X} (ls : list (list X)) l : concat ls = [] -> In l ls -> l = [].
  Proof.
    induction ls as [|x ls IH]; simpl; [tauto|].
    intros H [<-|Hin]; apply app_nil_both in H as [H1 H2]; auto.
  Qed.

  (* Strict mode returns a record only when no error at all was collected,
     hence only when every field was stored *)
  Theorem strict_ok_no_errors names sch ln line r errs :
    from_line tbl O Strict names sch ln line = Ok (r, errs) -> errs = [].
  Proof.
    unfold from_line.
    destruct (match names with Some ns => Ok ns | None => match sch with Some s => Ok (map fst s) | None => Raise ValueError end end)
      as [ns|]; [|discriminate].
    destruct (negb (Nat.eqb (length ns) (length (split TAB (rstrip_crlf line))))).
    - unfold rec_validate. simpl. discriminate.
    - destruct (parse_fields tbl O sch ln 0 ns (split TAB (rstrip_crlf line)) empty_rec []) as [[r1 e1]|]; [|discriminate].
      unfold rec_validate, process_errors.
      destruct (e1 ++ rec_validate_errors tbl None ln r1 ++ rec_sync_errors ln r1)%list eqn:E; [|discriminate].
      intros H. injection H as <- <-. reflexivity.
  Qed.

  Theorem strict_ok_every_field_stored sch ln line r errs :
    from_line tbl O Strict None (Some sch) ln line = Ok (r, errs) ->
    let texts := split TAB (rstrip_crlf line) in
    length texts = length sch /\
    forall j n t, nth_error (map fst sch) j = Some n -> nth_error texts j = Some t ->
      exists c, parse_field tbl O (Some sch) ln j n t = (Some c, []).
  Proof.
    intros H. unfold from_line in H.
    destruct (negb (Nat.eqb (length (map fst sch)) (length (split TAB (rstrip_crlf line))))) eqn:Hlen.
    - exfalso. unfold rec_validate in H. simpl in H. discriminate.
    - apply negb_false_iff, Nat.eqb_eq in Hlen. rewrite map_length in Hlen.
      split; [now symmetry|].
      destruct (parse_fields tbl O (Some sch) ln 0 (map fst sch) (split TAB (rstrip_crlf line)) empty_rec [])
        as [[r1 e1]|] eqn:Hp; [|discriminate].
      unfold rec_validate, process_errors in H.
      destruct (e1 ++ rec_validate_errors tbl None ln r1 ++ rec_sync_errors ln r1)%list eqn:E; [|discriminate].
      apply app_nil_both in E as [E1 _]. subst e1.
      apply parse_fields_errors in Hp. simpl in Hp. symmetry in Hp.
      intros j n t Hn Ht.
      pose proof (field_results_nth (Some sch) ln _ _ 0 j n t Hn Ht) as Hnth. simpl in Hnth.
      destruct (parse_field tbl O (Some sch) ln j n t) as [oc es] eqn:Hpf.
      assert (es = []).
      { apply (concat_nil_all _ es Hp). apply in_map_iff. exists (oc, es). split; [reflexivity|].
        eapply nth_error_In; eauto. }
      subst es. destruct oc as [c|]; [eauto|].
      exfalso. now apply (parse_field_none_has_errors _ _ _ _ _ _ Hpf).
  Qed.
End Errors.

(* ---------- the accept direction: if every field is stored, the line is accepted ---------- *)
Section Accept.
  Variable tbl : list class_info.
  Variable O : oracles.

  (* a record with no gaps: slots = the stored columns in order, name map = the same columns *)
  Definition dense (r : crec) (cs : list ccol) : Prop :=
    rlist r = map Some cs /\ rdict r = map (fun c => (ckey c, c)) cs /\
    NoDup (map ckey cs) /\ forall n c, nth_error cs n = Some c -> cidx c = Some (Z.of_nat n).

  Lemma dense_empty : dense empty_rec [].
  Proof. repeat split; simpl; auto. constructor. intros [|n] c; discriminate. Qed.

  Lemma assoc_map_none (cs : list ccol) k :
    ~ In k (map ckey cs) -> assoc k (map (fun c => (ckey c, c)) cs) = None.
  Proof.
    induction cs as [|c cs IH]; simpl; [reflexivity|]. intros H.
    destruct (str_eqb k (ckey c)) eqn:E.
    - apply str_eqb_eq in E. subst. exfalso. apply H. now left.
    - apply IH. intros Hin. apply H. now right.
  Qed.

  Lemma dset_map_append (cs : list ccol) c :
    ~ In (ckey c) (map ckey cs) ->
    dset (ckey c) c (map (fun x => (ckey x, x)) cs) = map (fun x => (ckey x, x)) (cs ++ [c]).
  Proof.
    induction cs as [|c0 cs IH]; simpl; [reflexivity|]. intros H.
    destruct (str_eqb (ckey c) (ckey c0)) eqn:E.
    - apply str_eqb_eq in E. exfalso. apply H. left. congruence.
    - f_equal. apply IH. intros Hin. apply H. now right.
  Qed.

  Lemma lset_pad_append (l : list (option ccol)) x :
    lset (length l) x (pad l (S (length l))) = (l ++ [x])%list.
  Proof.
    unfold pad. replace (S (length l) - length l)%nat with 1%nat by lia. simpl.
    induction l as [|y l IH]; simpl; [reflexivity|]. now rewrite IH.
  Qed.

  Lemma lset_pad_append' (l : list (option ccol)) x n :
    n = length l -> lset n x (pad l (S n)) = (l ++ [x])%list.
  Proof. intros ->. apply lset_pad_append. Qed.

  (* storing the next column of a dense record keeps it dense *)
  Lemma setitem_dense (r : crec) cs c :
    dense r cs -> cidx c = Some (Z.of_nat (length cs)) -> ~ In (ckey c) (map ckey cs) ->
    exists r', setitem r (KStr (ckey c)) c = (r', Ok tt) /\ dense r' (cs ++ [c]).
  Proof.
    intros (Hl & Hd & Hnd & Hidx) Hc Hnew.
    destruct c as [k i v]. simpl in Hc, Hnew. subst i.
    unfold setitem. cbv zeta. cbn [ckey cidx cval with_idx]. rewrite str_eqb_refl. cbv iota beta.
    cbn [ckey cidx cval with_idx].
    rewrite Hd, (assoc_map_none cs k Hnew). cbv iota beta. cbn [ckey cidx cval with_idx].
    destruct (Z.ltb_spec (Z.of_nat (length cs)) 0); [lia|].
    rewrite Nat2Z.id.
    assert (Hnth : nth_error (rlist r) (length cs) = None).
    { apply nth_error_None. rewrite Hl, map_length. lia. }
    rewrite Hnth. eexists. split; [reflexivity|].
    split; [|split; [|split]]; cbn [rlist rdict ckey].
    - rewrite Hl. rewrite (lset_pad_append' (map Some cs) _ (length cs)) by (now rewrite map_length).
      now rewrite map_app.
    - apply (dset_map_append cs {| ckey := k; cidx := Some (Z.of_nat (length cs)); cval := v |} Hnew).
    - rewrite map_app. simpl.
      clear - Hnd Hnew. induction cs as [|x cs IH]; simpl.
      + constructor; [tauto|constructor].
      + inversion Hnd; subst. constructor.
        * rewrite in_app_iff. intros [H|[H|[]]]; [tauto|]. apply Hnew. left. auto.
        * apply IH; auto. intros H. apply Hnew. now right.
    - intros n c' Hn. destruct (Nat.lt_ge_cases n (length cs)).
      + rewrite nth_error_app1 in Hn by assumption. auto.
      + rewrite nth_error_app2 in Hn by assumption.
        destruct (n - length cs)%nat eqn:E; simpl in Hn; [|destruct n0; discriminate].
        injection Hn as <-. simpl. f_equal. f_equal. lia.
  Qed.

  Lemma parse_fields_all_stored sch ln : forall names texts i r cs0 errs,
    dense r cs0 -> i = length cs0 -> length names = length texts ->
    NoDup (map ckey cs0 ++ names) ->
    (forall j n t, nth_error names j = Some n -> nth_error texts j = Some t ->
        exists c, parse_field tbl O sch ln (i + j) n t = (Some c, [])) ->
    exists r' cs, parse_fields tbl O sch ln i names texts r errs = Ok (r', errs) /\
                  dense r' (cs0 ++ cs) /\ length cs = length names /\
                  forall j n t, nth_error names j = Some n -> nth_error texts j = Some t ->
                    exists c, nth_error cs j = Some c /\ parse_field tbl O sch ln (i + j) n t = (Some c, []).
  Proof.
    induction names as [|n ns IH]; intros texts i r cs0 errs Hd Hi Hlen Hnd Hall.
    - destruct texts; [|discriminate]. exists r, []. simpl. rewrite app_nil_r.
      split; [reflexivity|split; [exact Hd|split; [reflexivity|]]].
      intros [|j] ? ? Hx; discriminate.
    - destruct texts as [|t ts]; [discriminate|]. simpl in Hlen. injection Hlen as Hlen.
      destruct (Hall 0%nat n t eq_refl eq_refl) as [c Hpf]. rewrite Nat.add_0_r in Hpf.
      destruct (parse_field_key tbl O _ _ _ _ _ _ _ Hpf) as (Hck & Hci & _).
      assert (Hnew : ~ In (ckey c) (map ckey cs0)).
      { rewrite Hck. intros Hin. apply NoDup_remove_2 in Hnd. apply Hnd. apply in_or_app. now left. }
      destruct (setitem_dense r cs0 c Hd ltac:(rewrite Hci, Hi; reflexivity) Hnew) as [r1 [Hs Hd1]].
      destruct (IH ts (S i) r1 (cs0 ++ [c])%list (errs ++ [])%list Hd1) as (r' & cs & Hp & Hd' & Hl' & Hall').
      + rewrite app_length. simpl. lia.
      + exact Hlen.
      + rewrite map_app, <- app_assoc. simpl. rewrite Hck. exact Hnd.
      + intros j n' t' Hn' Ht'. destruct (Hall (S j) n' t' Hn' Ht') as [c' Hc']. exists c'.
        rewrite <- Hc'. f_equal. lia.
      + exists r', (c :: cs). cbn [parse_fields]. rewrite Hpf, <- Hck, Hs.
        rewrite app_nil_r in Hp. rewrite app_nil_r. split; [exact Hp|].
        rewrite <- app_assoc in Hd'. simpl in Hd'. split; [exact Hd'|]. split; [simpl; lia|].
        intros [|j] n' t' Hn' Ht'; simpl in *.
        * injection Hn' as <-. injection Ht' as <-. exists c. rewrite Nat.add_0_r, Hck. auto.
        * destruct (Hall' j n' t' Hn' Ht') as [c' [H1 H2]]. exists c'. split; auto.
          rewrite <- H2. f_equal. lia.
  Qed.
End Accept.

Section AcceptLine.
  Variable tbl : list class_info.
  Variable O : oracles.

  Lemma parse_field_stored_validates sch ln i n t c :
    parse_field tbl O sch ln i n t = (Some c, []) -> col_validate tbl None None c = [].
  Proof.
    unfold parse_field.
    destruct (match sch with Some s => if scheme_truthy s then scheme_class s n else None | None => None end) as [sc|].
    - destruct (cls_build O (resolve_or_plain tbl sc) t) as [v|]; [|discriminate].
      match goal with |- context [col_validate tbl sch ln ?cc] => destruct (col_validate tbl sch ln cc) eqn:E end;
        [|discriminate].
      intros H. injection H as <-.
      unfold col_validate in *. apply app_nil_both in E as [E1 E2]. apply app_nil_both in E2 as [E2 _].
      simpl in *.
      destruct (cls_value_invalid _ v); [discriminate|].
      destruct (cls_text_has_sep _ v); [discriminate|]. reflexivity.
    - match goal with |- context [col_validate tbl sch ln ?cc] => destruct (col_validate tbl sch ln cc) eqn:E end;
        [|discriminate].
      intros H. injection H as <-.
      unfold col_validate in *. apply app_nil_both in E as [E1 E2]. apply app_nil_both in E2 as [E2 _].
      simpl in *.
      destruct (cls_value_invalid _ _); [discriminate|].
      destruct (cls_text_has_sep _ _); [discriminate|]. reflexivity.
  Qed.

  Lemma assoc_map_self (cs : list ccol) c :
    NoDup (map ckey cs) -> In c cs -> assoc (ckey c) (map (fun x => (ckey x, x)) cs) = Some c.
  Proof.
    induction cs as [|x cs IH]; simpl; [tauto|]. intros Hnd [->|Hin].
    - now rewrite str_eqb_refl.
    - inversion Hnd; subst. destruct (str_eqb (ckey c) (ckey x)) eqn:E.
      + apply str_eqb_eq in E. exfalso. apply H1. rewrite <- E. now apply in_map.
      + auto.
  Qed.

  Lemma flat_map_all_nil {X Y} (f : X -> list Y) l : (forall x, In x l -> f x = []) -> flat_map f l = [].
  Proof. induction l as [|x l IH]; simpl; intros H; [reflexivity|]. rewrite H by now left. apply IH. auto. Qed.

  Lemma combine_seq_in {X} (l : list X) : forall st p, In p (List.combine (seq st (length l)) l) ->
    exists n, fst p = (st + n)%nat /\ nth_error l n = Some (snd p).
  Proof.
    induction l as [|y l IH]; intros st p H; simpl in H; [tauto|].
    destruct H as [<-|H].
    - exists 0%nat. simpl. split; [lia|reflexivity].
    - destruct (IH (S st) p H) as [n [H1 H2]]. exists (S n). simpl. split; [lia|exact H2].
  Qed.

  Lemma dense_no_sync_errors r cs ln : dense r cs -> rec_sync_errors ln r = [].
  Proof.
    intros (Hl & Hd & Hnd & Hidx). unfold rec_sync_errors.
    assert (Hnone : existsb is_none (rlist r) = false).
    { rewrite Hl. apply not_true_is_false. intros H. apply existsb_exists in H as [o [Hin Ho]].
      apply in_map_iff in Hin as [c [<- _]]. discriminate. }
    rewrite Hnone.
    assert (Hlen : Nat.eqb (length (rdict r)) (length (rlist r)) = true).
    { rewrite Hl, Hd, !map_length. apply Nat.eqb_refl. }
    rewrite Hlen. simpl.
    assert (Hex : existsb (fun o => match o with
                               | Some c => match assoc (ckey c) (rdict r) with
                                           | Some c' => negb (match cidx c, cidx c' with
                                                              | Some i, Some j => Z.eqb i j
                                                              | None, None => true
                                                              | _, _ => false end)
                                           | None => true
                                           end
                               | None => false
                               end) (rlist r) = false).
    { apply not_true_is_false. intros H. apply existsb_exists in H as [o [Hin Ho]].
      rewrite Hl in Hin. apply in_map_iff in Hin as [c [<- Hc]].
      rewrite Hd, (assoc_map_self cs c Hnd Hc) in Ho.
      destruct (cidx c); [rewrite Z.eqb_refl in Ho|]; discriminate. }
    rewrite Hex. simpl.
    apply flat_map_all_nil. intros p Hp.
    destruct (combine_seq_in _ _ _ Hp) as [n [Hn Hs]]. simpl in Hn.
    rewrite Hl, nth_error_map in Hs.
    destruct (nth_error cs n) as [c|] eqn:Hc; [|discriminate]. simpl in Hs.
    injection Hs as Hs. rewrite <- Hs. rewrite (Hidx _ _ Hc), Hn, Z.eqb_refl. reflexivity.
  Qed.

  (* a line whose every field is stored is accepted in Strict mode, and the
     record holds exactly those columns, in order *)
  Theorem from_line_accepts (s : scheme) ln line :
    NoDup (map fst s) ->
    let texts := split TAB (rstrip_crlf line) in
    length texts = length s ->
    (forall j n t, nth_error (map fst s) j = Some n -> nth_error texts j = Some t ->
        exists c, parse_field tbl O (Some s) ln j n t = (Some c, [])) ->
    exists r cs, from_line tbl O Strict None (Some s) ln line = Ok (r, []) /\ dense r cs /\
                 length cs = length s /\
                 forall j n t, nth_error (map fst s) j = Some n -> nth_error texts j = Some t ->
                   exists c, nth_error cs j = Some c /\ parse_field tbl O (Some s) ln j n t = (Some c, []).
  Proof.
    intros Hnd texts Hlen Hall. unfold from_line. fold texts.
    rewrite map_length, Hlen, Nat.eqb_refl. simpl.
    destruct (parse_fields_all_stored tbl O (Some s) ln (map fst s) texts 0 empty_rec [] [] dense_empty eq_refl)
      as (r & cs & Hp & Hd & Hl & Hst).
    - now rewrite map_length.
    - exact Hnd.
    - exact Hall.
    - rewrite Hp. simpl in Hd.
      assert (Hv : rec_validate_errors tbl None ln r = []).
      { unfold rec_validate_errors. simpl. destruct Hd as (Hrl & _). rewrite Hrl.
        apply flat_map_all_nil. intros o Hin. apply in_map_iff in Hin as [c [<- Hc]].
        destruct (In_nth_error _ _ Hc) as [j Hj].
        assert (Hjn : exists n, nth_error (map fst s) j = Some n).
        { assert (j < length cs)%nat by (apply nth_error_Some; congruence).
          rewrite Hl in H. destruct (nth_error (map fst s) j) eqn:E; [eauto|]. apply nth_error_None in E. lia. }
        destruct Hjn as [n Hn].
        assert (Hjt : exists t, nth_error texts j = Some t).
        { assert (j < length texts)%nat by (rewrite Hlen, <- (map_length fst); apply nth_error_Some; congruence).
          destruct (nth_error texts j) eqn:E; [eauto|]. apply nth_error_None in E. lia. }
        destruct Hjt as [t Ht].
        destruct (Hst j n t Hn Ht) as [c' [Hc' Hpf]]. rewrite Hj in Hc'. injection Hc' as <-.
        eapply parse_field_stored_validates; eauto. }
      unfold rec_validate. rewrite Hv, (dense_no_sync_errors r cs ln Hd). simpl.
      exists r, cs. rewrite map_length in Hl. auto.
  Qed.
End AcceptLine.
