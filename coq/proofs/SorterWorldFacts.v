(* SorterWorldFacts.v - lemmas about model/SorterWorld.v for property C18.
   No hypothesis on the key order, the codec or the sorted()/heapq oracle is
   needed: the resource discipline holds whatever they do. *)
From Coq Require Import Permutation.
From MafVerif Require Import lib.Base model.Sorter model.SorterWorld.

Section Facts.
  Variables A K D : Type.
  Variable keyf : A -> res K.
  Variable lt : K -> K -> bool.
  Variable enc : A -> D.
  Variable dec : D -> res A.
  Variable pick_min : forall X : Type, (X -> X -> bool) -> list X -> option (X * list X).
  Variable eof : bool.

  Notation world := (world D).
  Notation wsorter := (wsorter K D).
  Notation w_spill := (w_spill K D lt pick_min).
  Notation w_add := (w_add A K D keyf lt enc pick_min).
  Notation w_iter := (w_iter A K D keyf lt dec pick_min eof).
  Notation w_advance := (w_advance A K D keyf dec eof).
  Notation w_cursors := (w_cursors A K D keyf dec eof).
  Notation w_merge := (w_merge A K D keyf lt dec pick_min eof).
  Notation w_close := (w_close K D).
  Notation w_close_loop := (w_close_loop D).
  Notation w_close_until := (w_close_until K D).
  Notation w_step := (w_step A K D keyf lt enc dec pick_min eof).
  Notation w_run := (w_run A K D keyf lt enc dec pick_min eof).
  Notation w_workload := (w_workload A K D keyf lt enc dec pick_min eof).

  Notation wpaths := (wpaths K D).
  Notation wfds := (wfds K D).
  Notation wstash := (wstash K D).
  Notation wcap := (wcap K D).
  Notation walways := (walways K D).

  Definition ids (w : world) : list nat := map fst (files D w).

  (* ---------- small list facts ---------- *)
  Lemma in_remove_nat x n l : In x (remove_nat n l) <-> In x l /\ x <> n.
  Proof.
    unfold remove_nat. rewrite filter_In. split; intros (I & H); split; try assumption.
    - intros ->. rewrite Nat.eqb_refl in H. discriminate.
    - apply Bool.negb_true_iff. apply Nat.eqb_neq. exact H.
  Qed.

  Lemma in_remove_file x n (l : list (nat * list D)) :
    In x (map fst (remove_file D n l)) <-> In x (map fst l) /\ x <> n.
  Proof.
    unfold remove_file. induction l as [| (m, c) l IH]; simpl.
    - tauto.
    - destruct (Nat.eqb m n) eqn:E; simpl.
      + apply Nat.eqb_eq in E. subst. rewrite IH. intuition congruence.
      + apply Nat.eqb_neq in E. rewrite IH. intuition congruence.
  Qed.

  Lemma ids_append n d (l : list (nat * list D)) : map fst (append_file D n d l) = map fst l.
  Proof. induction l as [| (m, c) l IH]; simpl; [reflexivity |]. destruct (Nat.eqb m n); simpl; congruence. Qed.

  Lemma lookup_none n (l : list (nat * list D)) : lookup_file D n l = None -> ~ In n (map fst l).
  Proof.
    induction l as [| (m, c) l IH]; simpl; [tauto |]. destruct (Nat.eqb m n) eqn:E; [discriminate |].
    apply Nat.eqb_neq in E. intros H [X | X]; [congruence | exact (IH H X)].
  Qed.

  Lemma mem_nat_false n l : mem_nat n l = false -> ~ In n l.
  Proof.
    induction l as [| m l IH]; simpl; [tauto |]. intros H. apply Bool.orb_false_iff in H. destruct H as (E & H).
    apply Nat.eqb_neq in E. intros [X | X]; [congruence | exact (IH H X)].
  Qed.

  (* ---------- what each I/O call does to the resources ---------- *)
  Lemma tick_same c (w : world) o w1 : tick D c w = (o, w1) ->
    files D w1 = files D w /\ fds D w1 = fds D w /\ whandles D w1 = whandles D w /\ rhandles D w1 = rhandles D w.
  Proof.
    unfold tick. destruct (fault D w) as [[[| n] e] |]; intros H; inversion H; subst; simpl; auto.
  Qed.

  (* a step that leaves files, descriptors and write handles alone *)
  Definition quiet (w w1 : world) : Prop :=
    ids w1 = ids w /\ fds D w1 = fds D w /\ whandles D w1 = whandles D w.

  Lemma quiet_refl w : quiet w w.
  Proof. repeat split. Qed.
  Lemma quiet_trans w w1 w2 : quiet w w1 -> quiet w1 w2 -> quiet w w2.
  Proof. intros (a & b & c) (a' & b' & c'). repeat split; congruence. Qed.

  Lemma mkstemp_spec (w : world) r w1 : w_mkstemp D w = (r, w1) ->
    rhandles D w1 = rhandles D w /\ whandles D w1 = whandles D w /\
    ((exists e, r = Raise e /\ ids w1 = ids w /\ fds D w1 = fds D w) \/
     (exists id, r = Ok id /\ ids w1 = ids w ++ [id] /\ fds D w1 = fds D w ++ [id])).
  Proof.
    unfold w_mkstemp. destruct (tick D CMkstemp w) as [[e |] w0] eqn:T; apply tick_same in T;
      destruct T as (Tf & Td & Tw & Tr); intros H; inversion H; subst; simpl.
    - repeat split; try assumption. left. exists (OSError e). unfold ids. rewrite Tf, Td. auto.
    - repeat split; try assumption. right. exists (next_id D w0). unfold ids. simpl.
      rewrite map_app, Tf, Td. auto.
  Qed.

  Lemma open_w_spec id (w : world) r w1 : w_open_w D id w = (r, w1) ->
    ids w1 = ids w /\ fds D w1 = fds D w /\ rhandles D w1 = rhandles D w /\
    ((exists e, r = Raise e /\ whandles D w1 = whandles D w) \/ (r = Ok tt /\ whandles D w1 = whandles D w ++ [id])).
  Proof.
    unfold w_open_w, ids. destruct (tick D COpenW w) as [[e |] w0] eqn:T; apply tick_same in T;
      destruct T as (Tf & Td & Tw & Tr); intros H; inversion H; subst; simpl; rewrite ?Tf, ?Td, ?Tw, ?Tr;
      repeat split; eauto.
  Qed.

  Lemma write_len_spec (w : world) r w1 : w_write_len D w = (r, w1) -> quiet w w1 /\ rhandles D w1 = rhandles D w.
  Proof.
    unfold w_write_len, quiet, ids. destruct (tick D CWrite w) as [[e |] w0] eqn:T; apply tick_same in T;
      destruct T as (Tf & Td & Tw & Tr); intros H; inversion H; subst; simpl; rewrite ?Tf, ?Td, ?Tw, ?Tr; auto.
  Qed.

  Lemma write_data_spec id d (w : world) r w1 : w_write_data D id d w = (r, w1) -> quiet w w1 /\ rhandles D w1 = rhandles D w.
  Proof.
    unfold w_write_data, quiet, ids. destruct (tick D CWrite w) as [[e |] w0] eqn:T; apply tick_same in T;
      destruct T as (Tf & Td & Tw & Tr); intros H; inversion H; subst; simpl; rewrite ?ids_append, ?Tf, ?Td, ?Tw, ?Tr; auto.
  Qed.

  Lemma close_w_spec id (w : world) r w1 : w_close_w D id w = (r, w1) ->
    ids w1 = ids w /\ fds D w1 = fds D w /\ rhandles D w1 = rhandles D w /\
    whandles D w1 = remove_nat id (whandles D w).
  Proof.
    unfold w_close_w, ids. destruct (tick D CCloseW w) as [[e |] w0] eqn:T; apply tick_same in T;
      destruct T as (Tf & Td & Tw & Tr); intros H; inversion H; subst; simpl; rewrite ?Tf, ?Td, ?Tw, ?Tr; auto.
  Qed.

  Lemma open_r_spec id (w : world) r w1 : w_open_r D id w = (r, w1) -> quiet w w1.
  Proof.
    unfold w_open_r, quiet, ids. destruct (tick D COpenR w) as [[e |] w0] eqn:T; apply tick_same in T;
      destruct T as (Tf & Td & Tw & Tr).
    - intros H; inversion H; subst; simpl; rewrite ?Tf, ?Td, ?Tw; auto.
    - destruct (lookup_file D id (files D w0)); intros H; inversion H; subst; simpl; rewrite ?Tf, ?Td, ?Tw; auto.
  Qed.

  Lemma read_spec (w : world) r w1 : w_read D eof w = (r, w1) -> quiet w w1.
  Proof.
    unfold w_read, quiet, ids. destruct (tick D CRead w) as [[e |] w0] eqn:T; apply tick_same in T;
      destruct T as (Tf & Td & Tw & Tr); intros H; inversion H; subst; simpl; rewrite ?Tf, ?Td, ?Tw; auto.
  Qed.

  Lemma close_r_spec h (w : world) r w1 : w_close_r D h w = (r, w1) -> quiet w w1.
  Proof.
    unfold w_close_r, quiet, ids. destruct (tick D CCloseR w) as [[e |] w0] eqn:T; apply tick_same in T;
      destruct T as (Tf & Td & Tw & Tr); intros H; inversion H; subst; simpl; rewrite ?Tf, ?Td, ?Tw; auto.
  Qed.

  (* os.close: whatever the outcome, afterwards fd is not an open descriptor *)
  Lemma os_close_spec fd (w : world) r w1 : w_os_close D fd w = (r, w1) ->
    ids w1 = ids w /\ whandles D w1 = whandles D w /\ rhandles D w1 = rhandles D w /\
    (forall x, In x (fds D w1) -> In x (fds D w) /\ x <> fd).
  Proof.
    unfold w_os_close, ids. destruct (tick D COsClose w) as [[e |] w0] eqn:T;
      apply tick_same in T; destruct T as (Tf & Td & Tw & Tr).
    - intros H; inversion H; subst; simpl. rewrite Tf, Tw, Tr, Td.
      split; [reflexivity |]. split; [reflexivity |]. split; [reflexivity |]. intros x. apply in_remove_nat.
    - destruct (mem_nat fd (fds D w0)) eqn:M; intros H; inversion H; subst; simpl; rewrite ?Tf, ?Tw, ?Tr, ?Td.
      + split; [reflexivity |]. split; [reflexivity |]. split; [reflexivity |]. intros x. apply in_remove_nat.
      + apply mem_nat_false in M. rewrite Td in M.
        split; [reflexivity |]. split; [reflexivity |]. split; [reflexivity |].
        intros x I. split; [exact I | intros ->; contradiction].
  Qed.

  (* os.remove: unless it failed with a non-ENOENT error, the file is gone *)
  Lemma os_remove_spec id (w : world) r w1 : w_os_remove D id w = (r, w1) ->
    fds D w1 = fds D w /\ whandles D w1 = whandles D w /\ rhandles D w1 = rhandles D w /\
    ((r = Raise (OSError false) /\ ids w1 = ids w /\ fault D w1 = None) \/
     ((r = Ok tt \/ r = Raise (OSError true)) /\ forall x, In x (ids w1) <-> In x (ids w) /\ x <> id)).
  Proof.
    unfold w_os_remove, ids. destruct (tick D COsRemove w) as [[[|] |] w0] eqn:T; pose proof T as T';
      apply tick_same in T; destruct T as (Tf & Td & Tw & Tr).
    - intros H; inversion H; subst; simpl. rewrite Td, Tw, Tr, Tf. repeat split; auto. right. split; [auto |].
      intros x. apply in_remove_file.
    - intros H; inversion H; subst; simpl. rewrite Td, Tw, Tr, Tf. repeat split; auto. left. repeat split; auto.
      unfold tick in T'. destruct (fault D w) as [[[| n] e1] |]; inversion T'; reflexivity.
    - destruct (lookup_file D id (files D w0)) eqn:Lk; intros H; inversion H; subst; simpl; rewrite ?Td, ?Tw, ?Tr, ?Tf.
      + repeat split; auto. right. split; [auto |]. intros x. apply in_remove_file.
      + repeat split; auto. right. split; [auto |]. apply lookup_none in Lk. rewrite Tf in Lk.
        intros x. split; [intros I; split; [exact I | intros ->; contradiction] | tauto].
  Qed.

  (* ---------- the resource invariant between operations ---------- *)
  Definition WI (s : wsorter) (w : world) : Prop :=
    incl (ids w) (wpaths s) /\
    (forall fd, In fd (fds D w) -> In (Some fd) (wfds s)) /\
    length (wpaths s) = length (wfds s) /\
    whandles D w = [] /\ incl (rhandles D w) (concat (wmerging K D s)).

  Lemma WI_new c al f : WI (wnew K D c al) (world0 D f).
  Proof. unfold WI, ids. simpl. repeat split; auto; intros x []. Qed.

  Lemma write_all_spec id ds : forall (w : world) e w1, write_all D id ds w = (e, w1) -> quiet w w1 /\ rhandles D w1 = rhandles D w.
  Proof.
    induction ds as [| d r IH]; intros w e w1; simpl.
    - intros H; inversion H; subst. split; [apply quiet_refl | reflexivity].
    - destruct (w_write_len D w) as [[u | x] wa] eqn:E1; apply write_len_spec in E1; destruct E1 as (Q1 & R1).
      + destruct (w_write_data D id d wa) as [[u2 | x2] wb] eqn:E2; apply write_data_spec in E2; destruct E2 as (Q2 & R2).
        * intros H. apply IH in H. destruct H as (Q3 & R3). split; [eapply quiet_trans; [| exact Q3]; eapply quiet_trans; eauto | congruence].
        * intros H; inversion H; subst. split; [eapply quiet_trans; eauto | congruence].
      + intros H; inversion H; subst. split; assumption.
  Qed.

  (* the sorter's view of its resources *)
  Definition same_reg (s s' : wsorter) : Prop := wpaths s' = wpaths s /\ wfds s' = wfds s.

  Lemma spill_spec (s : wsorter) (w : world) e s' w' : w_spill s w = (e, s', w') -> whandles D w = [] ->
    rhandles D w' = rhandles D w /\ whandles D w' = [] /\
    ((same_reg s s' /\ ids w' = ids w /\ fds D w' = fds D w) \/
     (exists id, wpaths s' = wpaths s ++ [id] /\ wfds s' = wfds s ++ [Some id] /\
                 ids w' = ids w ++ [id] /\ fds D w' = fds D w ++ [id])).
  Proof.
    intros H W0. unfold SorterWorld.w_spill in H.
    destruct (wstash s) as [| e0 st] eqn:Es.
    { inversion H; subst. repeat split; auto. left. repeat split. }
    destruct (w_mkstemp D w) as [[id | x] w1] eqn:E1; apply mkstemp_spec in E1; destruct E1 as (R1 & W1 & [(x0 & Ex & I1 & F1) | (id0 & Ex & I1 & F1)]);
      try discriminate.
    2: { inversion Ex; subst. inversion H; subst. repeat split; auto; try congruence. left. repeat split; auto. }
    inversion Ex; subst id0. clear Ex.
    assert (Reg : forall s2, same_reg (ws_register K D s id) s2 ->
                  wpaths s2 = wpaths s ++ [id] /\ wfds s2 = wfds s ++ [Some id]).
    { intros s2 (a & b). simpl in a, b. split; assumption. }
    destruct (w_open_w D id w1) as [[u | x] w2] eqn:E2; apply open_w_spec in E2; destruct E2 as (I2 & F2 & R2 & [(x0 & Ex & W2) | (Ex & W2)]);
      try discriminate.
    2: { inversion H; subst. repeat split; try congruence. right. exists id. repeat split; simpl; congruence. }
    assert (Wh2 : whandles D w2 = [id]) by (rewrite W2, W1, W0; reflexivity).
    assert (Rm : remove_nat id [id] = []) by (unfold remove_nat; simpl; rewrite Nat.eqb_refl; reflexivity).
    destruct (sort_entries K D lt pick_min (wstash (ws_register K D s id))) as [l |] eqn:Esrt.
    2: { destruct (w_close_w D id w2) as [[u3 | x3] w3] eqn:E3; apply close_w_spec in E3; destruct E3 as (I3 & F3 & R3 & W3);
         inversion H; subst; (split; [congruence |]; split; [rewrite W3, Wh2; exact Rm |]; right; exists id; repeat split; simpl; congruence). }
    destruct (write_all D id (map snd l) w2) as [[x |] w3] eqn:E3; apply write_all_spec in E3; destruct E3 as ((I3 & F3 & W3) & R3).
    - destruct (w_close_w D id w3) as [[u4 | x4] w4] eqn:E4; apply close_w_spec in E4; destruct E4 as (I4 & F4 & R4 & W4);
        inversion H; subst; (split; [congruence |]; split; [rewrite W4, W3, Wh2; exact Rm |]; right; exists id; repeat split; simpl; congruence).
    - destruct (w_close_w D id w3) as [[u4 | x4] w4] eqn:E4; apply close_w_spec in E4; destruct E4 as (I4 & F4 & R4 & W4);
        inversion H; subst; (split; [congruence |]; split; [rewrite W4, W3, Wh2; exact Rm |]; right; exists id; repeat split; simpl; congruence).
  Qed.

  Lemma spill_merging (s : wsorter) (w : world) e s' w' : w_spill s w = (e, s', w') -> wmerging K D s' = wmerging K D s.
  Proof.
    intros H. unfold SorterWorld.w_spill in H. destruct (wstash s) as [| e0 st]; [inversion H; reflexivity |].
    destruct (w_mkstemp D w) as [[id | x] w1]; [| inversion H; reflexivity].
    destruct (w_open_w D id w1) as [[u | x] w2]; [| inversion H; reflexivity].
    destruct (sort_entries K D lt pick_min (wstash (ws_register K D s id))) as [l |].
    2: { destruct (w_close_w D id w2) as [[u3 | x3] w3]; inversion H; reflexivity. }
    destruct (write_all D id (map snd l) w2) as [[x |] w3];
      destruct (w_close_w D id w3) as [[u4 | x4] w4]; inversion H; reflexivity.
  Qed.

  Lemma WI_grow (s s' : wsorter) (w w' : world) :
    WI s w -> rhandles D w' = rhandles D w -> wmerging K D s' = wmerging K D s -> whandles D w' = [] ->
    ((same_reg s s' /\ ids w' = ids w /\ fds D w' = fds D w) \/
     (exists id, wpaths s' = wpaths s ++ [id] /\ wfds s' = wfds s ++ [Some id] /\
                 ids w' = ids w ++ [id] /\ fds D w' = fds D w ++ [id])) ->
    WI s' w'.
  Proof.
    intros (Hi & Hf & Hl & Hw & Hr) R M W [((P & Fd) & I & F) | (id & P & Fd & I & F)]; unfold WI.
    - rewrite P, Fd, I, F, R, M. repeat split; assumption.
    - rewrite P, Fd, I, F, R, M. repeat split; try assumption.
      + intros x Hx. apply in_app_or in Hx. apply in_or_app. destruct Hx as [Hx | Hx]; [left; apply Hi; exact Hx | right; exact Hx].
      + intros fd Hx. apply in_app_or in Hx. apply in_or_app. destruct Hx as [Hx | [<- | []]]; [left; apply Hf; exact Hx | right; left; reflexivity].
      + rewrite !app_length. simpl. lia.
  Qed.

  Lemma spill_WI (s : wsorter) (w : world) e s' w' : WI s w -> w_spill s w = (e, s', w') -> WI s' w'.
  Proof.
    intros I H. pose proof I as (Hi & Hf & Hl & Hw & Hr). pose proof (spill_merging _ _ _ _ _ H) as M.
    apply spill_spec in H; [| exact Hw]. destruct H as (R & W & C).
    eapply WI_grow; eauto.
  Qed.

  Lemma add_WI (s : wsorter) x (w : world) e s' w' : WI s w -> w_add s x w = (e, s', w') -> WI s' w'.
  Proof.
    intros I H. unfold SorterWorld.w_add in H. destruct (keyf x) as [k | ex]; [| inversion H; subst; exact I].
    destruct (wcap s <=? length (wstash s))%nat; [inversion H; subst; exact I |].
    set (s1 := ws_stash K D s (wstash s ++ [(k, enc x)])) in *.
    assert (I1 : WI s1 w) by exact I.
    destruct (length (wstash s1) =? wcap s)%nat.
    - eapply spill_WI; eauto.
    - inversion H; subst. exact I1.
  Qed.

  Lemma advance_quiet h ds (w : world) r w1 : w_advance h ds w = (r, w1) -> quiet w w1.
  Proof.
    unfold SorterWorld.w_advance. destruct (w_read D eof w) as [[u | x] wa] eqn:E1; apply read_spec in E1.
    2: { intros H; inversion H; subst; exact E1. }
    destruct ds as [| d r0].
    - destruct (w_close_r D h wa) as [[u2 | x2] wb] eqn:E2; apply close_r_spec in E2; intros H; inversion H; subst;
        eapply quiet_trans; eauto.
    - destruct (w_read D eof wa) as [[u2 | x2] wb] eqn:E2; apply read_spec in E2.
      2: { intros H; inversion H; subst. eapply quiet_trans; eauto. }
      destruct (dec d) as [a | x3]; [| intros H; inversion H; subst; eapply quiet_trans; eauto].
      destruct (keyf a) as [k | x4]; intros H; inversion H; subst; eapply quiet_trans; eauto.
  Qed.

  Lemma cursors_quiet paths : forall (w : world) r w1, w_cursors paths w = (r, w1) -> quiet w w1.
  Proof.
    induction paths as [| p ps IH]; intros w r w1; simpl.
    - intros H; inversion H; subst. apply quiet_refl.
    - destruct (w_open_r D p w) as [[[h c] | x] wa] eqn:E1; apply open_r_spec in E1.
      2: { intros H; inversion H; subst; exact E1. }
      destruct (w_advance h c wa) as [[[cu |] | x] wb] eqn:E2; apply advance_quiet in E2.
      + destruct (w_cursors ps wb) as [[l | x] wc] eqn:E3; apply IH in E3; intros H; inversion H; subst;
          (eapply quiet_trans; [exact E1 |]; eapply quiet_trans; [exact E2 |]; exact E3).
      + intros H; inversion H; subst. eapply quiet_trans; eauto.
      + intros H; inversion H; subst. eapply quiet_trans; eauto.
  Qed.

  Lemma merge_quiet pulls : forall heap opn (w : world) r w1, w_merge pulls heap opn w = (r, w1) -> quiet w w1.
  Proof.
    induction pulls as [| p IH]; intros heap opn w r w1; simpl.
    - intros H; inversion H; subst. apply quiet_refl.
    - destruct heap as [| c0 h0]; [intros H; inversion H; subst; apply quiet_refl |].
      destruct (pick_min _ _ (c0 :: h0)) as [[c rest] |]; [| intros H; inversion H; subst; apply quiet_refl].
      destruct (w_advance (wh A K D c) (wrest A K D c) w) as [[[c' |] | x] wa] eqn:E1; apply advance_quiet in E1.
      + destruct (w_merge p (c' :: rest) opn wa) as [[[ys st] hs] wb] eqn:E2. apply IH in E2. intros H; inversion H; subst.
        eapply quiet_trans; eauto.
      + destruct (w_merge p rest (remove_nat (wh A K D c) opn) wa) as [[[ys st] hs] wb] eqn:E2. apply IH in E2. intros H; inversion H; subst.
        eapply quiet_trans; eauto.
      + intros H; inversion H; subst. exact E1.
  Qed.

  (* ---------- the read handles ---------- *)
  Lemma close_r_rh h (w : world) r w1 : w_close_r D h w = (r, w1) ->
    forall x, In x (rhandles D w1) <-> In x (rhandles D w) /\ x <> h.
  Proof.
    unfold w_close_r. destruct (tick D CCloseR w) as [[e |] w0] eqn:T; apply tick_same in T;
      destruct T as (_ & _ & _ & Tr); intros H; inversion H; subst; simpl; rewrite Tr; intros x; apply in_remove_nat.
  Qed.

  Lemma read_rh (w : world) r w1 : w_read D eof w = (r, w1) -> rhandles D w1 = rhandles D w.
  Proof.
    unfold w_read. destruct (tick D CRead w) as [[e |] w0] eqn:T; apply tick_same in T;
      destruct T as (_ & _ & _ & Tr); intros H; inversion H; subst; exact Tr.
  Qed.

  Lemma open_r_rh id (w : world) r w1 : w_open_r D id w = (r, w1) ->
    match r with
    | Ok (h, _) => rhandles D w1 = rhandles D w ++ [h]
    | Raise _ => rhandles D w1 = rhandles D w
    end.
  Proof.
    unfold w_open_r. destruct (tick D COpenR w) as [[e |] w0] eqn:T; apply tick_same in T; destruct T as (_ & _ & _ & Tr).
    - intros H; inversion H; subst. exact Tr.
    - destruct (lookup_file D id (files D w0)); intros H; inversion H; subst; simpl; rewrite Tr; reflexivity.
  Qed.

  (* __advance only ever closes its own handle; a cursor it returns reads through the same handle *)
  Lemma advance_rh h ds (w : world) r w1 : w_advance h ds w = (r, w1) ->
    incl (rhandles D w1) (rhandles D w) /\
    match r with
    | Ok None => ~ In h (rhandles D w1)
    | Ok (Some c) => wh A K D c = h
    | Raise _ => True
    end.
  Proof.
    unfold SorterWorld.w_advance. destruct (w_read D eof w) as [[u | x] wa] eqn:E1; apply read_rh in E1.
    2: { intros H; inversion H; subst. split; [rewrite E1; apply incl_refl | exact I]. }
    destruct ds as [| d r0].
    - destruct (w_close_r D h wa) as [[u2 | x2] wb] eqn:E2; pose proof (close_r_rh _ _ _ _ E2) as Rh;
        intros H; inversion H; subst; (split; [intros y Hy; apply Rh in Hy; rewrite <- E1; tauto |]); [| exact I].
      intros Hh. apply Rh in Hh. destruct Hh as (_ & N). apply N. reflexivity.
    - destruct (w_read D eof wa) as [[u2 | x2] wb] eqn:E2; apply read_rh in E2.
      2: { intros H; inversion H; subst. split; [rewrite E2, E1; apply incl_refl | exact I]. }
      destruct (dec d) as [a | x3]; [| intros H; inversion H; subst; split; [rewrite E2, E1; apply incl_refl | exact I]].
      destruct (keyf a) as [k | x4]; intros H; inversion H; subst; (split; [rewrite E2, E1; apply incl_refl |]); [reflexivity | exact I].
  Qed.

  Lemma cursors_rh paths : forall (w : world) heap w1, w_cursors paths w = (Ok heap, w1) ->
    incl (rhandles D w1) (rhandles D w ++ map (wh A K D) heap).
  Proof.
    induction paths as [| p ps IH]; intros w heap w1 H; simpl in H.
    - inversion H; subst. simpl. rewrite app_nil_r. apply incl_refl.
    - destruct (w_open_r D p w) as [[[h c] | x] wa] eqn:E1; [| inversion H]. apply open_r_rh in E1.
      destruct (w_advance h c wa) as [[[cu |] | x] wb] eqn:E2; try (inversion H; fail).
      apply advance_rh in E2. destruct E2 as (Inc & Eh).
      destruct (w_cursors ps wb) as [[l | x] wc] eqn:E3; [| inversion H]. inversion H; subst.
      apply IH in E3. intros y Hy. apply E3 in Hy. apply in_app_or in Hy. simpl.
      destruct Hy as [Hy | Hy]; [| apply in_or_app; right; right; exact Hy].
      apply Inc in Hy. rewrite E1 in Hy. apply in_app_or in Hy. apply in_or_app.
      destruct Hy as [Hy | [<- | []]]; [left; exact Hy | right; left; reflexivity].
  Qed.

  (* after `pulls` calls of next(): what is open is what was open elsewhere (R) plus the readers not yet flagged closed *)
  Lemma merge_rh pulls : forall heap opn (w : world) ys st hs w1 R,
    w_merge pulls heap opn w = ((ys, st, hs), w1) ->
    incl (rhandles D w) (R ++ opn) -> incl (rhandles D w1) (R ++ hs).
  Proof.
    induction pulls as [| p IH]; intros heap opn w ys st hs w1 R H Inc; simpl in H.
    - inversion H; subst. exact Inc.
    - destruct heap as [| c0 h0]; [inversion H; subst; exact Inc |].
      destruct (pick_min _ _ (c0 :: h0)) as [[c rest] |] eqn:Ep; [| inversion H; subst; exact Inc].
      destruct (w_advance (wh A K D c) (wrest A K D c) w) as [[[c' |] | x] wa] eqn:E1; apply advance_rh in E1;
        destruct E1 as (Sub & Sp).
      + destruct (w_merge p (c' :: rest) opn wa) as [[[ys0 st0] hs0] wb] eqn:E2. inversion H; subst.
        eapply IH; [exact E2 |]. intros y Hy. apply Inc. apply Sub. exact Hy.
      + destruct (w_merge p rest (remove_nat (wh A K D c) opn) wa) as [[[ys0 st0] hs0] wb] eqn:E2. inversion H; subst.
        eapply IH; [exact E2 |]. intros y Hy.
        assert (Ny : y <> wh A K D c) by (intros ->; exact (Sp Hy)).
        apply Sub in Hy. apply Inc in Hy. apply in_app_or in Hy. apply in_or_app.
        destruct Hy as [Hy | Hy]; [left; exact Hy | right; apply in_remove_nat; split; assumption].
      + inversion H; subst. intros y Hy. apply Inc. apply Sub. exact Hy.
  Qed.

  Lemma mclose_spec hs : forall (w : world) err err' w1, w_mclose D hs w err = (err', w1) ->
    quiet w w1 /\ (forall x, In x (rhandles D w1) <-> In x (rhandles D w) /\ ~ In x hs) /\
    (err' = None -> err = None).
  Proof.
    induction hs as [| h r IH]; intros w err err' w1 H; simpl in H.
    - inversion H; subst. split; [apply quiet_refl |]. split; [intros x; tauto | auto].
    - destruct (w_close_r D h w) as [[u | e] wa] eqn:E; pose proof (close_r_spec _ _ _ _ E) as Q; pose proof (close_r_rh _ _ _ _ E) as Rh;
        apply IH in H; destruct H as (Q2 & Rh2 & Er).
      + split; [eapply quiet_trans; eauto |]. split; [| exact Er].
        intros x. rewrite Rh2, Rh. simpl. intuition.
      + split; [eapply quiet_trans; eauto |]. split.
        * intros x. rewrite Rh2, Rh. simpl. intuition.
        * intros X. apply Er in X. destruct err; [discriminate | discriminate].
  Qed.

  Lemma finally_WI (s : wsorter) ys e hs (w : world) r s' w' :
    incl (wpaths s) (wpaths s) -> w_finally A K D s ys e hs w = (r, s', w') ->
    s' = s /\ quiet w w' /\ (forall x, In x (rhandles D w') <-> In x (rhandles D w) /\ ~ In x hs).
  Proof.
    intros _ H. unfold SorterWorld.w_finally in H.
    destruct (w_mclose D hs w None) as [[e' |] w1] eqn:E; apply mclose_spec in E; destruct E as (Q & Rh & _);
      inversion H; subst; auto.
  Qed.

  Lemma WI_quiet (s : wsorter) (w w1 : world) : WI s w -> quiet w w1 -> incl (rhandles D w1) (concat (wmerging K D s)) -> WI s w1.
  Proof.
    intros (Hi & Hf & Hl & Hw & Hr) (a & b & c) R. unfold WI, ids in *. rewrite a, b, c. repeat split; assumption.
  Qed.

  Lemma iter_WI (s : wsorter) p keep (w : world) r s' w' : WI s w -> w_iter s p keep w = (r, s', w') -> WI s' w'.
  Proof.
    intros I H. unfold SorterWorld.w_iter in H. destruct p as [| p]; [inversion H; subst; exact I |].
    destruct (negb (is_nil (wpaths s)) || walways s).
    - destruct (w_spill s w) as [[e s1] w1] eqn:E1.
      pose proof (spill_WI _ _ _ _ _ I E1) as I1.
      destruct e as [x |]; [inversion H; subst; exact I1 |].
      pose proof I1 as (_ & _ & _ & _ & Hr1).
      destruct (w_cursors (wpaths s1) w1) as [[heap | x] w2] eqn:E2.
      2: { apply cursors_quiet in E2. inversion H; subst.
           destruct I1 as (Hi & Hf & Hl & Hw & Hr). destruct E2 as (a & b & c).
           unfold WI, ids in *. simpl. rewrite a, b, c. repeat split; assumption. }
      pose proof (cursors_quiet _ _ _ _ E2) as Q2. apply cursors_rh in E2.
      destruct (w_merge (S p) heap (map (wh A K D) heap) w2) as [[[ys st] hs] w3] eqn:E3.
      pose proof (merge_quiet _ _ _ _ _ _ E3) as Q3.
      pose proof (merge_rh _ _ _ _ _ _ _ _ (rhandles D w1) E3 E2) as R3.
      assert (Fin : forall e0 r0 s0 w0, w_finally A K D s1 ys e0 hs w3 = (r0, s0, w0) -> WI s0 w0).
      { intros e0 r0 s0 w0 Hf. apply finally_WI in Hf; [| apply incl_refl]. destruct Hf as (-> & Q4 & Rh4).
        eapply WI_quiet; [exact I1 | eapply quiet_trans; [exact Q2 |]; eapply quiet_trans; eauto |].
        intros y Hy. apply Rh4 in Hy. destruct Hy as (Hy & N). apply R3 in Hy. apply in_app_or in Hy.
        destruct Hy as [Hy | Hy]; [apply Hr1; exact Hy | contradiction]. }
      destruct st as [| | e0].
      + eapply Fin; exact H.
      + destruct keep; [| eapply Fin; exact H].
        inversion H; subst.
        destruct I1 as (Hi & Hf & Hl & Hw & Hr). destruct (quiet_trans _ _ _ Q2 Q3) as (a & b & c).
        unfold WI, ids in *. simpl. rewrite a, b, c. repeat split; try assumption.
        rewrite concat_app. simpl. rewrite app_nil_r. intros y Hy. apply R3 in Hy. apply in_app_or in Hy. apply in_or_app.
        destruct Hy as [Hy | Hy]; [left; apply Hr; exact Hy | right; exact Hy].
      + eapply Fin; exact H.
    - destruct (sort_entries K D lt pick_min (wstash s)); inversion H; subst; exact I.
  Qed.

  (* ---------- close ---------- *)
  Lemma tick_fault_none c (w : world) o w1 : fault D w = None -> tick D c w = (o, w1) -> o = None /\ fault D w1 = None.
  Proof. unfold tick. intros F. rewrite F. intros H; inversion H; subst; auto. Qed.

  Lemma os_remove_nofault id (w : world) r w1 : fault D w = None -> w_os_remove D id w = (r, w1) ->
    fault D w1 = None /\ r <> Raise (OSError false).
  Proof.
    intros F. unfold w_os_remove. destruct (tick D COsRemove w) as [o w0] eqn:T.
    destruct (tick_fault_none _ _ _ _ F T) as (-> & F0).
    destruct (lookup_file D id (files D w0)); intros H; inversion H; subst; simpl; split; auto; discriminate.
  Qed.

  (* one round of the loop in Sorter.close *)
  Definition head_step (d : option nat) (p : nat) (w : world) (err : option exn) (rem : list nat)
    : option exn * list nat * world :=
    let '(err1, w1) :=
      match d with
      | Some fd => match w_os_close D fd w with
                   | (Raise e, w1) => (first_err err e, w1)
                   | (Ok _, w1) => (err, w1)
                   end
      | None => (err, w)
      end in
    match w_os_remove D p w1 with
    | (Raise (OSError true), w2) => (err1, rem, w2)
    | (Raise e, w2) => (first_err err1 e, rem ++ [p], w2)
    | (Ok _, w2) => (err1, rem, w2)
    end.

  Lemma loop_unfold p ps d ds (w : world) err rem :
    w_close_loop (p :: ps) (d :: ds) w err rem =
    let '(e1, r1, w2) := head_step d p w err rem in w_close_loop ps ds w2 e1 r1.
  Proof.
    unfold head_step. simpl. destruct d as [fd |].
    - destruct (w_os_close D fd w) as [[u | e] w1]; destruct (w_os_remove D p w1) as [[u' | e'] w2];
        try reflexivity; destruct e' as [| | | | | | | b | |]; try reflexivity; destruct b; reflexivity.
    - destruct (w_os_remove D p w) as [[u' | e'] w2];
        try reflexivity; destruct e' as [| | | | | | | b | |]; try reflexivity; destruct b; reflexivity.
  Qed.

  Lemma first_err_some a e : first_err a e <> None.
  Proof. destruct a; simpl; discriminate. Qed.
  Lemma first_err_none a e : first_err a e = None -> a = None.
  Proof. destruct a; simpl; [discriminate | reflexivity]. Qed.

  Lemma head_step_spec d p (w : world) err rem e1 r1 w2 : head_step d p w err rem = (e1, r1, w2) ->
    whandles D w2 = whandles D w /\ rhandles D w2 = rhandles D w /\
    (forall x, In x (ids w2) -> In x (ids w) /\ (x = p -> In x r1)) /\
    (forall x, In x (fds D w2) -> In x (fds D w) /\ Some x <> d) /\
    incl rem r1 /\ incl r1 (rem ++ [p]) /\ (e1 = None -> err = None /\ r1 = rem) /\
    (d = None -> e1 = None \/ err <> None \/ fault D w2 = None) /\
    (d = None -> fault D w = None -> err = None -> e1 = None /\ fault D w2 = None) /\
    (d = None -> fault D w = None -> fault D w2 = None).
  Proof.
    unfold head_step.
    assert (exists err1 w1,
      match d with
      | Some fd => match w_os_close D fd w with
                   | (Raise e, w1) => (first_err err e, w1)
                   | (Ok _, w1) => (err, w1)
                   end
      | None => (err, w)
      end = (err1, w1) /\
      ids w1 = ids w /\ whandles D w1 = whandles D w /\ rhandles D w1 = rhandles D w /\
      (forall x, In x (fds D w1) -> In x (fds D w) /\ Some x <> d) /\
      (err1 = None -> err = None) /\ (d = None -> err1 = err /\ w1 = w)) as (err1 & w1 & E & Di & Dw & Dr & Df & De & Dn).
    { destruct d as [fd |].
      - assert (Fd : forall wa, (forall x, In x (fds D wa) -> In x (fds D w) /\ x <> fd) ->
                       forall x, In x (fds D wa) -> In x (fds D w) /\ Some x <> Some fd).
        { intros wa dd x Hx. apply dd in Hx. destruct Hx as (Hx & N). split; [exact Hx |]. intros E; inversion E; contradiction. }
        destruct (w_os_close D fd w) as [[u | e] wa] eqn:Ec; apply os_close_spec in Ec;
          destruct Ec as (a & b & c & dd).
        + exists err, wa. split; [reflexivity |]. split; [exact a |]. split; [exact b |]. split; [exact c |].
          split; [apply Fd; exact dd |]. split; [auto | intros; discriminate].
        + exists (first_err err e), wa. split; [reflexivity |]. split; [exact a |]. split; [exact b |]. split; [exact c |].
          split; [apply Fd; exact dd |]. split; [apply first_err_none | intros; discriminate].
      - exists err, w. split; [reflexivity |]. split; [reflexivity |]. split; [reflexivity |]. split; [reflexivity |].
        split; [intros y Hy; split; [exact Hy | discriminate] |]. split; [auto |]. intros _. split; reflexivity. }
    rewrite E. clear E.
    destruct (w_os_remove D p w1) as [r w2'] eqn:Er. pose proof Er as Er'. apply os_remove_spec in Er.
    destruct Er as (Rf & Rw & Rr & [(Rx & Ri & Rflt) | (Rx & Ri)]).
    - subst r. intros H; inversion H; subst.
      split; [congruence |]. split; [congruence |].
      split; [intros x Hx; rewrite Ri, Di in Hx; split; [exact Hx | intros ->; apply in_or_app; right; left; reflexivity] |].
      split; [intros x Hx; rewrite Rf in Hx; apply Df; exact Hx |].
      split; [intros x Hx; apply in_or_app; left; exact Hx |].
      split; [intros x Hx; exact Hx |].
      split; [intros X; exfalso; exact (first_err_some _ _ X) |].
      split; [intros _; right; right; exact Rflt |].
      split; [| intros _ _; exact Rflt].
      intros Dnone F _. destruct (Dn Dnone) as (_ & ->). destruct (os_remove_nofault _ _ _ _ F Er') as (_ & N). congruence.
    - assert (Hres : (err1, rem, w2') = (e1, r1, w2) ->
                whandles D w2 = whandles D w /\ rhandles D w2 = rhandles D w /\
                (forall x, In x (ids w2) -> In x (ids w) /\ (x = p -> In x r1)) /\
                (forall x, In x (fds D w2) -> In x (fds D w) /\ Some x <> d) /\
                incl rem r1 /\ incl r1 (rem ++ [p]) /\ (e1 = None -> err = None /\ r1 = rem) /\
                (d = None -> e1 = None \/ err <> None \/ fault D w2 = None) /\
                (d = None -> fault D w = None -> err = None -> e1 = None /\ fault D w2 = None) /\
                (d = None -> fault D w = None -> fault D w2 = None)).
      { intros H; inversion H; subst.
        split; [congruence |]. split; [congruence |].
        split; [intros x Hx; apply Ri in Hx; destruct Hx as (Hx & Np); rewrite Di in Hx; split; [exact Hx | intros E; contradiction] |].
        split; [intros x Hx; rewrite Rf in Hx; apply Df; exact Hx |].
        split; [intros x Hx; exact Hx |].
        split; [intros x Hx; apply in_or_app; left; exact Hx |].
        split; [intros X; split; [apply De; exact X | reflexivity] |].
        split; [| split].
        - intros Dnone. destruct (Dn Dnone) as (-> & _). destruct err; [right; left; discriminate | left; reflexivity].
        - intros Dnone F E0. destruct (Dn Dnone) as (-> & ->). split; [exact E0 |].
          destruct (os_remove_nofault _ _ _ _ F Er') as (N & _). exact N.
        - intros Dnone F. destruct (Dn Dnone) as (_ & ->).
          destruct (os_remove_nofault _ _ _ _ F Er') as (N & _). exact N. }
      destruct Rx as [-> | ->]; exact Hres.
  Qed.

  Lemma close_loop_spec paths : forall descs (w : world) err rem err' rem' w',
    w_close_loop paths descs w err rem = (err', rem', w') ->
    length paths = length descs ->
    whandles D w' = whandles D w /\ rhandles D w' = rhandles D w /\
    (forall x, In x (ids w') -> In x (ids w) /\ (In x paths -> In x rem')) /\
    (forall x, In x (fds D w') -> In x (fds D w) /\ ~ In (Some x) descs) /\
    incl rem rem' /\ (err' = None -> err = None /\ rem' = rem) /\
    ((forall d, In d descs -> d = None) -> err' = None \/ err <> None \/ fault D w' = None) /\
    ((forall d, In d descs -> d = None) -> fault D w = None -> err = None -> err' = None /\ fault D w' = None) /\
    ((forall d, In d descs -> d = None) -> fault D w = None -> fault D w' = None).
  Proof.
    induction paths as [| p ps IH]; intros descs w err rem err' rem' w' H L.
    - destruct descs; simpl in H; [| simpl in L; discriminate]. inversion H; subst.
      split; [reflexivity |]. split; [reflexivity |].
      split; [intros x Hx; split; [exact Hx | intros []] |].
      split; [intros x Hx; split; [exact Hx | intros []] |].
      split; [intros x Hx; exact Hx |].
      split; [intros X; split; [exact X | reflexivity] |].
      split; [intros _; destruct err'; [right; left; discriminate | left; reflexivity] |].
      split; [intros _ F E0; split; assumption | intros _ F; exact F].
    - destruct descs as [| d ds]; [simpl in L; discriminate |]. simpl in L. injection L as L.
      rewrite loop_unfold in H. destruct (head_step d p w err rem) as [[e1 r1] w2] eqn:Eh.
      apply head_step_spec in Eh. destruct Eh as (Sw & Sr & Si & Sf & Sm & Sm' & Se & Sa & Sb & Sc).
      apply IH in H; [| exact L]. destruct H as (Hw & Hr & Hi & Hf & Hm & He & Ha & Hb & Hc).
      split; [congruence |]. split; [congruence |].
      split.
      { intros x Hx. apply Hi in Hx. destruct Hx as (Hx & Hps). apply Si in Hx. destruct Hx as (Hx & Hp).
        split; [exact Hx |]. intros [<- | X]; [apply Hm; apply Hp; reflexivity | apply Hps; exact X]. }
      split.
      { intros x Hx. apply Hf in Hx. destruct Hx as (Hx & Hds). apply Sf in Hx. destruct Hx as (Hx & Hd).
        split; [exact Hx |]. intros [X | X]; [congruence | contradiction]. }
      split; [intros x Hx; apply Hm; apply Sm; exact Hx |].
      split.
      { intros X. apply He in X. destruct X as (X1 & X2). apply Se in X1. destruct X1. split; congruence. }
      assert (AN' : (forall d0, In d0 (d :: ds) -> d0 = None) -> d = None /\ forall d0, In d0 ds -> d0 = None).
      { intros AN. split; [apply AN; left; reflexivity | intros d0 Hd; apply AN; right; exact Hd]. }
      split; [| split].
      + intros AN. destruct (AN' AN) as (Dn & ANs).
        destruct (Ha ANs) as [X | [X | X]]; [left; exact X | | right; right; exact X].
        destruct (Sa Dn) as [Y | [Y | Y]]; [contradiction | right; left; exact Y |].
        right. right. exact (Hc ANs Y).
      + intros AN F E0. destruct (AN' AN) as (Dn & ANs).
        destruct (Sb Dn F E0) as (E1 & F2). exact (Hb ANs F2 E1).
      + intros AN F. destruct (AN' AN) as (Dn & ANs). exact (Hc ANs (Sc Dn F)).
  Qed.

  (* ---------- close() ---------- *)
  Definition clean (w : world) : Prop :=
    files D w = [] /\ fds D w = [] /\ whandles D w = [] /\ rhandles D w = [].

  Lemma ids_nil (w : world) : ids w = [] -> files D w = [].
  Proof. unfold ids. destruct (files D w); simpl; [reflexivity | discriminate]. Qed.

  Lemma close_r_fault h (w : world) r w1 : w_close_r D h w = (r, w1) ->
    (fault D w = None -> r = Ok tt /\ fault D w1 = None) /\ (forall e, r = Raise e -> fault D w1 = None).
  Proof.
    unfold w_close_r, tick. destruct (fault D w) as [[[| n] eno] |]; intros H; inversion H; subst; simpl;
      (split; [intros X; try discriminate; auto | intros e X; try discriminate; reflexivity]).
  Qed.

  Lemma mclose_fault hs : forall (w : world) err err' w1, w_mclose D hs w err = (err', w1) ->
    (fault D w = None -> err' = err /\ fault D w1 = None) /\
    (err' = None \/ err <> None \/ fault D w1 = None).
  Proof.
    induction hs as [| h r IH]; intros w err err' w1 H; simpl in H.
    - inversion H; subst. split; [auto |]. destruct err'; [right; left; discriminate | left; reflexivity].
    - destruct (w_close_r D h w) as [[u | e] wa] eqn:E; apply close_r_fault in E; destruct E as (E0 & E1);
        apply IH in H; destruct H as (H0 & H1).
      + split; [intros F; destruct (E0 F) as (_ & Fa); exact (H0 Fa) | exact H1].
      + pose proof (E1 e eq_refl) as Fa. destruct (H0 Fa) as (-> & F1). split.
        * intros F. destruct (E0 F) as (X & _). discriminate.
        * destruct err; [right; left; discriminate | right; right; exact F1].
  Qed.

  Lemma close_merging_spec ms : forall (w : world) err err' w1, w_close_merging D ms w err = (err', w1) ->
    quiet w w1 /\ (forall x, In x (rhandles D w1) <-> In x (rhandles D w) /\ ~ In x (concat ms)) /\
    (err' = None -> err = None) /\
    (fault D w = None -> err' = err /\ fault D w1 = None) /\
    (err' = None \/ err <> None \/ fault D w1 = None).
  Proof.
    induction ms as [| hs r IH]; intros w err err' w1 H; simpl in H.
    - inversion H; subst. split; [apply quiet_refl |]. split; [intros x; simpl; tauto |]. split; [auto |]. split; [auto |].
      destruct err'; [right; left; discriminate | left; reflexivity].
    - destruct (w_mclose D hs w err) as [err1 wa] eqn:E. pose proof (mclose_fault _ _ _ _ _ E) as (M0 & M1).
      apply mclose_spec in E. destruct E as (Q & Rh & Er).
      apply IH in H. destruct H as (Q2 & Rh2 & Er2 & F0 & F1).
      split; [eapply quiet_trans; eauto |]. split; [| split; [| split]].
      + intros x. rewrite Rh2, Rh. simpl. rewrite in_app_iff. tauto.
      + intros X. apply Er. apply Er2. exact X.
      + intros F. destruct (M0 F) as (-> & Fa). exact (F0 Fa).
      + destruct F1 as [X | [X | X]]; [left; exact X | | right; right; exact X].
        destruct M1 as [Y | [Y | Y]]; [contradiction | right; left; exact Y |].
        destruct (F0 Y) as (_ & Fb). right. right. exact Fb.
  Qed.

  Lemma close_spec (s : wsorter) (w : world) e s' w' : WI s w -> w_close s w = (e, s', w') ->
    WI s' w' /\ fds D w' = [] /\ rhandles D w' = [] /\ (forall d, In d (wfds s') -> d = None) /\
    (e = None -> clean w' /\ wpaths s' = []) /\
    ((forall d, In d (wfds s) -> d = None) -> e = None \/ fault D w' = None) /\
    ((forall d, In d (wfds s) -> d = None) -> fault D w = None -> e = None).
  Proof.
    intros (Hi & Hf & Hl & Hw & Hr) H. unfold SorterWorld.w_close in H.
    destruct (w_close_merging D (wmerging K D s) w None) as [err0 w0] eqn:E0.
    apply close_merging_spec in E0. destruct E0 as ((Qi & Qf & Qw) & Mrh & Me & Mf0 & Mf1).
    destruct (w_close_loop (wpaths s) (wfds s) w0 err0 []) as [[err rem] w1] eqn:E. inversion H; subst. clear H.
    apply close_loop_spec in E; [| exact Hl]. destruct E as (Lw & Lr & Li & Lf & Lm & Le & La & Lb & Lc).
    assert (Rh0 : rhandles D w0 = []).
    { assert (Fn : forall x, ~ In x (rhandles D w0)).
      { intros x Hx. apply Mrh in Hx. destruct Hx as (Hx & N). apply N. apply Hr. exact Hx. }
      destruct (rhandles D w0) as [| x l]; [reflexivity |]. exfalso. apply (Fn x). left. reflexivity. }
    assert (Fd : fds D w' = []).
    { assert (Fn : forall x, ~ In x (fds D w')).
      { intros x Hx. apply Lf in Hx. destruct Hx as (Hx & N). apply N. apply Hf. rewrite <- Qf. exact Hx. }
      destruct (fds D w') as [| x l]; [reflexivity |]. exfalso. apply (Fn x). left. reflexivity. }
    assert (AllNone : forall d, In d (map (fun _ : nat => @None nat) rem) -> d = None).
    { intros d Hd. apply in_map_iff in Hd. destruct Hd as (y & <- & _). reflexivity. }
    split; [| split; [exact Fd | split; [congruence | split; [exact AllNone | split; [| split]]]]].
    - unfold WI. simpl. split; [| split; [| split; [| split]]].
      + intros x Hx. apply Li in Hx. destruct Hx as (Hx & Hp). apply Hp. apply Hi. rewrite <- Qi. exact Hx.
      + rewrite Fd. intros fd [].
      + rewrite map_length. reflexivity.
      + congruence.
      + rewrite Lr, Rh0. intros x [].
    - intros ->. destruct (Le eq_refl) as (E0n & ->). simpl. split; [| reflexivity].
      unfold clean. split; [| split; [exact Fd | split; congruence]].
      apply ids_nil.
      assert (Fn : forall x, ~ In x (ids w')).
      { intros x Hx. apply Li in Hx. destruct Hx as (Hx & Hp). rewrite Qi in Hx. apply (Hp (Hi _ Hx)). }
      destruct (ids w') as [| x l]; [reflexivity |]. exfalso. apply (Fn x). left. reflexivity.
    - intros AN. destruct (La AN) as [X | [X | X]]; [left; exact X | | right; exact X].
      destruct Mf1 as [Y | [Y | Y]]; [contradiction | congruence | right; exact (Lc AN Y)].
    - intros AN F. destruct (Mf0 F) as (-> & F0). destruct (Lb AN F0 eq_refl) as (X & _). exact X.
  Qed.

  (* close() until it returns normally: three calls always suffice, and the
     world is clean afterwards *)
  Lemma close_until_clean (s : wsorter) (w : world) cl s' w' : WI s w ->
    w_close_until 3 s w = (cl, s', w') ->
    clean w' /\ (length cl <= 3)%nat /\ last cl (Some AssertionError) = None.
  Proof.
    intros I H. simpl in H.
    destruct (w_close s w) as [[e1 s1] w1] eqn:E1. destruct (close_spec _ _ _ _ _ I E1) as (I1 & _ & _ & N1 & C1 & _ & _).
    destruct e1 as [x1 |]; [| inversion H; subst; destruct (C1 eq_refl) as (C & _); split; [exact C | split; simpl; auto]].
    destruct (w_close s1 w1) as [[e2 s2] w2] eqn:E2. destruct (close_spec _ _ _ _ _ I1 E2) as (I2 & _ & _ & N2 & C2 & A2 & _).
    destruct e2 as [x2 |]; [| inversion H; subst; destruct (C2 eq_refl) as (C & _); split; [exact C | split; simpl; auto]].
    destruct (w_close s2 w2) as [[e3 s3] w3] eqn:E3. destruct (close_spec _ _ _ _ _ I2 E3) as (I3 & _ & _ & N3 & C3 & _ & B3).
    destruct (A2 N1) as [X | F2]; [discriminate |].
    rewrite (B3 N2 F2) in *. inversion H; subst. destruct (C3 eq_refl) as (C & _). split; [exact C | split; simpl; auto].
  Qed.

  (* ---------- histories ---------- *)
  Lemma step_WI (s : wsorter) o (w : world) out ys s' w' : WI s w -> w_step s o w = (out, ys, s', w') -> WI s' w'.
  Proof.
    intros I H. unfold SorterWorld.w_step in H. destruct o as [x | p keep |].
    - destruct (tainted K D s); [inversion H; subst; exact I |].
      destruct (w_add s x w) as [[e s1] w1] eqn:E. inversion H; subst. eapply add_WI; eauto.
    - destruct (tainted K D s); [inversion H; subst; exact I |].
      destruct (w_iter s p keep w) as [[[ys0 e] s1] w1] eqn:E. inversion H; subst. eapply iter_WI; eauto.
    - destruct (w_close s w) as [[e s1] w1] eqn:E. inversion H; subst.
      destruct (close_spec _ _ _ _ _ I E) as (I1 & _). exact I1.
  Qed.

  Lemma run_WI stop ops : forall (s : wsorter) (w : world) obs s' w', WI s w -> w_run stop s ops w = (obs, s', w') -> WI s' w'.
  Proof.
    induction ops as [| o r IH]; intros s w obs s' w' I H; simpl in H.
    - inversion H; subst. exact I.
    - destruct (w_step s o w) as [[[out ys] s1] w1] eqn:E. pose proof (step_WI _ _ _ _ _ _ _ I E) as I1.
      destruct (stop && is_raise out); [inversion H; subst; exact I1 |].
      destruct (w_run stop s1 r w1) as [[l s2] w2] eqn:E2. inversion H; subst. eapply IH; eauto.
  Qed.

  (* between operations: only registered files and descriptors exist, and no
     gzip handle is open *)
  Theorem no_leak c al stop ops f obs cl w' :
    w_workload c al stop ops f = (obs, cl, w') ->
    clean w' /\ (length cl <= 3)%nat /\ last cl (Some AssertionError) = None.
  Proof.
    unfold SorterWorld.w_workload. intros H.
    destruct (w_run stop (wnew K D c al) ops (world0 D f)) as [[obs0 s] w] eqn:E.
    pose proof (run_WI _ _ _ _ _ _ _ (WI_new c al f) E) as I.
    destruct (w_close_until 3 s w) as [[cl0 s1] w1] eqn:E2. inversion H; subst.
    eapply close_until_clean; eauto.
  Qed.

End Facts.
