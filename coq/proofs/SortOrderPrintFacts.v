(* SortOrderPrintFacts.v - a header built by MafHeader.from_lines, printed by
   the writer and read back, declares the same sort order class and contigs
   (the part of the header round trip C10 needs). *)
From MafVerif Require Import lib.Base lib.Str lib.SortOrderLib model.SortOrder model.OrderCheck
  model.WriterSort proofs.SortOrderHeaderFacts proofs.SortOrderWriterFacts.

(* what a printed record reads back as *)
Definition norm (v : hvalue) : hvalue :=
  match v with HSort so => HSort (so_make (so_cls so) None) | x => x end.

Definition entry_ok (kv : str * hvalue) : Prop :=
  let '(key, v) := kv in
  key <> [] /\ ~ In SP key /\
  match v with
  | HOther t => t <> [] /\ rstrip_ws t = t /\
                str_eqb key k_sort_order = false /\ str_eqb key k_contigs = false
  | HContigs l => key = k_contigs /\ exists t, t <> [] /\ rstrip_ws t = t /\ l = split COMMA t
  | HSort _ => key = k_sort_order
  end.

Lemma so_name_clean c : rstrip_ws (so_name c) = so_name c /\ so_name c <> [].
Proof. destruct c; split; try discriminate; vm_compute; reflexivity. Qed.

Lemma header_record_print key v : entry_ok (key, v) ->
  header_record (HASH :: key ++ SP :: header_value_text v) = Some (key, norm v).
Proof.
  intros [Hk [Hsp Hv]]. unfold header_record.
  change (startswith (HASH :: key ++ SP :: header_value_text v) [HASH]) with true.
  cbn [negb tl]. rewrite (split1_app SP key _ Hsp).
  destruct key as [|k0 key']; [congruence|].
  destruct v as [so|l|t]; cbn [header_value_text norm].
  - destruct (so_name_clean (so_cls so)) as [E Hn]. rewrite E.
    destruct (so_name (so_cls so)) as [|x nm] eqn:En; [congruence|].
    rewrite Hv. change (str_eqb k_sort_order k_version) with false.
    change (str_eqb k_sort_order k_annotation) with false. rewrite str_eqb_refl.
    rewrite <- En, so_record_name. reflexivity.
  - destruct Hv as [Hkey [t [Ht [Hr Hl]]]]. rewrite Hkey, Hl, join_split, Hr.
    destruct t as [|x t']; [congruence|].
    change (str_eqb k_contigs k_version) with false. change (str_eqb k_contigs k_annotation) with false.
    change (str_eqb k_contigs k_sort_order) with false. now rewrite str_eqb_refl.
  - destruct Hv as [Ht [Hr [E1 E2]]]. rewrite Hr. destruct t as [|x t']; [congruence|].
    rewrite E1, E2. now destruct (str_eqb (k0 :: key') k_version), (str_eqb (k0 :: key') k_annotation).
Qed.

Lemma first_rec_print k h : Forall entry_ok h ->
  first_rec k (header_print h) = option_map norm (assoc k h).
Proof.
  induction 1 as [|[key v] h Hkv Hh IH]; [reflexivity|].
  cbn [header_print map fst snd first_rec assoc]. rewrite (header_record_print key v Hkv).
  destruct (str_eqb k key); [reflexivity|exact IH].
Qed.

(* every record from_lines stores is well formed *)
Lemma header_record_ok line key v : header_record line = Some (key, v) -> entry_ok (key, v).
Proof.
  unfold header_record. destruct (negb (startswith line [HASH])); [discriminate|].
  pose proof (split1_spec SP (tl line)) as Hs.
  destruct (split1 SP (tl line)) as [k [v0|]]; [|discriminate]. destruct Hs as [_ Hsp].
  destruct k as [|k0 k']; [discriminate|].
  destruct (rstrip_ws v0) as [|x value'] eqn:Ev; [discriminate|].
  assert (Hr : rstrip_ws (x :: value') = x :: value') by (rewrite <- Ev; apply rstrip_idem).
  destruct (str_eqb (k0 :: k') k_version) eqn:E1.
  { intros H. assert (key = k0 :: k') by congruence. assert (v = HOther (x :: value')) by congruence. subst.
    apply str_eqb_eq in E1. rewrite E1 in *. repeat split; try discriminate; auto. }
  destruct (str_eqb (k0 :: k') k_annotation) eqn:E2.
  { intros H. assert (key = k0 :: k') by congruence. assert (v = HOther (x :: value')) by congruence. subst.
    apply str_eqb_eq in E2. rewrite E2 in *. repeat split; try discriminate; auto. }
  destruct (str_eqb (k0 :: k') k_sort_order) eqn:E3.
  { destruct (so_record (x :: value') None) as [so|]; [|discriminate].
    intros H. assert (key = k0 :: k') by congruence. assert (v = HSort so) by congruence. subst.
    apply str_eqb_eq in E3. repeat split; try discriminate; auto. }
  destruct (str_eqb (k0 :: k') k_contigs) eqn:E4.
  { intros H. assert (key = k0 :: k') by congruence. assert (v = HContigs (split COMMA (x :: value'))) by congruence.
    subst. apply str_eqb_eq in E4. repeat split; try discriminate; auto.
    exists (x :: value'). repeat split; auto. discriminate. }
  intros H. assert (key = k0 :: k') by congruence. assert (v = HOther (x :: value')) by congruence. subst.
  repeat split; try discriminate; auto.
Qed.

Lemma fold_ok lines h : Forall entry_ok h -> Forall entry_ok (fold_left header_add_line lines h).
Proof.
  revert h; induction lines as [|l r IH]; intros h Hh; [exact Hh|]. simpl. apply IH.
  unfold header_add_line. destruct (header_record l) as [[key v]|] eqn:E; [|exact Hh].
  destruct (assoc key h); [exact Hh|]. apply Forall_app. split; [exact Hh|].
  constructor; [|constructor]. eapply header_record_ok; eauto.
Qed.

Lemma dset_ok (h : header) so : Forall entry_ok h -> Forall entry_ok (dset k_sort_order (HSort so) h).
Proof.
  induction 1 as [|[key v] h Hkv Hh IH]; simpl.
  - constructor; [|constructor]. repeat split; try discriminate. vm_compute. intros [H|H]; [discriminate|].
    repeat (destruct H as [H|H]; [discriminate|]). exact H.
  - destruct (str_eqb k_sort_order key) eqn:E.
    + constructor; [|exact Hh]. apply str_eqb_eq in E. subst key. destruct Hkv as [A [B _]]. repeat split; auto.
    + constructor; assumption.
Qed.

Lemma from_lines_ok hl : Forall entry_ok (header_from_lines hl).
Proof.
  unfold header_from_lines.
  assert (H : Forall entry_ok (fold_left header_add_line hl [])) by (apply fold_ok; constructor).
  destruct (contigs_truthy _); [|exact H].
  destruct (is_coordinate _); [|exact H].
  destruct (so_record _ _); [|exact H]. now apply dset_ok.
Qed.

(* the writer's view of a header built from lines *)
Definition wheader_of_lines (hl : list str) (scheme : option (list str)) : wheader :=
  let h := header_from_lines hl in
  {| wh_text := header_print h; wh_sort := h_sort_order h;
     wh_contigs := pv_contigs (h_contigs h); wh_scheme := scheme |}.

Lemma from_lines_header_coherent hl scheme :
  sortable (wheader_of_lines hl scheme) -> header_coherent (wheader_of_lines hl scheme).
Proof.
  unfold sortable, header_coherent, header_kf, wheader_of_lines. cbn [wh_text wh_sort wh_contigs].
  set (h := header_from_lines hl). intros Hs.
  pose proof (from_lines_ok hl) as Hok. fold h in Hok.
  unfold declared. rewrite !(first_rec_print _ h Hok).
  unfold h_sort_order in *. unfold h_contigs.
  destruct (assoc k_sort_order h) as [[so|l|t]|]; cbn [option_map norm] in *; try discriminate.
  cbn [so_cls so_make]. rewrite Hs.
  destruct (assoc k_contigs h) as [[so'|l|t]|]; cbn [option_map norm pv_contigs];
    destruct (so_cls so); try discriminate; reflexivity.
Qed.

From Coq Require Import Sorted Permutation.
From MafVerif Require Import proofs.SortOrderCheckFacts.

(* sorting writer over a header built by MafHeader.from_lines: no side
   condition on the header is left *)
Lemma sorting_writer_from_lines (R : Type) (view : R -> locatable) (render : R -> str)
      (rkeys : R -> list str) (validate : R -> res unit)
      (sorter_iter : keyfn -> list R -> res (list R)) hl scheme rs :
  let h := wheader_of_lines hl scheme in
  sorter_contract R view render sorter_iter -> sortable h ->
  Forall (fun r => validate r = Ok tt) rs ->
  Forall (fun r => good (header_kf h) (view r)) rs ->
  exists w ys,
    writer_session R view render rkeys validate sorter_iter h false rs = (w, Ok tt) /\
    w_closed R w = true /\
    w_out R w = wh_text h ++ col_lines R rkeys h rs ++ map render ys /\
    Permutation (map render ys) (map render rs) /\
    StronglySorted (fun a b => rec_ltb (header_kf h) (view b) (view a) = false) ys /\
    reader_iter (wh_text h) (map view ys) = (map view ys, Ok tt).
Proof.
  intros h Hc Hs Hv Hg.
  destruct (sorting_writer_obeys_its_header R view render rkeys validate sorter_iter h rs Hc Hs Hv Hg)
    as [w [ys [E [Hcl [Ho [Hp [Hso Hr]]]]]]].
  exists w, ys. repeat split; auto. apply Hr. now apply from_lines_header_coherent.
Qed.
