(* RecordFacts.v - coherence invariant of MafRecord under any edit history (C15) *)
From MafVerif Require Import lib.Base model.RecordOps.

Section Facts.
  Context {V : Type}.
  Notation col := (col V).
  Notation rec := (rec V).

  (* ---------- association-list facts ---------- *)
  Lemma assoc_in (d : list (str * col)) k c : assoc k d = Some c -> In (k, c) d.
  Proof.
    induction d as [|[k' v] d IH]; simpl; [discriminate|].
    destruct (str_eqb k k') eqn:E.
    - apply str_eqb_eq in E; subst; intros H; injection H as ->; now left.
    - intros H; right; auto.
  Qed.

  Lemma in_keys (d : list (str * col)) k c : In (k, c) d -> In k (map fst d).
  Proof. intros H. change k with (fst (k, c)). now apply in_map. Qed.

  Lemma in_assoc (d : list (str * col)) k c :
    NoDup (map fst d) -> In (k, c) d -> assoc k d = Some c.
  Proof.
    induction d as [|[k' v] d IH]; simpl; [tauto|].
    intros ND [H|H].
    - injection H as -> ->; now rewrite str_eqb_refl.
    - inversion ND as [|? ? Hn ND']; subst.
      destruct (str_eqb k k') eqn:E.
      + apply str_eqb_eq in E; subst. exfalso; apply Hn. eapply in_keys; eauto.
      + auto.
  Qed.

  Lemma assoc_none_notin (d : list (str * col)) k : assoc k d = None -> ~ In k (map fst d).
  Proof.
    induction d as [|[k' v] d IH]; simpl; [tauto|].
    destruct (str_eqb k k') eqn:E; [discriminate|].
    apply str_eqb_neq in E. intros H [H1|H1]; [congruence|]. now apply IH.
  Qed.

  Lemma in_dset (d : list (str * col)) name c2 k c :
    NoDup (map fst d) ->
    (In (k, c) (dset name c2 d) <-> (k = name /\ c = c2) \/ (k <> name /\ In (k, c) d)).
  Proof.
    induction d as [|[k' v] d IH]; simpl; intros ND.
    - split.
      + intros [H|[]]; injection H as <- <-; now left.
      + intros [[-> ->]|[_ []]]; now left.
    - inversion ND as [|? ? Hn ND']; subst.
      destruct (str_eqb name k') eqn:E.
      + apply str_eqb_eq in E; subst k'. simpl. split.
        * intros [H|H]; [injection H as <- <-; now left|].
          right; split; [|now right]. intros ->. apply Hn. eapply in_keys; eauto.
        * intros [[-> ->]|[Hne [H|H]]]; [now left| |now right].
          injection H as -> _. congruence.
      + apply str_eqb_neq in E. simpl. rewrite (IH ND'). split.
        * intros [H|[H|H]]; [injection H as <- <-|tauto|tauto].
          right; split; [congruence|now left].
        * intros [H|[Hne [H|H]]]; [tauto| now left| tauto].
  Qed.

  Lemma keys_dset (d : list (str * col)) name c2 k :
    In k (map fst (dset name c2 d)) -> k = name \/ In k (map fst d).
  Proof.
    induction d as [|[k' v] d IH]; simpl.
    - intros [H|[]]; now left.
    - destruct (str_eqb name k') eqn:E; simpl.
      + apply str_eqb_eq in E; subst. intros [H|H]; auto.
      + intros [H|H]; auto. destruct (IH H); auto.
  Qed.

  Lemma nodup_dset (d : list (str * col)) name c2 :
    NoDup (map fst d) -> NoDup (map fst (dset name c2 d)).
  Proof.
    induction d as [|[k' v] d IH]; simpl; intros ND.
    - constructor; [tauto|constructor].
    - inversion ND as [|? ? Hn ND']; subst.
      destruct (str_eqb name k') eqn:E; simpl.
      + apply str_eqb_eq in E; subst. now constructor.
      + apply str_eqb_neq in E. constructor; [|auto].
        intros H. apply keys_dset in H as [H|H]; congruence.
  Qed.

  Lemma in_ddel (d : list (str * col)) name k c :
    NoDup (map fst d) ->
    (In (k, c) (ddel name d) <-> k <> name /\ In (k, c) d).
  Proof.
    induction d as [|[k' v] d IH]; simpl; intros ND; [tauto|].
    inversion ND as [|? ? Hn ND']; subst.
    destruct (str_eqb name k') eqn:E.
    - apply str_eqb_eq in E; subst k'. split.
      + intros H; split; [|now right]. intros ->. apply Hn. eapply in_keys; eauto.
      + intros [Hne [H|H]]; [injection H as -> _; congruence|auto].
    - apply str_eqb_neq in E. simpl. rewrite (IH ND'). split.
      + intros [H|H]; [injection H as <- <-; split; [congruence|now left]|tauto].
      + intros [Hne [H|H]]; [now left|tauto].
  Qed.

  Lemma nodup_ddel (d : list (str * col)) name :
    NoDup (map fst d) -> NoDup (map fst (ddel name d)).
  Proof.
    induction d as [|[k' v] d IH]; simpl; intros ND; [constructor|].
    inversion ND as [|? ? Hn ND']; subst.
    destruct (str_eqb name k'); simpl; [auto|].
    constructor; [|auto]. intros H. apply Hn.
    apply in_map_iff in H as [[k c] [Hk Hin]]. simpl in Hk; subst k.
    apply (in_ddel _ _ _ _ ND') in Hin as [_ Hin]. eapply in_keys; eauto.
  Qed.

  (* ---------- slot-list facts ---------- *)
  Lemma length_lset {X} n (x : X) l : length (lset n x l) = length l.
  Proof. revert n; induction l as [|y l IH]; intros [|n]; simpl; auto. Qed.

  Lemma nth_error_lset {X} n (x : X) l m :
    (n < length l)%nat ->
    nth_error (lset n x l) m = if Nat.eqb m n then Some x else nth_error l m.
  Proof.
    revert n m; induction l as [|y l IH]; intros n m Hn; simpl in Hn; [lia|].
    destruct n as [|n], m as [|m]; simpl; auto.
    apply IH; lia.
  Qed.

  Lemma length_pad (l : list (option col)) n : length (pad l n) = Nat.max (length l) n.
  Proof. unfold pad. rewrite app_length, repeat_length. lia. Qed.

  Lemma nth_error_pad (l : list (option col)) n m :
    nth_error (pad l n) m =
    if Nat.ltb m (length l) then nth_error l m
    else if Nat.ltb m n then Some None else None.
  Proof.
    unfold pad. destruct (Nat.ltb_spec m (length l)) as [H|H].
    - now rewrite nth_error_app1.
    - rewrite nth_error_app2 by lia.
      destruct (Nat.ltb_spec m n) as [H2|H2].
      + rewrite nth_error_repeat; [reflexivity|lia].
      + apply nth_error_None. rewrite repeat_length. lia.
  Qed.

  Definition no_trailing (l : list (option col)) : Prop :=
    forall n, length l = S n -> nth_error l n <> Some None.

  Lemma trim_nil_iff (l : list (option col)) :
    trim l = [] -> forall m, nth_error l m <> None -> nth_error l m = Some None.
  Proof.
    induction l as [|x l IH]; simpl; intros H m Hm.
    - destruct m; simpl in Hm; congruence.
    - destruct (trim l) eqn:E; [|discriminate].
      destruct x; [discriminate|].
      destruct m; simpl; [reflexivity|]. apply IH; auto.
  Qed.

  Lemma nth_error_trim (l : list (option col)) m c :
    nth_error (trim l) m = Some (Some c) <-> nth_error l m = Some (Some c).
  Proof.
    revert m; induction l as [|x l IH]; intros m; simpl; [tauto|].
    destruct (trim l) as [|y t] eqn:E.
    - destruct x as [cx|].
      + destruct m as [|m]; simpl; [tauto|]. split.
        * destruct m; simpl; discriminate.
        * intros H. pose proof (trim_nil_iff l E m) as T.
          rewrite H in T. specialize (T ltac:(discriminate)). discriminate.
      + split; [destruct m; discriminate|].
        destruct m as [|m]; simpl; [discriminate|].
        intros H. pose proof (trim_nil_iff l E m) as T.
        rewrite H in T. specialize (T ltac:(discriminate)). discriminate.
    - destruct m as [|m]; simpl; [tauto|]. apply IH.
  Qed.

  Lemma length_trim (l : list (option col)) : (length (trim l) <= length l)%nat.
  Proof.
    induction l as [|x l IH]; simpl; [lia|].
    destruct (trim l); [destruct x; simpl; lia|simpl in *; lia].
  Qed.

  Lemma no_trailing_trim (l : list (option col)) : no_trailing (trim l).
  Proof.
    unfold no_trailing. induction l as [|x l IH]; simpl; [discriminate|].
    destruct (trim l) as [|y t] eqn:E.
    - destruct x; simpl; [|discriminate].
      intros n Hn; injection Hn as <-; simpl; discriminate.
    - intros n Hn. simpl in Hn. injection Hn as Hn.
      destruct n as [|n]; [simpl in Hn; discriminate|].
      simpl. apply IH. exact Hn.
  Qed.

  Lemma nth_error_removelast {X} (l : list X) m :
    (S m < length l)%nat -> nth_error (removelast l) m = nth_error l m.
  Proof.
    revert m; induction l as [|x l IH]; intros m H; simpl in H; [lia|].
    destruct l as [|y l]; [simpl in H; lia|].
    change (removelast (x :: y :: l)) with (x :: removelast (y :: l)).
    destruct m; simpl; [reflexivity|]. apply IH. lia.
  Qed.

  Lemma length_removelast {X} (l : list X) : length (removelast l) = (length l - 1)%nat.
  Proof. rewrite removelast_firstn_len, firstn_length. destruct (length l); simpl; lia. Qed.

  (* ---------- the invariant ---------- *)
  Record Coherent (r : rec) : Prop := {
    co_nodup : NoDup (map fst (rdict r));
    co_dict : forall k c, In (k, c) (rdict r) ->
        ckey c = k /\ exists n, cidx c = Some (Z.of_nat n) /\ nth_error (rlist r) n = Some (Some c);
    co_list : forall n c, nth_error (rlist r) n = Some (Some c) ->
        cidx c = Some (Z.of_nat n) /\ In (ckey c, c) (rdict r);
    co_trail : no_trailing (rlist r)
  }.

  Lemma coherent_empty : Coherent empty_rec.
  Proof.
    constructor; simpl.
    - constructor.
    - tauto.
    - intros [|n] c; discriminate.
    - intros n; discriminate.
  Qed.

  (* failing operations do not change the record *)
  Lemma setitem_fail_unchanged (r : rec) k c r' e :
    setitem r k c = (r', Raise e) -> r' = r.
  Proof.
    unfold setitem. intros H.
    repeat match type of H with
    | context [match ?x with _ => _ end] => destruct x eqn:?; try (injection H as <- _; reflexivity); try discriminate
    | context [if ?x then _ else _] => destruct x eqn:?; try (injection H as <- _; reflexivity); try discriminate
    end.
  Qed.

  (* a successful set installs the column *)
  Lemma setitem_ok_shape (r : rec) k c r' :
    setitem r k c = (r', Ok tt) ->
    exists c2 n, ckey c2 = ckey c /\ cval c2 = cval c /\ cidx c2 = Some (Z.of_nat n) /\
      rdict r' = dset (ckey c) c2 (rdict r) /\
      rlist r' = lset n (Some c2) (pad (rlist r) (S n)) /\
      (match nth_error (rlist r) n with Some (Some e) => ckey e = ckey c | _ => True end) /\
      (match assoc (ckey c) (rdict r) with Some old => cidx old = cidx c2 | None => True end).
  Proof.
    unfold setitem. intros H.
    (* step1 *)
    match type of H with context [match ?s with Ok _ => _ | Raise _ => _ end] =>
      destruct s as [c1|] eqn:S1; [|discriminate] end.
    assert (K1 : ckey c1 = ckey c /\ cval c1 = cval c).
    { destruct k; simpl in S1; try discriminate;
        repeat match type of S1 with
        | context [if ?x then _ else _] => destruct x eqn:?; try discriminate
        | context [match cidx c with _ => _ end] => destruct (cidx c) eqn:?; try discriminate
        end; injection S1 as <-; auto. }
    destruct K1 as [K1 K1v].
    match type of H with context [match ?s with Ok _ => _ | Raise _ => _ end] =>
      destruct s as [c2|] eqn:S2; [|discriminate] end.
    assert (K2 : ckey c2 = ckey c /\ cval c2 = cval c /\
                 match assoc (ckey c) (rdict r) with Some old => cidx old = cidx c2 | None => True end).
    { rewrite K1 in S2. destruct (assoc (ckey c) (rdict r)) as [old|] eqn:EA.
      - destruct (cidx c1) eqn:EC.
        + destruct (cidx old) eqn:EO; [|discriminate].
          destruct (z0 =? z) eqn:EZ; [|discriminate]. apply Z.eqb_eq in EZ; subst.
          injection S2 as <-. rewrite EC. auto.
        + injection S2 as <-. simpl. auto.
      - destruct (cidx c1) eqn:EC; injection S2 as <-; simpl; auto. }
    destruct K2 as [K2 [K2v K2o]].
    destruct (cidx c2) as [i|] eqn:EI; [|discriminate].
    destruct (i <? 0) eqn:EN; [discriminate|]. apply Z.ltb_ge in EN.
    match type of H with context [if ?b then _ else _] => destruct b eqn:EC; [discriminate|] end.
    injection H as <-. exists c2, (Z.to_nat i). rewrite K1. simpl.
    repeat split; auto.
    - rewrite Z2Nat.id; auto.
    - destruct (nth_error (rlist r) (Z.to_nat i)) as [[e|]|]; auto.
      rewrite K1 in EC. apply negb_false_iff in EC. now apply str_eqb_eq in EC.
    - rewrite EI. exact K2o.
  Qed.

  Lemma setitem_preserves (r : rec) k c r' o :
    Coherent r -> setitem r k c = (r', o) -> Coherent r'.
  Proof.
    intros Hc H. destruct o as [[]|e].
    2:{ apply setitem_fail_unchanged in H. now subst. }
    apply setitem_ok_shape in H as (c2 & n & Hk & _ & Hi & Hd & Hl & Hslot & Hold).
    destruct Hc as [ND HD HL HT].
    set (name := ckey c) in *.
    assert (Hlen : (n < length (pad (rlist r) (S n)))%nat) by (rewrite length_pad; lia).
    (* slot n of the old list is either free or holds the old column of that name *)
    assert (Hfree : forall e, nth_error (rlist r) n = Some (Some e) -> assoc name (rdict r) = Some e).
    { intros e He. rewrite He in Hslot. destruct (HL _ _ He) as [_ Hin].
      rewrite Hslot in Hin. now apply in_assoc. }
    constructor.
    - rewrite Hd. now apply nodup_dset.
    - intros k' c' Hin. rewrite Hd in Hin. apply in_dset in Hin; auto.
      destruct Hin as [[-> ->]|[Hne Hin]].
      + split; auto. exists n. split; auto. rewrite Hl, nth_error_lset, Nat.eqb_refl; auto.
      + destruct (HD _ _ Hin) as [Hk' [m [Hm Hs]]]. split; auto. exists m. split; auto.
        rewrite Hl, nth_error_lset; auto.
        destruct (Nat.eqb_spec m n) as [->|Hmn].
        * exfalso. apply Hfree in Hs. apply assoc_in in Hs.
          destruct (HD _ _ Hs) as [Hk'' _]. congruence.
        * rewrite nth_error_pad. assert (m < length (rlist r))%nat by (apply nth_error_Some; congruence).
          destruct (Nat.ltb_spec m (length (rlist r))); [auto|lia].
    - intros m c' Hs. rewrite Hl, nth_error_lset in Hs; auto.
      destruct (Nat.eqb_spec m n) as [->|Hmn].
      + injection Hs as <-. split; auto. rewrite Hd. apply in_dset; [exact ND|left; split; auto].
      + rewrite nth_error_pad in Hs.
        destruct (Nat.ltb_spec m (length (rlist r))).
        * destruct (HL _ _ Hs) as [Hi' Hin]. split; auto. rewrite Hd. apply in_dset; [exact ND|].
          right; split; auto. intros Heq.
          (* c' has the name being set: then it is the old column, stored at n *)
          pose proof (in_assoc _ _ _ ND Hin) as Ha. rewrite Heq in Ha. fold name in Ha.
          rewrite Ha in Hold. rewrite Hi', Hi in Hold. injection Hold as Hmn'.
          apply Nat2Z.inj in Hmn'. congruence.
        * destruct (Nat.ltb m (S n)); discriminate.
    - intros m Hm. rewrite Hl in *. rewrite length_lset, length_pad in Hm.
      rewrite nth_error_lset; auto.
      destruct (Nat.eqb_spec m n); [discriminate|].
      rewrite nth_error_pad.
      assert (Hm' : length (rlist r) = S m) by lia.
      destruct (Nat.ltb_spec m (length (rlist r))); [|lia].
      now apply HT.
  Qed.

  (* under coherence getitem returns stored columns only *)
  Lemma getitem_stored (r : rec) k c :
    Coherent r -> getitem r k = Ok (Some c) ->
    In (ckey c, c) (rdict r) /\ exists n, cidx c = Some (Z.of_nat n) /\ nth_error (rlist r) n = Some (Some c).
  Proof.
    intros [ND HD HL HT] H. unfold getitem in H. destruct k as [i|s|kc| |]; try discriminate.
    - destruct ((i <? 0) || (rlen r <=? i)) eqn:E; [discriminate|].
      apply orb_false_iff in E as [E1 E2]. apply Z.ltb_ge in E1. apply Z.leb_gt in E2.
      unfold rlen in E2. injection H as H.
      assert (Hn : nth_error (rlist r) (Z.to_nat i) = Some (Some c)).
      { rewrite <- H. apply nth_error_nth'. lia. }
      destruct (HL _ _ Hn) as [Hi Hin]. split; auto. eauto.
    - destruct (assoc s (rdict r)) eqn:E; [|discriminate]. injection H as ->.
      apply assoc_in in E. destruct (HD _ _ E) as [Hk Hn]. subst s. auto.
    - destruct (assoc (ckey kc) (rdict r)) eqn:E; [|discriminate]. injection H as ->.
      apply assoc_in in E. destruct (HD _ _ E) as [Hk Hn]. rewrite <- Hk in E. auto.
  Qed.

  Lemma delitem_fail_unchanged (r : rec) k r' e :
    Coherent r -> delitem r k = (r', Raise e) -> r' = r.
  Proof.
    intros Hc H. unfold delitem in H.
    destruct (getitem r k) as [[c|]|e'] eqn:G; try (injection H as <- _; reflexivity).
    destruct (getitem_stored _ _ _ Hc G) as [Hin [n [Hi Hs]]].
    rewrite (in_assoc _ _ _ (co_nodup _ Hc) Hin) in H. rewrite Hi in H.
    assert (Hlt : (n < length (rlist r))%nat) by (apply nth_error_Some; congruence).
    unfold rlen in H.
    destruct (Z.of_nat n =? Z.of_nat (length (rlist r)) - 1); [discriminate|].
    destruct ((Z.of_nat n <? - Z.of_nat (length (rlist r))) || (Z.of_nat (length (rlist r)) <=? Z.of_nat n)) eqn:E;
      [|discriminate].
    apply orb_true_iff in E as [E|E]; [apply Z.ltb_lt in E|apply Z.leb_le in E]; lia.
  Qed.

  Lemma delitem_preserves (r : rec) k r' o :
    Coherent r -> delitem r k = (r', o) -> Coherent r'.
  Proof.
    intros Hc H. destruct o as [[]|e].
    2:{ apply delitem_fail_unchanged in H; auto. now subst. }
    unfold delitem in H.
    destruct (getitem r k) as [[c|]|e'] eqn:G; try discriminate.
    destruct (getitem_stored _ _ _ Hc G) as [Hin [n [Hi Hs]]].
    destruct Hc as [ND HD HL HT].
    rewrite (in_assoc _ _ _ ND Hin) in H. rewrite Hi in H.
    assert (Hlt : (n < length (rlist r))%nat) by (apply nth_error_Some; congruence).
    unfold rlen in H.
    (* every other stored column sits at a slot different from n *)
    assert (Hother : forall k' c', k' <> ckey c -> In (k', c') (rdict r) ->
              exists m, m <> n /\ cidx c' = Some (Z.of_nat m) /\ nth_error (rlist r) m = Some (Some c')).
    { intros k' c' Hne Hin'. destruct (HD _ _ Hin') as [Hk' [m [Hm Hsm]]].
      exists m; repeat split; auto. intros ->. congruence. }
    destruct (Z.of_nat n =? Z.of_nat (length (rlist r)) - 1) eqn:EL.
    - apply Z.eqb_eq in EL. injection H as <-.
      constructor; simpl.
      + now apply nodup_ddel.
      + intros k' c' Hin'. apply in_ddel in Hin' as [Hne Hin']; auto.
        destruct (HD _ _ Hin') as [Hk' _]. split; auto.
        destruct (Hother _ _ Hne Hin') as [m [Hmn [Hm Hsm]]]. exists m; split; auto.
        apply nth_error_trim. rewrite nth_error_removelast; auto.
        assert (m < length (rlist r))%nat by (apply nth_error_Some; congruence). lia.
      + intros m c' Hsm. apply (proj1 (nth_error_trim _ _ _)) in Hsm.
        assert (Hm : (m < length (removelast (rlist r)))%nat) by (apply nth_error_Some; congruence).
        rewrite length_removelast in Hm.
        rewrite nth_error_removelast in Hsm by lia.
        destruct (HL _ _ Hsm) as [Hi' Hin']. split; auto.
        apply in_ddel; auto. split; auto. intros Heq.
        pose proof (in_assoc _ _ _ ND Hin') as A1. pose proof (in_assoc _ _ _ ND Hin) as A2.
        rewrite Heq in A1. rewrite A1 in A2. injection A2 as ->.
        rewrite Hi in Hi'. injection Hi' as Hnm. apply Nat2Z.inj in Hnm. lia.
      + apply no_trailing_trim.
    - apply Z.eqb_neq in EL.
      destruct ((Z.of_nat n <? - Z.of_nat (length (rlist r))) || (Z.of_nat (length (rlist r)) <=? Z.of_nat n)) eqn:E;
        [discriminate|].
      injection H as <-.
      replace (Z.to_nat (if Z.of_nat n <? 0 then Z.of_nat n + Z.of_nat (length (rlist r)) else Z.of_nat n)) with n.
      2:{ destruct (Z.ltb_spec (Z.of_nat n) 0); [lia|]. now rewrite Nat2Z.id. }
      constructor; simpl.
      + now apply nodup_ddel.
      + intros k' c' Hin'. apply in_ddel in Hin' as [Hne Hin']; auto.
        destruct (HD _ _ Hin') as [Hk' _]. split; auto.
        destruct (Hother _ _ Hne Hin') as [m [Hmn [Hm Hsm]]]. exists m; split; auto.
        rewrite nth_error_lset; auto. destruct (Nat.eqb_spec m n); [congruence|auto].
      + intros m c' Hsm. rewrite nth_error_lset in Hsm; auto.
        destruct (Nat.eqb_spec m n) as [->|Hmn]; [discriminate|].
        destruct (HL _ _ Hsm) as [Hi' Hin']. split; auto.
        apply in_ddel; auto. split; auto. intros Heq.
        pose proof (in_assoc _ _ _ ND Hin') as A1. pose proof (in_assoc _ _ _ ND Hin) as A2.
        rewrite Heq in A1. rewrite A1 in A2. injection A2 as ->.
        rewrite Hi in Hi'. injection Hi' as Hnm. apply Nat2Z.inj in Hnm. congruence.
      + intros m Hm. rewrite length_lset in Hm. rewrite nth_error_lset; auto.
        destruct (Nat.eqb_spec m n) as [->|Hmn]; [lia|]. now apply HT.
  Qed.

  Lemma step_preserves (r : rec) o r' out :
    Coherent r -> step r o = (r', out) -> Coherent r'.
  Proof.
    intros Hc H. destruct o; simpl in H;
      eauto using setitem_preserves, delitem_preserves.
  Qed.

  Lemma step_fail_unchanged (r : rec) o r' e :
    Coherent r -> step r o = (r', Raise e) -> r' = r.
  Proof.
    intros Hc H. destruct o; simpl in H;
      eauto using setitem_fail_unchanged, delitem_fail_unchanged.
  Qed.

  Lemma run_coherent (ops : list (op V)) (r : rec) : Coherent r -> Coherent (run r ops).
  Proof.
    unfold run. revert r. induction ops as [|o ops IH]; intros r Hc; simpl; [exact Hc|].
    apply IH. destruct (step r o) as [r' out] eqn:E. simpl. eapply step_preserves; eauto.
  Qed.

  (* ---------- what coherence means for the observable API ---------- *)
  (* lookups by name and by index agree *)
  Lemma lookups_agree (r : rec) : Coherent r ->
    forall s c, getitem r (KStr s) = Ok (Some c) <->
      exists n, cidx c = Some (Z.of_nat n) /\ ckey c = s /\ getitem r (KInt (Z.of_nat n)) = Ok (Some c).
  Proof.
    intros Hc s c. split.
    - intros H. destruct (getitem_stored _ _ _ Hc H) as [Hin [n [Hi Hs]]].
      exists n. split; auto. split.
      + simpl in H. destruct (assoc s (rdict r)) eqn:E; [|discriminate]. injection H as ->.
        apply assoc_in in E. now destruct (co_dict _ Hc _ _ E).
      + unfold getitem.
        assert (Hlt : (n < length (rlist r))%nat) by (apply nth_error_Some; congruence).
        unfold rlen. destruct (Z.ltb_spec (Z.of_nat n) 0); [lia|].
        destruct (Z.leb_spec (Z.of_nat (length (rlist r))) (Z.of_nat n)); [lia|]. simpl.
        rewrite Nat2Z.id. f_equal. now apply nth_error_nth.
    - intros [n [Hi [Hk H]]]. destruct (getitem_stored _ _ _ Hc H) as [Hin _].
      simpl. rewrite <- Hk. now rewrite (in_assoc _ _ _ (co_nodup _ Hc) Hin).
  Qed.

  (* the length is the highest occupied index plus one *)
  Lemma length_is_highest (r : rec) : Coherent r ->
    rlist r = [] \/ exists c, nth_error (rlist r) (length (rlist r) - 1) = Some (Some c).
  Proof.
    intros Hc. destruct (rlist r) as [|x l] eqn:E; [now left|right].
    pose proof (co_trail _ Hc) as HT. rewrite E in HT.
    specialize (HT (length l) eq_refl).
    simpl length. replace (S (length l) - 1)%nat with (length l) by lia.
    destruct (nth_error (x :: l) (length l)) as [[c|]|] eqn:N.
    - eauto.
    - congruence.
    - apply nth_error_None in N. simpl in N. lia.
  Qed.

  (* iteration lists the stored names in index order: every occupied slot
     reports the name under which the dictionary holds it *)
  Lemma iter_names_agree (r : rec) : Coherent r ->
    forall n s, nth_error (iter_names r) n = Some (Some s) <->
      exists c, nth_error (rlist r) n = Some (Some c) /\ ckey c = s /\ assoc s (rdict r) = Some c.
  Proof.
    intros Hc n s. unfold iter_names. rewrite nth_error_map. split.
    - destruct (nth_error (rlist r) n) as [[c|]|] eqn:E; simpl; try discriminate.
      intros H; injection H as <-. exists c. repeat split; auto.
      destruct (co_list _ Hc _ _ E) as [_ Hin]. now apply in_assoc; [apply Hc|].
    - intros [c [-> [<- _]]]. reflexivity.
  Qed.
End Facts.
