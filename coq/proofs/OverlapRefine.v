(* OverlapRefine.v - lemmas for C11, part 3: on inputs whose records are
   truthy, have keys, and are sorted as the order-enforcing wrapper demands,
   the model of model/Overlap.v (peekable wrappers, key cache, exceptions,
   fuel) computes exactly the pure group computation of OverlapFacts.v; hence
   list(LocatableOverlapIterator(...)) is an exact grouping. *)
From MafVerif Require Import lib.Base lib.OverlapLib model.Overlap spec.SpecOverlap
     proofs.OverlapFacts proofs.OverlapGroups.

Section Refine.
  Context {R C : Type}.
  Variable truthy : R -> bool.
  Variable cls_cmp : C -> C -> comparison.
  Variable cls_eqb : C -> C -> bool.
  Variable keyf : R -> res (key C).
  Hypothesis HO : cls_order cls_cmp cls_eqb.
  Variable K : R -> key C.
  Variable U : list R.
  Hypothesis Htruthy : forall r, In r U -> truthy r = true.
  Hypothesis HK : forall r, In r U -> keyf r = Ok (K r).

  Notation enf_next := (enf_next truthy cls_cmp keyf).
  Notation update_peek := (update_peek truthy cls_cmp keyf).
  Notation peek_next := (peek_next truthy cls_cmp keyf).
  Notation sweep := (sweep truthy cls_cmp cls_eqb keyf).
  Notation group_loop := (group_loop truthy cls_cmp cls_eqb keyf).
  Notation next_group := (next_group truthy cls_cmp cls_eqb keyf).
  Notation init_inputs := (init_inputs truthy cls_cmp keyf).
  Notation head_keys := (head_keys truthy keyf).
  Notation run_all := (run_all truthy cls_cmp cls_eqb keyf).
  Notation overlap_iter := (overlap_iter truthy cls_cmp cls_eqb keyf).
  Notation psweep := (psweep cls_eqb K).
  Notation ploop := (ploop cls_eqb K).
  Notation pnext := (pnext cls_cmp cls_eqb K).
  Notation piter := (piter cls_cmp cls_eqb K).
  Notation adj_sorted := (adj_sorted cls_cmp K).
  Notation kle := (kle cls_cmp).
  Notation good := (good cls_cmp K U).
  Notation heads := (heads K).

  (* a wrapped input stands for the list of records it has not handed out *)
  Definition IR (i : input R) (xs : list R) : Prop :=
    match xs with
    | [] => peek i = None /\ rest i = []
    | x :: tl => peek i = Some x /\ rest i = tl /\ last_rec i = Some x
    end.

  Definition okl (xs : list R) : Prop := adj_sorted xs /\ forall r, In r xs -> In r U.

  Lemma okl_tail x tl : okl (x :: tl) -> okl tl.
  Proof. intros (H1 & H2). split; [eapply adj_sorted_tail; eassumption|intros r Hr; apply H2; now right]. Qed.

  Lemma peek_next_ref i x tl :
    IR i (x :: tl) -> okl (x :: tl) ->
    exists i', peek_next i = (i', Ok x) /\ IR i' tl.
  Proof.
    intros (Hp & Hr & Hl) (Hs & HUx). unfold Overlap.peek_next, Overlap.update_peek, Overlap.enf_next.
    rewrite Hp, Hr. destruct tl as [|y tl'].
    - eexists. split; [reflexivity|]. simpl. auto.
    - rewrite Hl. rewrite (Htruthy x (HUx x (or_introl eq_refl))).
      rewrite (HK y (HUx y (or_intror (or_introl eq_refl)))), (HK x (HUx x (or_introl eq_refl))).
      destruct Hs as (Hxy & _).
      apply (key_lt_false_iff cls_cmp cls_eqb HO) in Hxy. rewrite Hxy.
      eexists. split; [reflexivity|]. simpl. auto.
  Qed.

  Lemma init_ref : forall xss,
      (forall r, In r (concat xss) -> In r U) ->
      exists ins, init_inputs xss = Ok ins /\ Forall2 IR ins xss.
  Proof.
    induction xss as [|xs r IH]; intros HU; simpl.
    - exists []. split; [reflexivity|constructor].
    - destruct IH as (ins & E & HF); [intros x Hx; apply HU; simpl; apply in_or_app; now right|].
      unfold Overlap.update_peek, Overlap.enf_next, fresh. simpl. destruct xs as [|x tl]; simpl; rewrite E.
      + eexists. split; [reflexivity|]. constructor; [simpl; auto|assumption].
      + eexists. split; [reflexivity|]. constructor; [simpl; auto|assumption].
  Qed.

  (* a model cell stands for a pure cell; a cached key is the key of the head *)
  Definition CR (c : cell R C) (p : pcell) : Prop :=
    c_slot c = fst p /\ IR (c_in c) (snd p) /\
    (c_key c = None \/ exists x tl, snd p = x :: tl /\ c_key c = Some (K x)).

  Definition okc (p : pcell) : Prop := okl (snd p).

  Lemma sweep_ref : forall cells l mk added,
      Forall2 CR cells l -> Forall okc l ->
      exists cells', sweep mk added cells
                     = (cells', snd (fst (psweep mk added l)), snd (psweep mk added l), None)
                     /\ Forall2 CR cells' (fst (fst (psweep mk added l))).
  Proof.
    induction cells as [|c ctl IH]; intros l mk added HF Hok; inversion HF as [|? p ? ptl Hc Ht]; subst.
    - exists []. split; [reflexivity|constructor].
    - destruct p as [slot xs]. inversion Hok as [|? ? Hokp Hoktl]; subst.
      destruct Hc as (Hslot & HI & Hkey). simpl in Hslot, HI, Hkey.
      cbn [Overlap.sweep OverlapFacts.psweep].
      destruct xs as [|x xs'].
      + pose proof HI as (Hp & _). rewrite Hp.
        destruct (IH ptl mk added Ht Hoktl) as (ctl' & E & HF').
        destruct (psweep mk added ptl) as [[tl' mk'] a'] eqn:Ep. simpl in E, HF'. rewrite E.
        exists (c :: ctl'). split; [reflexivity|]. simpl. constructor; [|assumption].
        split; [assumption|]. split; [exact HI|assumption].
      + pose proof HI as (Hp & Hr & Hl). rewrite Hp.
        assert (HxU : In x U) by (apply (proj2 Hokp); now left).
        rewrite (Htruthy x HxU).
        assert (Hk : (match c_key c with Some k => Ok k | None => keyf x end) = Ok (K x)).
        { destruct Hkey as [->|(x0 & tl0 & E0 & ->)]; [now apply HK|]. injection E0 as <- _. reflexivity. }
        rewrite Hk. destruct (overlaps cls_eqb mk (K x)) eqn:Eo.
        * destruct (peek_next_ref _ _ _ HI Hokp) as (i' & En & HI'). rewrite En.
          set (mk1 := if kend mk <? kend (K x) then with_end mk (kend (K x)) else mk).
          destruct (IH ptl mk1 true Ht Hoktl) as (ctl' & E & HF').
          destruct (psweep mk1 true ptl) as [[tl' mk'] a'] eqn:Ep. simpl in E, HF'. rewrite E.
          eexists. split; [reflexivity|]. simpl. constructor; [|assumption].
          split; [simpl; now rewrite Hslot|]. split; [exact HI'|now left].
        * destruct (IH ptl mk added Ht Hoktl) as (ctl' & E & HF').
          destruct (psweep mk added ptl) as [[tl' mk'] a'] eqn:Ep. simpl in E, HF'. rewrite E.
          eexists. split; [reflexivity|]. simpl. constructor; [|assumption].
          split; [assumption|]. split; [exact HI|]. right. exists x, xs'. auto.
  Qed.

  Lemma okc_step : forall l mk added,
      Forall okc l -> Forall okc (fst (fst (psweep mk added l))).
  Proof.
    intros l mk added Hok. destruct (psweep mk added l) as [[l' mk'] a] eqn:E. simpl.
    pose proof (psweep_struct _ _ _ _ _ _ _ _ E) as Hst. clear E.
    induction Hst as [|p p' l l' (ys & E1 & E2) Hr IH]; [constructor|].
    inversion Hok; subst. constructor; [|auto].
    unfold okc, okl in *. rewrite E2 in H1. destruct H1 as (A & B). split.
    - clear -A. induction ys as [|y ys IHy]; [assumption|]. apply IHy.
      change (adj_sorted (y :: (ys ++ snd p'))) in A. eapply adj_sorted_tail. exact A.
    - intros r Hr'. apply B. apply in_or_app. now right.
  Qed.

  Lemma group_loop_ref : forall fuel cells l mk,
      Forall2 CR cells l -> Forall okc l ->
      match ploop fuel mk l with
      | Some l' => exists cells', group_loop fuel mk cells = (cells', Done tt) /\ Forall2 CR cells' l'
      | None => True
      end.
  Proof.
    induction fuel as [|f IH]; intros cells l mk HF Hok; simpl; [exact I|].
    destruct (sweep_ref cells l mk false HF Hok) as (cells1 & E & HF1).
    pose proof (okc_step l mk false Hok) as Hok1.
    destruct (psweep mk false l) as [[l1 mk1] a] eqn:Ep. simpl in E, HF1, Hok1. rewrite E.
    destruct a.
    - apply IH; assumption.
    - exists cells1. split; [reflexivity|assumption].
  Qed.

  Lemma head_keys_ref : forall ins xss,
      Forall2 IR ins xss -> (forall r, In r (concat xss) -> In r U) ->
      head_keys ins = Ok (map (fun xs => match xs with x :: _ => Some (K x) | [] => None end) xss).
  Proof.
    induction 1 as [|i xs ins xss Hi Hr IH]; intros HU; simpl; [reflexivity|].
    rewrite IH by (intros r Hr'; apply HU; simpl; apply in_or_app; now right).
    destruct xs as [|x tl].
    - destruct Hi as (Hp & _). rewrite Hp. reflexivity.
    - destruct Hi as (Hp & _). rewrite Hp. simpl.
      assert (HxU : In x U) by (apply HU; simpl; now left).
      rewrite (Htruthy x HxU), (HK x HxU). reflexivity.
  Qed.

  Lemma present_heads xss :
    present (map (fun xs : list R => match xs with x :: _ => Some (K x) | [] => None end) xss) = heads xss.
  Proof.
    unfold OverlapGroups.heads. induction xss as [|[|x tl] r IH]; simpl; auto. now rewrite IH.
  Qed.

  Lemma mk_cells_ref : forall ins xss,
      Forall2 IR ins xss ->
      Forall2 CR (mk_cells ins (map (fun xs : list R => match xs with x :: _ => Some (K x) | [] => None end) xss))
              (map (fun xs => ([], xs)) xss).
  Proof.
    induction 1 as [|i xs ins xss Hi Hr IH]; simpl; constructor; [|assumption].
    split; [reflexivity|]. split; [exact Hi|]. simpl. destruct xs as [|x tl]; [now left|right; eauto].
  Qed.

  Lemma remaining_ref : forall ins xss, Forall2 IR ins xss -> remaining ins = length (concat xss).
  Proof.
    induction 1 as [|i xs ins xss Hi Hr IH]; simpl; [reflexivity|].
    rewrite app_length, IH. f_equal. unfold remaining1. destruct xs as [|x tl]; simpl in Hi.
    - destruct Hi as (-> & ->). reflexivity.
    - destruct Hi as (-> & -> & _). simpl. lia.
  Qed.

  Lemma CR_split : forall cells l,
      Forall2 CR cells l -> map c_slot cells = map fst l /\ Forall2 IR (map c_in cells) (map snd l).
  Proof.
    induction 1 as [|c p cells l (H1 & H2 & _) Hr (IH1 & IH2)]; simpl; [split; [reflexivity|constructor]|].
    split; [now rewrite H1, IH1|constructor; assumption].
  Qed.

  Lemma good_okc xss : good xss -> Forall okc (map (fun xs => ([], xs)) xss).
  Proof.
    intros (Hs & HU). apply Forall_forall. intros p Hp. apply in_map_iff in Hp as (xs & <- & Hxs).
    unfold okc, okl. simpl. split; [exact (proj1 (Forall_forall _ _) Hs _ Hxs)|].
    intros r Hr. apply HU, in_concat. eauto.
  Qed.

  (* one __next__ on well-formed sorted inputs is the pure step *)
  Lemma next_group_ref ins xss :
    Forall2 IR ins xss -> good xss ->
    match pnext xss with
    | PStop => next_group ins = (ins, Exc StopIteration)
    | PGroup g xss' => exists ins', next_group ins = (ins', Done g) /\ Forall2 IR ins' xss'
    | PFuel => True
    end.
  Proof.
    intros HF Hg. unfold OverlapGroups.pnext, Overlap.next_group.
    rewrite (head_keys_ref _ _ HF (proj2 Hg)), present_heads.
    destruct (heads xss) as [|k0 ks]; [reflexivity|].
    rewrite (remaining_ref _ _ HF).
    pose proof (group_loop_ref (S (length (concat xss))) _ _ (Overlap.min_from cls_cmp k0 ks)
                               (mk_cells_ref _ _ HF) (good_okc _ Hg)) as Hgl.
    destruct (ploop _ _ _) as [l'|]; [|exact I].
    destruct Hgl as (cells' & E & HC). rewrite E.
    destruct (CR_split _ _ HC) as (H1 & H2). rewrite H1. eauto.
  Qed.

  Lemma run_all_ref : forall fuel ins xss gs,
      Forall2 IR ins xss -> good xss ->
      (forall r, In r U -> st K r <= en K r) ->
      piter fuel xss = Some gs -> run_all fuel ins = Done gs.
  Proof.
    induction fuel as [|f IH]; intros ins xss gs HF Hg Hwf E; simpl in E; [discriminate|].
    simpl. pose proof (next_group_ref ins xss HF Hg) as Hn.
    pose proof (pnext_spec cls_cmp cls_eqb HO K U Hwf xss Hg) as Hs.
    destruct (pnext xss) as [| |g xss'].
    - injection E as <-. rewrite Hn. reflexivity.
    - discriminate.
    - destruct Hn as (ins' & -> & HF').
      destruct (piter f xss') as [gs'|] eqn:Ep; [|discriminate]. injection E as <-.
      destruct Hs as (_ & _ & _ & _ & _ & _ & Hg').
      rewrite (IH ins' xss' gs' HF' Hg' Hwf Ep). reflexivity.
  Qed.
End Refine.

(* ---------------- the theorem, generically ---------------- *)
Section Exact.
  Context {R C : Type}.
  Variable truthy : R -> bool.
  Variable cls_cmp : C -> C -> comparison.
  Variable cls_eqb : C -> C -> bool.
  Variable keyf : R -> res (key C).
  Hypothesis HO : cls_order cls_cmp cls_eqb.
  Variable K : R -> key C.

  Notation cls := (cls K).
  Notation st := (st K).
  Notation en := (en K).

  Lemma sorted_input_adj : forall l,
      sorted_input cls st en (clt cls_cmp) l <-> adj_sorted cls_cmp K l.
  Proof.
    induction l as [|a r IH]; simpl; [tauto|]. rewrite IH.
    destruct r as [|b r']; [tauto|].
    assert (Hiff : key_le cls st en (clt cls_cmp) a b <-> kle cls_cmp (K a) (K b)).
    { unfold key_le, key_before, kle, OverlapFacts.cls, OverlapFacts.st, OverlapFacts.en. split.
      - intros [[H|(H1 & H2)]|(H1 & H2 & H3)]; [now left|right; split; [assumption|lia]|right; split; [assumption|lia]].
      - intros [H|(H1 & [H2|(H2 & H3)])]; [left; now left|left; right; split; [assumption|now left]|].
        destruct (Z_lt_le_dec (kend (K a)) (kend (K b))); [left; right; split; [assumption|right; split; assumption]|].
        right. repeat split; try assumption. lia. }
    rewrite Hiff. tauto.
  Qed.

  Theorem overlap_iter_exact xss :
    (forall r, In r (concat xss) -> truthy r = true) ->
    (forall r, In r (concat xss) -> keyf r = Ok (K r)) ->
    (forall r, In r (concat xss) -> wf_interval st en r) ->
    Forall (sorted_input cls st en (clt cls_cmp)) xss ->
    exists gs, overlap_iter truthy cls_cmp cls_eqb keyf xss = Done gs /\
               exact_grouping cls st en (clt cls_cmp) xss gs.
  Proof.
    intros Ht Hk Hw Hs. set (U := concat xss).
    assert (Hg : good cls_cmp K U xss).
    { split; [|auto]. eapply Forall_impl; [|exact Hs]. intros l. apply sorted_input_adj. }
    destruct (piter_exact cls_cmp cls_eqb HO K U Hw (S (length (concat xss))) xss Hg (Nat.lt_succ_diag_r _))
      as (gs & Ep & HE).
    destruct (init_ref truthy cls_cmp keyf U xss (fun r H => H)) as (ins & Ei & HF).
    exists gs. split.
    - unfold Overlap.overlap_iter. rewrite Ei. unfold total.
      eapply run_all_ref; try eassumption.
    - unfold exact_grouping. split; [eapply exact_lengths; eassumption|].
      split; [eapply exact_slots; eassumption|]. split; [eapply exact_nonempty; eassumption|].
      split; [|eapply exact_ascending; eassumption].
      intros a b Ha Hb. eapply exact_linked; try eassumption. intros x. reflexivity.
  Qed.
End Exact.
