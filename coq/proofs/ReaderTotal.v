(* ReaderTotal.v - C16: parsing a line under a scheme (distinct column names)
   never fails except through `process`; the record container stays coherent
   (C15's invariant), so validate's self-consistency assertions hold; iterating
   a reader yields one record per remaining line; the only exceptions are the
   format exception (Strict) and the ordering ValueError (sortable order). *)
From MafVerif Require Import lib.Base lib.Str model.RecordOps model.Validation model.Header
  model.RecordParse model.Reader spec.SpecModes spec.SpecHeader proofs.RecordFacts proofs.ReaderModes.

(* ---------- association lists, generically ---------- *)
Section AssocGen.
  Context {V : Type}.
  Lemma keys_dset_gen (d : list (str * V)) k v x :
    In x (map fst (dset k v d)) <-> x = k \/ In x (map fst d).
  Proof.
    induction d as [|[k' v'] d IH]; simpl.
    - split; intros [H|[]]; auto.
    - destruct (str_eqb k k') eqn:E; simpl.
      + apply str_eqb_eq in E. subst k'. split; [intros [H|H]; auto|intros [H|[H|H]]; auto].
      + rewrite IH. tauto.
  Qed.
  Lemma nodup_dset_gen (d : list (str * V)) k v : NoDup (map fst d) -> NoDup (map fst (dset k v d)).
  Proof.
    induction d as [|[k' v'] d IH]; simpl; intros ND.
    - constructor; [tauto|constructor].
    - inversion ND as [|? ? Hn ND']; subst.
      destruct (str_eqb k k') eqn:E; simpl.
      + apply str_eqb_eq in E. subst. now constructor.
      + apply str_eqb_neq in E. constructor; [|auto].
        rewrite keys_dset_gen. intros [H|H]; [congruence|tauto].
  Qed.
  Lemma assoc_none_iff (d : list (str * V)) k : assoc k d = None <-> ~ In k (map fst d).
  Proof.
    induction d as [|[k' v'] d IH]; simpl; [tauto|].
    destruct (str_eqb k k') eqn:E.
    - apply str_eqb_eq in E. subst. split; [discriminate|tauto].
    - apply str_eqb_neq in E. rewrite IH. split; [intros H [H1|H1]; [congruence|tauto]|tauto].
  Qed.
  Lemma length_dset_new (d : list (str * V)) k v : assoc k d = None -> length (dset k v d) = S (length d).
  Proof.
    induction d as [|[k' v'] d IH]; simpl; [reflexivity|].
    destruct (str_eqb k k'); [discriminate|]. intros H. simpl. now rewrite IH.
  Qed.
End AssocGen.

Lemma no_restrictions_nodup {C} (names : list str) : NoDup (s_names (@no_restrictions C names)).
Proof.
  unfold no_restrictions, s_names; simpl.
  assert (G : forall (d : list (str * cls C)), NoDup (map fst d) ->
              NoDup (map fst (fold_left (fun d n => dset n CPlain d) names d))).
  { induction names as [|n names IH]; simpl; intros d Hd; [exact Hd|].
    apply IH. now apply nodup_dset_gen. }
  apply G. constructor.
Qed.

(* ---------- the record built by from_line ---------- *)
Section Total.
  Context {C W : Type}.
  Variable sem : colsem C W.
  Notation cls := (cls C).
  Notation scheme := (scheme cls).
  Notation mrec := (mrec C W).
  Notation payload := (payload C W).
  Notation column := (col payload).

  Fixpoint count_some (l : list (option column)) : nat :=
    match l with [] => O | Some _ :: r => S (count_some r) | None :: r => count_some r end.

  Lemma count_some_app a b : count_some (a ++ b) = (count_some a + count_some b)%nat.
  Proof. induction a as [|[c|] a IH]; simpl; auto. Qed.
  Lemma count_some_repeat n : count_some (repeat None n) = O.
  Proof. induction n; simpl; auto. Qed.
  Lemma count_some_le l : (count_some l <= length l)%nat.
  Proof. induction l as [|[c|] l IH]; simpl; lia. Qed.

  (* storing at a fresh position beyond the end adds exactly one column *)
  Lemma count_some_set_beyond (l : list (option column)) n c :
    (length l <= n)%nat -> count_some (lset n (Some c) (pad l (S n))) = S (count_some l).
  Proof.
    intros H. unfold pad.
    replace (S n - length l)%nat with ((n - length l) + 1)%nat by lia.
    rewrite repeat_app. simpl.
    assert (G : forall l0 : list (option column), lset (length l0) (Some c) (l0 ++ [None]) = l0 ++ [Some c]).
    { induction l0 as [|x l0 IH]; simpl; [reflexivity|]. now rewrite IH. }
    assert (E : lset n (Some c) (l ++ repeat None (n - length l) ++ [None]) =
                l ++ repeat None (n - length l) ++ [Some c]).
    { rewrite !app_assoc.
      assert (L : length (l ++ repeat None (n - length l)) = n) by (rewrite app_length, repeat_length; lia).
      rewrite <- L at 1. apply G. }
    rewrite E, !count_some_app, count_some_repeat. simpl. lia.
  Qed.

  Lemma length_set_beyond (l : list (option column)) n c :
    (length l <= n)%nat -> length (lset n (Some c) (pad l (S n))) = S n.
  Proof. intros H. rewrite length_lset, length_pad. lia. Qed.

  (* a column that passed validation in from_line re-validates cleanly *)
  Definition pv_clean (p : payload) : Prop :=
    perrs p = [] /\
    match pv p with PTyped k w => cs_invalid sem k w = false | PPlain _ => True end /\
    has_sep (match col_text sem (pv p) with Some t => t | None => [] end) = false.

  Lemma column_validate_clean (c : column) ln : pv_clean (cval c) -> column_validate sem c false None ln = [].
  Proof.
    intros (H0 & H1 & H2). unfold column_validate. rewrite H0, H2.
    destruct (pv (cval c)) as [s|k w]; [reflexivity|]. now rewrite H1.
  Qed.

  Lemma column_validate_nil_clean (c : column) sch ln :
    column_validate sem c true sch ln = [] -> pv_clean (cval (with_perrs c [])).
  Proof.
    unfold column_validate, pv_clean; simpl. intros H.
    apply app_eq_nil in H as [H1 H]. apply app_eq_nil in H as [H2 _].
    split; [reflexivity|]. split.
    - destruct (pv (cval c)) as [s|k w]; [exact I|]. destruct (cs_invalid sem k w); [discriminate|reflexivity].
    - destruct (has_sep _); [discriminate|reflexivity].
  Qed.

  Definition slots_clean (l : list (option column)) : Prop :=
    Forall (fun o => match o with Some c => pv_clean (cval c) | None => True end) l.

  Lemma slots_clean_pad l n : slots_clean l -> slots_clean (pad l n).
  Proof.
    intros H. unfold pad, slots_clean. apply Forall_app. split; [exact H|].
    apply Forall_forall. intros x Hx. apply repeat_spec in Hx. now subst.
  Qed.
  Lemma slots_clean_lset l n c : slots_clean l -> pv_clean (cval c) -> slots_clean (lset n (Some c) l).
  Proof.
    unfold slots_clean. revert n. induction l as [|x l IH]; intros n Hl Hc.
    - destruct n; constructor.
    - inversion Hl; subst. destruct n; simpl; constructor; auto.
  Qed.

  (* the loop invariant *)
  Record loop_inv (r : rec payload) (i : nat) : Prop := {
    li_coh : Coherent r;
    li_len : (length (rlist r) <= i)%nat;
    li_cnt : length (rdict r) = count_some (rlist r);
    li_clean : slots_clean (rlist r)
  }.

  Lemma setitem_fresh_eq (r : rec payload) name (c : column) i :
    assoc name (rdict r) = None -> ckey c = name -> cidx c = Some (Z.of_nat i) ->
    (length (rlist r) <= i)%nat ->
    setitem r (KStr name) c =
    ({| rdict := dset name c (rdict r); rlist := lset i (Some c) (pad (rlist r) (S i)) |}, Ok tt).
  Proof.
    intros Ha Hk Hi Hl. unfold setitem. rewrite Hk, str_eqb_refl, Hk, Ha, Hi, Hi.
    destruct (Z.of_nat i <? 0) eqn:E; [apply Z.ltb_lt in E; lia|].
    rewrite Nat2Z.id.
    assert (En : nth_error (rlist r) i = None) by (apply nth_error_None; lia).
    rewrite En. reflexivity.
  Qed.

  Lemma setitem_fresh (r : rec payload) name (c : column) i :
    loop_inv r i -> assoc name (rdict r) = None -> ckey c = name -> cidx c = Some (Z.of_nat i) ->
    pv_clean (cval c) ->
    exists r', setitem r (KStr name) c = (r', Ok tt) /\ loop_inv r' (S i) /\
               (forall x, In x (map fst (rdict r')) <-> x = name \/ In x (map fst (rdict r))).
  Proof.
    intros [Hc Hl Hn Hcl] Ha Hk Hi Hp.
    pose proof (setitem_fresh_eq r name c i Ha Hk Hi Hl) as ES.
    eexists. split; [exact ES|]. split.
    - constructor; simpl.
      + eapply setitem_preserves; eauto.
      + rewrite length_set_beyond by assumption. lia.
      + rewrite length_dset_new by assumption. rewrite count_some_set_beyond by assumption. now rewrite Hn.
      + apply slots_clean_lset; [apply slots_clean_pad; assumption|assumption].
    - simpl. intros x. apply keys_dset_gen.
  Qed.

  Variable sch : option scheme.

  Definition at_line (ln : option Z) (es : list verr) : Prop := Forall (fun e => eline e = ln) es.

  Lemma column_validate_at_line (c : column) ln : at_line ln (column_validate sem c true sch ln).
  Proof.
    unfold column_validate, at_line. simpl.
    repeat (apply Forall_app; split).
    - destruct (pv (cval c)) as [s|k w]; [constructor|]. destruct (cs_invalid sem k w); repeat constructor.
    - destruct (has_sep _); repeat constructor.
    - destruct sch as [s|]; [|constructor].
      destruct (negb (s_truthy s)); [constructor|].
      destruct (s_index s (ckey c)) as [si|]; [|repeat constructor].
      destruct (match cidx c with Some ci => negb (si =? ci) | None => false end); [repeat constructor|].
      destruct (s_class s (ckey c)) as [k|]; [|constructor].
      destruct (cs_isinst sem (cls_of (pv (cval c))) k); repeat constructor.
  Qed.

  (* the loop never raises when the names are distinct (a scheme's names are);
     every error it adds carries the line number it was given *)
  Lemma from_line_loop_ok nvs : forall i (r : rec payload) errs ln,
    NoDup (map fst nvs) -> loop_inv r i ->
    (forall k, In k (map fst (rdict r)) -> ~ In k (map fst nvs)) ->
    exists r' added j, from_line_loop sem (Z.of_nat i) nvs sch ln r errs = Ok (r', errs ++ added) /\
                       loop_inv r' j /\ at_line ln added.
  Proof.
    induction nvs as [|[name text] rest IH]; intros i r errs ln ND Hinv Hfresh; simpl.
    - exists r, [], i. rewrite app_nil_r. split; [reflexivity|]. split; [exact Hinv|constructor].
    - inversion ND as [|? ? Hnot ND']; subst.
      replace (Z.of_nat i + 1) with (Z.of_nat (S i)) by lia.
      assert (Hinv' : loop_inv r (S i)) by (destruct Hinv; constructor; auto; lia).
      assert (Hfresh' : forall k, In k (map fst (rdict r)) -> ~ In k (map fst rest))
        by (intros k Hk Hin; apply (Hfresh k Hk); simpl; auto).
      match goal with |- context [match ?b with Some _ => _ | None => _ end] => destruct b as [p|] end.
      2:{ destruct (IH (S i) r (errs ++ [mkerr T_RECORD_INVALID_COLUMN_VALUE ln]) ln ND' Hinv' Hfresh')
            as (r' & added & j & E & Hi & Ha).
          exists r', (mkerr T_RECORD_INVALID_COLUMN_VALUE ln :: added), j.
          rewrite E, <- app_assoc. split; [reflexivity|]. split; [exact Hi|]. constructor; auto. }
      match goal with |- context [column_validate sem ?c true sch ln] =>
        pose proof (column_validate_at_line c ln) as Hat;
        destruct (column_validate sem c true sch ln) as [|ce0 ce] eqn:ECV end.
      2:{ destruct (IH (S i) r (errs ++ ce0 :: ce) ln ND' Hinv' Hfresh') as (r' & added & j & E & Hi & Ha).
          exists r', ((ce0 :: ce) ++ added), j.
          rewrite E, <- app_assoc. split; [reflexivity|]. split; [exact Hi|]. apply Forall_app; split; auto. }
      apply column_validate_nil_clean in ECV.
      assert (Ha : assoc name (rdict r) = None).
      { apply assoc_none_iff. intros Hin. apply (Hfresh name Hin). simpl; auto. }
      match goal with |- context [setitem r (KStr name) ?c] =>
        destruct (setitem_fresh r name c i Hinv Ha eq_refl eq_refl ECV) as (r' & ES & Hinv2 & Hkeys) end.
      rewrite ES.
      destruct (IH (S i) r' (errs ++ []) ln ND' Hinv2) as (r'' & added & j & E & Hi & Haa).
      { intros k Hk Hin. apply Hkeys in Hk as [->|Hk]; [tauto|]. apply (Hfresh' k Hk Hin). }
      exists r'', added, j. rewrite E, app_nil_r. split; [reflexivity|]. split; assumption.
  Qed.

  (* validate on such a record: only "no value" errors, at the record's line;
     the self-consistency assertions hold *)
  Lemma validate_slots_clean slots : forall i ln,
    slots_clean slots ->
    let '(es, fn, _) := validate_slots sem slots i false None ln in
    at_line ln es /\ (fn = false -> count_some slots = length slots).
  Proof.
    induction slots as [|[c|] slots IH]; intros i ln Hc; simpl.
    - split; [constructor|reflexivity].
    - inversion Hc as [|? ? Hc1 Hc2]; subst.
      specialize (IH (i + 1) ln Hc2).
      destruct (validate_slots sem slots (i + 1) false None ln) as [[es fn] sl'].
      rewrite (column_validate_clean c None Hc1). simpl. destruct IH as [I1 I2]. split; auto.
    - inversion Hc as [|? ? Hc1 Hc2]; subst.
      specialize (IH (i + 1) ln Hc2).
      destruct (validate_slots sem slots (i + 1) false None ln) as [[es fn] sl'].
      destruct IH as [I1 I2]. split; [constructor; auto|discriminate].
  Qed.

  (* a coherent record is in sync: no self-consistency error *)
  Lemma in_sync_coherent (r : rec payload) : Coherent r -> forallb (slot_in_sync (rdict r)) (rlist r) = true.
  Proof.
    intros [ND HD HL HT]. apply forallb_forall. intros [c|] Hin; [|reflexivity].
    apply In_nth_error in Hin as [n Hn]. destruct (HL _ _ Hn) as [Hi Hd]. simpl.
    rewrite (in_assoc _ _ _ ND Hd). apply Z.eqb_refl.
  Qed.

  Lemma index_sync_coherent (r : rec payload) ln : Coherent r ->
    forall suf pre, rlist r = pre ++ suf -> index_sync_errs suf (Z.of_nat (length pre)) ln = [].
  Proof.
    intros [ND HD HL HT]. induction suf as [|[c|] suf IH]; intros pre E; simpl; [reflexivity| |].
    - assert (Hn : nth_error (rlist r) (length pre) = Some (Some c)).
      { rewrite E, nth_error_app2, Nat.sub_diag by lia. reflexivity. }
      destruct (HL _ _ Hn) as [Hi _]. rewrite Hi, Z.eqb_refl. simpl.
      replace (Z.of_nat (length pre) + 1) with (Z.of_nat (length (pre ++ [Some c]))) by (rewrite app_length; simpl; lia).
      apply IH. now rewrite <- app_assoc.
    - replace (Z.of_nat (length pre) + 1) with (Z.of_nat (length (pre ++ [@None column]))) by (rewrite app_length; simpl; lia).
      apply IH. now rewrite <- app_assoc.
  Qed.

  Lemma sync_errs_coherent (r : rec payload) ln :
    Coherent r -> length (rdict r) = length (rlist r) -> sync_errs r ln = [].
  Proof.
    intros Hc Hl. unfold sync_errs. rewrite Hl, Nat.eqb_refl, (in_sync_coherent r Hc). simpl.
    apply (index_sync_coherent r ln Hc (rlist r) []). reflexivity.
  Qed.

  Lemma rv_core_ok (r : rec payload) i ln errs_in :
    loop_inv r i ->
    exists cols' es, rv_core sem ln r errs_in false None = Ok (cols', errs_in ++ es) /\ at_line ln es.
  Proof.
    intros [Hc Hl Hn Hcl]. unfold rv_core.
    pose proof (validate_slots_clean (rlist r) 0 ln Hcl) as Hv.
    destruct (validate_slots sem (rlist r) 0 false None ln) as [[es fn] sl'].
    destruct Hv as [Hat Hfn].
    destruct fn; simpl.
    - eexists _, es. rewrite app_nil_r. split; [reflexivity|assumption].
    - rewrite sync_errs_coherent; [|assumption|rewrite Hn; now apply Hfn].
      eexists _, es. rewrite app_nil_r. split; [reflexivity|assumption].
  Qed.

  Lemma loop_inv_empty : loop_inv empty_rec 0.
  Proof. constructor; simpl; auto. apply coherent_empty. constructor. Qed.

  Lemma zip_fst_nodup {X} (a : list str) (b : list X) : NoDup a -> NoDup (map fst (zip a b)).
  Proof.
    revert b. induction a as [|x a IH]; intros b ND; simpl; [constructor|].
    destruct b as [|y b]; [constructor|]. simpl. inversion ND; subst. constructor; auto.
    intros Hin. apply H1. clear - Hin. revert b Hin. induction a as [|z a IH]; intros b Hin; simpl in *; [tauto|].
    destruct b as [|y b]; [destruct Hin|]. simpl in Hin. destruct Hin as [H|H]; [now left|right; eauto].
  Qed.
End Total.

(* from_line under a scheme with distinct column names: the mode-free part
   always succeeds, and every error carries the line number given *)
Lemma fl_core_total {C W} (sem : colsem C W) (s : scheme (cls C)) line ln :
  NoDup (s_names s) ->
  exists cols errs, fl_core sem line None (Some s) ln = Ok (cols, errs) /\ at_line ln errs.
Proof.
  intros ND. unfold fl_core.
  destruct (negb (Nat.eqb (length (s_names s)) (length (split TAB (rstrip_crlf line))))).
  - destruct (rv_core_ok sem empty_rec 0 ln [mkerr T_RECORD_MISMATCH_NUMBER_OF_COLUMNS ln] (loop_inv_empty sem))
      as (cols' & es & E & Hat).
    rewrite E. eexists _, _. split; [reflexivity|]. apply Forall_app. split; [repeat constructor|assumption].
  - destruct (from_line_loop_ok sem (Some s) (zip (s_names s) (split TAB (rstrip_crlf line))) 0 empty_rec [] ln)
      as (r' & added & j & E & Hi & Ha).
    + now apply zip_fst_nodup.
    + apply loop_inv_empty.
    + simpl. tauto.
    + simpl in E. rewrite E.
      destruct (rv_core_ok sem r' j ln added Hi) as (cols' & es & E2 & Hat).
      rewrite E2. eexists _, _. split; [reflexivity|]. apply Forall_app. split; assumption.
Qed.

(* ---------- the file shape: read_header_lines against split_file ---------- *)
Lemma read_header_lines_spec (ls : list str) : forall n acc,
  read_header_lines ls n acc =
  (acc ++ map rstrip_crlf (fst (split_file ls)),
   match snd (split_file ls) with Some (c, _) => Some (rstrip_crlf c) | None => None end,
   n + Z.of_nat (length (fst (split_file ls))) + match snd (split_file ls) with Some _ => 1 | None => 0 end,
   match snd (split_file ls) with Some (_, d) => d | None => [] end).
Proof.
  induction ls as [|l rest IH]; intros n acc.
  - simpl. rewrite app_nil_r. replace (n + 0 + 0) with n by lia. reflexivity.
  - change (read_header_lines (l :: rest) n acc)
      with (if startswith (rstrip_crlf l) [HASH]
            then read_header_lines rest (n + 1) (acc ++ [rstrip_crlf l])
            else (acc, Some (rstrip_crlf l), n + 1, rest)).
    change (split_file (l :: rest))
      with (if is_pragma l then let '(h, t) := split_file rest in (l :: h, t) else ([], Some (l, rest))).
    unfold is_pragma. destruct (startswith (rstrip_crlf l) [HASH]).
    + rewrite IH. destruct (split_file rest) as [h t]. cbn [fst snd length map].
      rewrite <- app_assoc. cbn [app].
      replace (n + 1 + Z.of_nat (length h)) with (n + Z.of_nat (S (length h))) by lia.
      reflexivity.
    + cbn [fst snd length map]. rewrite app_nil_r. replace (n + Z.of_nat 0 + 1) with (n + 1) by lia. reflexivity.
Qed.

Lemma split_file_app (ls : list str) :
  let '(h, t) := split_file ls in
  ls = h ++ match t with Some (c, d) => c :: d | None => [] end.
Proof.
  induction ls as [|l rest IH]; [reflexivity|].
  change (split_file (l :: rest))
    with (if is_pragma l then let '(h, t) := split_file rest in (l :: h, t) else ([], Some (l, rest))).
  destruct (is_pragma l); [|reflexivity].
  destruct (split_file rest) as [h t]. cbn [app]. now rewrite <- IH.
Qed.

Section ReaderTotal.
  Context {C W : Type}.
  Variable sem : colsem C W.
  Notation cls := (cls C).
  Notation scheme := (scheme cls).
  Notation mrec := (mrec C W).
  Notation payload := (payload C W).
  Variable registry : list scheme.
  Context {K : Type}.
  Variable key_of : sorder -> list str -> rec payload -> res K.
  Variable key_lt : K -> K -> bool.
  Hypothesis key_total : forall o cs r, match key_of o cs r with Ok _ => True | Raise e => e = ValueError end.
  Notation iterate := (iterate sem key_of key_lt).

  (* schemes are dicts: their column names are distinct *)
  Definition scheme_wf (s : scheme) : Prop := NoDup (s_names s).

  (* one parsed line: a record at that line whose errors all carry the line
     number, or (Strict only) the format exception *)
  Lemma from_line_cases (s : scheme) cur ln m lg :
    scheme_wf s ->
    (exists lg' r, from_line sem cur None (Some s) ln (Some m) lg = (lg', Ok r) /\
                   mline r = ln /\ at_line ln (merrs r)) \/
    (m = Strict /\ exists e0, from_line sem cur None (Some s) ln (Some m) lg = ([], Raise (format_of e0))).
  Proof.
    intros Hwf. destruct (fl_core_total sem s cur ln Hwf) as (cols & errs & E & Hat).
    rewrite from_line_unfold. unfold finish. rewrite E.
    destruct m.
    - destruct errs as [|e0 er].
      + left. simpl. eexists _, _. split; [reflexivity|]. split; [reflexivity|constructor].
      + right. split; [reflexivity|]. exists e0. reflexivity.
    - left. rewrite process_lenient. simpl. eexists _, _. split; [reflexivity|]. split; [reflexivity|exact Hat].
    - left. rewrite process_silent. simpl. eexists _, _. split; [reflexivity|]. split; [reflexivity|exact Hat].
  Qed.

  Lemma check_order_raises o cs last r e :
    check_order key_of key_lt o cs last r = Raise e -> e = ValueError /\ sortable o = true.
  Proof.
    intros H. split; [eapply check_order_not_format; eauto|].
    unfold check_order in H. destruct last as [lr|]; [|discriminate].
    destruct (mrec_truthy lr); simpl in H; [|discriminate].
    destruct (sortable o); [reflexivity|discriminate].
  Qed.

  (* how an iteration can end, and how many records it yields; every yielded
     record carries the physical number of its line, as do its errors *)
  Lemma iterate_total pending : forall cur n (s : scheme) m o cs last,
    scheme_wf s ->
    let t := iterate cur n pending (Some s) m o cs last in
    match tr_end t with
    | EndStop => length (tr_recs t) = S (length pending)
    | EndRaise (MafFormat _ _) => m = Strict
    | EndRaise ValueError => sortable o = true
    | EndRaise _ => False
    end /\
    (forall j rj, nth_error (tr_recs t) j = Some rj ->
       mline rj = Some (n + Z.of_nat j) /\ at_line (Some (n + Z.of_nat j)) (merrs rj) /\
       exists lg, from_line sem (nth j (cur :: map rstrip_crlf pending) []) None (Some s)
                            (Some (n + Z.of_nat j)) (Some m) LgRoot = (lg, Ok rj)) /\
    (exists tail, tr_errs t = concat (map (@merrs C W) (tr_recs t)) ++ tail /\
                  at_line (Some (n + Z.of_nat (length (tr_recs t)))) tail).
  Proof.
    induction pending as [|l pending IH]; intros cur n s m o cs last Hwf; cbv zeta;
      rewrite iterate_eq;
      destruct (from_line_cases s cur (Some n) m LgRoot Hwf) as [(lg & r & E & Hl & Hat)|(-> & e0 & E)];
      rewrite E.
    - (* last line, parsed *)
      destruct (check_order key_of key_lt o cs last r) as [[]|e] eqn:EC;
        unfold tr_end, tr_recs, tr_errs; simpl.
      + split; [reflexivity|]. split.
        * intros [|[|j]] rj Hj; try discriminate. injection Hj as <-. simpl.
          rewrite Z.add_0_r. split; [exact Hl|]. split; [exact Hat|]. exists lg. exact E.
        * exists []. rewrite !app_nil_r. split; [reflexivity|constructor].
      + apply check_order_raises in EC as [-> Hs]. split; [exact Hs|]. split.
        * intros [|j] rj; discriminate.
        * exists (merrs r). split; [reflexivity|]. simpl. now rewrite Z.add_0_r.
    - (* last line, Strict failure *)
      unfold tr_end, tr_recs, tr_errs; simpl. split; [reflexivity|]. split.
      + intros [|j] rj; discriminate.
      + exists []. split; [reflexivity|constructor].
    - (* a line pending, parsed *)
      destruct (check_order key_of key_lt o cs last r) as [[]|e] eqn:EC.
      + specialize (IH (rstrip_crlf l) (n + 1) s m o cs (Some r) Hwf). cbv zeta in IH.
        destruct IH as (I1 & I2 & (tail & I3 & I4)).
        unfold tr_end, tr_recs, tr_errs in *; simpl. split; [|split].
        * destruct (snd (fst (iterate (rstrip_crlf l) (n + 1) pending (Some s) m o cs (Some r)))) as [|ex]; [|exact I1].
          simpl. now rewrite I1.
        * intros [|j] rj Hj; simpl in Hj.
          -- injection Hj as <-. rewrite Z.add_0_r. split; [exact Hl|]. split; [exact Hat|]. exists lg. exact E.
          -- destruct (I2 j rj Hj) as (J1 & J2 & J3).
             replace (n + Z.of_nat (S j)) with (n + 1 + Z.of_nat j) by lia.
             split; [exact J1|]. split; [exact J2|]. exact J3.
        * exists tail. rewrite I3. simpl. rewrite <- app_assoc. split; [reflexivity|].
          replace (n + Z.pos (Pos.of_succ_nat (length (snd (fst (fst (iterate (rstrip_crlf l) (n + 1) pending (Some s) m o cs (Some r))))))))
            with (n + 1 + Z.of_nat (length (snd (fst (fst (iterate (rstrip_crlf l) (n + 1) pending (Some s) m o cs (Some r))))))) by lia.
          exact I4.
      + apply check_order_raises in EC as [-> Hs].
        unfold tr_end, tr_recs, tr_errs; simpl. split; [exact Hs|]. split.
        * intros [|j] rj; discriminate.
        * exists (merrs r). split; [reflexivity|]. simpl. now rewrite Z.add_0_r.
    - unfold tr_end, tr_recs, tr_errs; simpl. split; [reflexivity|]. split.
      + intros [|j] rj; discriminate.
      + exists []. split; [reflexivity|constructor].
  Qed.
End ReaderTotal.
