(* SchemeFactoryFacts.v - facts about the dict discipline and about
   combine_columns: on a base dict with distinct keys and a definition that
   declares every column once, the model's combine_columns computes exactly
   Spec.spec_combine (and fails exactly when that is undefined). *)
From Coq Require Import Permutation.
From MafVerif Require Import lib.Base lib.Str model.SchemeFactory spec.SpecSchemes.

(* ---------- association lists ---------- *)
Section AssocFacts.
  Context {V : Type}.
  Implicit Types (d : list (str * V)).

  Lemma assoc_in k d v : assoc k d = Some v -> In (k, v) d.
  Proof.
    induction d as [|[k' v'] r IH]; simpl; [discriminate|].
    destruct (str_eqb k k') eqn:E.
    - intros H; inversion H; subst. apply str_eqb_eq in E; subst. now left.
    - intros H; right; auto.
  Qed.

  Lemma assoc_none_iff k d : assoc k d = None <-> ~ In k (map fst d).
  Proof.
    induction d as [|[k' v'] r IH]; simpl; [tauto|].
    destruct (str_eqb k k') eqn:E.
    - apply str_eqb_eq in E; subst. split; [discriminate|intros H; exfalso; apply H; now left].
    - apply str_eqb_neq in E. rewrite IH. split; [intros H [H1|H1]; [congruence|auto]|tauto].
  Qed.

  Lemma assoc_some_in_keys k d v : assoc k d = Some v -> In k (map fst d).
  Proof. intros H. apply assoc_in in H. now apply (in_map fst) in H. Qed.

  Lemma is_none_assoc k d : is_none (assoc k d) = negb (mem k (map fst d)).
  Proof.
    destruct (assoc k d) eqn:E; simpl.
    - apply assoc_some_in_keys in E. symmetry; apply negb_false_iff.
      unfold mem. apply existsb_exists. exists k; split; [auto|apply str_eqb_refl].
    - apply assoc_none_iff in E. symmetry; apply negb_true_iff.
      destruct (mem k (map fst d)) eqn:M; [|reflexivity].
      unfold mem in M. apply existsb_exists in M. destruct M as [x [Hx Hk]].
      apply str_eqb_eq in Hk; subst. contradiction.
  Qed.

  Lemma assoc_nodup_in k v d : NoDup (map fst d) -> In (k, v) d -> assoc k d = Some v.
  Proof.
    induction d as [|[k' v'] r IH]; simpl; [tauto|].
    intros ND [H|H].
    - inversion H; subst. now rewrite str_eqb_refl.
    - inversion ND as [|? ? Hn NDr]; subst. destruct (str_eqb k k') eqn:E.
      + apply str_eqb_eq in E; subst. exfalso. apply Hn. now apply (in_map fst) in H.
      + auto.
  Qed.

  Lemma dset_absent k v d : assoc k d = None -> dset k v d = d ++ [(k, v)].
  Proof.
    induction d as [|[k' v'] r IH]; simpl; [reflexivity|].
    destruct (str_eqb k k'); [discriminate|]. intros H. now rewrite IH.
  Qed.

  Lemma dset_present_map k v d :
    NoDup (map fst d) -> In k (map fst d) ->
    dset k v d = map (fun kv => if str_eqb k (fst kv) then (k, v) else kv) d.
  Proof.
    induction d as [|[k' v'] r IH]; simpl; [tauto|].
    intros ND Hin. inversion ND as [|? ? Hn NDr]; subst. destruct (str_eqb k k') eqn:E.
    - apply str_eqb_eq in E; subst. f_equal.
      rewrite <- (map_id r) at 1. apply map_ext_in. intros [k2 v2] Hk2.
      simpl. destruct (str_eqb k' k2) eqn:E2; [|reflexivity].
      apply str_eqb_eq in E2; subst. exfalso. apply Hn. now apply (in_map fst) in Hk2.
    - f_equal. apply IH; [assumption|]. destruct Hin as [Hin|Hin]; [|assumption].
      subst. now rewrite str_eqb_refl in E.
  Qed.
End AssocFacts.

Lemma mem_in x l : mem x l = true <-> In x l.
Proof.
  unfold mem. rewrite existsb_exists. split.
  - intros [y [Hy E]]. apply str_eqb_eq in E; now subst.
  - intros H. exists x; split; [assumption|apply str_eqb_refl].
Qed.

Lemma mem_false x l : mem x l = false <-> ~ In x l.
Proof. rewrite <- mem_in. destruct (mem x l); split; congruence. Qed.

(* ---------- opt_all ---------- *)
Lemma opt_all_some {X} (l : list X) : opt_all (map Some l) = Some l.
Proof. induction l; simpl; [reflexivity|now rewrite IHl]. Qed.

Lemma opt_all_none {X Y} (f : X -> option Y) l x :
  In x l -> f x = None -> opt_all (map f l) = None.
Proof.
  induction l as [|y r IH]; simpl; [tauto|].
  intros [H|H] Hx.
  - subst. now rewrite Hx.
  - destruct (f y); [|reflexivity]. now rewrite IH.
Qed.

Lemma opt_all_map_inv {X Y} (f : X -> option Y) l o :
  opt_all (map f l) = Some o -> Forall2 (fun x y => f x = Some y) l o.
Proof.
  revert o. induction l as [|x r IH]; simpl; intros o H.
  - inversion H. constructor.
  - destruct (f x) eqn:E; [|discriminate].
    destruct (opt_all (map f r)) eqn:E2; [|discriminate].
    inversion H; subst. constructor; auto.
Qed.

Lemma filter_nil_forallb {X} (p : X -> bool) l :
  filter p l = [] <-> forallb (fun x => negb (p x)) l = true.
Proof.
  induction l as [|x r IH]; simpl; [tauto|].
  destruct (p x); simpl; [split; discriminate|exact IH].
Qed.

Lemma NoDup_map_filter {X Y} (f : X -> Y) (p : X -> bool) l :
  NoDup (map f l) -> NoDup (map f (filter p l)).
Proof.
  induction l as [|x r IH]; simpl; [auto|].
  intros ND. inversion ND as [|? ? Hn NDr]; subst. destruct (p x); simpl; [|auto].
  constructor; [|auto]. intros H. apply Hn.
  apply in_map_iff in H. destruct H as [y [Hy Hin]]. apply filter_In in Hin.
  apply in_map_iff. exists y; tauto.
Qed.

Lemma forallb_ext' {X} (f g : X -> bool) l : (forall x, f x = g x) -> forallb f l = forallb g l.
Proof. intros H. induction l; simpl; [reflexivity|now rewrite H, IHl]. Qed.

Lemma NoDup_app_intro' {X} (l1 l2 : list X) :
  NoDup l1 -> NoDup l2 -> (forall x, In x l1 -> In x l2 -> False) -> NoDup (l1 ++ l2).
Proof.
  induction l1 as [|a r IH]; simpl; intros N1 N2 D; [assumption|].
  inversion N1 as [|? ? Hn Nr]; subst. constructor.
  - rewrite in_app_iff. intros [H|H]; [contradiction|]. eapply D; [left; reflexivity|exact H].
  - apply IH; auto. intros x H1 H2. eapply D; [right; exact H1|exact H2].
Qed.

Section Combine.
  Variable mixok : cls -> cls -> bool.

  Lemma override1_nil b : override1 mixok [] b = Some b.
  Proof. reflexivity. Qed.

  Lemma override1_fst extras b b' : override1 mixok extras b = Some b' -> fst b' = fst b.
  Proof.
    unfold override1. destruct (find _ extras); [|intros H; now inversion H].
    destruct (mixok _ _); [|discriminate]. intros H; now inversion H.
  Qed.

  Lemma override1_keys extras base over :
    opt_all (map (override1 mixok extras) base) = Some over -> map fst over = map fst base.
  Proof.
    intros H. apply opt_all_map_inv in H. induction H; simpl; [reflexivity|].
    f_equal; [now apply override1_fst in H|assumption].
  Qed.

  Lemma override1_skip e r b :
    str_eqb (cname e) (fst b) = false -> override1 mixok (e :: r) b = override1 mixok r b.
  Proof. intros H. unfold override1. simpl. now rewrite H. Qed.

  (* the loop that mixes redefinitions into the base dict *)
  Lemma mix_extras_spec extras : forall cols,
    NoDup (map cname extras) -> NoDup (map fst cols) ->
    mix_extras mixok cols extras =
    match opt_all (map (override1 mixok extras) cols) with
    | Some o => Ok o
    | None => Raise TypeError
    end.
  Proof.
    induction extras as [|e r IH]; intros cols NDe NDc.
    - simpl. erewrite map_ext; [|apply override1_nil]. now rewrite opt_all_some.
    - simpl. inversion NDe as [|? ? Hnotin NDr]; subst.
      destruct (assoc (cname e) cols) as [b0|] eqn:A.
      + unfold extend_class. destruct (mixok (ccls e) (ccls b0)) eqn:M; simpl.
        * assert (Hk : In (cname e) (map fst cols)) by (eapply assoc_some_in_keys; eauto).
          rewrite (dset_present_map _ _ _ NDc Hk).
          rewrite IH; [|assumption|].
          2:{ rewrite map_map. erewrite map_ext; [exact NDc|].
              intros [k v]; simpl. destruct (str_eqb (cname e) k) eqn:E; [|reflexivity].
              apply str_eqb_eq in E; now subst. }
          rewrite map_map.
          erewrite (map_ext_in _ (override1 mixok (e :: r))); [reflexivity|].
          intros [k v] Hin. simpl. destruct (str_eqb (cname e) k) eqn:E.
          -- apply str_eqb_eq in E; subst k.
             assert (v = b0).
             { pose proof (assoc_nodup_in _ _ _ NDc Hin) as H1. congruence. }
             subst v. unfold override1 at 2. simpl. rewrite str_eqb_refl. simpl. rewrite M.
             unfold override1. simpl.
             destruct (find (fun e0 => str_eqb (cname e0) (cname e)) r) eqn:F; [|reflexivity].
             apply find_some in F. destruct F as [F1 F2]. apply str_eqb_eq in F2.
             exfalso. apply Hnotin. rewrite <- F2. now apply in_map.
          -- symmetry. now apply override1_skip.
        * assert (Hin : In (cname e, b0) cols) by (now apply assoc_in).
          rewrite (opt_all_none _ _ _ Hin); [reflexivity|].
          unfold override1. simpl. rewrite str_eqb_refl. simpl. now rewrite M.
      + rewrite IH by assumption.
        erewrite (map_ext_in _ (override1 mixok (e :: r))); [reflexivity|].
        intros [k v] Hin. symmetry. apply override1_skip. simpl.
        apply str_eqb_neq. intros E. apply assoc_none_iff in A. apply A.
        rewrite E. now apply (in_map fst) in Hin.
  Qed.

  Lemma dict_update_fresh news : forall cols,
    NoDup (map cname news) -> (forall c, In c news -> ~ In (cname c) (map fst cols)) ->
    dict_update cols news = cols ++ map (fun e => (cname e, e)) news.
  Proof.
    induction news as [|c r IH]; intros cols ND Hf; simpl.
    - now rewrite app_nil_r.
    - inversion ND as [|? ? Hn NDr]; subst.
      rewrite dset_absent by (apply assoc_none_iff; apply Hf; now left).
      rewrite IH; [now rewrite <- app_assoc| assumption |].
      intros c' Hc'. rewrite map_app, in_app_iff. simpl. intros [H|[H|[]]].
      + eapply Hf; [right; eassumption|assumption].
      + apply Hn. rewrite H. now apply in_map.
  Qed.

  (* combine_columns against the specification *)
  Theorem combine_spec base extras filtered :
    NoDup (map cname extras) -> NoDup (map fst base) ->
    match combine_columns mixok base extras filtered with
    | Ok r => spec_combine mixok base extras filtered = Some r
    | Raise _ => spec_combine mixok base extras filtered = None
    end.
  Proof.
    intros NDe NDb. unfold combine_columns, spec_combine.
    rewrite mix_extras_spec by assumption.
    destruct (opt_all (map (override1 mixok extras) base)) as [over|] eqn:O; simpl; [|reflexivity].
    pose proof (override1_keys _ _ _ O) as K.
    assert (Fe : filter (fun c => is_none (assoc (cname c) over)) extras
                 = filter (fun e => negb (mem (cname e) (map fst base))) extras).
    { apply filter_ext. intros c. now rewrite is_none_assoc, K. }
    rewrite Fe.
    set (news := filter (fun e => negb (mem (cname e) (map fst base))) extras).
    assert (U : dict_update over news = over ++ map (fun e => (cname e, e)) news).
    { apply dict_update_fresh.
      - now apply NoDup_map_filter.
      - intros c Hc. apply filter_In in Hc. destruct Hc as [_ Hc].
        apply negb_true_iff, mem_false in Hc. now rewrite K. }
    rewrite U.
    destruct filtered as [fl|]; [|reflexivity].
    set (all := over ++ map (fun e => (cname e, e)) news).
    assert (Q : forallb (fun f => mem f (map fst all)) fl
                = forallb (fun x => negb (is_none (assoc x all))) fl).
    { apply forallb_ext'. intros f. rewrite is_none_assoc. now rewrite negb_involutive. }
    rewrite Q. clear Q.
    destruct (filter (fun f => is_none (assoc f all)) fl) eqn:F.
    - apply filter_nil_forallb in F. rewrite F. reflexivity.
    - destruct (forallb (fun x => negb (is_none (assoc x all))) fl) eqn:B; [|reflexivity].
      apply filter_nil_forallb in B. congruence.
  Qed.

  (* the result of a defined combination is again a dict with distinct keys *)
  Lemma spec_combine_nodup base extras filtered r :
    NoDup (map cname extras) -> NoDup (map fst base) ->
    spec_combine mixok base extras filtered = Some r -> NoDup (map fst r).
  Proof.
    intros NDe NDb. unfold spec_combine.
    destruct (opt_all (map (override1 mixok extras) base)) as [over|] eqn:O; [|discriminate].
    pose proof (override1_keys _ _ _ O) as K.
    set (news := filter (fun e => negb (mem (cname e) (map fst base))) extras).
    assert (NDall : NoDup (map fst (over ++ map (fun e => (cname e, e)) news))).
    { rewrite map_app, map_map. simpl. rewrite K.
      apply NoDup_app_intro'; [assumption| now apply NoDup_map_filter |].
      intros x Hx Hy. apply in_map_iff in Hy. destruct Hy as [c [Hc Hin]].
      apply filter_In in Hin. destruct Hin as [_ Hin].
      apply negb_true_iff, mem_false in Hin. subst. contradiction. }
    destruct filtered as [fl|].
    - destruct (forallb _ fl); [|discriminate]. intros H; inversion H; subst.
      now apply NoDup_map_filter.
    - intros H; inversion H; now subst.
  Qed.
End Combine.
