(* SchemeBuildFacts.v - the work-list loop of build_schemes.
   Invariant (DESIGN B.3): every built entry is the layout of its definition
   (by recursion on ancestry), every unbuilt definition is still in the list.
   Consequences: build_schemes succeeds exactly on well-formed sets, the
   result is a function of the set, so it is invariant under permutation. *)
From Coq Require Import Permutation.
From MafVerif Require Import lib.Base lib.Str model.SchemeFactory spec.SpecSchemes
     proofs.SchemeFactoryFacts.

(* ---------- layout by recursion on ancestry, for any combination function ---------- *)
Section Generic.
  Variable comb : col_dict -> list column -> option (list str) -> option col_dict.

  Fixpoint glayout (fuel : nat) (ds : list datum) (d : datum) : option col_dict :=
    match fuel with
    | O => None
    | S f =>
        match base_name d with
        | None => comb [] (dcolumns d) (dfiltered d)
        | Some b =>
            match lookup_def ds b with
            | None => None
            | Some p =>
                match glayout f ds p with
                | None => None
                | Some bl => comb bl (dcolumns d) (dfiltered d)
                end
            end
        end
    end.

  Lemma glayout_mono n : forall ds d l, glayout n ds d = Some l -> glayout (S n) ds d = Some l.
  Proof.
    induction n as [|n IH]; intros ds d l H; [discriminate|].
    simpl in H. change (glayout (S (S n)) ds d) with
      (match base_name d with
       | None => comb [] (dcolumns d) (dfiltered d)
       | Some b => match lookup_def ds b with
                   | None => None
                   | Some p => match glayout (S n) ds p with
                               | None => None
                               | Some bl => comb bl (dcolumns d) (dfiltered d)
                               end
                   end
       end).
    destruct (base_name d); [|assumption].
    destruct (lookup_def ds s); [|discriminate].
    destruct (glayout n ds d0) eqn:E; [|discriminate].
    now rewrite (IH _ _ _ E).
  Qed.

  Lemma glayout_mono_le n m ds d l : (n <= m)%nat -> glayout n ds d = Some l -> glayout m ds d = Some l.
  Proof. intros Hle. induction Hle; intros H0; [assumption|]. apply glayout_mono; auto. Qed.

  Lemma glayout_det n m ds d l l' :
    glayout n ds d = Some l -> glayout m ds d = Some l' -> l = l'.
  Proof.
    intros H1 H2.
    apply (glayout_mono_le n (Nat.max n m)) in H1; [|apply Nat.le_max_l].
    apply (glayout_mono_le m (Nat.max n m)) in H2; [|apply Nat.le_max_r].
    congruence.
  Qed.

  (* a definition whose base is laid out but whose own combination is
     undefined stays undefined at every fuel *)
  Lemma glayout_undefined_forever k ds d :
    glayout (S k) ds d = None ->
    (forall b p, base_name d = Some b -> lookup_def ds b = Some p -> glayout k ds p <> None) ->
    forall n, glayout n ds d = None.
  Proof.
    intros H Hb n. destruct n as [|n]; [reflexivity|].
    simpl in *. destruct (base_name d) as [b|]; [|exact H].
    destruct (lookup_def ds b) as [p|] eqn:Lk; [|reflexivity].
    specialize (Hb b p eq_refl Lk).
    destruct (glayout k ds p) as [bl|] eqn:Lp; [|congruence].
    destruct (glayout n ds p) as [bl'|] eqn:Lp'; [|reflexivity].
    now rewrite (glayout_det _ _ _ _ _ _ Lp' Lp).
  Qed.
End Generic.

(* ---------- lookup_def ---------- *)
Lemma lookup_def_some ds a d : lookup_def ds a = Some d -> In d ds /\ dannot d = a.
Proof.
  unfold lookup_def. intros H. apply find_some in H. destruct H as [H1 H2].
  apply str_eqb_eq in H2. auto.
Qed.

Lemma lookup_def_none ds a : lookup_def ds a = None -> forall d, In d ds -> dannot d <> a.
Proof.
  unfold lookup_def. intros H d Hd E. pose proof (find_none _ _ H d Hd) as F.
  simpl in F. rewrite E, str_eqb_refl in F. discriminate.
Qed.

Lemma nodup_annot_inj ds d1 d2 :
  NoDup (map dannot ds) -> In d1 ds -> In d2 ds -> dannot d1 = dannot d2 -> d1 = d2.
Proof.
  induction ds as [|x r IH]; simpl; [tauto|].
  intros ND H1 H2 E. inversion ND as [|? ? Hn NDr]; subst.
  destruct H1 as [H1|H1], H2 as [H2|H2]; subst; auto.
  - exfalso. apply Hn. rewrite E. now apply in_map.
  - exfalso. apply Hn. rewrite <- E. now apply in_map.
Qed.

Lemma lookup_def_in ds d : NoDup (map dannot ds) -> In d ds -> lookup_def ds (dannot d) = Some d.
Proof.
  intros ND Hd. destruct (lookup_def ds (dannot d)) as [p|] eqn:L.
  - apply lookup_def_some in L. destruct L as [L1 L2].
    f_equal. eapply nodup_annot_inj; eauto.
  - exfalso. eapply lookup_def_none; eauto.
Qed.

Lemma lookup_def_perm ds ds' a :
  NoDup (map dannot ds) -> Permutation ds ds' -> lookup_def ds a = lookup_def ds' a.
Proof.
  intros ND P.
  assert (ND' : NoDup (map dannot ds')) by (eapply Permutation_NoDup; [apply Permutation_map; exact P|exact ND]).
  destruct (lookup_def ds a) as [d|] eqn:L.
  - apply lookup_def_some in L. destruct L as [L1 L2]. subst a.
    symmetry. apply lookup_def_in; [assumption|]. eapply Permutation_in; eauto.
  - destruct (lookup_def ds' a) as [d|] eqn:L'; [|reflexivity].
    apply lookup_def_some in L'. destruct L' as [L1 L2].
    exfalso. eapply lookup_def_none; [exact L| |exact L2].
    eapply Permutation_in; [apply Permutation_sym; exact P|exact L1].
Qed.

Lemma glayout_perm comb ds ds' :
  NoDup (map dannot ds) -> Permutation ds ds' ->
  forall n d, glayout comb n ds d = glayout comb n ds' d.
Proof.
  intros ND P. induction n as [|n IH]; intros d; [reflexivity|].
  simpl. destruct (base_name d); [|reflexivity].
  rewrite <- (lookup_def_perm ds ds' s ND P).
  destruct (lookup_def ds s); [|reflexivity]. now rewrite IH.
Qed.

(* ---------- pick ---------- *)
Section Loop.
  Variable mixok : cls -> cls -> bool.

  Definition mcomb (b : col_dict) (e : list column) (f : option (list str)) : option col_dict :=
    match combine_columns mixok b e f with Ok r => Some r | Raise _ => None end.

  Notation lay := (glayout mcomb).

  Lemma buildable_spec schemes d :
    buildable schemes d = match base_name d with
                          | None => true
                          | Some b => is_some (assoc b schemes)
                          end.
  Proof. unfold buildable, base_name. destruct (dextends d) as [[|c e]|]; reflexivity. Qed.

  Lemma pick_some schemes data d rest :
    pick schemes data = Some (d, rest) ->
    exists l1 l2, data = l1 ++ d :: l2 /\ rest = l1 ++ l2 /\ buildable schemes d = true.
  Proof.
    revert d rest. induction data as [|x r IH]; simpl; intros d rest H; [discriminate|].
    destruct (buildable schemes x) eqn:B.
    - inversion H; subst. exists [], rest. auto.
    - destruct (pick schemes r) as [[y r']|] eqn:P; [|discriminate].
      inversion H; subst. destruct (IH _ _ eq_refl) as [l1 [l2 [E1 [E2 E3]]]].
      exists (x :: l1), l2. subst. auto.
  Qed.

  Lemma pick_none schemes data :
    pick schemes data = None -> forall x, In x data -> buildable schemes x = false.
  Proof.
    induction data as [|x r IH]; simpl; intros H y Hy; [tauto|].
    destruct (buildable schemes x) eqn:B; [discriminate|].
    destruct (pick schemes r) as [[z r']|] eqn:P; [discriminate|].
    destruct Hy as [Hy|Hy]; [now subst|auto].
  Qed.

  Definition sch (d : datum) (l : col_dict) : bscheme :=
    {| bversion := dversion d; bannot := dannot d; bcols := l |}.

  (* ---------- keys: whatever the definitions are, a successful build has one
     entry per definition and distinct keys ---------- *)
  Lemma build_scheme_class_annot d base sc :
    build_scheme_class mixok d base = Ok sc ->
    exists l, sc = sch d l /\
      combine_columns mixok (match base with Some b => bcols b | None => [] end)
                      (dcolumns d) (dfiltered d) = Ok l.
  Proof.
    unfold build_scheme_class.
    destruct (combine_columns mixok _ (dcolumns d) (dfiltered d)) as [l|e]; simpl; [|discriminate].
    intros H; inversion H; subst. exists l. auto.
  Qed.

  Lemma loop_keys fuel : forall schemes data m,
    build_loop mixok fuel schemes data = Ok m ->
    NoDup (map fst schemes) ->
    NoDup (map fst m) /\ Permutation (map fst m) (map fst schemes ++ map dannot data).
  Proof.
    induction fuel as [|fuel IH]; intros schemes data m H ND.
    - destruct data; simpl in H; [|discriminate]. inversion H; subst.
      simpl. rewrite app_nil_r. auto.
    - destruct data as [|x0 r0]; [simpl in H; inversion H; subst; simpl; rewrite app_nil_r; auto|].
      cbn [build_loop] in H. destruct (pick schemes (x0 :: r0)) as [[d rest]|] eqn:P; [|discriminate].
      set (base := match dextends d with Some (c :: e) => assoc (c :: e) schemes | _ => None end) in H.
      destruct (build_scheme_class mixok d base) as [sc|e] eqn:B; simpl in H; [|discriminate].
      destruct (build_scheme_class_annot _ _ _ B) as [l [Hsc _]].
      destruct (assoc (bannot sc) schemes) eqn:A; simpl in H; [discriminate|].
      rewrite (dset_absent _ _ _ A) in H.
      apply IH in H.
      2:{ rewrite map_app. simpl. apply NoDup_app_intro'; auto.
          - constructor; [intros []|constructor].
          - intros x H1 [H2|[]]. subst x. apply assoc_none_iff in A. contradiction. }
      destruct H as [H1 H2]. split; [assumption|].
      eapply Permutation_trans; [exact H2|].
      destruct (pick_some _ _ _ _ P) as [l1 [l2 [E1 [E2 _]]]].
      rewrite E1, E2, Hsc. simpl. rewrite !map_app. simpl.
      rewrite <- app_assoc. apply Permutation_app_head. simpl.
      apply Permutation_middle.
  Qed.

  Lemma build_ok_nodup ds m :
    build_schemes mixok ds = Ok m ->
    NoDup (map dannot ds) /\ Permutation (map fst m) (map dannot ds).
  Proof.
    unfold build_schemes. intros H. apply loop_keys in H; [|constructor].
    simpl in H. destruct H as [H1 H2]. split; [|assumption].
    eapply Permutation_NoDup; eauto.
  Qed.

  (* ---------- the invariant, for a set with distinct annotations ---------- *)
  Section Inv.
    Variable ds : list datum.
    Hypothesis Hnd : NoDup (map dannot ds).

    Record Inv (schemes : list (str * bscheme)) (data : list datum) : Prop := {
      inv_perm : Permutation (map fst schemes ++ map dannot data) (map dannot ds);
      inv_sub : incl data ds;
      inv_built : forall a sc, In (a, sc) schemes ->
                  exists d l, In d ds /\ dannot d = a /\ sc = sch d l /\
                              lay (length schemes) ds d = Some l }.

    Definition undefined_somewhere : Prop := exists d, In d ds /\ forall n, lay n ds d = None.

    Lemma inv_nodup schemes data : Inv schemes data -> NoDup (map fst schemes ++ map dannot data).
    Proof. intros I. eapply Permutation_NoDup; [apply Permutation_sym; apply inv_perm; eauto|exact Hnd]. Qed.

    (* the layout of the picked definition, one level above what is built *)
    Lemma lay_step schemes data d :
      Inv schemes data -> In d ds -> buildable schemes d = true ->
      lay (S (length schemes)) ds d =
      mcomb (match (match dextends d with Some (c :: e) => assoc (c :: e) schemes | _ => None end) with
             | Some b => bcols b | None => [] end) (dcolumns d) (dfiltered d).
    Proof.
      intros I Hd B. rewrite buildable_spec in B. simpl.
      unfold base_name in *. destruct (dextends d) as [[|c e]|]; try reflexivity.
      destruct (assoc (c :: e) schemes) as [bsc|] eqn:A; [|discriminate].
      apply assoc_in in A. destruct (inv_built _ _ I _ _ A) as [p [bl [Hp [Ea [Es Hl]]]]].
      rewrite <- Ea. rewrite (lookup_def_in _ _ Hnd Hp). rewrite Hl. subst bsc. reflexivity.
    Qed.

    Lemma loop_main fuel : forall schemes data,
      (length data <= fuel)%nat -> Inv schemes data ->
      match build_loop mixok fuel schemes data with
      | Ok m => Inv m []
      | Raise _ => undefined_somewhere
      end.
    Proof.
      induction fuel as [|fuel IH]; intros schemes data Hlen I.
      - destruct data; [simpl; exact I|simpl in Hlen; lia].
      - destruct data as [|x0 r0]; [simpl; exact I|].
        cbn [build_loop]. remember (x0 :: r0) as data eqn:Edata.
        destruct (pick schemes data) as [[d rest]|] eqn:P.
        + destruct (pick_some _ _ _ _ P) as [l1 [l2 [E1 [E2 Bd]]]].
          assert (Hd : In d ds).
          { apply (inv_sub _ _ I). rewrite E1. apply in_or_app. right. now left. }
          pose proof (lay_step _ _ _ I Hd Bd) as LS.
          set (base := match dextends d with Some (c :: e) => assoc (c :: e) schemes | _ => None end) in *.
          unfold build_scheme_class.
          unfold mcomb in LS.
          destruct (combine_columns mixok (match base with Some b => bcols b | None => [] end)
                                    (dcolumns d) (dfiltered d)) as [l|e] eqn:C; simpl.
          * (* built *)
            assert (A : assoc (dannot d) schemes = None).
            { apply assoc_none_iff. intros Hin.
              pose proof (inv_nodup _ _ I) as ND. rewrite E1 in ND.
              rewrite map_app in ND. simpl in ND. rewrite app_assoc in ND.
              apply NoDup_remove_2 in ND. apply ND. apply in_or_app. left.
              apply in_or_app. now left. }
            rewrite A. simpl. rewrite (dset_absent _ _ _ A).
            apply IH.
            { rewrite E2. rewrite E1 in Hlen. rewrite app_length in *. simpl in Hlen. lia. }
            constructor.
            -- eapply Permutation_trans; [|apply (inv_perm _ _ I)].
               rewrite E1, E2. rewrite !map_app. simpl. rewrite <- app_assoc.
               apply Permutation_app_head. simpl. apply Permutation_middle.
            -- intros x Hx. apply (inv_sub _ _ I). rewrite E1. rewrite E2 in Hx.
               apply in_app_or in Hx. apply in_or_app. destruct Hx; [now left|right; now right].
            -- intros a sc Hin. rewrite app_length. simpl. rewrite Nat.add_1_r.
               apply in_app_or in Hin. destruct Hin as [Hin|[Hin|[]]].
               ++ destruct (inv_built _ _ I _ _ Hin) as [p [pl [Hp [Ea [Es Hl]]]]].
                  exists p, pl. repeat split; auto. now apply glayout_mono.
               ++ inversion Hin; subst. exists d, l. repeat split; auto.
          * (* the combination fails: this definition has no layout at any fuel *)
            exists d. split; [assumption|].
            apply (glayout_undefined_forever mcomb (length schemes)); [exact LS|].
            intros b p Bn Lk. rewrite buildable_spec, Bn in Bd.
            destruct (assoc b schemes) as [bsc|] eqn:A; [|discriminate].
            apply assoc_in in A. destruct (inv_built _ _ I _ _ A) as [p' [bl [Hp [Ea [Es Hl]]]]].
            rewrite <- Ea, (lookup_def_in _ _ Hnd Hp) in Lk. inversion Lk; subst p'. congruence.
        + (* stuck: every remaining definition waits for a base that is not built *)
          assert (Hall : forall n x, In x data -> lay n ds x = None).
          { induction n as [|n IHn]; intros x Hx; [reflexivity|].
            pose proof (pick_none _ _ P x Hx) as B. rewrite buildable_spec in B.
            simpl. destruct (base_name x) as [b|] eqn:Bn; [|discriminate].
            destruct (lookup_def ds b) as [p|] eqn:Lk; [|reflexivity].
            apply lookup_def_some in Lk. destruct Lk as [Hp Ea].
            assert (Hpd : In p data).
            { assert (Hb : In b (map fst schemes ++ map dannot data)).
              { eapply Permutation_in; [apply Permutation_sym; apply (inv_perm _ _ I)|].
                rewrite <- Ea. now apply in_map. }
              apply in_app_or in Hb. destruct Hb as [Hb|Hb].
              - exfalso. destruct (assoc b schemes) eqn:A; [discriminate|].
                apply assoc_none_iff in A. contradiction.
              - apply in_map_iff in Hb. destruct Hb as [p' [Ep' Hp']].
                assert (p' = p).
                { eapply nodup_annot_inj; eauto. apply (inv_sub _ _ I); auto. congruence. }
                now subst. }
            now rewrite (IHn _ Hpd). }
          exists x0. split.
          * apply (inv_sub _ _ I). rewrite Edata. now left.
          * intros n. apply Hall. rewrite Edata. now left.
    Qed.
  End Inv.

  (* ---------- model-level well-formedness and the dichotomy ---------- *)
  Definition mwf (ds : list datum) : Prop :=
    NoDup (map dannot ds) /\ forall d, In d ds -> exists l, lay (length ds) ds d = Some l.

  Definition built_as_laid_out (ds : list datum) (m : list (str * bscheme)) : Prop :=
    Permutation (map fst m) (map dannot ds) /\ NoDup (map fst m) /\
    forall d, In d ds -> exists l, assoc (dannot d) m = Some (sch d l) /\ lay (length ds) ds d = Some l.

  Theorem build_dichotomy ds :
    match build_schemes mixok ds with
    | Ok m => mwf ds /\ built_as_laid_out ds m
    | Raise _ => ~ mwf ds
    end.
  Proof.
    destruct (build_schemes mixok ds) as [m|e] eqn:B.
    - destruct (build_ok_nodup _ _ B) as [ND PM].
      assert (I0 : Inv ds [] ds).
      { constructor; [reflexivity|apply incl_refl|intros ? ? []]. }
      pose proof (loop_main ds ND (length ds) [] ds (le_n _) I0) as M.
      unfold build_schemes in B. rewrite B in M.
      assert (NDm : NoDup (map fst m)).
      { eapply Permutation_NoDup; [apply Permutation_sym; exact PM|exact ND]. }
      assert (Len : length m = length ds).
      { rewrite <- (map_length fst m), <- (map_length dannot ds). now apply Permutation_length. }
      assert (Hall : forall d, In d ds -> exists l, assoc (dannot d) m = Some (sch d l) /\ lay (length ds) ds d = Some l).
      { intros d Hd.
        assert (Hk : In (dannot d) (map fst m)).
        { eapply Permutation_in; [apply Permutation_sym; exact PM|now apply in_map]. }
        apply in_map_iff in Hk. destruct Hk as [[a sc] [Ea Hin]]. simpl in Ea. subst a.
        destruct (inv_built _ _ _ M _ _ Hin) as [p [l [Hp [Ep [Es Hl]]]]].
        assert (p = d) by (eapply nodup_annot_inj; eauto). subst p.
        exists l. split.
        - subst sc. now apply assoc_nodup_in.
        - now rewrite <- Len. }
      split; [split; [assumption|]|split; [assumption|split; assumption]].
      intros d Hd. destruct (Hall d Hd) as [l [_ H]]. now exists l.
    - intros [ND W].
      assert (I0 : Inv ds [] ds).
      { constructor; [reflexivity|apply incl_refl|intros ? ? []]. }
      pose proof (loop_main ds ND (length ds) [] ds (le_n _) I0) as M.
      unfold build_schemes in B. rewrite B in M.
      destruct M as [d [Hd Hn]]. destruct (W d Hd) as [l Hl]. rewrite Hn in Hl. discriminate.
  Qed.

  Lemma mwf_perm ds ds' : Permutation ds ds' -> mwf ds -> mwf ds'.
  Proof.
    intros P [ND W]. split.
    - eapply Permutation_NoDup; [apply Permutation_map; exact P|exact ND].
    - intros d Hd. destruct (W d) as [l Hl].
      + eapply Permutation_in; [apply Permutation_sym; exact P|exact Hd].
      + exists l. rewrite <- (Permutation_length P).
        now rewrite <- (glayout_perm mcomb ds ds' ND P).
  Qed.

  Lemma assoc_not_key {V} a (m : list (str * V)) : ~ In a (map fst m) -> assoc a m = None.
  Proof. intros H. now apply assoc_none_iff. Qed.

  (* ---------- order independence, for every definition list ---------- *)
  Theorem build_perm ds ds' :
    Permutation ds ds' -> same_outcome (build_schemes mixok ds) (build_schemes mixok ds').
  Proof.
    intros P. pose proof (build_dichotomy ds) as D1. pose proof (build_dichotomy ds') as D2.
    destruct (build_schemes mixok ds) as [m1|e1], (build_schemes mixok ds') as [m2|e2]; simpl.
    - destruct D1 as [[ND W1] [P1 [N1 A1]]]. destruct D2 as [_ [P2 [N2 A2]]]. split.
      + intros a. destruct (in_dec (list_eq_dec N.eq_dec) a (map dannot ds)) as [Hin|Hnot].
        * apply in_map_iff in Hin. destruct Hin as [d [Ea Hd]]. subst a.
          destruct (A1 d Hd) as [l1 [E1 L1]].
          destruct (A2 d) as [l2 [E2 L2]]; [eapply Permutation_in; eauto|].
          rewrite E1, E2. f_equal. f_equal.
          rewrite <- (Permutation_length P) in L2.
          rewrite <- (glayout_perm mcomb ds ds' ND P) in L2. congruence.
        * rewrite !assoc_not_key; [reflexivity| |].
          -- intros H. apply Hnot. apply (Permutation_in _ P2) in H.
             eapply Permutation_in; [apply Permutation_sym; apply Permutation_map; exact P|exact H].
          -- intros H. apply Hnot. eapply Permutation_in; [exact P1|exact H].
      + eapply Permutation_trans; [exact P1|].
        eapply Permutation_trans; [apply Permutation_map; exact P|].
        apply Permutation_sym; exact P2.
    - destruct D1 as [W1 _]. apply D2. eapply mwf_perm; eauto.
    - destruct D2 as [W2 _]. apply D1. eapply mwf_perm; [apply Permutation_sym; exact P|exact W2].
    - exact I.
  Qed.

  (* the fuel given to the loop is never what stops it *)
  Lemma build_never_exhausts_fuel ds : build_schemes mixok ds <> Raise (FUEL_EXHAUSTED).
  Proof.
    unfold build_schemes. generalize (@nil (str * bscheme)) as schemes.
    assert (G : forall fuel data schemes, (length data <= fuel)%nat ->
                build_loop mixok fuel schemes data <> Raise FUEL_EXHAUSTED).
    { induction fuel as [|fuel IH]; intros data schemes Hlen.
      - destruct data; [simpl; discriminate|simpl in Hlen; lia].
      - destruct data as [|x0 r0]; [simpl; discriminate|].
        cbn [build_loop]. destruct (pick schemes (x0 :: r0)) as [[d rest]|] eqn:P; [|discriminate].
        destruct (pick_some _ _ _ _ P) as [l1 [l2 [E1 [E2 _]]]].
        destruct (build_scheme_class mixok d _) as [sc|e] eqn:B; simpl.
        + destruct (is_some (assoc (bannot sc) schemes)); [discriminate|].
          apply IH. rewrite E2. rewrite E1 in Hlen. rewrite app_length in *. simpl in Hlen. lia.
        + unfold build_scheme_class in B.
          destruct (combine_columns mixok _ (dcolumns d) (dfiltered d)) as [l|e'] eqn:C; simpl in B; [discriminate|].
          inversion B; subst. unfold combine_columns in C.
          destruct (mix_extras mixok _ (dcolumns d)) as [c1|e1] eqn:M; simpl in C.
          * destruct (dfiltered d); [|discriminate].
            destruct (filter _ l); [discriminate|]. inversion C. discriminate.
          * inversion C; subst. clear -M. revert M.
            generalize (match match dextends d with Some (c :: e0) => assoc (c :: e0) schemes | _ => None end with
                        | Some b => bcols b | None => [] end) as cols.
            induction (dcolumns d) as [|x r IHr]; intros cols M; simpl in M; [discriminate|].
            destruct (assoc (cname x) cols); [|eauto].
            unfold extend_class in M. destruct (mixok _ _); simpl in M; [eauto|].
            inversion M. discriminate. }
    intros schemes. now apply G.
  Qed.
End Loop.
