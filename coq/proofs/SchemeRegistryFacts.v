(* SchemeRegistryFacts.v - the registry state machine (C20): the cache always
   is what load_all_schemes gives for the registered file names, a failed
   call changes nothing, registered names only grow, every registered
   definition resolves by its pair, built-ins resolve to the same scheme as
   without extras, headers naming a registered scheme get no
   unsupported-version / unsupported-annotation error. *)
From Coq Require Import Permutation.
From MafVerif Require Import lib.Base lib.Str model.SchemeFactory model.Registry spec.SpecSchemes
     proofs.SchemeFactoryFacts proofs.SchemeBuildFacts proofs.SchemeSpecFacts.

Lemma nodup_map_inj {X Y} (f : X -> Y) l x y :
  NoDup (map f l) -> In x l -> In y l -> f x = f y -> x = y.
Proof.
  induction l as [|z r IH]; simpl; [tauto|].
  intros ND H1 H2 E. inversion ND as [|? ? Hn NDr]; subst.
  destruct H1 as [H1|H1], H2 as [H2|H2]; subst; auto.
  - exfalso. apply Hn. rewrite E. now apply in_map.
  - exfalso. apply Hn. rewrite <- E. now apply in_map.
Qed.

Lemma find_unique {X Y} (f : X -> Y) (p : X -> bool) l x :
  NoDup (map f l) -> In x l -> p x = true -> (forall y, p y = true -> f y = f x) -> find p l = Some x.
Proof.
  intros ND Hx Px Hp. destruct (find p l) as [y|] eqn:F.
  - apply find_some in F. destruct F as [Hy Py]. f_equal.
    eapply nodup_map_inj; eauto.
  - pose proof (find_none _ _ F x Hx). congruence.
Qed.

Lemma find_app {X} (p : X -> bool) l1 l2 :
  find p (l1 ++ l2) = match find p l1 with Some x => Some x | None => find p l2 end.
Proof. induction l1 as [|x r IH]; simpl; [reflexivity|]. destruct (p x); auto. Qed.

Section Stable.
  Variable comb : col_dict -> list column -> option (list str) -> option col_dict.
  (* adding definitions after a set does not change the layouts inside it *)
  Lemma glayout_app_stable ds0 es : forall n d l,
    glayout comb n ds0 d = Some l -> glayout comb n (ds0 ++ es) d = Some l.
  Proof.
    induction n as [|n IH]; intros d l H; [discriminate|].
    simpl in *. destruct (base_name d) as [b|]; [|assumption].
    unfold lookup_def in *. rewrite find_app.
    destruct (find (fun d0 => str_eqb (dannot d0) b) ds0) as [p|]; [|discriminate].
    destruct (glayout comb n ds0 p) as [bl|] eqn:E; [|discriminate].
    now rewrite (IH _ _ E).
  Qed.
End Stable.

Section RegFacts.
  Variable mixok : cls -> cls -> bool.
  Variable types : list str.
  Variable fs : str -> fileres.
  Variable builtins : list str.

  Notation LA := (load_all_schemes mixok types fs builtins).
  Notation all_schemes := (all_schemes mixok types fs builtins).
  Notation find_scheme_class := (find_scheme_class mixok types fs builtins).
  Notation find_scheme := (find_scheme mixok types fs builtins).
  Notation header_scheme := (header_scheme mixok types fs builtins).
  Notation header_validate := (header_validate mixok types fs builtins).
  Notation step := (step mixok types fs builtins).
  Notation run := (run mixok types fs builtins).
  Notation lay := (glayout (mcomb mixok)).

  (* the cache is the result of loading the registered names *)
  Definition RegInv (st : registry) : Prop :=
    loaded st = true -> LA (extras st) = Ok (cache st).

  Lemma reginv_init : RegInv init_registry.
  Proof. intros H. discriminate. Qed.

  (* ---------- all_schemes ---------- *)
  Lemma all_schemes_failed_unchanged st extra e st' :
    all_schemes st extra = (Raise e, st') -> st' = st.
  Proof.
    unfold Registry.all_schemes. destruct (negb (loaded st) || _).
    - destruct (LA _); intros H; inversion H; reflexivity.
    - intros H; inversion H.
  Qed.

  Lemma all_schemes_inv st extra : RegInv st -> RegInv (snd (all_schemes st extra)).
  Proof.
    intros I. unfold Registry.all_schemes. destruct (negb (loaded st) || _).
    - destruct (LA _) eqn:E; simpl; [|assumption]. intros _. simpl. exact E.
    - exact I.
  Qed.

  Lemma all_schemes_loaded_nil st :
    RegInv st -> loaded st = true -> all_schemes st [] = (Ok (cache st), st).
  Proof. intros I L. unfold Registry.all_schemes. simpl. rewrite L. reflexivity. Qed.

  Lemma all_schemes_extras_grow st extra f :
    In f (extras st) -> In f (extras (snd (all_schemes st extra))).
  Proof.
    intros H. unfold Registry.all_schemes. destruct (negb (loaded st) || _); [|assumption].
    destruct (LA _); simpl; [|assumption]. apply in_or_app. now left.
  Qed.

  Lemma all_schemes_loaded_stays st extra :
    loaded st = true -> loaded (snd (all_schemes st extra)) = true.
  Proof.
    intros H. unfold Registry.all_schemes. destruct (negb (loaded st) || _); [|assumption].
    destruct (LA _); simpl; auto.
  Qed.

  Lemma new_filenames_covers known : forall l acc f,
    (In f acc \/ In f l) -> In f known \/ In f (new_filenames known acc l).
  Proof.
    induction l as [|x r IH]; simpl; intros acc f H.
    - destruct H as [H|[]]. now right.
    - destruct (negb (mem x known) && negb (mem x acc)) eqn:C.
      + apply IH. destruct H as [H|[H|H]].
        * left. apply in_or_app. now left.
        * left. apply in_or_app. right. subst. now left.
        * now right.
      + destruct H as [H|[H|H]].
        * apply IH. now left.
        * subst x. apply andb_false_iff in C. destruct C as [C|C]; apply negb_false_iff, mem_in in C.
          -- now left.
          -- apply IH. now left.
        * apply IH. now right.
  Qed.

  (* a successful registration call leaves the registry loaded and every
     named file registered *)
  Lemma all_schemes_ok_registers st files l st' :
    all_schemes st files = (Ok l, st') ->
    loaded st' = true /\ cache st' = l /\ forall f, In f files -> In f (extras st').
  Proof.
    unfold Registry.all_schemes.
    destruct (negb (loaded st) || negb match new_filenames (extras st) [] files with [] => true | _ => false end) eqn:C.
    - destruct (LA _) eqn:E; intros H; inversion H; subst; simpl. repeat split; auto.
      intros f Hf. destruct (new_filenames_covers (extras st) files [] f (or_intror Hf)) as [K|K];
        apply in_or_app; auto.
    - intros H; inversion H; subst. apply orb_false_iff in C. destruct C as [C1 C2].
      apply negb_false_iff in C1. apply negb_false_iff in C2. repeat split; auto.
      intros f Hf. destruct (new_filenames_covers (extras st') files [] f (or_intror Hf)) as [K|K]; [assumption|].
      destruct (new_filenames (extras st') [] files); [destruct K|discriminate].
  Qed.

  (* ---------- every operation is a sequence of all_schemes calls ---------- *)
  Definition Pres (P : registry -> Prop) : Prop := forall st extra, P st -> P (snd (all_schemes st extra)).

  Lemma find_scheme_class_state st v a : snd (find_scheme_class st v a) = snd (all_schemes st []).
  Proof.
    unfold Registry.find_scheme_class. destruct (all_schemes st []) as [r st'].
    destruct r; simpl; [|reflexivity].
    destruct (falsy v && falsy a); [reflexivity|]. destruct (falsy a); [reflexivity|].
    destruct (falsy v); reflexivity.
  Qed.

  Lemma find_scheme_state st v a : snd (find_scheme st v a) = snd (all_schemes st []).
  Proof.
    unfold Registry.find_scheme. rewrite <- find_scheme_class_state with (v := v) (a := a).
    destruct (find_scheme_class st v a) as [r st']. destruct r as [[[|b]|]|]; reflexivity.
  Qed.

  Lemma header_scheme_state st h : snd (header_scheme st h) = snd (all_schemes st []).
  Proof.
    unfold Registry.header_scheme. rewrite <- find_scheme_state with (v := hversion h) (a := hannot h).
    destruct (find_scheme st (hversion h) (hannot h)) as [r st']. destruct r as [|[]]; reflexivity.
  Qed.

  Lemma header_validate_pres P st h : Pres P -> P st -> P (snd (header_validate st h)).
  Proof.
    intros HP H. unfold Registry.header_validate.
    pose proof (header_scheme_state st h) as E1.
    destruct (header_scheme st h) as [rs st1]. simpl in E1.
    assert (P1 : P st1) by (rewrite E1; now apply HP).
    destruct rs as [scheme|e]; [|exact P1].
    destruct (hversion h) as [v|].
    - pose proof (HP st1 [] P1) as P2. destruct (all_schemes st1 []) as [ra st2]. simpl in P2.
      destruct ra as [l|e]; [|exact P2].
      destruct (match scheme with Some b => is_basic b | None => false end); [exact P2|].
      destruct (hannot h); [|exact P2].
      pose proof (HP st2 [] P2) as P3. destruct (all_schemes st2 []) as [ra st3]. simpl in P3.
      destruct ra; exact P3.
    - destruct (match scheme with Some b => is_basic b | None => false end); [exact P1|].
      destruct (hannot h); [|exact P1].
      pose proof (HP st1 [] P1) as P3. destruct (all_schemes st1 []) as [ra st3]. simpl in P3.
      destruct ra; exact P3.
  Qed.

  Lemma step_pres P st o : Pres P -> P st -> P (snd (step st o)).
  Proof.
    intros HP H. destruct o as [files|v a|v a|h]; simpl.
    - pose proof (HP st files H) as Q. destruct (all_schemes st files); exact Q.
    - pose proof (find_scheme_class_state st v a) as E. destruct (find_scheme_class st v a). simpl in *.
      rewrite E. now apply HP.
    - pose proof (find_scheme_state st v a) as E. destruct (find_scheme st v a). simpl in *.
      rewrite E. now apply HP.
    - pose proof (header_validate_pres P st h HP H) as Q. destruct (header_validate st h); exact Q.
  Qed.

  Lemma run_pres P ops : forall st, Pres P -> P st -> P (run st ops).
  Proof. induction ops as [|o r IH]; intros st HP H; simpl; [assumption|]. apply IH; [assumption|now apply step_pres]. Qed.

  Theorem run_inv ops st : RegInv st -> RegInv (run st ops).
  Proof. apply run_pres. intros s e. apply all_schemes_inv. Qed.

  Theorem run_extras_grow ops st f : In f (extras st) -> In f (extras (run st ops)).
  Proof. apply (run_pres (fun s => In f (extras s))). intros s e. apply all_schemes_extras_grow. Qed.

  Theorem run_loaded_stays ops st : loaded st = true -> loaded (run st ops) = true.
  Proof. apply (run_pres (fun s => loaded s = true)). intros s e. apply all_schemes_loaded_stays. Qed.

  (* a failed registration leaves the registry as it was *)
  Theorem register_failed_unchanged st files e st' :
    step st (ORegister files) = (RSchemes (Raise e), st') -> st' = st.
  Proof.
    simpl. destruct (all_schemes st files) as [r s] eqn:E. intros H. inversion H; subst.
    eapply all_schemes_failed_unchanged; eauto.
  Qed.

  (* ---------- resolution ---------- *)
  Definition datum_of (j : jfile) (cols : list column) : datum :=
    {| dversion := jversion j; dannot := jannot j; dextends := else_none (jextends j);
       dcolumns := cols; dfiltered := else_none (jfiltered j) |}.

  Lemma load_data_in filenames : forall data f j,
    load_all_scheme_data fs types filenames = Ok data -> In f filenames -> fs f = FJson j ->
    exists cols, load_columns types (jcolumns j) = Ok cols /\ In (datum_of j cols) data.
  Proof.
    induction filenames as [|x r IH]; simpl; intros data f j H Hin Hf; [tauto|].
    destruct (load_file types (fs x)) as [d|] eqn:Lf; simpl in H; [|discriminate].
    destruct (load_all_scheme_data fs types r) as [r'|] eqn:Lr; simpl in H; [|discriminate].
    inversion H; subst. destruct Hin as [Hin|Hin].
    - subst x. rewrite Hf in Lf. simpl in Lf.
      destruct (load_columns types (jcolumns j)) as [cols|]; simpl in Lf; [|discriminate].
      inversion Lf; subst. exists cols. split; [reflexivity|now left].
    - destruct (IH _ f j eq_refl Hin Hf) as [cols [E1 E2]]. exists cols. split; [assumption|now right].
  Qed.

  Lemma load_data_app l1 l2 data :
    load_all_scheme_data fs types (l1 ++ l2) = Ok data ->
    exists d1 d2, load_all_scheme_data fs types l1 = Ok d1 /\
                  load_all_scheme_data fs types l2 = Ok d2 /\ data = d1 ++ d2.
  Proof.
    revert data. induction l1 as [|x r IH]; simpl; intros data H.
    - exists [], data. auto.
    - destruct (load_file types (fs x)) as [d|]; simpl in *; [|discriminate].
      destruct (load_all_scheme_data fs types (r ++ l2)) as [r'|] eqn:Lr; simpl in H; [|discriminate].
      inversion H; subst. destruct (IH _ eq_refl) as [d1 [d2 [E1 [E2 E3]]]].
      rewrite E1. simpl. exists (d :: d1), d2. subst. auto.
  Qed.

  Definition pred_pair (v a : str) (s : scheme) : bool :=
    ostr_eqb (Some v) (s_version s) && ostr_eqb (Some a) (s_annot s).

  Lemma pred_pair_spec v a s : pred_pair v a s = true <-> pair_of s = (v, a).
  Proof.
    unfold pred_pair, pair_of. simpl. rewrite andb_true_iff, !str_eqb_eq. split.
    - intros [H1 H2]. now subst.
    - intros H. inversion H. auto.
  Qed.

  (* what a loaded list answers for the pair of a definition that is in one of its files *)
  Lemma loaded_list_resolves extra l f j :
    LA extra = Ok l -> In f (builtins ++ extra) -> fs f = FJson j ->
    exists data cols lo,
      load_all_scheme_data fs types (builtins ++ extra) = Ok data /\
      load_columns types (jcolumns j) = Ok cols /\ In (datum_of j cols) data /\
      lay (length data) data (datum_of j cols) = Some lo /\
      find (pred_pair (jversion j) (jannot j)) l = Some (Built (sch (datum_of j cols) lo)).
  Proof.
    intros HL Hin Hf.
    destruct (load_all_schemes_ok _ _ _ _ _ _ HL) as [data [m [D [B [ND P]]]]].
    destruct (load_data_in _ _ _ _ D Hin Hf) as [cols [Lc Hd]].
    pose proof (build_dichotomy mixok data) as Dich. rewrite B in Dich.
    destruct Dich as [_ [_ [_ A]]]. destruct (A _ Hd) as [lo [As Ly]].
    exists data, cols, lo. repeat split; auto.
    apply (find_unique pair_of).
    - eapply Permutation_NoDup; [apply Permutation_map; exact P|exact ND].
    - eapply Permutation_in; [exact P|]. right. apply assoc_in in As.
      apply in_map_iff. exists (dannot (datum_of j cols), sch (datum_of j cols) lo). auto.
    - apply pred_pair_spec. reflexivity.
    - intros y Hy. apply pred_pair_spec in Hy. rewrite Hy. reflexivity.
  Qed.

  Lemma falsy_some_nonempty s : s <> [] -> falsy (Some s) = false.
  Proof. destruct s; [congruence|reflexivity]. Qed.

  Theorem registered_resolves st f j :
    RegInv st -> loaded st = true -> In f (builtins ++ extras st) -> fs f = FJson j ->
    jversion j <> [] -> jannot j <> [] ->
    exists b data cols,
      find_scheme st (Some (jversion j)) (Some (jannot j)) = (Ok (Some b), st) /\
      find_scheme_class st (Some (jversion j)) (Some (jannot j)) = (Ok (Some (Built b)), st) /\
      In (Built b) (cache st) /\
      bversion b = jversion j /\ bannot b = jannot j /\
      load_all_scheme_data fs types (builtins ++ extras st) = Ok data /\
      load_columns types (jcolumns j) = Ok cols /\ In (datum_of j cols) data /\
      lay (length data) data (datum_of j cols) = Some (bcols b).
  Proof.
    intros I L Hin Hf Hv Ha.
    destruct (loaded_list_resolves _ _ _ _ (I L) Hin Hf) as [data [cols [lo [D [Lc [Hd [Ly F]]]]]]].
    exists (sch (datum_of j cols) lo), data, cols.
    assert (FC : find_scheme_class st (Some (jversion j)) (Some (jannot j))
                 = (Ok (Some (Built (sch (datum_of j cols) lo))), st)).
    { unfold Registry.find_scheme_class. rewrite (all_schemes_loaded_nil st I L).
      assert (E1 : falsy (Some (jversion j)) = false) by (now apply falsy_some_nonempty).
      assert (E2 : falsy (Some (jannot j)) = false) by (now apply falsy_some_nonempty).
      rewrite E1, E2. cbn [andb].
      unfold find_first. unfold pred_pair in F. now rewrite F. }
    repeat split; auto.
    - unfold Registry.find_scheme. now rewrite FC.
    - apply find_some in F. tauto.
  Qed.

  (* ---------- built-ins behave as before ---------- *)
  Theorem builtin_unchanged st l0 f j b0 :
    LA [] = Ok l0 ->
    RegInv st -> loaded st = true -> In f builtins -> fs f = FJson j ->
    jversion j <> [] -> jannot j <> [] ->
    find (pred_pair (jversion j) (jannot j)) l0 = Some (Built b0) ->
    find_scheme st (Some (jversion j)) (Some (jannot j)) = (Ok (Some b0), st).
  Proof.
    intros H0 I L Hin Hf Hv Ha F0.
    assert (Hin0 : In f (builtins ++ [])) by (rewrite app_nil_r; assumption).
    destruct (loaded_list_resolves _ _ _ _ H0 Hin0 Hf) as [data0 [cols0 [lo0 [D0 [Lc0 [Hd0 [Ly0 F0']]]]]]].
    rewrite F0 in F0'. inversion F0'; subst b0. clear F0'.
    assert (Hin1 : In f (builtins ++ extras st)) by (apply in_or_app; now left).
    destruct (registered_resolves st f j I L Hin1 Hf Hv Ha) as [b [data [cols [FS [_ [_ [Bv [Ba [D [Lc [Hd Ly]]]]]]]]]]].
    rewrite FS. f_equal. f_equal. f_equal.
    assert (cols = cols0) by congruence. subst cols0.
    rewrite app_nil_r in D0.
    destruct (load_data_app _ _ _ D) as [d1 [d2 [E1 [E2 E3]]]].
    assert (d1 = data0) by congruence. subst d1 data.
    pose proof (glayout_app_stable (mcomb mixok) data0 d2 _ _ _ Ly0) as S.
    assert (bcols b = lo0) by (eapply glayout_det; eauto).
    destruct b as [bv ba bc]. simpl in *. subst. reflexivity.
  Qed.

  (* ---------- headers naming a resolved scheme ---------- *)
  Lemma in_cache_versions b (l : list scheme) :
    In (Built b) l -> mem (bversion b) (map s_version l) = true /\ mem (bannot b) (map s_annot l) = true.
  Proof.
    intros H. split; apply mem_in; apply in_map_iff; exists (Built b); auto.
  Qed.

  Theorem header_of_resolved_scheme_validates st v a b :
    RegInv st -> loaded st = true ->
    find_scheme st (Some v) (Some a) = (Ok (Some b), st) -> In (Built b) (cache st) ->
    bversion b = v -> bannot b = a -> v <> a ->
    header_validate st {| hversion := Some v; hannot := Some a |} = (Ok [], st).
  Proof.
    intros I L FS Hc Bv Ba Hne.
    unfold Registry.header_validate, Registry.header_scheme. simpl. rewrite FS.
    rewrite (all_schemes_loaded_nil st I L).
    destruct (in_cache_versions b _ Hc) as [M1 M2]. rewrite Bv in M1. rewrite Ba in M2.
    rewrite M1. unfold is_basic. rewrite Bv, Ba.
    destruct (str_eqb v a) eqn:E; [apply str_eqb_eq in E; contradiction|].
    rewrite (all_schemes_loaded_nil st I L). rewrite M2. reflexivity.
  Qed.

  (* a basic scheme (annotation = version) is named by the version pragma alone *)
  Theorem header_of_basic_scheme_validates st v b :
    RegInv st -> loaded st = true -> v <> [] ->
    find_scheme st (Some v) (Some v) = (Ok (Some b), st) -> In (Built b) (cache st) ->
    bversion b = v -> bannot b = v ->
    header_validate st {| hversion := Some v; hannot := None |} = (Ok [], st).
  Proof.
    intros I L Hv FS Hc Bv Ba.
    assert (FS' : find_scheme st (Some v) None = (Ok (Some b), st)).
    { revert FS. unfold Registry.find_scheme, Registry.find_scheme_class.
      rewrite (all_schemes_loaded_nil st I L).
      assert (E1 : falsy (Some v) = false) by (now apply falsy_some_nonempty).
      rewrite E1. cbn [andb]. simpl falsy. cbn iota. auto. }
    unfold Registry.header_validate, Registry.header_scheme. simpl. rewrite FS'.
    rewrite (all_schemes_loaded_nil st I L).
    destruct (in_cache_versions b _ Hc) as [M1 _]. rewrite Bv in M1.
    rewrite M1. unfold is_basic. rewrite Bv, Ba, str_eqb_refl. reflexivity.
  Qed.

  (* ---------- histories ---------- *)
  Theorem history_registered_resolve ops1 files l st2 ops2 f j :
    step (run init_registry ops1) (ORegister files) = (RSchemes (Ok l), st2) ->
    In f files -> fs f = FJson j -> jversion j <> [] -> jannot j <> [] ->
    let st := run st2 ops2 in
    exists b data cols,
      find_scheme st (Some (jversion j)) (Some (jannot j)) = (Ok (Some b), st) /\
      In (Built b) (cache st) /\ bversion b = jversion j /\ bannot b = jannot j /\
      load_all_scheme_data fs types (builtins ++ extras st) = Ok data /\
      load_columns types (jcolumns j) = Ok cols /\ In (datum_of j cols) data /\
      lay (length data) data (datum_of j cols) = Some (bcols b).
  Proof.
    intros Hs Hf Hj Hv Ha st.
    simpl in Hs. destruct (all_schemes (run init_registry ops1) files) as [r s] eqn:E.
    inversion Hs; subst r s. clear Hs.
    destruct (all_schemes_ok_registers _ _ _ _ E) as [L2 [_ R2]].
    assert (I2 : RegInv st2).
    { pose proof (all_schemes_inv (run init_registry ops1) files (run_inv ops1 _ reginv_init)) as Q.
      now rewrite E in Q. }
    assert (I : RegInv st) by (apply run_inv; assumption).
    assert (L : loaded st = true) by (apply run_loaded_stays; assumption).
    assert (Hin : In f (builtins ++ extras st)).
    { apply in_or_app. right. apply run_extras_grow. now apply R2. }
    destruct (registered_resolves st f j I L Hin Hj Hv Ha) as [b [data [cols [F1 [_ [C R]]]]]].
    exists b, data, cols. tauto.
  Qed.

  (* the same, with the layout stated by the specification and with the
     header checks *)
  Theorem history_registered_first_class ops1 files l st2 ops2 f j :
    step (run init_registry ops1) (ORegister files) = (RSchemes (Ok l), st2) ->
    In f files -> fs f = FJson j -> jversion j <> [] -> jannot j <> [] ->
    let st := run st2 ops2 in
    exists b data cols,
      find_scheme st (Some (jversion j)) (Some (jannot j)) = (Ok (Some b), st) /\
      bversion b = jversion j /\ bannot b = jannot j /\
      load_all_scheme_data fs types (builtins ++ extras st) = Ok data /\
      load_columns types (jcolumns j) = Ok cols /\ In (datum_of j cols) data /\
      (clean_defs data -> layout mixok data (datum_of j cols) = Some (bcols b)) /\
      (jversion j <> jannot j ->
       header_validate st {| hversion := Some (jversion j); hannot := Some (jannot j) |} = (Ok [], st)) /\
      (jversion j = jannot j ->
       header_validate st {| hversion := Some (jversion j); hannot := None |} = (Ok [], st)).
  Proof.
    intros Hs Hf Hj Hv Ha st.
    destruct (history_registered_resolve ops1 files l st2 ops2 f j Hs Hf Hj Hv Ha)
      as [b [data [cols [F [C [Bv [Ba [D [Lc [Hd Ly]]]]]]]]]].
    fold st in F, C, D.
    assert (I : RegInv st).
    { simpl in Hs. destruct (all_schemes (run init_registry ops1) files) as [r s] eqn:E.
      inversion Hs; subst r s. apply run_inv.
      pose proof (all_schemes_inv (run init_registry ops1) files (run_inv ops1 _ reginv_init)) as Q.
      now rewrite E in Q. }
    assert (L : loaded st = true).
    { simpl in Hs. destruct (all_schemes (run init_registry ops1) files) as [r s] eqn:E.
      inversion Hs; subst r s. apply run_loaded_stays.
      now destruct (all_schemes_ok_registers _ _ _ _ E). }
    exists b, data, cols. repeat split; auto.
    - intros Cl. unfold layout. destruct (lay_eq_spec mixok data Cl (length data) _ Hd) as [E _]. congruence.
    - intros Hne. eapply header_of_resolved_scheme_validates; eauto.
    - intros He. rewrite <- He in *. eapply header_of_basic_scheme_validates; eauto.
  Qed.
End RegFacts.
