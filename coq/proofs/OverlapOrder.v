(* OverlapOrder.v - lemmas for C11, part 4: the concrete keys (contig rank in
   both grouping modes, unknown contigs), and the order report: a run of the
   model that ends normally has checked every adjacent pair of every input. *)
From MafVerif Require Import lib.Base lib.OverlapLib model.Overlap spec.SpecOverlap
     proofs.OverlapFacts proofs.OverlapGroups proofs.OverlapRefine proofs.OverlapStreamFacts.

(* ---------------- concrete keys ---------------- *)
Definition ochr (c : cfg) (r : orec) : chromk :=
  match contigs c with
  | [] => CName (rchr r)
  | _ :: _ => match index_of (rchr r) (contigs c) with Some n => CRank n | None => CRank 0 end
  end.
(* the key okey builds whenever it builds one *)
Definition okeyK (c : cfg) (r : orec) : key ccls :=
  {| kcls := {| cbar := if by_barcodes c then Some (rtumor r, rnormal r) else None; cchr := ochr c r |};
     kstart := rstart r; kend := rend r |}.
Definition known_contig (c : cfg) (r : orec) : Prop := contigs c = [] \/ In (rchr r) (contigs c).

Lemma index_of_in s : forall l, In s l -> exists n, index_of s l = Some n.
Proof.
  induction l as [|x l IH]; intros H; [destruct H|]. simpl.
  destruct (str_eqb s x) eqn:E; [eauto|].
  destruct H as [->|H]; [rewrite str_eqb_refl in E; discriminate|].
  destruct (IH H) as (n & ->). eauto.
Qed.

Lemma index_of_not_in s : forall l, ~ In s l -> index_of s l = None.
Proof.
  induction l as [|x l IH]; intros H; [reflexivity|]. simpl.
  destruct (str_eqb s x) eqn:E; [apply str_eqb_eq in E; subst; exfalso; apply H; now left|].
  rewrite IH; [reflexivity|]. intros H'. apply H. now right.
Qed.

Lemma okey_K c r : known_contig c r -> okey c r = Ok (okeyK c r).
Proof.
  unfold okey, okeyK, ochr, known_contig. destruct (contigs c) as [|x l] eqn:Ec; [reflexivity|].
  intros [H|H]; [discriminate|]. destruct (index_of_in _ _ H) as (n & ->). reflexivity.
Qed.

Lemma okey_unknown c r : contigs c <> [] -> ~ In (rchr r) (contigs c) -> okey c r = Raise ValueError.
Proof.
  unfold okey. destruct (contigs c) as [|x l] eqn:Ec; [congruence|].
  intros _ H. rewrite (index_of_not_in _ _ H). reflexivity.
Qed.

Lemma okey_no_stop c r : okey c r <> Raise StopIteration.
Proof.
  unfold okey. destruct (contigs c); [discriminate|].
  destruct (index_of (rchr r) (s :: l)); discriminate.
Qed.

Lemma str_cmp_refl s : str_cmp s s = Eq.
Proof. now apply str_cmp_eq. Qed.
Lemma ostr_cmp_refl s : ostr_cmp s s = Eq.
Proof. now apply ostr_cmp_eq. Qed.

Lemma contig_rank_decides (c : cfg) a b na nb :
  contigs c <> [] ->
  index_of (rchr a) (contigs c) = Some na -> index_of (rchr b) (contigs c) = Some nb ->
  (by_barcodes c = false \/ (rtumor a = rtumor b /\ rnormal a = rnormal b)) ->
  (clt ccls_cmp (kcls (okeyK c a)) (kcls (okeyK c b)) <-> (na < nb)%nat) /\
  (kcls (okeyK c a) = kcls (okeyK c b) <-> na = nb).
Proof.
  unfold okeyK, ochr, clt, ccls_cmp. destruct (contigs c) as [|x l] eqn:Ec; [congruence|].
  intros _ -> -> Hb. simpl.
  destruct (by_barcodes c).
  - destruct Hb as [Hb|(-> & ->)]; [discriminate|]. simpl. rewrite !ostr_cmp_refl.
    split; [apply Nat.compare_lt_iff|]. split; [intros E; now injection E|now intros ->].
  - simpl. split; [apply Nat.compare_lt_iff|]. split; [intros E; now injection E|now intros ->].
Qed.

(* ---------------- the order report ---------------- *)
Section Report.
  Context {R C : Type}.
  Variable truthy : R -> bool.
  Variable cls_cmp : C -> C -> comparison.
  Variable cls_eqb : C -> C -> bool.
  Variable keyf : R -> res (key C).
  Hypothesis HO : cls_order cls_cmp cls_eqb.
  Variable K : R -> key C.
  Variable U : list R.
  Hypothesis Htruthy : forall r, In r U -> truthy r = true.
  Hypothesis HK : forall r, In r U -> keyf r = Ok (K r).

  Notation enf_next := (enf_next truthy cls_cmp keyf).
  Notation update_peek := (update_peek truthy cls_cmp keyf).
  Notation peek_next := (peek_next truthy cls_cmp keyf).
  Notation sweep := (sweep truthy cls_cmp cls_eqb keyf).
  Notation group_loop := (group_loop truthy cls_cmp cls_eqb keyf).
  Notation next_group := (next_group truthy cls_cmp cls_eqb keyf).
  Notation init_inputs := (init_inputs truthy cls_cmp keyf).
  Notation head_keys := (head_keys truthy keyf).
  Notation run_all := (run_all truthy cls_cmp cls_eqb keyf).
  Notation adj_sorted := (adj_sorted cls_cmp K).
  Notation kle := (kle cls_cmp).

  Fixpoint last_opt (l : list R) : option R :=
    match l with
    | [] => None
    | x :: r => match r with [] => Some x | _ :: _ => last_opt r end
    end.

  Lemma last_opt_snoc : forall l x, last_opt (l ++ [x]) = Some x.
  Proof.
    induction l as [|y l IH]; intros x; [reflexivity|]. simpl.
    destruct (l ++ [x]) eqn:E; [destruct l; discriminate|]. rewrite <- E. apply IH.
  Qed.

  Lemma last_opt_none l : last_opt l = None -> l = [].
  Proof.
    induction l as [|y l IH]; [reflexivity|]. simpl. destruct l; [discriminate|]. intros H.
    specialize (IH H). discriminate.
  Qed.

  Lemma last_opt_in : forall l x, last_opt l = Some x -> In x l.
  Proof.
    induction l as [|y l IH]; intros x H; [discriminate|]. simpl in H.
    destruct l; [injection H as <-; now left|]. right. now apply IH.
  Qed.

  Lemma adj_snoc : forall l x,
      adj_sorted l -> (forall y, last_opt l = Some y -> kle (K y) (K x)) -> adj_sorted (l ++ [x]).
  Proof.
    induction l as [|a l IH]; intros x Hs Hl; [simpl; auto|].
    destruct l as [|b l'].
    - simpl. split; [apply Hl; reflexivity|auto].
    - destruct Hs as (Hab & Hs'). change (adj_sorted (a :: (b :: l') ++ [x])).
      simpl app. split; [exact Hab|]. apply (IH x Hs'). intros y Hy. apply Hl. exact Hy.
  Qed.

  (* the wrapper has handed out a prefix whose adjacent pairs were all checked *)
  Definition SI (xs : list R) (i : input R) : Prop :=
    exists pre, xs = pre ++ rest i /\ adj_sorted pre /\ last_rec i = last_opt pre /\
                (forall r, peek i = Some r -> In r xs).
  Definition PI (i : input R) : Prop := peek i = None -> rest i = [].
  Definition sub (xs : list R) : Prop := forall r, In r xs -> In r U.

  Lemma enf_next_inv xs i i' o :
    sub xs -> SI xs i -> enf_next i = (i', o) ->
    match o with
    | Ok r => SI xs i' /\ In r xs /\ peek i' = peek i
    | Raise StopIteration => i' = i /\ rest i = []
    | Raise _ => True
    end.
  Proof.
    intros Hsub (pre & Hxs & Hs & Hl & Hp) E. unfold Overlap.enf_next in E.
    destruct (rest i) as [|rec tl] eqn:Er; [injection E as <- <-; auto|].
    assert (HrecU : In rec U) by (apply Hsub; rewrite Hxs; apply in_or_app; right; now left).
    assert (Hacc : forall (Hchk : forall y, last_opt pre = Some y -> kle (K y) (K rec)),
               SI xs {| consumed := S (consumed i); rest := tl; last_rec := Some rec; peek := peek i |}).
    { intros Hchk. exists (pre ++ [rec]). simpl. split; [rewrite <- app_assoc; exact Hxs|].
      split; [now apply adj_snoc|]. split; [now rewrite last_opt_snoc|exact Hp]. }
    assert (Hin : In rec xs) by (rewrite Hxs; apply in_or_app; right; now left).
    destruct (last_rec i) as [l|] eqn:El.
    - assert (HlU : In l U).
      { apply Hsub. rewrite Hxs. apply in_or_app. left. apply last_opt_in. now symmetry. }
      rewrite (Htruthy l HlU), (HK rec HrecU), (HK l HlU) in E.
      destruct (key_lt cls_cmp (K rec) (K l)) eqn:Ek; injection E as <- <-; [exact I|].
      split; [|auto]. apply Hacc. intros y Hy. rewrite <- Hl in Hy. injection Hy as <-.
      now apply (key_lt_false_iff cls_cmp cls_eqb HO).
    - injection E as <- <-. split; [|auto]. apply Hacc. intros y Hy. rewrite <- Hl in Hy. discriminate.
  Qed.

  Lemma update_peek_inv xs i i' o :
    sub xs -> SI xs i -> update_peek i = (i', o) ->
    match o with
    | Ok _ => SI xs i' /\ PI i'
    | Raise e => e <> StopIteration
    end.
  Proof.
    intros Hsub HS E. unfold Overlap.update_peek in E.
    destruct (enf_next i) as [i1 o1] eqn:En.
    pose proof (enf_next_inv xs i i1 o1 Hsub HS En) as Hn.
    destruct o1 as [r|e].
    - injection E as <- <-. destruct Hn as ((pre & A & B & D & _) & Hr & _). split.
      + exists pre. simpl. repeat split; try assumption. intros r0 E0. injection E0 as <-. assumption.
      + intros H. discriminate.
    - destruct e; injection E as <- <-; try discriminate.
      destruct Hn as (-> & Hr). destruct HS as (pre & A & B & D & _). split.
      + exists pre. simpl. repeat split; try assumption. intros r0 E0. discriminate.
      + intros _. exact Hr.
  Qed.

  Lemma peek_next_inv xs i i' o r0 :
    sub xs -> SI xs i -> peek i = Some r0 -> peek_next i = (i', o) ->
    match o with
    | Ok _ => SI xs i' /\ PI i'
    | Raise e => e <> StopIteration
    end.
  Proof.
    intros Hsub HS Hp E. unfold Overlap.peek_next in E. rewrite Hp in E.
    destruct (update_peek i) as [i1 o1] eqn:Eu.
    pose proof (update_peek_inv xs i i1 o1 Hsub HS Eu) as Hu.
    destruct o1 as [[]|e]; injection E as <- <-; exact Hu.
  Qed.

  Definition SPI (xs : list R) (c : cell R C) : Prop := sub xs /\ SI xs (c_in c) /\ PI (c_in c).

  Lemma sweep_inv : forall cells xss mk added cells' mk' a ex,
      Forall2 SPI xss cells -> sweep mk added cells = (cells', mk', a, ex) ->
      (ex = None -> Forall2 SPI xss cells') /\ ex <> Some StopIteration.
  Proof.
    induction cells as [|c tl IH]; intros xss mk added cells' mk' a ex HF E; simpl in E.
    - injection E as <- _ _ <-. split; [intros _; assumption|discriminate].
    - inversion HF as [|xs ? xst ? Hc Ht]; subst.
      assert (Hskip : forall mk0 added0 c0, SPI xs c0 ->
                 (let '(tl', mk1, added1, ex1) := sweep mk0 added0 tl in (c0 :: tl', mk1, added1, ex1))
                 = (cells', mk', a, ex) ->
                 (ex = None -> Forall2 SPI (xs :: xst) cells') /\ ex <> Some StopIteration).
      { intros mk0 added0 c0 Hc0 E0. destruct (sweep mk0 added0 tl) as [[[tl' mk1] added1] ex1] eqn:Es.
        injection E0 as <- <- <- <-. destruct (IH _ _ _ _ _ _ _ Ht Es) as (A & B).
        split; [intros H; constructor; [assumption|now apply A]|assumption]. }
      destruct Hc as (Hsub & HS & HP).
      destruct (peek (c_in c)) as [rec|] eqn:Ep; [|apply (Hskip mk added c); [repeat split; assumption|exact E]].
      assert (HrecU : In rec U).
      { apply Hsub. destruct HS as (pre & _ & _ & _ & Hpk). now apply Hpk. }
      rewrite (Htruthy rec HrecU) in E.
      assert (Hk : exists k, (match c_key c with Some k => Ok k | None => keyf rec end) = Ok k).
      { destruct (c_key c); [eauto|]. rewrite (HK rec HrecU). eauto. }
      destruct Hk as (k & Hk). rewrite Hk in E.
      destruct (overlaps cls_eqb mk k).
      + destruct (peek_next (c_in c)) as [i' o] eqn:En.
        pose proof (peek_next_inv xs _ _ _ _ Hsub HS Ep En) as Hpn.
        destruct o as [next_rec|e].
        * destruct Hpn as (HS' & HP'). eapply Hskip; [|exact E]. repeat split; assumption.
        * injection E as <- _ _ <-. split; [discriminate|]. intros H. injection H as ->. now apply Hpn.
      + eapply Hskip; [|exact E]. repeat split; assumption.
  Qed.

  Lemma group_loop_inv : forall fuel cells xss mk cells' o,
      Forall2 SPI xss cells -> group_loop fuel mk cells = (cells', o) ->
      match o with
      | Done _ => Forall2 SPI xss cells'
      | Exc e => e <> StopIteration
      | OutOfFuel => True
      end.
  Proof.
    induction fuel as [|f IH]; intros cells xss mk cells' o HF E; simpl in E.
    - injection E as <- <-. exact I.
    - destruct (sweep mk false cells) as [[[c1 mk1] a1] ex] eqn:Es.
      destruct (sweep_inv _ _ _ _ _ _ _ _ HF Es) as (A & B).
      destruct ex as [e|].
      + injection E as <- <-. simpl. intros ->. now apply B.
      + destruct a1; [eapply IH; [apply A; reflexivity|exact E]|].
        injection E as <- <-. now apply A.
  Qed.

  Definition SPIi (xs : list R) (i : input R) : Prop := sub xs /\ SI xs i /\ PI i.

  Lemma mk_cells_inv : forall ins ks xss,
      length ks = length ins -> Forall2 SPIi xss ins -> Forall2 SPI xss (mk_cells ins ks).
  Proof.
    induction ins as [|i r IH]; intros ks xss Hl HF; inversion HF; subst; simpl; [constructor|].
    destruct ks as [|k kr]; [discriminate|]. constructor; [assumption|].
    apply IH; [simpl in Hl; lia|assumption].
  Qed.

  Lemma cells_ins : forall xss cells, Forall2 SPI xss cells -> Forall2 SPIi xss (map c_in cells).
  Proof. induction 1; simpl; constructor; assumption. Qed.

  Lemma head_keys_all_none : forall ins xss ks,
      Forall2 SPIi xss ins -> head_keys ins = Ok ks -> present ks = [] ->
      Forall (fun i => peek i = None) ins.
  Proof.
    induction ins as [|i r IH]; intros xss ks HF E Hp; [constructor|].
    inversion HF as [|xs ? xst ? (Hsub & HS & _) Ht]; subst. simpl in E.
    destruct (to_sort_key truthy keyf (peek i)) as [k|] eqn:Ek; [|discriminate].
    destruct (head_keys r) as [ks'|] eqn:Eh; [|discriminate]. injection E as <-.
    destruct k as [k|]; simpl in Hp; [discriminate|].
    constructor; [|eapply IH; [eassumption|reflexivity|assumption]].
    unfold to_sort_key in Ek. destruct (peek i) as [rec|] eqn:Epk; [|reflexivity].
    assert (HrecU : In rec U) by (apply Hsub; destruct HS as (pre & _ & _ & _ & Hpk); now apply Hpk).
    rewrite (Htruthy rec HrecU), (HK rec HrecU) in Ek. discriminate.
  Qed.

  Lemma head_keys_ok : forall ins xss,
      Forall2 SPIi xss ins -> exists ks, head_keys ins = Ok ks.
  Proof.
    induction ins as [|i r IH]; intros xss HF; [exists []; reflexivity|].
    inversion HF as [|xs ? xst ? (Hsub & HS & _) Ht]; subst. simpl.
    destruct (IH _ Ht) as (ks & ->).
    unfold to_sort_key. destruct (peek i) as [rec|] eqn:Epk; [|eauto].
    assert (HrecU : In rec U) by (apply Hsub; destruct HS as (pre & _ & _ & _ & Hpk); now apply Hpk).
    rewrite (Htruthy rec HrecU), (HK rec HrecU). eauto.
  Qed.

  Lemma next_group_inv ins xss ins' o :
    Forall2 SPIi xss ins -> next_group ins = (ins', o) ->
    match o with
    | Done _ => Forall2 SPIi xss ins'
    | Exc StopIteration => Forall (fun i => peek i = None) ins
    | _ => True
    end.
  Proof.
    intros HF E. unfold Overlap.next_group in E.
    destruct (head_keys_ok _ _ HF) as (keys & Eh). rewrite Eh in E.
    destruct (present keys) as [|k0 ks] eqn:Ep.
    - injection E as <- <-. eapply head_keys_all_none; eassumption.
    - destruct (group_loop _ _ _) as [cells o1] eqn:Eg. injection E as <- <-.
      pose proof (head_keys_length truthy keyf _ _ Eh) as Hlen.
      pose proof (group_loop_inv _ _ _ _ _ _ (mk_cells_inv _ _ _ Hlen HF) Eg) as Hg.
      destruct o1 as [[]|e|]; [now apply cells_ins| |exact I].
      destruct e; try exact I. now contradiction Hg.
  Qed.

  Lemma all_consumed_sorted : forall xss ins,
      Forall2 SPIi xss ins -> Forall (fun i => peek i = None) ins -> Forall adj_sorted xss.
  Proof.
    induction 1 as [|xs i xss ins Hc Hr IH]; intros Hn; [constructor|].
    destruct Hc as (Hsub & (pre & Hxs & Hs & _) & HP).
    pose proof (Forall_inv Hn) as Hn1. pose proof (Forall_inv_tail Hn) as Hn2. simpl in Hn1.
    constructor; [|now apply IH].
    rewrite Hxs, (HP Hn1), app_nil_r. exact Hs.
  Qed.

  Lemma run_all_sorted : forall fuel ins xss gs,
      Forall2 SPIi xss ins -> run_all fuel ins = Done gs -> Forall adj_sorted xss.
  Proof.
    induction fuel as [|f IH]; intros ins xss gs HF E; simpl in E; [discriminate|].
    destruct (next_group ins) as [ins' o] eqn:En.
    pose proof (next_group_inv _ _ _ _ HF En) as Hn.
    destruct o as [g|e|]; [|destruct e; try discriminate|discriminate].
    - destruct (run_all f ins') as [gs'|e|] eqn:Er; try discriminate.
      eapply IH; eassumption.
    - eapply all_consumed_sorted; eassumption.
  Qed.

  Lemma init_inv : forall xss ins,
      (forall r, In r (concat xss) -> In r U) ->
      init_inputs xss = Ok ins -> Forall2 SPIi xss ins.
  Proof.
    induction xss as [|xs r IH]; intros ins HU E; simpl in E.
    - injection E as <-. constructor.
    - destruct (update_peek (fresh xs)) as [i o] eqn:Eu.
      assert (Hsub : sub xs) by (intros x Hx; apply HU; simpl; apply in_or_app; now left).
      assert (HS0 : SI xs (fresh xs)).
      { exists []. simpl. repeat split; auto. intros r0 H. discriminate. }
      pose proof (update_peek_inv xs _ _ _ Hsub HS0 Eu) as Hu.
      destruct o as [[]|e]; [|discriminate].
      destruct (init_inputs r) as [is|e] eqn:Ei; [|discriminate]. injection E as <-.
      constructor; [split; [assumption|exact Hu]|].
      apply IH; [intros x Hx; apply HU; simpl; apply in_or_app; now right|reflexivity].
  Qed.
End Report.

Section ReportTop.
  Context {R C : Type}.
  Variable truthy : R -> bool.
  Variable cls_cmp : C -> C -> comparison.
  Variable cls_eqb : C -> C -> bool.
  Variable keyf : R -> res (key C).
  Hypothesis HO : cls_order cls_cmp cls_eqb.
  Variable K : R -> key C.

  (* a run that ends normally has verified the order of every input *)
  Theorem done_implies_sorted xss gs :
    (forall r, In r (concat xss) -> truthy r = true) ->
    (forall r, In r (concat xss) -> keyf r = Ok (K r)) ->
    overlap_iter truthy cls_cmp cls_eqb keyf xss = Done gs ->
    Forall (sorted_input (cls K) (st K) (en K) (clt cls_cmp)) xss.
  Proof.
    intros Ht Hk E. unfold Overlap.overlap_iter in E.
    destruct (init_inputs truthy cls_cmp keyf xss) as [ins|e] eqn:Ei; [|discriminate].
    pose proof (init_inv truthy cls_cmp cls_eqb keyf HO K (concat xss) Ht Hk xss ins (fun r H => H) Ei) as HF.
    pose proof (run_all_sorted truthy cls_cmp cls_eqb keyf HO K (concat xss) Ht Hk _ _ _ _ HF E) as Hs.
    eapply Forall_impl; [|exact Hs]. intros l Hl. exact (proj2 (sorted_input_adj truthy cls_cmp keyf K l) Hl).
  Qed.
End ReportTop.
