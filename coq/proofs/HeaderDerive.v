(* HeaderDerive.v - MafHeader.from_defaults / from_reader / scheme_header_lines:
   the header they build prints exactly the pragmas given; the overrides
   from_reader applies to the deep copy are mutations of the store model, so
   the reader's own header stays as it was. *)
From MafVerif Require Import lib.Base lib.Str model.Validation model.Header model.LineReader
  proofs.HeaderStore.
Import Store.

Definition pragma_line (key value : str) : str := HASH :: key ++ SP :: value.

(* falsy arguments (None, "", []) change nothing *)
Lemma overrides_falsy recs :
  apply_overrides recs None None None None = Ok recs /\
  apply_overrides recs (Some []) (Some []) (Some (SoArgName [])) (Some []) = Ok recs.
Proof. split; reflexivity. Qed.

(* from_defaults with a version and an annotation prints the two lines
   scheme_header_lines gives for a scheme with that pair *)
Lemma defaults_print_scheme_lines {C} (s : scheme C) c v d a :
  s_version s = c :: v -> s_annot s = d :: a ->
  exists h, header_from_defaults (Some (s_version s)) (Some (s_annot s)) None None = Ok h /\
            header_print_lines (hrecs h) = scheme_header_lines s /\ herrs h = [] /\ hmode h = Silent.
Proof.
  intros Hv Ha. unfold header_from_defaults, apply_overrides. rewrite Hv, Ha.
  eexists. split; [reflexivity|]. simpl. unfold scheme_header_lines. rewrite Hv, Ha. auto.
Qed.

(* all four given: the header prints version, annotation, contigs and sort
   order, in the order from_defaults sets them; a coordinate-type order carries
   the contigs *)
Lemma defaults_print_all c v d a x cs o own :
  exists h, header_from_defaults (Some (c :: v)) (Some (d :: a)) (Some (SoArgInst o own)) (Some (x :: cs)) = Ok h /\
    header_print_lines (hrecs h) =
      [ pragma_line K_VERSION (c :: v); pragma_line K_ANNOT (d :: a);
        pragma_line K_CONTIGS (join [COMMA] (x :: cs)); pragma_line K_SORT (so_name o) ] /\
    h_sort_order (hrecs h) = (o, if so_is_coord o then x :: cs else own).
Proof.
  unfold header_from_defaults, apply_overrides, sort_record_of_inst.
  destruct o; simpl; eexists; (split; [reflexivity|]); split; reflexivity.
Qed.

(* a sort order that brings its own contigs, no contigs argument: the contigs
   record is derived from it (and placed after the sort order) *)
Lemma defaults_print_order_with_contigs c v o x own :
  exists h, header_from_defaults (Some (c :: v)) None (Some (SoArgInst o (x :: own))) None = Ok h /\
    header_print_lines (hrecs h) =
      [ pragma_line K_VERSION (c :: v); pragma_line K_SORT (so_name o);
        pragma_line K_CONTIGS (join [COMMA] (x :: own)) ].
Proof.
  unfold header_from_defaults, apply_overrides, sort_record_of_inst. simpl.
  eexists. split; reflexivity.
Qed.

(* contigs without a sort order *)
Lemma defaults_print_contigs_only x cs :
  exists h, header_from_defaults None None None (Some (x :: cs)) = Ok h /\
    header_print_lines (hrecs h) = [ pragma_line K_CONTIGS (join [COMMA] (x :: cs)) ].
Proof. eexists. split; reflexivity. Qed.

(* an unknown sort-order name makes from_defaults / from_reader raise *)
Lemma overrides_unknown_order recs name :
  name <> [] -> so_of_name name = None ->
  apply_overrides recs None None (Some (SoArgName name)) None = Raise PlainException.
Proof.
  intros Hn Hs. unfold apply_overrides, sort_record_of_name. rewrite Hs.
  destruct name; [congruence|reflexivity].
Qed.

(* from_reader = the overrides applied to (a copy of) the reader's header;
   errors and stringency are copied *)
Lemma from_reader_is_overrides (src : header) v a so cs h :
  header_from_reader src v a so cs = Ok h ->
  apply_overrides (hrecs src) v a so cs = Ok (hrecs h) /\ herrs h = herrs src /\ hmode h = hmode src.
Proof.
  unfold header_from_reader. destruct (apply_overrides (hrecs src) v a so cs); [|discriminate].
  intros H. injection H as <-. auto.
Qed.

(* ---------- in the store: the overrides are mutations of the copy ---------- *)
Local Open Scope nat_scope.
Lemma view_set_new hp (h : sheader) k key sv :
  wf hp h ->
  (forall l, mentions sv l -> l < length hp) ->
  view (hp ++ [CRec key sv]) (dset k (length hp) h) =
  dset k {| hkey := key; hval := value_at hp sv |} (view hp h).
Proof.
  intros W Hm.
  assert (Hv : value_at (hp ++ [CRec key sv]) sv = value_at hp sv).
  { apply value_at_agree. intros l Hl. apply hget_app_l. auto. }
  induction h as [|[k' r'] h IH].
  - simpl. rewrite hget_app_new, Hv. reflexivity.
  - assert (W' : wf hp h) by (intros a b Hin; apply (W a b); now right).
    destruct (W k' r' (or_introl eq_refl)) as (key' & v' & Hg & Hl).
    assert (Hlt : r' < length hp) by (eapply hget_lt; eauto).
    cbn [view map dset fst snd]. rewrite Hg. cbn [dset].
    destruct (str_eqb k k') eqn:E.
    + cbn [view map fst snd]. rewrite hget_app_new, Hv. f_equal.
      apply view_agree. now apply agree_ext.
    + cbn [view map fst snd]. rewrite hget_app_l by exact Hlt. rewrite Hg. f_equal.
      * f_equal. f_equal. apply value_at_agree. intros l Hml.
        destruct (Hl l Hml) as [items Hi]. apply hget_app_l. eapply hget_lt; eauto.
      * apply IH. exact W'.
Qed.

Lemma apply_mut_set_text hp h k v :
  wf hp h ->
  view (fst (apply_mut hp h (MSetText k v))) (snd (apply_mut hp h (MSetText k v))) =
  dset k {| hkey := k; hval := HText v |} (view hp h).
Proof.
  intros W. cbn [apply_mut alloc fst snd]. apply (view_set_new hp h k k (SText v) W). intros l [].
Qed.

Lemma apply_mut_set_contigs hp h cs :
  wf hp h ->
  view (fst (apply_mut hp h (MSetContigs cs))) (snd (apply_mut hp h (MSetContigs cs))) =
  dset K_CONTIGS {| hkey := K_CONTIGS; hval := HContigs cs |} (view hp h).
Proof.
  intros W. cbn [apply_mut alloc fst snd].
  assert (W1 : wf (hp ++ [CList cs]) h).
  { eapply wf_agree; [apply agree_ext; exact W|exact W]. }
  replace (S (length hp)) with (length (hp ++ [CList cs])) by (rewrite app_length; simpl; lia).
  etransitivity.
  - apply (view_set_new (hp ++ [CList cs]) h K_CONTIGS K_CONTIGS (SContigs (length hp)) W1).
    intros l Hl. simpl in Hl. subst l. rewrite app_length. simpl. lia.
  - f_equal.
    + simpl. unfold list_at. now rewrite hget_app_new.
    + apply view_agree. now apply agree_ext.
Qed.

(* from_reader(reader, version, annotation, contigs) in the store: deep copy,
   then the record replacements on the copy - the copy reads as the overrides
   of the source's pragmas, the reader's own header reads as before *)
Theorem from_reader_in_store hp src hp1 cp c v d a x cs :
  wf hp src -> deepcopy hp [] src = (hp1, cp) ->
  let ms := [MSetText K_VERSION (c :: v); MSetText K_ANNOT (d :: a); MSetContigs (x :: cs)] in
  view (fst (apply_muts hp1 cp ms)) src = view hp src /\
  apply_overrides (view hp src) (Some (c :: v)) (Some (d :: a)) None (Some (x :: cs)) =
  Ok (view (fst (apply_muts hp1 cp ms)) (snd (apply_muts hp1 cp ms))).
Proof.
  intros W D ms.
  destruct (derived_header_independent hp src hp1 cp W D) as [Hsrc _].
  destruct (deepcopy_spec hp src hp1 cp W D) as (_ & Vcp & _ & _ & Sep).
  split.
  - destruct (apply_muts hp1 cp ms) as [hp2 cp'] eqn:E. exact (Hsrc ms hp2 cp' E).
  - subst ms. cbn [apply_muts].
    destruct (apply_mut hp1 cp (MSetText K_VERSION (c :: v))) as [hpa ha] eqn:Ea.
    destruct (apply_mut hpa ha (MSetText K_ANNOT (d :: a))) as [hpb hb] eqn:Eb.
    destruct (apply_mut hpb hb (MSetContigs (x :: cs))) as [hpc hc] eqn:Ec.
    cbn [fst snd].
    assert (Wcp : wf hp1 cp) by (destruct Sep as (_ & Wb & _); exact Wb).
    assert (Wa : wf hpa ha) by (destruct (apply_mut_step _ _ _ _ _ Wcp Ea) as (_ & Wx & _); exact Wx).
    assert (Wb : wf hpb hb) by (destruct (apply_mut_step _ _ _ _ _ Wa Eb) as (_ & Wx & _); exact Wx).
    pose proof (apply_mut_set_text hp1 cp K_VERSION (c :: v) Wcp) as V1. rewrite Ea in V1. cbn [fst snd] in V1.
    pose proof (apply_mut_set_text hpa ha K_ANNOT (d :: a) Wa) as V2. rewrite Eb in V2. cbn [fst snd] in V2.
    pose proof (apply_mut_set_contigs hpb hb (x :: cs) Wb) as V3. rewrite Ec in V3. cbn [fst snd] in V3.
    rewrite V3, V2, V1, Vcp. reflexivity.
Qed.
