(* SortOrderWriterFacts.v - lemmas for C10: what a MafWriter session leaves in
   the handle, with sorting on (over an abstract sorter) and off. *)
From MafVerif Require Import lib.Base lib.Str lib.SortOrderLib model.SortOrder model.OrderCheck
  model.WriterSort spec.SpecOrder proofs.SortOrderFacts proofs.SortOrderCheckFacts
  proofs.SortOrderHeaderFacts proofs.SortOrderReadFacts.
From Coq Require Import Sorted Permutation.

Section WriterFacts.
  Variable R : Type.
  Variable view : R -> locatable.
  Variable render : R -> str.
  Variable rkeys : R -> list str.
  Variable validate : R -> res unit.
  Variable sorter_iter : keyfn -> list R -> res (list R).

  Notation session := (writer_session R view render rkeys validate sorter_iter).
  Notation iadd := (writer_iadd R view render rkeys validate).
  Notation adds := (writer_adds R view render rkeys validate).
  Notation wopen := (writer_open R).
  Notation wclose := (writer_close R render sorter_iter).

  (* the key function a sorting writer uses: the class of the header's sort
     order and the header's contigs *)
  Definition header_kf (h : wheader) : keyfn :=
    {| kf_bar := match so_cls (wh_sort h) with CBarcodesAndCoordinate => true | _ => false end;
       kf_contigs := so_contigs (so_make (so_cls (wh_sort h)) (wh_contigs h)) |}.

  Definition sortable (h : wheader) : Prop := is_coordinate (so_cls (wh_sort h)) = true.

  (* the column line: the scheme's names, else the first record's names *)
  Definition col_lines (h : wheader) (rs : list R) : list str :=
    match wh_scheme h with
    | Some names => [column_line names]
    | None => match rs with [] => [] | r :: _ => [column_line (rkeys r)] end
    end.

  Lemma out0_text (t : list str) : match t with [] => [] | _ => t end = t.
  Proof. now destruct t. Qed.

  Lemma set_sorting h : sortable h ->
    set_checker_and_sorter R h false = Ok (None, Some {| st_key := header_kf h; st_recs := [] |}).
  Proof.
    unfold sortable, set_checker_and_sorter, maf_sorter_new, header_kf.
    intros H.
    assert (E1 : exists kf0, sort_key (wh_sort h) = Ok kf0)
      by (unfold sort_key; destruct (so_cls (wh_sort h)); try discriminate; eauto).
    destruct E1 as [kf0 E1]. rewrite E1. cbn [bind]. rewrite so_find_name. cbn [bind].
    unfold so_make_kw. rewrite H. cbn [bind]. unfold sort_key. cbn [so_cls so_make].
    destruct (so_cls (wh_sort h)); try discriminate; reflexivity.
  Qed.

  Lemma set_assumed h : exists ch, set_checker_and_sorter R h true = Ok (Some ch, None).
  Proof.
    unfold set_checker_and_sorter. simpl. unfold checker_init, sort_key.
    destruct (so_cls (wh_sort h)); simpl; eauto.
  Qed.

  (* ---------- adding to a writer that has its scheme ---------- *)
  Definition ready_sort (w : writer R) (kf : keyfn) (xs : list R) : Prop :=
    w_scheme R w <> None /\ w_sorter R w = Some {| st_key := kf; st_recs := xs |}.
  Definition ready_plain (w : writer R) : Prop := w_scheme R w <> None /\ w_sorter R w = None.

  Lemma adds_sort kf rs : forall w xs,
    ready_sort w kf xs ->
    Forall (fun r => validate r = Ok tt) rs -> Forall (fun r => keyed kf (view r)) rs ->
    exists w', adds w rs = (w', Ok tt) /\ ready_sort w' kf (xs ++ rs) /\
               w_out R w' = w_out R w /\ w_header R w' = w_header R w.
  Proof.
    induction rs as [|r rest IH]; intros w xs Hw Hv Hk.
    - exists w. rewrite app_nil_r. auto.
    - inversion Hv as [|? ? Hvr Hvrest]; subst. inversion Hk as [|? ? [k [Hkr _]] Hkrest]; subst.
      destruct Hw as [Hs Hso]. cbn [writer_adds]. unfold writer_iadd.
      destruct (w_scheme R w) as [names|] eqn:Es; [|congruence].
      rewrite Hvr, Hso. unfold sorter_add. cbn [st_key st_recs]. rewrite Hkr. cbn [bind].
      match goal with |- context [writer_adds _ _ _ _ _ ?x rest] => set (w1 := x) end.
      destruct (IH w1 (xs ++ [r])) as [w' [E [Hr [Ho Hh]]]]; auto.
      { split; [unfold w1; cbn; congruence|reflexivity]. }
      exists w'. rewrite E. split; [reflexivity|]. rewrite <- app_assoc in Hr. auto.
  Qed.

  Lemma adds_plain rs : forall w,
    ready_plain w -> Forall (fun r => validate r = Ok tt) rs ->
    exists w', adds w rs = (w', Ok tt) /\ ready_plain w' /\
               w_out R w' = w_out R w ++ map render rs.
  Proof.
    induction rs as [|r rest IH]; intros w Hw Hv.
    - exists w. rewrite app_nil_r. auto.
    - inversion Hv as [|? ? Hvr Hvrest]; subst.
      destruct Hw as [Hs Hso]. cbn [writer_adds]. unfold writer_iadd.
      destruct (w_scheme R w) as [names|] eqn:Es; [|congruence].
      rewrite Hvr, Hso.
      match goal with |- context [writer_adds _ _ _ _ _ ?x rest] => set (w1 := x) end.
      destruct (IH w1) as [w' [E [Hr Ho]]]; auto.
      { split; [unfold w1; cbn; congruence|reflexivity]. }
      exists w'. rewrite E. split; [reflexivity|]. split; [assumption|].
      rewrite Ho. unfold w1. cbn. now rewrite <- app_assoc.
  Qed.

  (* ---------- sorting on ---------- *)
  Lemma session_sorting h rs ys :
    sortable h ->
    Forall (fun r => validate r = Ok tt) rs ->
    Forall (fun r => keyed (header_kf h) (view r)) rs ->
    sorter_iter (header_kf h) rs = Ok ys ->
    (rs = [] -> ys = []) ->
    exists w, session h false rs = (w, Ok tt) /\ w_closed R w = true /\
              w_out R w = wh_text h ++ col_lines h rs ++ map render ys.
  Proof.
    intros Hs Hv Hk Hit Hnil. unfold writer_session, writer_open, col_lines. cbv zeta.
    destruct (wh_scheme h) as [names|] eqn:Esch.
    - rewrite (set_sorting h Hs).
      match goal with |- context [writer_adds _ _ _ _ _ ?x rs] => set (w1 := x) end.
      destruct (adds_sort (header_kf h) rs w1 []) as [w' [E [[_ Hso] [Ho Hh]]]]; auto.
      { split; [unfold w1; cbn; congruence|reflexivity]. }
      rewrite E. unfold writer_close. rewrite Hso. cbn [st_key st_recs app]. rewrite Hit.
      eexists. split; [reflexivity|]. split; [reflexivity|]. cbn. rewrite Ho. unfold w1. cbn.
      now rewrite <- app_assoc.
    - destruct rs as [|r rest].
      + cbn [writer_adds]. unfold writer_close. cbn. rewrite (Hnil eq_refl).
        eexists. split; [reflexivity|]. split; [reflexivity|]. cbn. now rewrite app_nil_r.
      + inversion Hv as [|? ? Hvr Hvrest]; subst. inversion Hk as [|? ? [k [Hkr _]] Hkrest]; subst.
        cbn [writer_adds]. unfold writer_iadd at 1. cbn [w_scheme w_header w_assume_sorted].
        rewrite (set_sorting h Hs). cbn [w_sorter]. rewrite Hvr. unfold sorter_add. cbn [st_key st_recs].
        rewrite Hkr. cbn [bind app].
        match goal with |- context [writer_adds _ _ _ _ _ ?x rest] => set (w1 := x) end.
        destruct (adds_sort (header_kf h) rest w1 [r]) as [w' [E [[_ Hso] [Ho Hh]]]]; auto.
        { split; [unfold w1; cbn; congruence|reflexivity]. }
        rewrite E. unfold writer_close. rewrite Hso. cbn [st_key st_recs app]. rewrite Hit.
        eexists. split; [reflexivity|]. split; [reflexivity|]. cbn. rewrite Ho. unfold w1. cbn.
        now rewrite <- app_assoc.
  Qed.

  (* ---------- sorting off: write order ---------- *)
  Lemma session_write_order h rs :
    Forall (fun r => validate r = Ok tt) rs ->
    exists w, session h true rs = (w, Ok tt) /\ w_closed R w = true /\
              w_out R w = wh_text h ++ col_lines h rs ++ map render rs.
  Proof.
    intros Hv. unfold writer_session, writer_open, col_lines. cbv zeta.
    destruct (wh_scheme h) as [names|] eqn:Esch.
    - destruct (set_assumed h) as [ch Hc]. rewrite Hc.
      match goal with |- context [writer_adds _ _ _ _ _ ?x rs] => set (w1 := x) end.
      destruct (adds_plain rs w1) as [w' [E [[_ Hso] Ho]]]; auto.
      { split; [unfold w1; cbn; congruence|reflexivity]. }
      rewrite E. unfold writer_close. rewrite Hso.
      eexists. split; [reflexivity|]. split; [reflexivity|]. cbn. rewrite Ho. unfold w1. cbn.
      now rewrite <- app_assoc.
    - destruct rs as [|r rest].
      + cbn [writer_adds]. unfold writer_close. cbn.
        eexists. split; [reflexivity|]. split; [reflexivity|]. cbn. now rewrite app_nil_r.
      + inversion Hv as [|? ? Hvr Hvrest]; subst.
        cbn [writer_adds]. unfold writer_iadd at 1. cbn [w_scheme w_header w_assume_sorted].
        destruct (set_assumed h) as [ch Hc]. rewrite Hc. cbn [w_sorter]. rewrite Hvr.
        match goal with |- context [writer_adds _ _ _ _ _ ?x rest] => set (w1 := x) end.
        destruct (adds_plain rest w1) as [w' [E [[_ Hso] Ho]]]; auto.
        { split; [unfold w1; cbn; congruence|reflexivity]. }
        rewrite E. unfold writer_close. rewrite Hso.
        eexists. split; [reflexivity|]. split; [reflexivity|]. cbn. rewrite Ho. unfold w1. cbn.
        rewrite <- !app_assoc. reflexivity.
  Qed.

  (* ---------- the sorter's contract (C07, with C04 for the codec) ---------- *)
  Definition sorter_contract : Prop :=
    forall kf xs, Forall (fun r => good kf (view r)) xs ->
      exists ys, sorter_iter kf xs = Ok ys /\
                 Permutation (map render ys) (map render xs) /\
                 Forall (fun r => good kf (view r)) ys /\
                 StronglySorted (fun a b => rec_ltb kf (view b) (view a) = false) ys.

  (* the printed header declares the header object's own order and contigs *)
  Definition header_coherent (h : wheader) : Prop :=
    sort_key (declared (wh_text h)) = Ok (header_kf h).

  Lemma sorted_map kf (ys : list R) :
    StronglySorted (fun a b => rec_ltb kf (view b) (view a) = false) ys ->
    StronglySorted (fun a b => rec_ltb kf b a = false) (map view ys).
  Proof.
    induction 1 as [|y ys Hs IH Hall]; simpl; constructor; [assumption|].
    rewrite Forall_forall in *. intros v Hv. apply in_map_iff in Hv as [x [<- Hx]]. auto.
  Qed.

  Lemma good_map kf (ys : list R) :
    Forall (fun r => good kf (view r)) ys -> Forall (good kf) (map view ys).
  Proof. induction 1; simpl; constructor; auto. Qed.

  Theorem sorting_writer_obeys_its_header h rs :
    sorter_contract -> sortable h ->
    Forall (fun r => validate r = Ok tt) rs ->
    Forall (fun r => good (header_kf h) (view r)) rs ->
    exists w ys,
      session h false rs = (w, Ok tt) /\ w_closed R w = true /\
      w_out R w = wh_text h ++ col_lines h rs ++ map render ys /\
      Permutation (map render ys) (map render rs) /\
      StronglySorted (fun a b => rec_ltb (header_kf h) (view b) (view a) = false) ys /\
      (header_coherent h -> reader_iter (wh_text h) (map view ys) = (map view ys, Ok tt)).
  Proof.
    intros Hc Hs Hv Hg.
    destruct (Hc (header_kf h) rs Hg) as [ys [Hit [Hp [Hgy Hsy]]]].
    assert (Hk : Forall (fun r => keyed (header_kf h) (view r)) rs).
    { rewrite Forall_forall in *. intros r Hr. exact (proj2 (Hg r Hr)). }
    assert (Hnil : rs = [] -> ys = []).
    { intros ->. simpl in Hp. apply Permutation_sym, Permutation_nil in Hp. now destruct ys. }
    destruct (session_sorting h rs ys Hs Hv Hk Hit Hnil) as [w [E [Hcl Ho]]].
    exists w, ys. repeat split; auto.
    intros Hco. unfold header_coherent in Hco.
    apply (proj1 (read_all_iff_sorted (wh_text h) (header_kf h) (map view ys) Hco (good_map _ _ Hgy))).
    now apply sorted_map.
  Qed.
End WriterFacts.
