(* FileIOParsed.v - the premise `typed_by` of the layout round trip (C02) is
   met by every record MafRecord.from_line returns without a validation error
   under the layout: each stored value is of exactly the scheme's class for
   its column and was built by that class. *)
From MafVerif Require Import lib.Base lib.Str model.RecordOps model.Validation model.Header
  model.RecordParse model.Reader model.WriterMode model.FileIO
  proofs.RecordFacts proofs.HeaderSpec proofs.ReaderModes proofs.ReaderTotal
  proofs.FileIOText proofs.FileIORecord proofs.FileIOWrite proofs.FileIORead proofs.FileIORows.

Lemma zip_fst_in {X} (a : list str) : forall (b : list X) n, In n (map fst (zip a b)) -> In n a.
Proof.
  induction a as [|x a IH]; intros [|y b] n H; cbn [zip map fst] in H; try contradiction.
  destruct H as [<-|H]; [now left|right; eauto].
Qed.

Section Parsed.
  Context {C W : Type}.
  Variable sem : colsem C W.
  Notation cls := (cls C).
  Notation scheme := (scheme cls).
  Notation mrec := (mrec C W).
  Notation payload := (payload C W).
  Notation pvalue := (pvalue C W).
  Notation column := (col payload).
  Variable value_hazard : C -> W -> bool.

  (* exact_cell without the side condition *)
  Definition built_cell (k : option cls) (p : pvalue) : Prop :=
    match k, p with
    | Some CPlain, PPlain _ => True
    | Some (CTyped c), PTyped c' w => c' = c /\ exists t, cs_build sem c t = Some w
    | _, _ => False
    end.

  Definition slots_built (s : scheme) (l : list (option column)) : Prop :=
    Forall (fun o => match o with Some c => built_cell (s_class s (ckey c)) (pv (cval c)) | None => True end) l.

  Lemma slots_built_pad s l n : slots_built s l -> slots_built s (pad l n).
  Proof.
    intros H. unfold pad, slots_built. apply Forall_app. split; [exact H|].
    apply Forall_forall. intros x Hx. apply repeat_spec in Hx. now subst.
  Qed.

  Lemma slots_built_lset s l n c :
    slots_built s l -> built_cell (s_class s (ckey c)) (pv (cval c)) -> slots_built s (lset n (Some c) l).
  Proof.
    unfold slots_built. revert n. induction l as [|x l IH]; intros n Hl Hc.
    - destruct n; constructor.
    - inversion Hl; subst. destruct n; cbn [lset]; constructor; auto.
  Qed.

  Lemma from_line_loop_built (s : scheme) ln : forall nvs i (r : rec payload) errs r' errs',
    s_truthy s = true ->
    NoDup (map fst nvs) -> (forall n, In n (map fst nvs) -> In n (s_names s)) ->
    loop_inv sem r i ->
    (forall k, In k (map fst (rdict r)) -> ~ In k (map fst nvs)) ->
    slots_built s (rlist r) ->
    from_line_loop sem (Z.of_nat i) nvs (Some s) ln r errs = Ok (r', errs') ->
    slots_built s (rlist r').
  Proof.
    induction nvs as [|[name text] rest IH]; intros i r errs r' errs' Ht ND Hsub Hinv Hfresh Hb H.
    - cbn [from_line_loop] in H. now injection H as <- _.
    - cbn [from_line_loop] in H. rewrite Ht in H.
      inversion ND as [|? ? Hnot ND']; subst.
      replace (Z.of_nat i + 1) with (Z.of_nat (S i)) in H by lia.
      assert (Hinv' : loop_inv sem r (S i)) by (destruct Hinv; constructor; auto; lia).
      assert (Hfresh' : forall k, In k (map fst (rdict r)) -> ~ In k (map fst rest))
        by (intros k Hk Hin; apply (Hfresh k Hk); cbn [map fst]; now right).
      assert (Hsub' : forall n, In n (map fst rest) -> In n (s_names s))
        by (intros n Hn; apply Hsub; cbn [map fst]; now right).
      destruct (assoc_in_keys (s_cols s) name (Hsub name (or_introl eq_refl))) as [k Hk].
      unfold s_class in H. rewrite Hk in H.
      set (built := match k with
                    | CPlain => Some (PPlain text)
                    | CTyped k0 => option_map (PTyped k0) (cs_build sem k0 text)
                    end) in H.
      assert (Hbuilt : forall p, built = Some p -> built_cell (Some k) p).
      { subst built. intros p Hp. destruct k as [|k0].
        - injection Hp as <-. exact I.
        - destruct (cs_build sem k0 text) as [w|] eqn:E; [|discriminate]. injection Hp as <-.
          split; [reflexivity|]. eauto. }
      destruct built as [p|] eqn:Eb.
      2:{ eapply (IH (S i) r); eauto. }
      match type of H with context [column_validate sem ?c true (Some s) ln] =>
        destruct (column_validate sem c true (Some s) ln) as [|ce0 ce] eqn:ECV end.
      2:{ eapply (IH (S i) r); eauto. }
      apply column_validate_nil_clean in ECV.
      assert (Ha : assoc name (rdict r) = None).
      { apply assoc_none_iff. intros Hin. apply (Hfresh name Hin). cbn [map fst]. now left. }
      match type of H with context [setitem r (KStr name) ?c] =>
        destruct (setitem_fresh sem r name c i Hinv Ha eq_refl eq_refl ECV) as (r1 & ES & Hinv2 & Hkeys);
        pose proof (setitem_fresh_eq r name c i Ha eq_refl eq_refl (li_len _ _ _ Hinv)) as ES';
        set (c1 := c) in * end.
      rewrite ES in ES'. injection ES' as Er1. rewrite ES in H.
      eapply (IH (S i) r1); eauto.
      + intros k' Hk' Hin. apply Hkeys in Hk' as [->|Hk']; [tauto|]. apply (Hfresh' k' Hk' Hin).
      + rewrite Er1. cbn [rlist]. apply slots_built_lset; [now apply slots_built_pad|].
        subst c1. cbn [with_perrs ckey cval pv]. unfold s_class. rewrite Hk. now apply Hbuilt.
  Qed.

  (* validate leaves names and values of the slots alone *)
  Lemma validate_slots_cells (sch : option scheme) reset ln slots : forall z es fn slots',
    validate_slots sem slots z reset sch ln = (es, fn, slots') ->
    map (option_map (@cell_of C W)) slots' = map (option_map (@cell_of C W)) slots.
  Proof.
    induction slots as [|[c|] rest IH]; intros z es fn slots' H; cbn [validate_slots] in H.
    - now injection H as _ _ <-.
    - destruct (validate_slots sem rest (z + 1) reset sch ln) as [[es1 fn1] rest'] eqn:E.
      injection H as _ _ <-. cbn [map option_map]. now rewrite (IH _ _ _ _ E).
    - destruct (validate_slots sem rest (z + 1) reset sch ln) as [[es1 fn1] rest'] eqn:E.
      injection H as _ _ <-. cbn [map option_map]. now rewrite (IH _ _ _ _ E).
  Qed.

  Lemma slots_built_cells s (a b : list (option column)) :
    map (option_map (@cell_of C W)) a = map (option_map (@cell_of C W)) b -> slots_built s b -> slots_built s a.
  Proof.
    revert b. induction a as [|x a IH]; intros [|y b] E H; try discriminate; [constructor|].
    cbn [map] in E. injection E as Ex E. inversion H as [|? ? Hy Hb]; subst. constructor; [|eapply IH; eauto].
    destruct x as [cx|], y as [cy|]; try discriminate; [|exact I].
    cbn [option_map] in Ex. injection Ex as Ek Ep. unfold cell_of in *. now rewrite Ek, Ep.
  Qed.

  Lemma slots_built_somes s (l : list (option column)) :
    slots_built s l ->
    Forall (fun np => built_cell (s_class s (fst np)) (snd np)) (map (@cell_of C W) (somes l)).
  Proof.
    unfold slots_built, somes. induction l as [|[c|] l IH]; intros H; inversion H; subst; cbn [flat_map app map].
    - constructor.
    - constructor; [assumption|auto].
    - auto.
  Qed.

  (* MafRecord.from_line(line, scheme=s, ...) returned a record without
     validation errors: every stored value is of exactly the scheme's class for
     its column and was built by that class *)
  Theorem parsed_built (s : scheme) line ln m lg l (r : mrec) :
    s_truthy s = true -> NoDup (s_names s) ->
    from_line sem line None (Some s) ln (Some m) lg = (l, Ok r) -> merrs r = [] ->
    Forall (fun np => built_cell (s_class s (fst np)) (snd np)) (cells_of_rec (mcols r)).
  Proof.
    intros Ht ND H Herr. rewrite from_line_unfold in H. unfold finish in H.
    destruct (fl_core sem line None (Some s) ln) as [[cols errs]|e] eqn:EF; [|discriminate].
    apply obind_process_ok in H. subst r. cbn [mk_mrec merrs mcols] in *. subst errs.
    unfold fl_core in EF.
    destruct (negb (Nat.eqb (length (s_names s)) (length (split TAB (rstrip_crlf line))))).
    { unfold rv_core in EF. destruct (validate_slots sem (rlist empty_rec) 0 false None ln) as [[es fn] sl'].
      injection EF as _ EF. discriminate. }
    destruct (from_line_loop sem 0 (zip (s_names s) (split TAB (rstrip_crlf line))) (Some s) ln empty_rec [])
      as [[cols0 errs0]|e] eqn:EL; [|discriminate].
    assert (Hb0 : slots_built s (rlist cols0)).
    { apply (from_line_loop_built s ln (zip (s_names s) (split TAB (rstrip_crlf line))) O empty_rec [] cols0 errs0 Ht).
      - now apply zip_fst_nodup.
      - intros n Hn. eapply zip_fst_in; eauto.
      - apply loop_inv_empty.
      - cbn. tauto.
      - constructor.
      - exact EL. }
    unfold rv_core in EF.
    destruct (validate_slots sem (rlist cols0) 0 false None ln) as [[es fn] sl'] eqn:EV.
    injection EF as <- _. unfold FileIORows.cells_of_rec. cbn [mk_mrec mcols rlist].
    pose proof (validate_slots_cells None false ln _ _ _ _ _ EV) as Ecells.
    exact (slots_built_somes s sl' (slots_built_cells s _ _ Ecells Hb0)).
  Qed.

  (* ... so it is typed by s, up to C04's side condition on the values it holds *)
  Lemma built_typed_by (s : scheme) (r : mrec) :
    Forall (fun np => built_cell (s_class s (fst np)) (snd np)) (cells_of_rec (mcols r)) ->
    Forall (fun np => match snd np with PTyped c w => value_hazard c w = false | PPlain _ => True end)
           (cells_of_rec (mcols r)) ->
    typed_by sem value_hazard s r.
  Proof.
    unfold FileIORows.typed_by. generalize (cells_of_rec (mcols r)) as cells.
    intros cells Hb Hhz. induction Hb as [|[n p] cells Hx _ IH]; [constructor|].
    inversion Hhz as [|? ? Hh Hhz']; subst. constructor; [|now apply IH].
    cbn [fst snd] in *. unfold exact_cell, built_cell in *.
    destruct (s_class s n) as [[|c]|]; destruct p as [t|c' w]; try tauto.
    destruct Hx as [-> Hx]. auto.
  Qed.

  Theorem parsed_typed_by (s : scheme) line ln m lg l (r : mrec) :
    s_truthy s = true -> NoDup (s_names s) ->
    from_line sem line None (Some s) ln (Some m) lg = (l, Ok r) -> merrs r = [] ->
    Forall (fun np => match snd np with PTyped c w => value_hazard c w = false | PPlain _ => True end)
           (cells_of_rec (mcols r)) ->
    typed_by sem value_hazard s r.
  Proof.
    intros Ht ND H Herr Hhz. apply built_typed_by; [|exact Hhz]. eapply parsed_built; eauto.
  Qed.
End Parsed.
