(* SortOrderCompose.v - C10's premise `sorter_contract`, discharged from the
   sorter's theorem C07 (proofs/SorterFacts.v, model/Sorter.v) instantiated as
   the MafSorter: items = records, keys = MAF sort keys (order: C08, via
   proofs/SorterMafOrder.v), text = the rendered line, codec = render /
   from_line.  What remains: the codec contract (C04's side) and the contract
   of the host's sorted()/heapq (pick_contract). *)
From MafVerif Require Import lib.Base lib.Str lib.SortOrderLib lib.SorterLib
  model.SortOrder model.OrderCheck model.WriterSort model.Sorter
  spec.SpecOrder proofs.SortOrderFacts proofs.SortOrderCheckFacts proofs.SortOrderHeaderFacts
  proofs.SortOrderWriterFacts proofs.SortOrderPrintFacts proofs.SorterFacts proofs.SorterMafOrder.
From Coq Require Import Sorted Permutation.

Section Compose.
  Variable R : Type.
  Variable view : R -> locatable.
  Variable render : R -> str.                  (* MafSorterCodec.encode: str(record) *)
  Variable dec : str -> res R.                 (* MafSorterCodec.decode: MafRecord.from_line(text, ...) *)
  Variable pick_min : forall X : Type, (X -> X -> bool) -> list X -> option (X * list X).
  Variable c : nat.                            (* max_objects_in_ram (10000 in MafSorter) *)
  Variable al : bool.                          (* always_spill *)

  (* key_func of the MafSorter built with kf *)
  Definition mkey (kf : keyfn) (r : R) : res skey := build_key kf (view r).

  (* render then from_line gives back a record with the same rendering, the
     same key, and (like the original) at least one column *)
  Definition maf_codec_contract : Prop :=
    forall kf a k, mkey kf a = Ok k ->
      exists a', dec (render a) = Ok a' /\ render a' = render a /\ mkey kf a' = Ok k /\
                 (l_truthy (view a) = true -> l_truthy (view a') = true).

  (* list(MafSorter) after adding xs, in the sorter's own model *)
  Definition maf_sorter_iter (kf : keyfn) (xs : list R) : res (list R) :=
    match adds R skey str (mkey kf) key_ltb render pick_min (new skey str c al) xs with
    | Raise e => Raise e
    | Ok s =>
        match iter R skey str (mkey kf) key_ltb dec pick_min s with
        | ((ys, None), _) => Ok ys
        | ((_, Some e), _) => Raise e
        end
    end.

  Hypothesis c_pos : (1 <= c)%nat.
  Hypothesis pick_ok : pick_contract pick_min.
  Hypothesis codec_ok : maf_codec_contract.

  (* the shape C07 asks for *)
  Lemma c07_codec kf : codec_contract R skey str (mkey kf) key_ltb render dec.
  Proof.
    intros a k Hk. destruct (codec_ok kf a k Hk) as [a' [Hd [Hr [Hk' _]]]].
    exists a', k. repeat split; auto; apply key_ltb_irrefl.
  Qed.

  Notation Inv_ kf := (Inv R skey str (mkey kf) key_ltb render dec).
  Notation add_ kf := (add R skey str (mkey kf) key_ltb render pick_min).
  Notation adds_ kf := (adds R skey str (mkey kf) key_ltb render pick_min).

  (* adding a record whose key builds never fails *)
  Lemma add_total kf s xs x k : Inv_ kf s xs -> mkey kf x = Ok k -> exists s', add_ kf s x = Ok s'.
  Proof.
    intros [Hc [Hl [Gs _]]] Hk. unfold add. rewrite Hk. cbn [bind].
    assert (E : (cap s <=? length (stash s))%nat = false) by (apply Nat.leb_gt; exact Hl).
    rewrite E.
    set (s1 := with_stash skey str s (stash s ++ [(k, render x)])).
    destruct (length (stash s1) =? cap s)%nat; [|eauto].
    assert (G1 : Forall (good_entry R skey str (mkey kf) render) (stash s1)).
    { simpl. apply Forall_app. split; [exact Gs|]. constructor; [|constructor]. exists x. split; [exact Hk|reflexivity]. }
    assert (Hne : stash s1 <> []) by (simpl; destruct (stash s); discriminate).
    destruct (spill_ok R skey str (mkey kf) key_ltb render dec pick_min maf_key_order_swo pick_ok
                (c07_codec kf) s1 G1 Hne) as [ch [Hsp _]].
    rewrite Hsp. eauto.
  Qed.

  Lemma adds_total kf xs : forall s pre, Inv_ kf s pre ->
    Forall (fun x => exists k, mkey kf x = Ok k) xs -> exists s', adds_ kf s xs = Ok s'.
  Proof.
    induction xs as [|x r IH]; intros s pre I Hk; [simpl; eauto|].
    inversion Hk as [|? ? [k Hx] Hr]; subst.
    destruct (add_total kf s pre x k I Hx) as [s1 Ha]. simpl. rewrite Ha. cbn [bind].
    apply (IH s1 (pre ++ [x])); [|exact Hr].
    exact (add_inv R skey str (mkey kf) key_ltb render dec pick_min maf_key_order_swo pick_ok
             (c07_codec kf) s pre x s1 I Ha).
  Qed.

  (* sortedness of the keys is sortedness of the records *)
  Lemma sorted_keys_records kf ys ks :
    keys_of R skey (mkey kf) ys ks -> StronglySorted (le skey key_ltb) ks ->
    StronglySorted (fun a b => rec_ltb kf (view b) (view a) = false) ys.
  Proof.
    intros Hk. induction Hk as [|y k ys ks Hy Hrest IH]; intros Hs; [constructor|].
    inversion Hs as [|? ? Hs' Hall]; subst. constructor; [now apply IH|].
    clear IH Hs Hs'. induction Hrest as [|y' k' ys' ks' Hy' Hr' IH']; constructor.
    - inversion Hall as [|? ? Hle _]; subst. unfold rec_ltb, keyof. unfold mkey in Hy, Hy'.
      rewrite Hy, Hy'. exact Hle.
    - apply IH'. now inversion Hall.
  Qed.

  (* C07 for the MafSorter => C10's sorter contract *)
  Theorem maf_sorter_meets_contract : sorter_contract R view render maf_sorter_iter.
  Proof.
    intros kf xs Hg.
    assert (Hkeys : Forall (fun x => exists k, mkey kf x = Ok k) xs).
    { eapply Forall_impl; [|exact Hg]. intros a [_ [k [Hk _]]]. now exists k. }
    destruct (adds_total kf xs (new skey str c al) []
                (inv_new R skey str (mkey kf) key_ltb render dec c al c_pos) Hkeys) as [s Hs].
    destruct (sorted_permutation R skey str (mkey kf) key_ltb render dec pick_min maf_key_order_swo
                pick_ok (c07_codec kf) c al xs s c_pos Hs) as [ys [s' [Hit [Hp [Hdec [ks [Hks Hsorted]]]]]]].
    exists ys. unfold maf_sorter_iter. rewrite Hs, Hit. split; [reflexivity|]. split; [exact Hp|].
    split; [|exact (sorted_keys_records kf ys ks Hks Hsorted)].
    (* every returned record is the decoding of the text of an added one *)
    rewrite Forall_forall in *. intros y Hy.
    assert (Hin : In (render y) (map render xs)).
    { eapply Permutation_in; [exact Hp|]. now apply in_map. }
    apply in_map_iff in Hin as [x [Hrx Hx]].
    destruct (Hg x Hx) as [Tx [k [Hk Wk]]].
    destruct (codec_ok kf x k Hk) as [a' [Hd [_ [Hk' Ht]]]].
    assert (a' = y) by (specialize (Hdec y Hy); rewrite <- Hrx, Hd in Hdec; congruence). subst a'.
    split; [now apply Ht|]. exists k. split; assumption.
  Qed.

  (* ---------- C10 composed ---------- *)
  Theorem sorting_writer_composed (rkeys : R -> list str) (validate : R -> res unit) h rs :
    sortable h ->
    Forall (fun r => validate r = Ok tt) rs ->
    Forall (fun r => good (header_kf h) (view r)) rs ->
    exists w ys,
      writer_session R view render rkeys validate maf_sorter_iter h false rs = (w, Ok tt) /\
      w_closed R w = true /\
      w_out R w = wh_text h ++ col_lines R rkeys h rs ++ map render ys /\
      Permutation (map render ys) (map render rs) /\
      StronglySorted (fun a b => rec_ltb (header_kf h) (view b) (view a) = false) ys /\
      (header_coherent h -> reader_iter (wh_text h) (map view ys) = (map view ys, Ok tt)).
  Proof.
    exact (sorting_writer_obeys_its_header R view render rkeys validate maf_sorter_iter h rs
             maf_sorter_meets_contract).
  Qed.

  Theorem sorting_writer_composed_from_lines (rkeys : R -> list str) (validate : R -> res unit) hl scheme rs :
    let h := wheader_of_lines hl scheme in
    sortable h ->
    Forall (fun r => validate r = Ok tt) rs ->
    Forall (fun r => good (header_kf h) (view r)) rs ->
    exists w ys,
      writer_session R view render rkeys validate maf_sorter_iter h false rs = (w, Ok tt) /\
      w_closed R w = true /\
      w_out R w = wh_text h ++ col_lines R rkeys h rs ++ map render ys /\
      Permutation (map render ys) (map render rs) /\
      StronglySorted (fun a b => rec_ltb (header_kf h) (view b) (view a) = false) ys /\
      reader_iter (wh_text h) (map view ys) = (map view ys, Ok tt).
  Proof.
    exact (sorting_writer_from_lines R view render rkeys validate maf_sorter_iter hl scheme rs
             maf_sorter_meets_contract).
  Qed.
End Compose.
