(* OverlapFacts.v - lemmas for C11, part 1: the order on keys, a pure
   (list-to-list) version of one group computation, and its properties:
   partition, non-emptiness, members linked, separation from what remains.
   Part 2 (OverlapRefine.v) shows that the model computes the pure version on
   well-formed sorted inputs and derives the exact-grouping theorem. *)
From MafVerif Require Import lib.Base lib.OverlapLib model.Overlap spec.SpecOverlap.

Section Facts.
  Context {R C : Type}.
  Variable cls_cmp : C -> C -> comparison.
  Variable cls_eqb : C -> C -> bool.
  Hypothesis HO : cls_order cls_cmp cls_eqb.
  (* the key of a record (total on the records considered) *)
  Variable K : R -> key C.

  Notation key_lt := (key_lt cls_cmp).
  Notation key_cmp := (key_cmp cls_cmp).
  Notation overlaps := (overlaps cls_eqb).
  Notation min_from := (min_from cls_cmp).

  Definition clt (a b : C) : Prop := cls_cmp a b = Lt.

  Definition klt (a b : key C) : Prop :=
    clt (kcls a) (kcls b) \/
    (kcls a = kcls b /\ (kstart a < kstart b \/ (kstart a = kstart b /\ kend a < kend b))).
  Definition kle (a b : key C) : Prop :=
    clt (kcls a) (kcls b) \/
    (kcls a = kcls b /\ (kstart a < kstart b \/ (kstart a = kstart b /\ kend a <= kend b))).

  Lemma cmp_refl a : cls_cmp a a = Eq.
  Proof. now apply (co_eq _ _ HO). Qed.
  Lemma clt_irrefl a : ~ clt a a.
  Proof. unfold clt. rewrite cmp_refl. discriminate. Qed.
  Lemma clt_asym a b : clt a b -> ~ clt b a.
  Proof. unfold clt. intros H. rewrite (co_antisym _ _ HO), H. discriminate. Qed.
  Lemma clt_trans a b c : clt a b -> clt b c -> clt a c.
  Proof. apply (co_trans _ _ HO). Qed.
  Lemma clt_total a b : a = b \/ clt a b \/ clt b a.
  Proof.
    unfold clt. destruct (cls_cmp a b) eqn:E.
    - left. now apply (co_eq _ _ HO).
    - right. now left.
    - right. right. rewrite (co_antisym _ _ HO), E. reflexivity.
  Qed.

  Lemma key_lt_iff a b : key_lt a b = true <-> klt a b.
  Proof.
    unfold Overlap.key_lt, Overlap.key_cmp, klt, clt.
    destruct (cls_cmp (kcls a) (kcls b)) eqn:E.
    - assert (Hab : kcls a = kcls b) by (now apply (co_eq _ _ HO)).
      destruct (Z.compare_spec (kstart a) (kstart b)) as [Hs|Hs|Hs].
      + destruct (Z.compare_spec (kend a) (kend b)) as [He|He|He]; split; intros H'.
        * discriminate.
        * destruct H' as [H'|[_ H']]; [discriminate|lia].
        * right. split; [assumption|lia].
        * reflexivity.
        * discriminate.
        * destruct H' as [H'|[_ H']]; [discriminate|lia].
      + split; intros H'; [right; split; [assumption|lia]|reflexivity].
      + split; intros H'; [discriminate|]. destruct H' as [H'|[_ H']]; [discriminate|lia].
    - split; [left; reflexivity|reflexivity].
    - split; [discriminate|]. intros [H'|[H' _]]; [discriminate|].
      rewrite H', cmp_refl in E. discriminate.
  Qed.

  Lemma kle_not_klt a b : kle b a <-> ~ klt a b.
  Proof.
    unfold kle, klt. split.
    - intros [H|[H1 H2]] [H'|[H1' H2']].
      + exact (clt_asym _ _ H H').
      + rewrite H1' in H. exact (clt_irrefl _ H).
      + rewrite H1 in H'. exact (clt_irrefl _ H').
      + lia.
    - intros H. destruct (clt_total (kcls a) (kcls b)) as [E|[E|E]].
      + right. split; [now symmetry|].
        destruct (Z_lt_le_dec (kstart b) (kstart a)); [now left|].
        destruct (Z_lt_le_dec (kstart a) (kstart b)); [exfalso; apply H; right; split; [assumption|now left]|].
        right. split; [lia|]. destruct (Z_lt_le_dec (kend a) (kend b)); [|assumption].
        exfalso. apply H. right. split; [assumption|]. right. split; [lia|assumption].
      + exfalso. apply H. now left.
      + now left.
  Qed.

  Lemma key_lt_false_iff a b : key_lt a b = false <-> kle b a.
  Proof.
    rewrite kle_not_klt, <- key_lt_iff. destruct (key_lt a b); split; congruence.
  Qed.

  Lemma klt_kle a b : klt a b -> kle a b.
  Proof. unfold klt, kle. intros [H|[H1 H2]]; [now left|right; split; [assumption|lia]]. Qed.

  Lemma kle_trans a b c : kle a b -> kle b c -> kle a c.
  Proof.
    unfold kle. intros [H|[H1 H2]] [H'|[H1' H2']].
    - left. eapply clt_trans; eassumption.
    - left. now rewrite <- H1'.
    - left. now rewrite H1.
    - right. split; [congruence|lia].
  Qed.

  Lemma kle_refl a : kle a a.
  Proof. right. split; [reflexivity|lia]. Qed.

  Lemma overlaps_iff mk k :
    overlaps mk k = true <-> kcls mk = kcls k /\ kstart mk <= kstart k <= kend mk.
  Proof.
    unfold Overlap.overlaps. rewrite !andb_true_iff, (co_eqb _ _ HO), !Z.leb_le. tauto.
  Qed.

  (* builtin min returns a least head *)
  Lemma min_from_spec : forall l best,
      let m := min_from best l in
      In m (best :: l) /\ kle m best /\ forall k, In k l -> kle m k.
  Proof.
    induction l as [|k r IH]; intros best; simpl.
    - split; [now left|]. split; [apply kle_refl|intros k []].
    - specialize (IH (if key_lt k best then k else best)).
      destruct IH as (Hin & Hb & Hr).
      destruct (key_lt k best) eqn:E.
      + split; [destruct Hin as [<-|Hin]; [right; now left|right; now right]|].
        apply key_lt_iff, klt_kle in E. split; [eapply kle_trans; eassumption|].
        intros k' [<-|Hk']; [assumption|auto].
      + split; [destruct Hin as [<-|Hin]; [now left|right; now right]|].
        apply key_lt_false_iff in E. split; [assumption|].
        intros k' [<-|Hk']; [eapply kle_trans; eassumption|auto].
  Qed.

  (* ---------------- records through their keys ---------------- *)
  Definition cls (r : R) : C := kcls (K r).
  Definition st (r : R) : Z := kstart (K r).
  Definition en (r : R) : Z := kend (K r).
  Notation overlap := (SpecOverlap.overlap cls st en).
  Notation linked := (SpecOverlap.linked cls st en).

  (* adjacent sortedness as the order-enforcing wrapper checks it *)
  Fixpoint adj_sorted (l : list R) : Prop :=
    match l with
    | [] => True
    | a :: r => match r with [] => True | b :: _ => kle (K a) (K b) end /\ adj_sorted r
    end.

  Lemma adj_sorted_tail a l : adj_sorted (a :: l) -> adj_sorted l.
  Proof. simpl. tauto. Qed.

  Lemma adj_sorted_all : forall l a, adj_sorted (a :: l) -> forall y, In y l -> kle (K a) (K y).
  Proof.
    induction l as [|b r IH]; intros a Hs y Hy; [destruct Hy|].
    destruct Hs as (Hab & Hs'). destruct Hy as [<-|Hy]; [assumption|].
    eapply kle_trans; [exact Hab|]. apply IH; assumption.
  Qed.

  Lemma overlap_sym a b : overlap a b -> overlap b a.
  Proof. unfold SpecOverlap.overlap. intros (H1 & H2 & H3). auto. Qed.

  Lemma linked_in_r U a b : linked U a b -> In b U.
  Proof. induction 1; assumption. Qed.
  Lemma linked_in_l U a b : linked U a b -> In a U.
  Proof. induction 1; assumption. Qed.

  Lemma linked_trans U a b c : linked U a b -> linked U b c -> linked U a c.
  Proof.
    intros Hab Hbc. revert Hab. induction Hbc as [b Hb|b c d Hbc IH Hd Ho]; intros Hab; [assumption|].
    eapply linked_step; [apply IH; assumption|assumption|assumption].
  Qed.

  Lemma linked_sym U a b : linked U a b -> linked U b a.
  Proof.
    induction 1 as [a Ha|a b c Hab IH Hc Ho].
    - now constructor.
    - eapply linked_trans; [|exact IH].
      apply linked_step with c; [now constructor|eapply linked_in_r; eassumption|now apply overlap_sym].
  Qed.

  (* ---------------- one group, purely ---------------- *)
  (* per input: (slot built so far, records not yet consumed) *)
  Definition pcell : Type := (list R * list R)%type.

  Fixpoint psweep (mk : key C) (added : bool) (l : list pcell) : list pcell * key C * bool :=
    match l with
    | [] => ([], mk, added)
    | (slot, xs) :: tl =>
      match xs with
      | x :: xs' =>
        if overlaps mk (K x) then
          let mk1 := if kend mk <? kend (K x) then with_end mk (kend (K x)) else mk in
          let '(tl', mk', a') := psweep mk1 true tl in ((slot ++ [x], xs') :: tl', mk', a')
        else
          let '(tl', mk', a') := psweep mk added tl in ((slot, xs) :: tl', mk', a')
      | [] => let '(tl', mk', a') := psweep mk added tl in ((slot, xs) :: tl', mk', a')
      end
    end.

  Fixpoint ploop (fuel : nat) (mk : key C) (l : list pcell) : option (list pcell) :=
    match fuel with
    | O => None
    | S f => let '(l', mk', a) := psweep mk false l in
             if a then ploop f mk' l' else Some l'
    end.

  Definition members_of (l : list pcell) : list R := concat (map fst l).
  Definition rem_of (l : list pcell) : list R := concat (map snd l).

  (* structure: every cell moves at most its head from `remaining` to `slot` *)
  Lemma psweep_struct : forall l mk added l' mk' a,
      psweep mk added l = (l', mk', a) ->
      Forall2 (fun p p' => exists ys, fst p' = fst p ++ ys /\ snd p = ys ++ snd p') l l'.
  Proof.
    induction l as [|[slot xs] tl IH]; intros mk added l' mk' a E; simpl in E.
    - injection E as <- _ _. constructor.
    - destruct xs as [|x xs'].
      + destruct (psweep mk added tl) as [[tl' mk1] a1] eqn:Et. injection E as <- _ _.
        constructor; [exists []; simpl; now rewrite app_nil_r|eapply IH; eassumption].
      + destruct (overlaps mk (K x)).
        * destruct (psweep _ true tl) as [[tl' mk1] a1] eqn:Et. injection E as <- _ _.
          constructor; [exists [x]; simpl; auto|eapply IH; eassumption].
        * destruct (psweep mk added tl) as [[tl' mk1] a1] eqn:Et. injection E as <- _ _.
          constructor; [exists []; simpl; now rewrite app_nil_r|eapply IH; eassumption].
  Qed.

  Lemma psweep_mk : forall l mk added l' mk' a,
      psweep mk added l = (l', mk', a) ->
      kcls mk' = kcls mk /\ kstart mk' = kstart mk /\ kend mk <= kend mk' /\ (added = true -> a = true).
  Proof.
    induction l as [|[slot xs] tl IH]; intros mk added l' mk' a E; simpl in E.
    - injection E as _ <- <-. repeat split; auto; lia.
    - destruct xs as [|x xs'].
      + destruct (psweep mk added tl) as [[tl' mk1] a1] eqn:Et. injection E as _ <- <-.
        eapply IH; eassumption.
      + destruct (overlaps mk (K x)).
        * destruct (psweep _ true tl) as [[tl' mk1] a1] eqn:Et. injection E as _ <- <-.
          destruct (IH _ _ _ _ _ Et) as (H1 & H2 & H3 & H4).
          destruct (Z.ltb_spec (kend mk) (kend (K x))); simpl in *; repeat split; auto; lia.
        * destruct (psweep mk added tl) as [[tl' mk1] a1] eqn:Et. injection E as _ <- <-.
          eapply IH; eassumption.
  Qed.

  (* fuel: a sweep that adds consumes at least one record *)
  Lemma psweep_measure : forall l mk added l' mk' a,
      psweep mk added l = (l', mk', a) ->
      (length (rem_of l') + (if a then 1 else 0) <= length (rem_of l) + (if added then 1 else 0))%nat.
  Proof.
    unfold rem_of.
    induction l as [|[slot xs] tl IH]; intros mk added l' mk' a E; simpl in E.
    - injection E as <- _ <-. simpl. lia.
    - destruct xs as [|x xs'].
      + destruct (psweep mk added tl) as [[tl' mk1] a1] eqn:Et. injection E as <- _ <-.
        specialize (IH _ _ _ _ _ Et). simpl. exact IH.
      + destruct (overlaps mk (K x)).
        * destruct (psweep _ true tl) as [[tl' mk1] a1] eqn:Et. injection E as <- _ <-.
          specialize (IH _ _ _ _ _ Et). simpl in *. rewrite !app_length. destruct added; lia.
        * destruct (psweep mk added tl) as [[tl' mk1] a1] eqn:Et. injection E as <- _ <-.
          specialize (IH _ _ _ _ _ Et). simpl in *. rewrite !app_length. simpl. lia.
  Qed.

  Lemma ploop_fuel : forall fuel mk l, (length (rem_of l) < fuel)%nat -> ploop fuel mk l <> None.
  Proof.
    induction fuel as [|f IH]; intros mk l Hl; [lia|]. simpl.
    destruct (psweep mk false l) as [[l' mk'] a] eqn:E.
    pose proof (psweep_measure _ _ _ _ _ _ E) as Hm. destruct a; [|discriminate].
    apply IH. simpl in Hm. lia.
  Qed.

  (* a sweep that adds nothing changes nothing and found no head that overlaps *)
  Lemma psweep_quiet : forall l mk l' mk',
      psweep mk false l = (l', mk', false) ->
      l' = l /\ mk' = mk /\
      forall slot x xs, In (slot, x :: xs) l -> overlaps mk (K x) = false.
  Proof.
    induction l as [|[slot xs] tl IH]; intros mk l' mk' E; simpl in E.
    - injection E as <- <-. repeat split; auto. intros ? ? ? [].
    - destruct xs as [|x xs'].
      + destruct (psweep mk false tl) as [[tl' mk1] a1] eqn:Et. injection E as <- <- ->.
        destruct (IH _ _ _ Et) as (-> & -> & H). repeat split; auto.
        intros s y ys [Hy|Hy]; [discriminate|eauto].
      + destruct (overlaps mk (K x)) eqn:Eo.
        * destruct (psweep _ true tl) as [[tl' mk1] a1] eqn:Et. injection E as _ _ ->.
          destruct (psweep_mk _ _ _ _ _ _ Et) as (_ & _ & _ & H). discriminate (H eq_refl).
        * destruct (psweep mk false tl) as [[tl' mk1] a1] eqn:Et. injection E as <- <- ->.
          destruct (IH _ _ _ Et) as (-> & -> & H). repeat split; auto.
          intros s y ys [Hy|Hy]; [injection Hy as _ <- _; assumption|eauto].
  Qed.

  (* ---------------- the covering invariant ---------------- *)
  Section Cover.
    Variable U : list R.          (* the universe: all records of all inputs *)
    Variable mr : R.              (* the record whose key is the minimum at group start *)
    Hypothesis mr_in : In mr U.
    Hypothesis wfU : forall r, In r U -> st r <= en r.

    (* G: records absorbed so far; e: running end *)
    Definition Cov (G : list R) (e : Z) : Prop :=
      en mr <= e /\
      (forall g, In g G -> In g U /\ cls g = cls mr /\ st mr <= st g /\ en g <= e) /\
      (forall p, st mr <= p <= e -> exists g, (g = mr \/ In g G) /\ st g <= p <= en g) /\
      (forall g, In g G -> linked U mr g).

    Lemma cov_ext G G' e : (forall x, In x G <-> In x G') -> Cov G e -> Cov G' e.
    Proof.
      intros HE (H0 & H1 & H2 & H3). split; [assumption|]. split; [|split].
      - intros g Hg. apply H1, HE, Hg.
      - intros p Hp. destruct (H2 p Hp) as (g & Hg & Hc). exists g. split; [|assumption].
        destruct Hg as [->|Hg]; [now left|right; now apply HE].
      - intros g Hg. apply H3, HE, Hg.
    Qed.

    Lemma cov_init : Cov [] (en mr).
    Proof.
      split; [lia|]. split; [intros g []|]. split; [|intros g []].
      intros p Hp. exists mr. split; [now left|assumption].
    Qed.

    Lemma cov_absorb G e x :
      Cov G e -> In x U -> cls x = cls mr -> st mr <= st x <= e ->
      Cov (x :: G) (Z.max e (en x)).
    Proof.
      intros (H0 & H1 & H2 & H3) Hx Hc Hs.
      assert (Hwx : st x <= en x) by (now apply wfU).
      assert (Hlx : linked U mr x).
      { destruct (H2 (st x) Hs) as (g & Hg & Hcov).
        assert (Hlg : linked U mr g /\ cls g = cls mr).
        { destruct Hg as [->|Hg]; [split; [now constructor|reflexivity]|].
          split; [now apply H3|]. now destruct (H1 g Hg) as (_ & ? & _). }
        destruct Hlg as (Hlg & Hcg).
        apply linked_step with g; [assumption|assumption|].
        unfold SpecOverlap.overlap. split; [congruence|lia]. }
      split; [lia|]. split; [|split].
      - intros g [<-|Hg]; [repeat split; try assumption; lia|].
        destruct (H1 g Hg) as (A & B & D & E). repeat split; try assumption. lia.
      - intros p Hp. destruct (Z_le_gt_dec p e) as [Hle|Hgt].
        + destruct (H2 p (conj (proj1 Hp) Hle)) as (g & Hg & Hcov). exists g. split; [|assumption].
          destruct Hg as [->|Hg]; [now left|right; now right].
        + exists x. split; [right; now left|]. lia.
      - intros g [<-|Hg]; [assumption|now apply H3].
    Qed.

    (* a sweep preserves the covering invariant for the set of all members *)
    Lemma psweep_cov : forall l mk added l' mk' a G,
        psweep mk added l = (l', mk', a) ->
        kcls mk = cls mr -> kstart mk = st mr ->
        (forall x, In x (rem_of l) -> In x U) ->
        Cov G (kend mk) ->
        exists news, Cov (news ++ G) (kend mk') /\
                     forall x, In x (members_of l') <-> In x (members_of l) \/ In x news.
    Proof.
      unfold members_of, rem_of.
      induction l as [|[slot xs] tl IH]; intros mk added l' mk' a G E Hk Hs HU HC; simpl in E.
      - injection E as <- <- _. exists []. split; [assumption|]. simpl. tauto.
      - assert (HUtl : forall x, In x (concat (map snd tl)) -> In x U).
        { intros x Hx. apply HU. simpl. apply in_or_app. now right. }
        destruct xs as [|x xs'].
        + destruct (psweep mk added tl) as [[tl' mk1] a1] eqn:Et. injection E as <- <- _.
          destruct (IH _ _ _ _ _ _ Et Hk Hs HUtl HC) as (news & HC' & HM).
          exists news. split; [assumption|]. intros y. simpl. rewrite !in_app_iff, HM. tauto.
        + destruct (overlaps mk (K x)) eqn:Eo.
          * destruct (psweep _ true tl) as [[tl' mk1] a1] eqn:Et. injection E as <- <- _.
            apply overlaps_iff in Eo as (Ec & Es).
            assert (HxU : In x U) by (apply HU; simpl; now left).
            assert (HC1 : Cov (x :: G) (Z.max (kend mk) (en x))).
            { apply cov_absorb; try assumption; [unfold cls in *; congruence|unfold st in *; lia]. }
            set (mk1' := if kend mk <? kend (K x) then with_end mk (kend (K x)) else mk) in *.
            assert (Hmk1 : kcls mk1' = cls mr /\ kstart mk1' = st mr /\ kend mk1' = Z.max (kend mk) (en x)).
            { subst mk1'. unfold en. destruct (Z.ltb_spec (kend mk) (kend (K x))); simpl; repeat split; auto; lia. }
            destruct Hmk1 as (A1 & A2 & A3). rewrite <- A3 in HC1.
            destruct (IH _ _ _ _ _ _ Et A1 A2 HUtl HC1) as (news & HC' & HM).
            exists (news ++ [x]). split.
            -- eapply cov_ext; [|exact HC']. intros y. rewrite !in_app_iff. simpl. tauto.
            -- intros y. simpl. rewrite !in_app_iff, HM. simpl. tauto.
          * destruct (psweep mk added tl) as [[tl' mk1] a1] eqn:Et. injection E as <- <- _.
            destruct (IH _ _ _ _ _ _ Et Hk Hs HUtl HC) as (news & HC' & HM).
            exists news. split; [assumption|]. intros y. simpl. rewrite !in_app_iff, HM. tauto.
    Qed.
  End Cover.
End Facts.
