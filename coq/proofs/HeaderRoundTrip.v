(* HeaderRoundTrip.v - printing a parsed header and parsing it again gives the
   same header with no parse-stage diagnostic (C13). *)
From MafVerif Require Import lib.Base lib.Str model.Validation model.Header spec.SpecHeader
  proofs.HeaderSpec.

(* the canonical line of a kept pragma *)
Definition pline (e : Z * str * str) : str := HASH :: kept_key e ++ SP :: kept_val e.

(* the same pragmas at consecutive positions n+1, n+2, ... *)
Fixpoint renumber (n : Z) (l : list (Z * str * str)) : list (Z * str * str) :=
  match l with
  | [] => []
  | e :: r => (n + 1, kept_key e, kept_val e) :: renumber (n + 1) r
  end.

Lemma kept_value_renumber k l : forall n, kept_value k (renumber n l) = kept_value k l.
Proof.
  induction l as [|[[p k'] v] l IH]; intros n; [reflexivity|].
  cbn [renumber kept_value kept_key kept_val fst snd]. now rewrite IH.
Qed.

Lemma map_final_renumber K K' l : forall n,
  kept_value SP_CONTIGS K' = kept_value SP_CONTIGS K ->
  map (final_rec K') (renumber n l) = map (final_rec K) l.
Proof.
  intros n H. revert n. induction l as [|[[p k] v] l IH]; intros n; [reflexivity|].
  cbn [renumber map]. rewrite IH. f_equal.
  unfold final_rec, kept_key, kept_val. cbn [fst snd]. now rewrite (interpret_ext K' K _ _ H).
Qed.

(* canonical lines of distinct, well-formed pragmas are all kept, no diagnostic *)
Lemma expected_canonical l : forall n seen,
  NoDup (map kept_key l) ->
  (forall k, In k (map kept_key l) -> ~ In k seen) ->
  (forall p k v, In (p, k, v) l -> wf_pragma k v) ->
  expected n seen (map pline l) = (renumber n l, []).
Proof.
  induction l as [|[[p k] v] l IH]; intros n seen ND Hs Hwf; [reflexivity|].
  cbn [map]. inversion ND as [|? ? Hn ND']; subst.
  assert (Ec : classify (pline (p, k, v)) = WellFormed k v).
  { apply classify_canonical. apply (Hwf p). now left. }
  assert (E : existsb (str_eqb k) seen = false).
  { destruct (existsb (str_eqb k) seen) eqn:E; [|reflexivity].
    apply existsb_str_in in E. exfalso. apply (Hs k); [now left|assumption]. }
  rewrite (expected_kept _ _ _ _ _ _ Ec E), IH; [reflexivity|assumption| |].
  - intros k' Hk' [<-|Hin]; [contradiction|]. apply (Hs k'); [now right|assumption].
  - intros p' k' v' H. apply (Hwf p'). now right.
Qed.

(* what a finished record prints as *)
Lemma hval_text_final K k v : wf_pragma k v -> hval_text (value_of (interpret K k v)) = v.
Proof.
  intros [_ [_ [_ [_ Hs]]]]. rewrite interpret_eq.
  destruct (str_eqb k K_CONTIGS); [apply join_split|].
  destruct (str_eqb k K_SORT) eqn:E; [|reflexivity].
  apply str_eqb_eq in E. apply Hs, existsb_str_in, known_name_iff in E as [o Ho].
  cbn [value_of]. rewrite Ho. now apply so_of_name_some.
Qed.

Lemma print_lines_final K l :
  (forall p k v, In (p, k, v) l -> wf_pragma k v) ->
  header_print_lines (map (final_rec K) l) = map pline l.
Proof.
  intros Hwf. unfold header_print_lines. rewrite map_map. apply map_ext_in.
  intros [[p k] v] Hin. unfold final_rec, hrec_print, pline, kept_key, kept_val.
  cbn [fst snd hkey hval]. now rewrite (hval_text_final K k v (Hwf _ _ _ Hin)).
Qed.

Section RoundTrip.
  Context {C : Type} (registry : list (scheme C)).

  Theorem round_trip lines m lg lg' l h :
    header_from_lines registry lines m lg = (l, Ok h) ->
    exists sch, h_scheme registry (hrecs h) = Ok sch /\
      header_from_lines registry (header_print_lines (hrecs h)) (Some Silent) lg' =
      ([], Ok {| hrecs := hrecs h; herrs := validate_errs registry (hrecs h) sch; hmode := Silent |}).
  Proof.
    intros H. apply (from_lines_ok_recs registry) in H.
    set (K := fst (expected_header lines)) in *.
    assert (Hwf : forall p k v, In (p, k, v) K -> wf_pragma k v)
      by (intros p k v; apply expected_kept_wf).
    assert (ND : NoDup (map kept_key K)) by apply expected_keys_nodup.
    rewrite H, (print_lines_final K K Hwf).
    destruct (from_lines_spec registry (map pline K) lg') as [sch [Hs Hf]].
    cbv zeta in Hs, Hf. unfold expected_header in Hs, Hf.
    rewrite (expected_canonical K 0 [] ND (fun _ _ F => F) Hwf) in Hs, Hf.
    cbn [fst snd map app] in Hs, Hf.
    rewrite (map_final_renumber K (renumber 0 K) K 0 (kept_value_renumber _ _ _)) in Hs, Hf.
    exists sch. split; assumption.
  Qed.

  (* str(header).split("\n") gives the record lines back *)
  Theorem print_lines_split lines m lg l h :
    header_from_lines registry lines m lg = (l, Ok h) ->
    Forall (fun ln => ~ In LF ln) lines -> hrecs h <> [] ->
    split LF (header_print (hrecs h)) = header_print_lines (hrecs h).
  Proof.
    intros H Hlf Hne. apply (from_lines_ok_recs registry) in H.
    set (K := fst (expected_header lines)) in *.
    assert (Hwf : forall p k v, In (p, k, v) K -> wf_pragma k v)
      by (intros p k v; apply expected_kept_wf).
    unfold header_print. rewrite H in *. rewrite (print_lines_final K K Hwf) in *.
    apply split_join; [destruct K; [now elim Hne|discriminate]|].
    apply Forall_forall. intros s Hs. apply in_map_iff in Hs as [[[p k] v] [<- Hin]].
    apply expected_kept_from_line in Hin as [l0 [Hl0 Hc]].
    rewrite Forall_forall in Hlf. specialize (Hlf _ Hl0).
    apply classify_wellformed_iff in Hc as [text [-> [_ [_ [-> _]]]]].
    destruct (rstrip_decomp is_space text) as [t [Ht _]].
    unfold pline, kept_key, kept_val. cbn [fst snd]. intros Hin. apply Hlf.
    destruct Hin as [Hin|Hin]; [now left|right].
    apply in_app_or in Hin. apply in_or_app. destruct Hin as [Hin|Hin]; [now left|right].
    destruct Hin as [Hin|Hin]; [now left|right].
    rewrite Ht. apply in_or_app. now left.
  Qed.

  (* the whole text round trip *)
  Corollary round_trip_text lines m lg lg' l h :
    header_from_lines registry lines m lg = (l, Ok h) ->
    Forall (fun ln => ~ In LF ln) lines -> hrecs h <> [] ->
    exists sch, h_scheme registry (hrecs h) = Ok sch /\
      header_from_lines registry (split LF (header_print (hrecs h))) (Some Silent) lg' =
      ([], Ok {| hrecs := hrecs h; herrs := validate_errs registry (hrecs h) sch; hmode := Silent |}).
  Proof.
    intros H Hlf Hne. rewrite (print_lines_split _ _ _ _ _ H Hlf Hne).
    eapply round_trip; eauto.
  Qed.
End RoundTrip.
