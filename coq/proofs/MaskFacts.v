(* MaskFacts.v - germline masking (C05): the six germline columns of the four
   public/masked layouts can only carry their null value. *)
From Coq Require Import String Ascii.
From MafVerif Require Import lib.Base lib.Str lib.PyInt gen.GenClasses gen.GenEnums gen.GenSchemas gen.GenMisc
     model.Classes model.Columns model.Layouts model.RecordOps model.ColRecord
     spec.SpecLayouts proofs.RecordFacts proofs.LayoutFacts proofs.ColumnFacts proofs.ShapeFacts proofs.ParseFacts.
Open Scope string_scope.

(* ---- (a) finite check on the regenerated layouts ---- *)
Lemma cref_eqb_eq a b : cref_eqb a b = true -> a = b.
Proof.
  revert b; induction a as [n|e IHe b0 IHb]; intros [m|e' b']; simpl; try discriminate.
  - intros H. apply String.eqb_eq in H. now subst.
  - intros H. apply andb_true_iff in H as [H1 H2]. f_equal; auto.
Qed.

Section MixCheck.
  Variable tbl : list class_info.
  Definition is_rnv_mix_g (c : cref) : bool :=
    match c with
    | CMix (CSrc n) base =>
        String.eqb n "RequireNullValue" &&
        match resolve tbl c with
        | Some r =>
            e_custom (r_self r)
            && optnd_eqb (e_null (r_self r)) null_none
            && match e_validate (r_self r) with h :: _ => String.eqb h "RequireNullValue" | [] => false end
            && lstring_eqb (e_string_it (r_self r)) ["MafColumnRecord"]
            && is_none (r_elem r)
            && (lstring_eqb (e_build (r_self r)) ["_BuildStringColumn"; MCCR]
                || lstring_eqb (e_build (r_self r)) ["IntegerColumn"; MCCR])
        | None => false
        end
    | _ => false
    end.

  Lemma is_rnv_mix_sound c :
    is_rnv_mix_g c = true ->
    exists base r,
      c = CMix (CSrc "RequireNullValue") base /\ resolve tbl c = Some r /\
      e_custom (r_self r) = true /\ e_null (r_self r) = null_none /\
      (exists rest, e_validate (r_self r) = "RequireNullValue" :: rest) /\
      e_string_it (r_self r) = ["MafColumnRecord"] /\ r_elem r = None /\
      (e_build (r_self r) = ["_BuildStringColumn"; MCCR] \/ e_build (r_self r) = ["IntegerColumn"; MCCR]).
  Proof.
    unfold is_rnv_mix_g. destruct c as [|ex base]; [discriminate|].
    destruct ex as [n|]; [|discriminate].
    intros H2. apply andb_true_iff in H2 as [En H2]. apply String.eqb_eq in En. subst n.
    destruct (resolve tbl (CMix (CSrc "RequireNullValue") base)) as [r|] eqn:Hr; [|discriminate].
    repeat match type of H2 with _ && _ = true => apply andb_true_iff in H2; destruct H2 as [H2 ?] end.
    exists base, r. repeat split; auto.
    - now apply optnd_eqb_eq.
    - destruct (e_validate (r_self r)) as [|h rest]; [discriminate|].
      match goal with Hh : String.eqb h _ = true |- _ => apply String.eqb_eq in Hh; subst h end. eauto.
    - now apply lstring_eqb_eq.
    - destruct (r_elem r); [discriminate|reflexivity].
    - match goal with Hb : _ || _ = true |- _ => apply orb_true_iff in Hb as [Hb|Hb]; apply lstring_eqb_eq in Hb end; auto.
  Qed.

  Definition only_itself_g (uni : list cref) (mix : cref) : bool :=
    forallb (fun u => implb (isinstance tbl u mix) (cref_eqb u mix)) uni.
End MixCheck.

Lemma empty_null_only_empty_text O e t v :
  e_custom e = true -> e_null e = null_none ->
  fo O (with_rnv e) t = Valid v -> v = VNone.
Proof.
  intros Hc Hn H. apply rnv_only_null in H; [|assumption].
  unfold in_null_values in H. rewrite Hn in H. simpl in H.
  rewrite orb_false_r in H. destruct v; simpl in H; try discriminate. reflexivity.
Qed.

(* a null value of such a class always renders as the empty text *)
Lemma empty_null_renders_empty e :
  e_null e = null_none -> ecls_str e VNone = Ok [].
Proof. intros Hn. unfold ecls_str. rewrite Hn. reflexivity. Qed.

(* ---- resolved view of a germline column in a masked layout ---- *)
Lemma rnv_valid_is_null r v rest :
  e_custom (r_self r) = true -> e_validate (r_self r) = "RequireNullValue" :: rest ->
  cls_value_invalid r v = false -> in_null_values (r_self r) v = true.
Proof.
  intros Hc Hv H. unfold cls_value_invalid in H. rewrite Hc in H.
  destruct (in_null_values (r_self r) v); [reflexivity|].
  unfold cls_validate_raw in H. rewrite Hv in H. cbn in H. discriminate.
Qed.

Lemma null_none_only_none e v : e_null e = null_none -> in_null_values e v = true -> v = VNone.
Proof.
  intros Hn H. unfold in_null_values in H. rewrite Hn in H. simpl in H. rewrite orb_false_r in H.
  destruct v; simpl in H; try discriminate. reflexivity.
Qed.

(* with these two build chains only the empty text builds None *)
Lemma only_empty_text_builds_none O r t :
  e_custom (r_self r) = true -> e_null (r_self r) = null_none -> r_elem r = None ->
  (e_build (r_self r) = ["_BuildStringColumn"; MCCR] \/ e_build (r_self r) = ["IntegerColumn"; MCCR]) ->
  cls_build O r t = Ok VNone -> t = [].
Proof.
  intros Hc Hn He Hb H. unfold cls_build in H. rewrite Hc, Hn in H. simpl in H.
  destruct (str_eqb t []) eqn:E; [now apply str_eqb_eq in E|].
  unfold cls_build_raw in H. destruct Hb as [Hb|Hb]; rewrite Hb in H; cbn in H.
  - discriminate.
  - unfold build_int in H. destruct (py_int t); discriminate.
Qed.

Lemma only_itself_sound tbl uni mix :
  only_itself_g tbl uni mix = true -> forall u, In u uni -> isinstance tbl u mix = true -> u = mix.
Proof.
  unfold only_itself_g. intros H u Hin Hinst. rewrite forallb_forall in H. specialize (H _ Hin).
  rewrite Hinst in H. now apply cref_eqb_eq in H.
Qed.

Lemma flat_map_nil {X Y} (f : X -> list Y) l x : flat_map f l = [] -> In x l -> f x = [].
Proof.
  induction l as [|y l IH]; simpl; [tauto|].
  intros H [<-|Hin]; apply app_nil_both in H as [H1 H2]; auto.
Qed.

Section WriterGeneral.
  Variable tbl : list class_info.

  Definition writer_emits_g (s : scheme) (r : crec) : option str :=
    match rec_validate tbl Strict (Some s) None [] r with
    | Ok _ => match rec_str tbl r with Ok line => Some line | Raise _ => None end
    | Raise _ => None
    end.

  Lemma strict_validate_ok s r es :
    rec_validate tbl Strict (Some s) None [] r = Ok es ->
    rec_sync_errors None r = [] /\ rec_validate_errors tbl (Some s) None r = [].
  Proof.
    unfold rec_validate, process_errors. simpl.
    destruct (rec_validate_errors tbl (Some s) None r ++ rec_sync_errors None r)%list eqn:E; [|discriminate].
    apply app_nil_both in E as [E1 E2]. auto.
  Qed.

  Lemma combine_seq_nth {X} (l : list X) : forall st n x,
    nth_error l n = Some x -> In ((st + n)%nat, x) (List.combine (seq st (length l)) l).
  Proof.
    induction l as [|y l IH]; intros st [|n] x H; simpl in *; try discriminate.
    - injection H as ->. left. f_equal. lia.
    - right. replace (st + S n)%nat with (S st + n)%nat by lia. now apply IH.
  Qed.

  Lemma asserts_positions (r : crec) n c :
    rec_sync_errors None r = [] -> existsb is_none (rlist r) = false ->
    nth_error (rlist r) n = Some (Some c) -> cidx c = Some (Z.of_nat n).
  Proof.
    unfold rec_sync_errors. intros H Hn Hs. rewrite Hn in H.
    apply app_nil_both in H as [_ H].
    pose proof (combine_seq_nth (rlist r) 0 n (Some c) Hs) as Hin. simpl in Hin.
    pose proof (flat_map_nil _ _ _ H Hin) as F. simpl in F.
    destruct (cidx c) as [i|]; [|discriminate].
    destruct (Z.eqb i (Z.of_nat n)) eqn:E; [|discriminate]. apply Z.eqb_eq in E. now subst.
  Qed.

  Lemma scheme_index_ge : forall (s : scheme) k st i, scheme_index s k st = Some i -> (st <= i)%nat.
  Proof.
    induction s as [|[k1 c1] s IH]; intros k st i H; simpl in H; [discriminate|].
    destruct (str_eqb k1 k); [injection H as <-; lia|]. apply IH in H. lia.
  Qed.

  Lemma scheme_index_name : forall (s : scheme) st j k n,
    scheme_index s k st = Some (j + st)%nat -> nth_error (map fst s) j = Some n -> k = n.
  Proof.
    induction s as [|[k0 c0] s IH]; intros st j k n H Hn; simpl in *; [discriminate|].
    destruct (str_eqb k0 k) eqn:E.
    - injection H as H. assert (j = 0)%nat by lia. subst. simpl in Hn. injection Hn as <-.
      apply str_eqb_eq in E. now subst.
    - destruct j as [|j].
      + apply scheme_index_ge in H. lia.
      + simpl in Hn. apply (IH (S st) j k n); [|exact Hn]. rewrite H. f_equal. lia.
  Qed.

  Theorem writer_null_general (s : scheme) (r : crec) line j g mix rr rest :
    assoc g s = Some mix -> resolve tbl mix = Some rr ->
    e_custom (r_self rr) = true -> e_null (r_self rr) = null_none ->
    e_validate (r_self rr) = "RequireNullValue" :: rest ->
    (forall n c, nth_error (rlist r) n = Some (Some c) ->
       isinstance tbl (v_cls (cval c)) mix = true -> v_cls (cval c) = mix) ->
    writer_emits_g s r = Some line ->
    nth_error (map fst s) j = Some g ->
    exists c, nth_error (rlist r) j = Some (Some c) /\ ckey c = g /\
              v_val (cval c) = VNone /\ slot_str tbl (Some c) = Ok [].
  Proof.
    intros Hassoc Hr Hc Hn Hv Hclosed Hemit Hj.
    unfold writer_emits_g in Hemit.
    destruct (rec_validate tbl Strict (Some s) None [] r) as [es|] eqn:Hval; [|discriminate].
    destruct (strict_validate_ok _ _ _ Hval) as [Hass Herr].
    unfold rec_validate_errors in Herr. apply app_nil_both in Herr as [Hcount Hslots].
    assert (Htr : scheme_truthy s = true) by (destruct s; [destruct j; discriminate|reflexivity]).
    rewrite Htr in Hcount. simpl in Hcount.
    destruct (Nat.eqb (length s) (length (rlist r))) eqn:Hlen; [|discriminate].
    apply Nat.eqb_eq in Hlen.
    assert (Hnone : existsb is_none (rlist r) = false).
    { apply not_true_is_false. intros Hex. apply existsb_exists in Hex as [o [Hin Ho]].
      destruct o; [discriminate|]. pose proof (flat_map_nil _ _ _ Hslots Hin) as F. discriminate. }
    assert (Hjlt : (j < length (rlist r))%nat).
    { rewrite <- Hlen, <- (map_length fst). apply nth_error_Some. congruence. }
    destruct (nth_error (rlist r) j) as [[c|]|] eqn:Hslot.
    2:{ exfalso. apply nth_error_In in Hslot. pose proof (flat_map_nil _ _ _ Hslots Hslot) as F. discriminate. }
    2:{ apply nth_error_None in Hslot. lia. }
    pose proof (asserts_positions _ _ _ Hass Hnone Hslot) as Hidx.
    pose proof (flat_map_nil _ _ _ Hslots (nth_error_In _ _ Hslot)) as Hcv. simpl in Hcv.
    unfold col_validate in Hcv.
    apply app_nil_both in Hcv as [Hinv Hcv]. apply app_nil_both in Hcv as [Hsep Hsch].
    rewrite Htr in Hsch.
    destruct (scheme_index s (ckey c) 0) as [si|] eqn:Hsi; [|discriminate].
    rewrite Hidx in Hsch.
    destruct (negb (Z.eqb (Z.of_nat j) (Z.of_nat si))) eqn:Hord; [discriminate|].
    apply negb_false_iff, Z.eqb_eq, Nat2Z.inj in Hord. subst si.
    assert (Hkey : ckey c = g).
    { apply (scheme_index_name s 0 j (ckey c) g); [|exact Hj]. rewrite Hsi. f_equal. lia. }
    rewrite Hkey in Hsch. unfold scheme_class in Hsch. rewrite Hassoc in Hsch.
    destruct (isinstance tbl (v_cls (cval c)) mix) eqn:Hinst; [|discriminate].
    pose proof (Hclosed _ _ Hslot Hinst) as Hcls.
    assert (Hrp : resolve_or_plain tbl (v_cls (cval c)) = rr)
      by (rewrite Hcls; unfold resolve_or_plain; now rewrite Hr).
    rewrite Hrp in Hinv.
    assert (Hval0 : cls_value_invalid rr (v_val (cval c)) = false)
      by (destruct (cls_value_invalid rr (v_val (cval c))); [discriminate|reflexivity]).
    assert (Hvn : v_val (cval c) = VNone).
    { apply (null_none_only_none _ _ Hn). eapply rnv_valid_is_null; eauto. }
    exists c. repeat split; auto.
    unfold slot_str. rewrite Hrp, Hvn. unfold col_str. now apply empty_null_renders_empty.
  Qed.
End WriterGeneral.


(* ---------- everything with the tables abstract: tactics and the kernel never
   unfold the concrete class table or layouts; the concrete facts enter as two
   boolean sweeps proved by vm_compute at the very end ---------- *)
Section Abstract.
  Variable tbl : list class_info.
  Variable ls : list layout.
  Variable uni : list cref.
  Variable O : oracles.

  Definition germline_masked_in_g (annot : string) : bool :=
    match find_layout ls annot with
    | Some l => forallb (fun g => match assoc (s2l g) (l_cols l) with
                                  | Some c => is_rnv_mix_g tbl c
                                  | None => false end) germline6
    | None => false
    end.
  Definition germline_closed_in_g (annot : string) : bool :=
    match find_layout ls annot with
    | Some l => forallb (fun g => match assoc (s2l g) (l_cols l) with
                                  | Some c => only_itself_g tbl uni c
                                  | None => false end) germline6
    | None => false
    end.
  Hypothesis Hmasked : forallb germline_masked_in_g masked_layouts = true.
  Hypothesis Hclosed : forallb germline_closed_in_g masked_layouts = true.

  Lemma germline_column_resolved_g annot g :
    In annot masked_layouts -> In g germline6 ->
    exists l c base r,
      find_layout ls annot = Some l /\ assoc (s2l g) (l_cols l) = Some c /\
      c = CMix (CSrc "RequireNullValue") base /\ resolve tbl c = Some r /\
      e_custom (r_self r) = true /\ e_null (r_self r) = null_none /\
      (exists rest, e_validate (r_self r) = "RequireNullValue" :: rest) /\
      e_string_it (r_self r) = ["MafColumnRecord"] /\ r_elem r = None /\
      (e_build (r_self r) = ["_BuildStringColumn"; MCCR] \/ e_build (r_self r) = ["IntegerColumn"; MCCR]).
  Proof.
    intros Ha Hg.
    pose proof (proj1 (forallb_forall _ _) Hmasked _ Ha) as H.
    unfold germline_masked_in_g in H.
    destruct (find_layout ls annot) as [l|]; [|discriminate].
    pose proof (proj1 (forallb_forall _ _) H _ Hg) as H2. cbv beta in H2.
    destruct (assoc (s2l g) (l_cols l)) as [c|] eqn:Hassoc; [|discriminate].
    destruct (is_rnv_mix_sound tbl c H2) as (base & r & Hc & Hrest).
    exists l, c, base, r. tauto.
  Qed.

  Theorem masked_record_exposes_only_null_g annot g l m ln line r errs :
    In annot masked_layouts -> In g germline6 -> find_layout ls annot = Some l ->
    from_line tbl O m None (Some (l_cols l)) ln line = Ok (r, errs) ->
    rec_value r (s2l g) = VNone /\
    forall n c, nth_error (rlist r) n = Some (Some c) -> ckey c = s2l g ->
      v_val (cval c) = VNone /\ slot_str tbl (Some c) = Ok [].
  Proof.
    intros Ha Hg Hl H.
    destruct (germline_column_resolved_g annot g Ha Hg) as (l' & mix & base & rr & Hl' & Hassoc & Hmix & Hr & Hc & Hn & [rest Hv] & Hs & He & Hb).
    rewrite Hl in Hl'. injection Hl' as <-.
    set (P := fun (n : str) (x : cv) => n = s2l g -> v_cls x = mix /\ v_val x = VNone).
    assert (HP : forall n t c j, stored_by tbl O (Some (l_cols l)) ln j n t c -> P n (cval c)).
    { intros n t c j [es Hst] ->.
      assert (Ht : scheme_truthy (l_cols l) = true) by (destruct (l_cols l); [discriminate|reflexivity]).
      destruct (stored_typed tbl O _ _ _ _ _ _ _ mix rr Hst Ht Hassoc Hr Hc) as (v & Hcv & _ & Hbuild & Hval & _).
      rewrite Hcv. simpl. split; [reflexivity|].
      apply (null_none_only_none _ _ Hn). eapply rnv_valid_is_null; eauto. }
    destruct (from_line_columns tbl O P m None (Some (l_cols l)) ln line r errs HP H) as (Hco & Hd & Hsl).
    split.
    - unfold rec_value. destruct (assoc (s2l g) (rdict r)) as [c|] eqn:Ea; [|reflexivity].
      apply assoc_in in Ea. now destruct (Hd _ _ Ea eq_refl).
    - intros n c Hnth Hk. destruct (Hsl n c Hnth Hk) as [Hcls Hval]. split; [exact Hval|].
      unfold slot_str. rewrite Hcls, Hval. unfold resolve_or_plain. rewrite Hr.
      unfold col_str. now apply empty_null_renders_empty.
  Qed.

  Theorem masked_strict_requires_empty_g annot g l ln line r errs j :
    In annot masked_layouts -> In g germline6 -> find_layout ls annot = Some l ->
    from_line tbl O Strict None (Some (l_cols l)) ln line = Ok (r, errs) ->
    nth_error (map fst (l_cols l)) j = Some (s2l g) ->
    nth_error (split TAB (rstrip_crlf line)) j = Some [].
  Proof.
    intros Ha Hg Hl H Hj.
    destruct (germline_column_resolved_g annot g Ha Hg) as (l' & mix & base & rr & Hl' & Hassoc & Hmix & Hr & Hc & Hn & [rest Hv] & Hs & He & Hb).
    rewrite Hl in Hl'. injection Hl' as <-.
    destruct (strict_ok_every_field_stored tbl O _ _ _ _ _ H) as [Hlen Hall].
    assert (Hjt : exists t, nth_error (split TAB (rstrip_crlf line)) j = Some t).
    { assert (j < length (map fst (l_cols l)))%nat by (apply nth_error_Some; congruence).
      rewrite map_length, <- Hlen in H0.
      destruct (nth_error (split TAB (rstrip_crlf line)) j) eqn:E; [eauto|].
      apply nth_error_None in E. lia. }
    destruct Hjt as [t Ht]. rewrite Ht. f_equal.
    destruct (Hall j _ t Hj Ht) as [c Hpf].
    assert (Htr : scheme_truthy (l_cols l) = true) by (destruct (l_cols l); [destruct j; discriminate|reflexivity]).
    destruct (stored_typed tbl O _ _ _ _ _ _ _ mix rr Hpf Htr Hassoc Hr Hc) as (v & Hcv & _ & Hbuild & Hval & _).
    assert (v = VNone).
    { apply (null_none_only_none _ _ Hn). eapply rnv_valid_is_null; eauto. }
    subst v. eapply only_empty_text_builds_none; eauto.
  Qed.

  Theorem masked_writer_emits_only_null_g annot g l r line j :
    In annot masked_layouts -> In g germline6 -> find_layout ls annot = Some l ->
    (forall n c, nth_error (rlist r) n = Some (Some c) -> In (v_cls (cval c)) uni) ->
    writer_emits_g tbl (l_cols l) r = Some line ->
    nth_error (map fst (l_cols l)) j = Some (s2l g) ->
    exists c, nth_error (rlist r) j = Some (Some c) /\ ckey c = s2l g /\
              v_val (cval c) = VNone /\ slot_str tbl (Some c) = Ok [].
  Proof.
    intros Ha Hg Hl Huni Hemit Hj.
    destruct (germline_column_resolved_g annot g Ha Hg) as (l' & mix & base & rr & Hl' & Hassoc & Hmix & Hr & Hc & Hn & [rest Hv] & Hs & He & Hb).
    rewrite Hl in Hl'. injection Hl' as <-.
    apply (writer_null_general tbl (l_cols l) r line j (s2l g) mix rr rest Hassoc Hr Hc Hn Hv); auto.
    intros n c Hslot Hinst.
    pose proof (proj1 (forallb_forall _ _) Hclosed _ Ha) as Hcl.
    unfold germline_closed_in_g in Hcl. rewrite Hl in Hcl.
    pose proof (proj1 (forallb_forall _ _) Hcl _ Hg) as Hcl2. cbv beta in Hcl2. rewrite Hassoc in Hcl2.
    exact (only_itself_sound tbl uni mix Hcl2 _ (Huni _ _ Hslot) Hinst).
  Qed.

  (* (c) *)
  Definition no_vcf_in_g (annot : string) : bool :=
    match find_layout ls annot with
    | Some l => forallb (fun v => is_none (assoc (s2l v) (l_cols l))) vcf_protected_only
    | None => false
    end.
End Abstract.

(* ---------- the concrete sweeps over the regenerated tables ---------- *)
Definition universe : list cref :=
  (map (fun ci => CSrc (ci_name ci)) class_table ++ flat_map (fun l => map snd (l_cols l)) layouts_ok)%list.
Definition public_layouts : list string := ["gdc-1.0.0-public"; "gdc-1.0.1-public"].

Lemma all_masked : forallb (germline_masked_in_g class_table layouts_ok) masked_layouts = true.
Proof. vm_compute. reflexivity. Qed.
Lemma germline_classes_closed : forallb (germline_closed_in_g class_table layouts_ok universe) masked_layouts = true.
Proof. vm_compute. reflexivity. Qed.
Lemma public_has_no_vcf : forallb (no_vcf_in_g layouts_ok) public_layouts = true.
Proof. vm_compute. reflexivity. Qed.

Definition writer_emits : scheme -> crec -> option str := writer_emits_g class_table.

Definition masked_record_exposes_only_null (O : oracles) :=
  masked_record_exposes_only_null_g class_table layouts_ok O all_masked.
Definition masked_strict_requires_empty (O : oracles) :=
  masked_strict_requires_empty_g class_table layouts_ok O all_masked.
Definition masked_writer_emits_only_null :=
  masked_writer_emits_only_null_g class_table layouts_ok universe all_masked germline_classes_closed.
