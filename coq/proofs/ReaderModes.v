(* ReaderModes.v - C03: the validation stringency only enters the modelled code
   through `process` (and the reader's no-matching-scheme warning); every entry
   point collects its errors first and hands them to `process` last. *)
From MafVerif Require Import lib.Base lib.Str model.RecordOps model.Validation model.Header
  model.RecordParse model.Reader model.WriterMode spec.SpecModes.

(* ---------- process ---------- *)
Lemma process_silent lg errs : process Silent lg errs = ([], Ok tt).
Proof. destruct errs; reflexivity. Qed.
Lemma process_lenient lg errs : process Lenient lg errs = (map (LIgnored lg) errs, Ok tt).
Proof. destruct errs; reflexivity. Qed.
Lemma process_strict_nil lg : process Strict lg [] = ([], Ok tt).
Proof. reflexivity. Qed.
Lemma process_strict_cons lg e r : process Strict lg (e :: r) = ([], Raise (format_of e)).
Proof. reflexivity. Qed.

(* ---------- the common shape: collect, then process, then return ---------- *)
Section Finish.
  Context {A X : Type}.
  Variable core : res (A * list verr).          (* does not depend on the mode *)
  Variable mk : mode -> A -> list verr -> X.
  Variable errs_of : X -> list verr.
  Variable same : X -> X -> Prop.
  Hypothesis errs_mk : forall m a es, errs_of (mk m a es) = es.
  Hypothesis same_mk : forall m m' a es, same (mk m a es) (mk m' a es).
  Hypothesis core_not_format : match core with Raise e => forall t ln, e <> MafFormat t ln | Ok _ => True end.

  Definition finish (m : mode) (lg : logger) : out X :=
    match core with
    | Raise e => ([], Raise e)
    | Ok (a, es) => obind (process m lg es) (fun _ => oret (mk m a es))
    end.

  Lemma finish_contract lg :
    stringency_contract lg errs_of same (finish Silent lg) (finish Lenient lg) (finish Strict lg).
  Proof.
    unfold stringency_contract, finish, not_format.
    destruct core as [[a es]|e].
    - rewrite process_silent, process_lenient. simpl. rewrite !errs_mk, app_nil_r.
      split; [reflexivity|]. split; [discriminate|]. split; [discriminate|].
      split; [exists (mk Lenient a es); rewrite errs_mk; auto|]. split; [reflexivity|].
      destruct es as [|e0 r]; simpl.
      + split; auto. exists (mk Strict a []). auto.
      + split; reflexivity.
    - simpl. repeat split; auto; intros t ln H; injection H as H; now apply (core_not_format t ln).
  Qed.
End Finish.

(* ---------- MafHeader.from_lines ---------- *)
Section HeaderModes.
  Context {C : Type}.
  Variable registry : list (scheme C).

  Lemma so_of_name_name o : so_of_name (so_name o) = Some o.
  Proof. destruct o; reflexivity. Qed.

  Lemma reapply_contigs_ok recs : exists recs', reapply_contigs recs = Ok recs'.
  Proof.
    unfold reapply_contigs. destruct (h_contigs recs) as [cs|]; [|eauto].
    destruct (nonempty cs); [|eauto].
    destruct (h_sort_order recs) as [o cs']. destruct (so_is_coord o); [|eauto].
    unfold sort_record_of_name. rewrite so_of_name_name.
    destruct (nonempty cs && so_is_coord o); eauto.
  Qed.

  Lemma find_scheme_raises v a e : find_scheme registry v a = Raise e -> e = ValueError.
  Proof.
    unfold find_scheme, find_scheme_class.
    destruct (falsy_ostr v && falsy_ostr a); [intros H; now injection H|].
    destruct (falsy_ostr a).
    { destruct (find _ registry) as [s|]; [destruct (s_norestr s)|]; discriminate. }
    destruct (falsy_ostr v).
    { destruct (find _ registry) as [s|]; [destruct (s_norestr s)|]; discriminate. }
    destruct (find _ registry) as [s|]; [destruct (s_norestr s)|]; discriminate.
  Qed.

  Lemma h_scheme_ok recs : exists sch, h_scheme registry recs = Ok sch.
  Proof.
    unfold h_scheme. destruct (find_scheme registry (h_version recs) (h_annotation recs)) as [s|e] eqn:E.
    - eauto.
    - apply find_scheme_raises in E. subst. eauto.
  Qed.

  (* the mode-free part of from_lines: records and all errors *)
  Definition hfl_core (lines : list str) : list (str * hrec) * list verr :=
    let '(recs, errs) := parse_header_lines 0 lines [] [] in
    match reapply_contigs recs with
    | Ok recs' =>
        match h_scheme registry recs' with
        | Ok sch => (recs', errs ++ validate_errs registry recs' sch)
        | Raise _ => (recs', errs)
        end
    | Raise _ => (recs, errs)
    end.

  Definition mk_header (m : mode) (recs : list (str * hrec)) (errs : list verr) : header :=
    {| hrecs := recs; herrs := errs; hmode := m |}.

  Lemma header_from_lines_unfold lines m lg :
    header_from_lines registry lines (Some m) lg =
    finish (Ok (hfl_core lines)) mk_header m lg.
  Proof.
    unfold header_from_lines, hfl_core, finish, header_new. simpl.
    destruct (parse_header_lines 0 lines [] []) as [recs errs].
    destruct (reapply_contigs_ok recs) as [recs' ->].
    unfold header_validate. simpl.
    destruct (h_scheme_ok recs') as [sch ->]. reflexivity.
  Qed.

  Definition same_header (a b : header) : Prop := hrecs a = hrecs b /\ herrs a = herrs b.

  Lemma header_modes lines lg :
    stringency_contract lg herrs same_header
      (header_from_lines registry lines (Some Silent) lg)
      (header_from_lines registry lines (Some Lenient) lg)
      (header_from_lines registry lines (Some Strict) lg).
  Proof.
    rewrite !header_from_lines_unfold.
    apply finish_contract; try reflexivity; auto.
    intros; split; reflexivity.
  Qed.

  (* Silent (and Lenient) from_lines always returns a header *)
  Lemma header_from_lines_silent lines lg :
    header_from_lines registry lines (Some Silent) lg =
    ([], Ok (mk_header Silent (fst (hfl_core lines)) (snd (hfl_core lines)))).
  Proof.
    rewrite header_from_lines_unfold. unfold finish.
    destruct (hfl_core lines) as [recs errs]. now rewrite process_silent.
  Qed.
End HeaderModes.

(* ---------- MafRecord.validate and MafRecord.from_line ---------- *)
Section RecordModes.
  Context {C W : Type}.
  Variable sem : colsem C W.
  Notation cls := (cls C).
  Notation scheme := (scheme cls).
  Notation mrec := (mrec C W).
  Notation payload := (payload C W).

  (* the mode-free part of validate: updated columns and all errors (it never
     fails: the self-consistency problems are errors like the others) *)
  Definition rv_core (ln : option Z) (cols : rec payload) (errs_in : list verr) (reset : bool)
             (sch : option scheme) : res (rec payload * list verr) :=
    let errs0 := if reset then [] else errs_in in
    let e_count :=
      match sch with
      | Some s => if s_truthy s && negb (s_len s =? rlen cols)
                  then [mkerr T_RECORD_MISMATCH_NUMBER_OF_COLUMNS None] else []
      | None => []
      end in
    let '(es, found_none, slots') := validate_slots sem (rlist cols) 0 reset sch ln in
    let upd (c : col payload) := with_perrs c (column_validate sem c reset sch None) in
    Ok ({| rdict := map (fun kc => (fst kc, upd (snd kc))) (rdict cols); rlist := slots' |},
        errs0 ++ e_count ++ es ++ (if found_none then [] else sync_errs cols ln)).

  Definition mk_mrec (ln : option Z) (md : mode) (cols : rec payload) (errs : list verr) : mrec :=
    {| mline := ln; mcols := cols; merrs := errs; mmode := md |}.

  Lemma record_validate_unfold (r : mrec) m lg reset sch :
    record_validate sem r m lg reset sch =
    finish (rv_core (mline r) (mcols r) (merrs r) reset sch)
           (fun _ c e => mk_mrec (mline r) (mmode r) c e)
           (match m with None => mmode r | Some x => x end) lg.
  Proof.
    unfold record_validate, rv_core, finish.
    destruct (validate_slots sem (rlist (mcols r)) 0 reset sch (mline r)) as [[es fn] slots'].
    reflexivity.
  Qed.

  Lemma rv_core_not_format ln cols errs reset sch :
    match rv_core ln cols errs reset sch with
    | Raise e => forall t l, e <> MafFormat t l
    | Ok _ => True
    end.
  Proof.
    unfold rv_core. destruct (validate_slots sem (rlist cols) 0 reset sch ln) as [[es fn] slots'].
    exact I.
  Qed.

  Definition same_mrec (a b : mrec) : Prop := mline a = mline b /\ mcols a = mcols b /\ merrs a = merrs b.

  (* record.validate under the three stringencies (argument given explicitly) *)
  Lemma record_validate_modes (r : mrec) lg reset sch :
    stringency_contract lg (@merrs C W) eq
      (record_validate sem r (Some Silent) lg reset sch)
      (record_validate sem r (Some Lenient) lg reset sch)
      (record_validate sem r (Some Strict) lg reset sch).
  Proof.
    rewrite !record_validate_unfold.
    apply finish_contract; try reflexivity. apply rv_core_not_format.
  Qed.

  (* exceptions of __setitem__ *)
  Lemma setitem_not_format (r : rec payload) k c r' e :
    setitem r k c = (r', Raise e) -> forall t l, e <> MafFormat t l.
  Proof.
    unfold setitem. intros H t l Heq. subst e.
    match type of H with context [match ?s with Ok _ => _ | Raise _ => _ end] =>
      destruct s as [c1|e1] eqn:S1 end.
    2:{ injection H as _ ->.
        destruct k; simpl in S1;
          repeat match type of S1 with
                 | context [if ?x then _ else _] => destruct x
                 | context [match ?x with _ => _ end] => destruct x
                 end; discriminate. }
    match type of H with context [match ?s with Ok _ => _ | Raise _ => _ end] =>
      destruct s as [c2|e2] eqn:S2 end.
    2:{ injection H as _ ->.
        repeat match type of S2 with
               | context [if ?x then _ else _] => destruct x
               | context [match ?x with _ => _ end] => destruct x
               end; discriminate. }
    repeat match type of H with
           | context [if ?x then _ else _] => destruct x
           | context [match ?x with _ => _ end] => destruct x
           end; discriminate.
  Qed.

  Lemma from_line_loop_not_format nvs : forall i sch ln r errs e,
    from_line_loop sem i nvs sch ln r errs = Raise e -> forall t l, e <> MafFormat t l.
  Proof.
    induction nvs as [|[name text] rest IH]; intros i sch ln r errs e; simpl; [discriminate|].
    match goal with |- context [match ?b with Some _ => _ | None => _ end = _ -> _] => destruct b as [p|] end.
    2:{ apply IH. }
    destruct (column_validate sem _ true sch ln) as [|ce0 ce].
    - destruct (setitem r (KStr name) _) as [r' [[]|e']] eqn:ES.
      + apply IH.
      + intros H. injection H as <-. eapply setitem_not_format; eauto.
    - apply IH.
  Qed.

  (* the mode-free part of from_line *)
  Definition fl_core (line : str) (column_names : option (list str)) (sch : option scheme)
             (ln : option Z) : res (rec payload * list verr) :=
    match (match column_names with
           | Some ns => Ok ns
           | None => match sch with None => Raise ValueError | Some s => Ok (s_names s) end
           end) with
    | Raise e => Raise e
    | Ok names =>
        let values := split TAB (rstrip_crlf line) in
        if negb (Nat.eqb (length names) (length values)) then
          rv_core ln empty_rec [mkerr T_RECORD_MISMATCH_NUMBER_OF_COLUMNS ln] false None
        else
          match from_line_loop sem 0 (zip names values) sch ln empty_rec [] with
          | Raise e => Raise e
          | Ok (cols, errs) => rv_core ln cols errs false None
          end
    end.

  Lemma from_line_unfold line names sch ln m lg :
    from_line sem line names sch ln (Some m) lg =
    finish (fl_core line names sch ln) (mk_mrec ln) m lg.
  Proof.
    unfold from_line, fl_core.
    destruct (match names with Some ns => Ok ns | None => _ end) as [ns|e]; [|reflexivity].
    destruct (negb (Nat.eqb (length ns) (length (split TAB (rstrip_crlf line))))).
    - rewrite record_validate_unfold. reflexivity.
    - destruct (from_line_loop sem 0 _ sch ln _ []) as [[cols errs]|e]; [|reflexivity].
      rewrite record_validate_unfold. reflexivity.
  Qed.

  Lemma fl_core_not_format line names sch ln :
    match fl_core line names sch ln with
    | Raise e => forall t l, e <> MafFormat t l
    | Ok _ => True
    end.
  Proof.
    unfold fl_core.
    destruct names as [ns|]; [|destruct sch as [s|]; [|discriminate]].
    - destruct (negb _); [apply rv_core_not_format|].
      destruct (from_line_loop sem 0 _ sch ln _ []) as [[cols errs]|e] eqn:E; [apply rv_core_not_format|].
      eapply from_line_loop_not_format; eauto.
    - destruct (negb _); [apply rv_core_not_format|].
      destruct (from_line_loop sem 0 _ (Some s) ln _ []) as [[cols errs]|e] eqn:E; [apply rv_core_not_format|].
      eapply from_line_loop_not_format; eauto.
  Qed.

  Lemma from_line_modes line names sch ln lg :
    stringency_contract lg (@merrs C W) same_mrec
      (from_line sem line names sch ln (Some Silent) lg)
      (from_line sem line names sch ln (Some Lenient) lg)
      (from_line sem line names sch ln (Some Strict) lg).
  Proof.
    rewrite !from_line_unfold.
    apply finish_contract; try reflexivity.
    - intros; repeat split.
    - apply fl_core_not_format.
  Qed.
End RecordModes.

(* ---------- MafReader ---------- *)
Section ReaderModes.
  Context {C W : Type}.
  Variable sem : colsem C W.
  Notation cls := (cls C).
  Notation scheme := (scheme cls).
  Notation mrec := (mrec C W).
  Notation payload := (payload C W).
  Variable registry : list scheme.
  Context {K : Type}.
  Variable key_of : sorder -> list str -> rec payload -> res K.
  Variable key_lt : K -> K -> bool.
  (* contract of the sort keys (property C08): building a key is total except
     for the documented ValueError *)
  Hypothesis key_total : forall o cs r, match key_of o cs r with Ok _ => True | Raise e => e = ValueError end.

  Notation reader := (reader C).
  Notation iterate := (iterate sem key_of key_lt).

  (* the mode-free plan of __init__ after the header lines were parsed *)
  Record init_plan := {
    ip_recs : list (str * hrec); ip_herrs : list verr;
    ip_next : option str; ip_lineno : Z; ip_pending : list str;
    ip_scheme : option scheme; ip_errs : list verr; ip_fallback : bool
  }.

  Definition plan_of (lines : list str) (override : option scheme) : init_plan :=
    let '(hl, nxt, n, rest) := read_header_lines lines 0 [] in
    let '(recs, herrs) := hfl_core registry hl in
    let col_ln := n in
    let '(column_names, nxt', n', rest') :=
      match nxt with
      | Some l =>
          match rest with
          | [] => (Some (split TAB l), None, n, [])
          | l2 :: rest2 => (Some (split TAB l), Some (rstrip_crlf l2), n + 1, rest2)
          end
      | None => (None, None, n, rest)
      end in
    let hs := match h_scheme registry recs with Ok hs => hs | Raise _ => None end in
    let '(sch1, errs1) :=
      match override with
      | Some o =>
          (Some o,
           herrs ++ match hs with
                    | Some s => if negb (str_eqb (s_version o) (s_version s))
                                then [mkerr T_HEADER_MISMATCH_SCHEME None] else []
                    | None => []
                    end)
      | None => (hs, herrs)
      end in
    match column_names with
    | Some names =>
        let fallback := match sch1 with None => true | Some s => s_norestr s end in
        let s := match sch1 with
                 | Some s => if s_norestr s then no_restrictions names else s
                 | None => no_restrictions names
                 end in
        let expected := s_names s in
        {| ip_recs := recs; ip_herrs := herrs; ip_next := nxt'; ip_lineno := n'; ip_pending := rest';
           ip_scheme := Some s;
           ip_errs := errs1 ++
             (if negb (Nat.eqb (length names) (length expected))
              then [mkerr T_SCHEME_MISMATCHING_NUMBER_OF_COLUMN_NAMES (Some col_ln)]
              else name_mismatches names expected (Some col_ln));
           ip_fallback := fallback |}
    | None =>
        {| ip_recs := recs; ip_herrs := herrs; ip_next := nxt'; ip_lineno := n'; ip_pending := rest';
           ip_scheme := sch1;
           ip_errs := errs1 ++ [mkerr T_HEADER_MISSING_COLUMN_NAMES (Some (n' + 1))];
           ip_fallback := false |}
    end.

  Definition mk_reader (m : mode) (p : init_plan) : reader :=
    {| rd_next := ip_next p; rd_lineno := ip_lineno p; rd_pending := ip_pending p;
       rd_header := mk_header m (ip_recs p) (ip_herrs p);
       rd_scheme := ip_scheme p; rd_errs := ip_errs p; rd_mode := m |}.

  Lemma reader_init_unfold lines m override :
    reader_init registry lines (Some m) override =
    let p := plan_of lines override in
    obind (process m LgRoot (ip_herrs p)) (fun _ =>
      olog (if ip_fallback p && negb (mode_eqb m Silent) then [LNoScheme] else [])
           (obind (process m LgReader (ip_errs p)) (fun _ => oret (mk_reader m p)))).
  Proof.
    unfold reader_init, plan_of.
    destruct (read_header_lines lines 0 []) as [[[hl nxt] n] rest].
    rewrite header_from_lines_unfold. unfold finish.
    destruct (hfl_core registry hl) as [recs herrs].
    destruct (process m LgRoot herrs) as [lg0 [[]|e]] eqn:EP.
    2:{ destruct nxt as [l|]; [destruct rest as [|l2 rest2]|]; simpl;
        repeat match goal with
               | |- context [match ?x with _ => _ end] => destruct x; simpl
               end; rewrite ?EP; reflexivity. }
    destruct (h_scheme_ok registry recs) as [hs Ehs].
    destruct nxt as [l|]; [destruct rest as [|l2 rest2]|]; simpl; rewrite Ehs;
      destruct override as [o|]; simpl; rewrite ?EP; simpl;
      repeat match goal with
             | |- context [process m LgReader ?x] => destruct (process m LgReader x) as [? [[]|?]]; simpl
             end; rewrite ?app_nil_r; reflexivity.
  Qed.

  Definition same_reader (a b : reader) : Prop :=
    rd_next a = rd_next b /\ rd_lineno a = rd_lineno b /\ rd_pending a = rd_pending b /\
    same_header (rd_header a) (rd_header b) /\ rd_scheme a = rd_scheme b /\ rd_errs a = rd_errs b.

  Definition no_ignored (l : log) : Prop := forall lg e, ~ In (LIgnored lg e) l.

  Lemma plan_errs_head lines override :
    let p := plan_of lines override in
    exists more, ip_errs p = ip_herrs p ++ more.
  Proof.
    unfold plan_of.
    destruct (read_header_lines lines 0 []) as [[[hl nxt] n] rest].
    destruct (hfl_core registry hl) as [recs herrs].
    destruct nxt as [l|]; [destruct rest as [|l2 rest2]|]; destruct override as [o|]; simpl;
      rewrite <- ?app_assoc; eexists; reflexivity.
  Qed.

  (* opening a reader under the three stringencies *)
  Lemma reader_init_modes lines override :
    let p := plan_of lines override in
    reader_init registry lines (Some Silent) override = ([], Ok (mk_reader Silent p)) /\
    (exists lgL, reader_init registry lines (Some Lenient) override = (lgL, Ok (mk_reader Lenient p)) /\
                 warns_all lgL (ip_errs p)) /\
    match ip_errs p with
    | [] => exists lgT, reader_init registry lines (Some Strict) override = (lgT, Ok (mk_reader Strict p)) /\
                        no_ignored lgT
    | e0 :: _ => exists lgT, reader_init registry lines (Some Strict) override = (lgT, Raise (format_of e0)) /\
                             no_ignored lgT
    end.
  Proof.
    intros p. rewrite !reader_init_unfold. cbv zeta. fold p.
    destruct (plan_errs_head lines override) as [more Hm]. fold p in Hm.
    split; [|split].
    - rewrite !process_silent. simpl. now rewrite andb_false_r.
    - rewrite !process_lenient. simpl. eexists. split; [reflexivity|].
      intros e He. exists LgReader. rewrite ?app_nil_r.
      apply in_or_app. right. apply in_or_app. right. now apply in_map.
    - rewrite Hm. destruct (ip_herrs p) as [|h0 hr] eqn:EH.
      + simpl. simpl in Hm. rewrite <- Hm.
        destruct (ip_errs p) as [|e0 r] eqn:EE.
        * simpl. eexists. split; [reflexivity|].
          intros lg e H. rewrite app_nil_r in H. destruct (ip_fallback p); simpl in H; [destruct H as [H|[]]; discriminate|tauto].
        * simpl. eexists. split; [reflexivity|].
          intros lg e H. rewrite app_nil_r in H. destruct (ip_fallback p); simpl in H; [destruct H as [H|[]]; discriminate|tauto].
      + simpl. eexists. split; [reflexivity|]. intros lg e [].
  Qed.

  Lemma same_reader_mk m m' p : same_reader (mk_reader m p) (mk_reader m' p).
  Proof. unfold same_reader, same_header; simpl; auto 10. Qed.

  (* the same, without reference to the plan *)
  Lemma reader_open_modes lines override :
    exists rdS, reader_init registry lines (Some Silent) override = ([], Ok rdS) /\
    (exists lgL rdL, reader_init registry lines (Some Lenient) override = (lgL, Ok rdL) /\
                     same_reader rdS rdL /\ warns_all lgL (rd_errs rdS)) /\
    match rd_errs rdS with
    | [] => exists lgT rdT, reader_init registry lines (Some Strict) override = (lgT, Ok rdT) /\
                            same_reader rdS rdT /\ no_ignored lgT
    | e0 :: _ => exists lgT, reader_init registry lines (Some Strict) override = (lgT, Raise (format_of e0)) /\
                             no_ignored lgT
    end.
  Proof.
    destruct (reader_init_modes lines override) as (HS & (lgL & HL & HwL) & HT).
    exists (mk_reader Silent (plan_of lines override)). split; [exact HS|]. split.
    - exists lgL, (mk_reader Lenient (plan_of lines override)). repeat split; auto.
    - simpl. destruct (ip_errs (plan_of lines override)).
      + destruct HT as (lgT & HT & Hn). exists lgT, (mk_reader Strict (plan_of lines override)). repeat split; auto.
      + exact HT.
  Qed.

  (* ---------- iteration ---------- *)
  Definition opt_same (a b : option mrec) : Prop :=
    match a, b with
    | Some x, Some y => same_mrec x y
    | None, None => True
    | _, _ => False
    end.

  Lemma check_order_same o cs a b r r' :
    opt_same a b -> same_mrec r r' -> check_order key_of key_lt o cs a r = check_order key_of key_lt o cs b r'.
  Proof.
    intros Hab [_ [Hc _]]. unfold check_order, mrec_truthy.
    destruct a as [x|], b as [y|]; simpl in Hab; try tauto.
    destruct Hab as [_ [Hxy _]]. now rewrite Hxy, Hc.
  Qed.

  Lemma check_order_not_format o cs a r e :
    check_order key_of key_lt o cs a r = Raise e -> e = ValueError.
  Proof.
    unfold check_order. destruct a as [lr|]; [|discriminate].
    destruct (mrec_truthy lr && sortable o); [|discriminate].
    pose proof (key_total o cs (mcols r)) as H1. destruct (key_of o cs (mcols r)) as [k|e1].
    - pose proof (key_total o cs (mcols lr)) as H2. destruct (key_of o cs (mcols lr)) as [kl|e2].
      + destruct (key_lt k kl); [intros H; now injection H|discriminate].
      + intros H; injection H as <-; assumption.
    - intros H; injection H as <-; assumption.
  Qed.

  Definition tr_log (t : log * list mrec * ending * list verr) : log := fst (fst (fst t)).
  Definition tr_recs (t : log * list mrec * ending * list verr) : list mrec := snd (fst (fst t)).
  Definition tr_end (t : log * list mrec * ending * list verr) : ending := snd (fst t).
  Definition tr_errs (t : log * list mrec * ending * list verr) : list verr := snd t.

  Lemma iterate_eq cur n pending sch mode o cs last :
    iterate cur n pending sch mode o cs last =
    match from_line sem cur None sch (Some n) (Some mode) LgRoot with
    | (lg, Raise e) => (lg, [], EndRaise e, [])
    | (lg, Ok r) =>
        match check_order key_of key_lt o cs last r with
        | Raise e => (lg, [], EndRaise e, merrs r)
        | Ok _ =>
            match pending with
            | [] => (lg, [r], EndStop, merrs r)
            | l :: pending' =>
                let t := iterate (rstrip_crlf l) (n + 1) pending' sch mode o cs (Some r) in
                (lg ++ tr_log t, r :: tr_recs t, tr_end t, merrs r ++ tr_errs t)
            end
        end
    end.
  Proof.
    destruct pending as [|l p]; simpl.
    - reflexivity.
    - destruct (from_line sem cur None sch (Some n) (Some mode) LgRoot) as [lg [r|e]]; [|reflexivity].
      destruct (check_order key_of key_lt o cs last r); [|reflexivity].
      destruct (iterate (rstrip_crlf l) (n + 1) p sch mode o cs (Some r)) as [[[x1 x2] x3] x4]. reflexivity.
  Qed.

  Definition end_not_format (e : ending) : Prop :=
    match e with EndRaise x => forall t l, x <> MafFormat t l | EndStop => True end.

  Lemma same_mrec_refl (r : mrec) : same_mrec r r.
  Proof. repeat split. Qed.
  Lemma opt_same_refl (a : option mrec) : opt_same a a.
  Proof. destruct a; simpl; auto using same_mrec_refl. Qed.

  Lemma warns_all_app l1 l2 e1 e2 : warns_all l1 e1 -> warns_all l2 e2 -> warns_all (l1 ++ l2) (e1 ++ e2).
  Proof.
    intros H1 H2 e He. apply in_app_or in He as [He|He].
    - destruct (H1 e He) as [lg H]. exists lg. apply in_or_app; now left.
    - destruct (H2 e He) as [lg H]. exists lg. apply in_or_app; now right.
  Qed.
  Lemma warns_all_map lg es : warns_all (map (LIgnored lg) es) es.
  Proof. intros e He. exists lg. now apply in_map. Qed.

  (* what C03 says about two traces of the same input *)
  Definition lenient_trace_ok (tS tL : log * list mrec * ending * list verr) : Prop :=
    Forall2 same_mrec (tr_recs tS) (tr_recs tL) /\ tr_end tL = tr_end tS /\ tr_errs tL = tr_errs tS /\
    warns_all (tr_log tL) (tr_errs tS).
  Definition strict_trace_ok (tS tT : log * list mrec * ending * list verr) : Prop :=
    tr_log tT = [] /\ tr_errs tT = [] /\
    match tr_errs tS with
    | [] => Forall2 same_mrec (tr_recs tS) (tr_recs tT) /\ tr_end tT = tr_end tS
    | e0 :: _ => Forall2 same_mrec (clean_prefix (@merrs C W) (tr_recs tS)) (tr_recs tT) /\
                 tr_end tT = EndRaise (format_of e0)
    end.

  (* iterating under the three stringencies, from related positions *)
  Lemma iterate_modes pending : forall cur n sch o cs lastS lastL lastT,
    opt_same lastS lastL -> opt_same lastS lastT ->
    tr_log (iterate cur n pending sch Silent o cs lastS) = [] /\
    end_not_format (tr_end (iterate cur n pending sch Silent o cs lastS)) /\
    lenient_trace_ok (iterate cur n pending sch Silent o cs lastS) (iterate cur n pending sch Lenient o cs lastL) /\
    strict_trace_ok (iterate cur n pending sch Silent o cs lastS) (iterate cur n pending sch Strict o cs lastT).
  Proof.
    induction pending as [|l pending IH]; intros cur n sch o cs lastS lastL lastT HL HT;
      rewrite !iterate_eq;
      pose proof (from_line_modes sem cur None sch (Some n) LgRoot) as Hc;
      unfold stringency_contract in Hc;
      destruct (from_line sem cur None sch (Some n) (Some Silent) LgRoot) as [lgS [rS|eS]];
      destruct (from_line sem cur None sch (Some n) (Some Lenient) LgRoot) as [lgL resL];
      destruct (from_line sem cur None sch (Some n) (Some Strict) LgRoot) as [lgT resT];
      simpl in Hc; destruct Hc as (HlS & HnfS & _ & Hc); subst lgS.
    (* ---- no line pending ---- *)
    - destruct Hc as ((rL & -> & HsL & HeL) & -> & HcT).
      rewrite <- (check_order_same o cs lastS lastL rS rL HL HsL).
      destruct (merrs rS) as [|e0 er] eqn:EM.
      + destruct HcT as (-> & rT & -> & HsT & HeT).
        rewrite <- (check_order_same o cs lastS lastT rS rT HT HsT).
        destruct (check_order key_of key_lt o cs lastS rS) as [[]|e] eqn:EC;
          unfold lenient_trace_ok, strict_trace_ok, tr_log, tr_recs, tr_end, tr_errs; simpl;
          rewrite ?HeL, ?HeT, ?EM; simpl.
        * repeat split; auto. intros e [].
        * apply check_order_not_format in EC. subst e. repeat split; auto; try discriminate. intros e [].
      + destruct HcT as (-> & ->).
        destruct (check_order key_of key_lt o cs lastS rS) as [[]|e] eqn:EC;
          unfold lenient_trace_ok, strict_trace_ok, tr_log, tr_recs, tr_end, tr_errs; simpl;
          rewrite ?HeL, ?EM; simpl.
        * repeat split; auto. apply (warns_all_map LgRoot (e0 :: er)).
        * apply check_order_not_format in EC. subst e. repeat split; auto; try discriminate.
          apply (warns_all_map LgRoot (e0 :: er)).
    - destruct Hc as (-> & -> & -> & ->).
      unfold lenient_trace_ok, strict_trace_ok, tr_log, tr_recs, tr_end, tr_errs; simpl.
      split; [reflexivity|]. split; [intros t l' E; apply (HnfS t l'); now rewrite E|].
      split; [repeat split; auto; intros e []|]. repeat split; auto.
    (* ---- a line pending ---- *)
    - destruct Hc as ((rL & -> & HsL & HeL) & -> & HcT).
      rewrite <- (check_order_same o cs lastS lastL rS rL HL HsL).
      destruct (merrs rS) as [|e0 er] eqn:EM.
      + destruct HcT as (-> & rT & -> & HsT & HeT).
        rewrite <- (check_order_same o cs lastS lastT rS rT HT HsT).
        destruct (check_order key_of key_lt o cs lastS rS) as [[]|e] eqn:EC.
        * destruct (IH (rstrip_crlf l) (n + 1) sch o cs (Some rS) (Some rL) (Some rT) HsL HsT)
            as (I1 & I2 & (I3 & I4 & I5 & I6) & (I7 & I8 & I9)).
          unfold lenient_trace_ok, strict_trace_ok, tr_log, tr_recs, tr_end, tr_errs in *; simpl.
          rewrite ?HeL, ?HeT, ?EM, ?I1, ?I7, ?I8, ?I5; simpl.
          split; [reflexivity|]. split; [exact I2|].
          split; [split; [constructor; auto|split; [exact I4|split; [reflexivity|exact I6]]]|].
          split; [reflexivity|]. split; [reflexivity|].
          destruct (snd (iterate (rstrip_crlf l) (n + 1) pending sch Silent o cs (Some rS))) as [|e1 er1];
            destruct I9 as [I9 I10]; (split; [constructor; auto|exact I10]).
        * apply check_order_not_format in EC. subst e.
          unfold lenient_trace_ok, strict_trace_ok, tr_log, tr_recs, tr_end, tr_errs; simpl.
          rewrite ?HeL, ?HeT, ?EM; simpl. repeat split; auto; try discriminate. intros e [].
      + destruct HcT as (-> & ->).
        destruct (check_order key_of key_lt o cs lastS rS) as [[]|e] eqn:EC.
        * destruct (IH (rstrip_crlf l) (n + 1) sch o cs (Some rS) (Some rL) (Some rS) HsL (same_mrec_refl rS))
            as (I1 & I2 & (I3 & I4 & I5 & I6) & _).
          unfold lenient_trace_ok, strict_trace_ok, tr_log, tr_recs, tr_end, tr_errs in *; simpl.
          rewrite ?HeL, ?EM, ?I1, ?I5; simpl.
          split; [reflexivity|]. split; [exact I2|].
          split; [|repeat split; constructor].
          split; [constructor; auto|]. split; [exact I4|]. split; [reflexivity|].
          change (warns_all (map (LIgnored LgRoot) (e0 :: er) ++
                             fst (fst (fst (iterate (rstrip_crlf l) (n + 1) pending sch Lenient o cs (Some rL)))))
                            ((e0 :: er) ++ snd (iterate (rstrip_crlf l) (n + 1) pending sch Silent o cs (Some rS)))).
          apply warns_all_app; [apply warns_all_map|exact I6].
        * apply check_order_not_format in EC. subst e.
          unfold lenient_trace_ok, strict_trace_ok, tr_log, tr_recs, tr_end, tr_errs; simpl.
          rewrite ?HeL, ?EM; simpl. repeat split; auto; try discriminate.
          apply (warns_all_map LgRoot (e0 :: er)).
    - destruct Hc as (-> & -> & -> & ->).
      unfold lenient_trace_ok, strict_trace_ok, tr_log, tr_recs, tr_end, tr_errs; simpl.
      split; [reflexivity|]. split; [intros t l' E; apply (HnfS t l'); now rewrite E|].
      split; [repeat split; auto; intros e []|]. repeat split; auto.
  Qed.

  (* ---------- the whole run: open, then iterate to the end ---------- *)
  Notation read_run := (read_run sem registry key_of key_lt).
  Notation reader_iterate := (reader_iterate sem key_of key_lt).

  Lemma reader_iterate_mk m p :
    reader_iterate (mk_reader m p) =
    match ip_next p with
    | None => ([], [], EndStop, [])
    | Some cur => iterate cur (ip_lineno p) (ip_pending p) (ip_scheme p) m
                          (fst (h_sort_order (ip_recs p))) (snd (h_sort_order (ip_recs p))) None
    end.
  Proof.
    unfold Reader.reader_iterate, mk_reader; simpl. destruct (ip_next p); [|reflexivity].
    destruct (h_sort_order (ip_recs p)); reflexivity.
  Qed.

  Lemma no_ignored_app a b : no_ignored a -> no_ignored b -> no_ignored (a ++ b).
  Proof. intros Ha Hb lg e H. apply in_app_or in H as [H|H]; [eapply Ha|eapply Hb]; eauto. Qed.
  Lemma no_ignored_nil : no_ignored [].
  Proof. intros lg e []. Qed.

  Definition ok_same_reader (a b : res reader) : Prop :=
    match a, b with Ok x, Ok y => same_reader x y | _, _ => False end.

  Lemma read_run_modes lines override :
    let rS := read_run lines (Some Silent) override in
    let rL := read_run lines (Some Lenient) override in
    let rT := read_run lines (Some Strict) override in
    (* Silent *)
    run_log rS = [] /\ end_not_format (run_end rS) /\
    (exists rdS, run_init rS = Ok rdS /\
       (* Lenient *)
       ok_same_reader (run_init rS) (run_init rL) /\
       Forall2 same_mrec (run_recs rS) (run_recs rL) /\ run_end rL = run_end rS /\
       run_errs rL = run_errs rS /\ warns_all (run_log rL) (run_errs rS) /\
       (* Strict *)
       no_ignored (run_log rT) /\
       match run_errs rS with
       | [] => ok_same_reader (run_init rS) (run_init rT) /\
               Forall2 same_mrec (run_recs rS) (run_recs rT) /\ run_end rT = run_end rS
       | e0 :: _ =>
           run_end rT = EndRaise (format_of e0) /\
           match rd_errs rdS with
           | [] => ok_same_reader (run_init rS) (run_init rT) /\
                   Forall2 same_mrec (clean_prefix (@merrs C W) (run_recs rS)) (run_recs rT)
           | _ :: _ => run_init rT = Raise (format_of e0) /\ run_recs rT = []
           end
       end).
  Proof.
    intros rS rL rT. subst rS rL rT. unfold Reader.read_run.
    destruct (reader_init_modes lines override) as (HS & (lgL & HL & HwL) & HT).
    set (p := plan_of lines override) in *.
    rewrite HS, HL. rewrite !reader_iterate_mk.
    destruct (ip_next p) as [cur|] eqn:EN.
    - destruct (iterate_modes (ip_pending p) cur (ip_lineno p) (ip_scheme p)
                  (fst (h_sort_order (ip_recs p))) (snd (h_sort_order (ip_recs p))) None None None I I)
        as (I1 & I2 & (I3 & I4 & I5 & I6) & (I7 & I8 & I9)).
      unfold tr_log, tr_recs, tr_end, tr_errs in *.
      destruct (iterate cur (ip_lineno p) (ip_pending p) (ip_scheme p) Silent _ _ None) as [[[lgS rsS] eS] esS].
      destruct (iterate cur (ip_lineno p) (ip_pending p) (ip_scheme p) Lenient _ _ None) as [[[lgL' rsL] eL] esL].
      simpl in *. subst lgS eL esL.
      split; [reflexivity|]. split; [exact I2|].
      exists (mk_reader Silent p). split; [reflexivity|].
      split; [apply same_reader_mk|]. split; [exact I3|]. split; [reflexivity|]. split; [reflexivity|].
      split; [apply warns_all_app; assumption|].
      destruct (ip_errs p) as [|e0 er] eqn:EE.
      + destruct HT as (lgT & HT & HnT). rewrite HT. rewrite reader_iterate_mk, EN.
        destruct (iterate cur (ip_lineno p) (ip_pending p) (ip_scheme p) Strict _ _ None) as [[[lgT' rsT] eT] esT].
        simpl in *. subst lgT' esT.
        split; [rewrite app_nil_r; exact HnT|].
        destruct esS as [|e1 er1].
        * destruct I9 as [I9 I10]. split; [apply same_reader_mk|]. split; assumption.
        * destruct I9 as [I9 I10]. split; [exact I10|]. rewrite EE. split; [apply same_reader_mk|exact I9].
      + destruct HT as (lgT & HT & HnT). rewrite HT. simpl.
        split; [exact HnT|]. split; [reflexivity|]. rewrite EE. split; reflexivity.
    - simpl. split; [reflexivity|]. split; [exact I|].
      exists (mk_reader Silent p). split; [reflexivity|].
      split; [apply same_reader_mk|]. split; [constructor|]. split; [reflexivity|]. split; [reflexivity|].
      split; [rewrite !app_nil_r; exact HwL|].
      rewrite app_nil_r.
      destruct (ip_errs p) as [|e0 er] eqn:EE.
      + destruct HT as (lgT & HT & HnT). rewrite HT. rewrite reader_iterate_mk, EN. simpl.
        split; [rewrite app_nil_r; exact HnT|]. split; [apply same_reader_mk|]. split; [constructor|reflexivity].
      + destruct HT as (lgT & HT & HnT). rewrite HT. simpl.
        split; [exact HnT|]. split; [reflexivity|]. rewrite EE. split; reflexivity.
  Qed.
End ReaderModes.

(* ---------- MafWriter ---------- *)
Section WriterModes.
  Context {C W : Type}.
  Variable sem : colsem C W.
  Notation cls := (cls C).
  Notation scheme := (scheme cls).
  Notation mrec := (mrec C W).
  Variable registry : list scheme.
  Notation writer := (writer C).

  Definition same_writer (a b : writer) : Prop :=
    w_header a = w_header b /\ w_scheme a = w_scheme b /\ w_out a = w_out b.

  Definition mk_writer (h : header) (sch : option scheme) (m : mode) (_ : unit) (errs : list verr) : writer :=
    let h' := {| hrecs := hrecs h; herrs := errs; hmode := hmode h |} in
    {| w_header := h'; w_scheme := sch; w_mode := m;
       w_out := (if nonempty (hrecs h) then [header_print (hrecs h)] else []) ++
                match sch with
                | Some s => if s_truthy s then [join [TAB] (s_names s)] else []
                | None => []
                end |}.

  Lemma writer_init_unfold h m :
    exists sch, h_scheme registry (hrecs h) = Ok sch /\
    writer_init registry h (Some m) =
    finish (Ok (tt, validate_errs registry (hrecs h) sch)) (mk_writer h sch) m LgWriter.
  Proof.
    destruct (h_scheme_ok registry (hrecs h)) as [sch E]. exists sch. split; [exact E|].
    unfold writer_init, header_validate, finish. rewrite E. simpl.
    destruct (process m LgWriter (validate_errs registry (hrecs h) sch)) as [lg [[]|e]]; simpl; [|reflexivity].
    rewrite E. simpl. now rewrite !app_nil_r.
  Qed.

  Lemma writer_init_modes h :
    stringency_contract LgWriter (fun w => herrs (w_header w)) same_writer
      (writer_init registry h (Some Silent))
      (writer_init registry h (Some Lenient))
      (writer_init registry h (Some Strict)).
  Proof.
    destruct (writer_init_unfold h Silent) as [sch [E HS]].
    destruct (writer_init_unfold h Lenient) as [sch1 [E1 HL]].
    destruct (writer_init_unfold h Strict) as [sch2 [E2 HT]].
    rewrite E in E1, E2. injection E1 as <-. injection E2 as <-.
    rewrite HS, HL, HT. apply finish_contract; try reflexivity; auto.
    intros; repeat split.
  Qed.

  (* one `writer += record` under the three stringencies *)
  (* record_text only raises PlainException *)
  Lemma record_text_not_format (v : mrec) e : record_text sem v = Raise e -> forall t l, e <> MafFormat t l.
  Proof.
    intros ET t l ->. unfold record_text in ET.
    destruct (slots_text sem (rlist (mcols v))) as [ts|e'] eqn:E1; [discriminate|].
    simpl in ET. injection ET as ->.
    revert E1. generalize (rlist (mcols v)). intros sl. induction sl as [|[c|] sl IH]; simpl; [discriminate| |].
    - destruct (col_text sem (pv (cval c))); [|discriminate].
      destruct (slots_text sem sl); [discriminate|]. simpl. intros H. apply IH. exact H.
    - destruct (slots_text sem sl); [discriminate|]. simpl. intros H. apply IH. exact H.
  Qed.

  Lemma writer_iadd_modes (wS wL wT : writer) (r : mrec) :
    same_writer wS wL -> same_writer wS wT ->
    w_mode wS = Silent -> w_mode wL = Lenient -> w_mode wT = Strict ->
    let aS := writer_iadd sem wS r in
    let aL := writer_iadd sem wL r in
    let aT := writer_iadd sem wT r in
    fst (fst aS) = [] /\ not_format (snd aS) /\ snd aL = snd aS /\ same_writer (snd (fst aS)) (snd (fst aL)) /\
    forall r', snd aS = Ok r' ->
      fst (fst aL) = map (LIgnored LgWriter) (merrs r') /\ fst (fst aT) = [] /\
      match merrs r' with
      | [] => snd aT = Ok r' /\ same_writer (snd (fst aS)) (snd (fst aT))
      | e0 :: _ => snd aT = Raise (format_of e0) /\ snd (fst aT) = wT /\
                   exists col line, w_out (snd (fst aS)) = w_out wS ++ col ++ [line]
      end.
  Proof.
    intros (HhL & HsL & HoL) (HhT & HsT & HoT) MS ML MT aS aL aT. subst aS aL aT.
    unfold writer_iadd.
    assert (EmL : scheme_missing (w_scheme wL) = scheme_missing (w_scheme wS)) by now rewrite HsL.
    assert (EmT : scheme_missing (w_scheme wT) = scheme_missing (w_scheme wS)) by now rewrite HsT.
    rewrite EmL, EmT.
    destruct (scheme_missing (w_scheme wS) && negb (names_writable _)).
    { (* the column names cannot be written: ValueError in every mode, nothing changes *)
      cbn [fst snd]. split; [reflexivity|]. split; [discriminate|]. split; [reflexivity|].
      split; [repeat split; assumption|]. discriminate. }
    rewrite <- HsL, <- HsT, MS, ML, MT.
    match goal with |- context [match ?X with (a, b) => _ end] => destruct X as [sch0 out1] end.
    pose proof (record_validate_modes sem r LgWriter true (Some sch0)) as Hc.
    unfold stringency_contract in Hc.
    destruct (record_validate sem r (Some Silent) LgWriter true (Some sch0)) as [lgS [vS|eS]];
      destruct (record_validate sem r (Some Lenient) LgWriter true (Some sch0)) as [lgL resL];
      destruct (record_validate sem r (Some Strict) LgWriter true (Some sch0)) as [lgT resT];
      simpl in Hc; destruct Hc as (-> & HnfS & _ & Hc).
    - destruct Hc as ((vL & -> & <- & _) & -> & HcT).
      destruct (record_text sem vS) as [t|e] eqn:ET; cbn [fst snd].
      + split; [reflexivity|]. split; [discriminate|]. split; [reflexivity|].
        split; [unfold same_writer; cbn [w_header w_scheme w_out]; rewrite HhL, HoL; auto|].
        intros r' Hr. injection Hr as <-.
        destruct (merrs vS) as [|e0 er] eqn:EM.
        * destruct HcT as (-> & vT & -> & <- & _). rewrite ET. cbn [fst snd].
          split; [reflexivity|]. split; [reflexivity|]. split; [reflexivity|].
          unfold same_writer; cbn [w_header w_scheme w_out]. rewrite HhT, HoT; auto.
        * destruct HcT as (-> & ->). cbn [fst snd].
          split; [reflexivity|]. split; [reflexivity|]. split; [reflexivity|]. split; [reflexivity|].
          exists out1, t. cbn [w_out]. now rewrite <- app_assoc.
      + split; [reflexivity|]. split; [intros t l H; injection H as H; exact (record_text_not_format vS e ET t l H)|].
        split; [reflexivity|].
        split; [unfold same_writer; cbn [w_header w_scheme w_out]; rewrite HhL, HoL; auto|]. discriminate.
    - destruct Hc as (-> & -> & -> & ->). cbn [fst snd].
      split; [reflexivity|]. split; [exact HnfS|]. split; [reflexivity|]. split; [repeat split; assumption|].
      discriminate.
  Qed.
End WriterModes.
