(* ReaderModes.v - C03: the validation stringency only enters the modelled code
   through `process` (and the reader's no-matching-scheme warning); every entry
   point collects its errors first and hands them to `process` last. *)
From MafVerif Require Import lib.Base lib.Str model.RecordOps model.Validation model.Header
  model.RecordParse model.Reader model.WriterMode spec.SpecModes.

(* ---------- process ---------- *)
Lemma process_silent lg errs : process Silent lg errs = ([], Ok tt).
Proof. destruct errs; reflexivity. Qed.
Lemma process_lenient lg errs : process Lenient lg errs = (map (LIgnored lg) errs, Ok tt).
Proof. destruct errs; reflexivity. Qed.
Lemma process_strict_nil lg : process Strict lg [] = ([], Ok tt).
Proof. reflexivity. Qed.
Lemma process_strict_cons lg e r : process Strict lg (e :: r) = ([], Raise (format_of e)).
Proof. reflexivity. Qed.

(* ---------- the common shape: collect, then process, then return ---------- *)
Section Finish.
  Context {A X : Type}.
  Variable core : res (A * list verr).          (* does not depend on the mode *)
  Variable mk : mode -> A -> list verr -> X.
  Variable errs_of : X -> list verr.
  Variable same : X -> X -> Prop.
  Hypothesis errs_mk : forall m a es, errs_of (mk m a es) = es.
  Hypothesis same_mk : forall m m' a es, same (mk m a es) (mk m' a es).
  Hypothesis core_not_format : match core with Raise e => forall t ln, e <> MafFormat t ln | Ok _ => True end.

  Definition finish (m : mode) (lg : logger) : out X :=
    match core with
    | Raise e => ([], Raise e)
    | Ok (a, es) => obind (process m lg es) (fun _ => oret (mk m a es))
    end.

  Lemma finish_contract lg :
    stringency_contract lg errs_of same (finish Silent lg) (finish Lenient lg) (finish Strict lg).
  Proof.
    unfold stringency_contract, finish, not_format.
    destruct core as [[a es]|e].
    - rewrite process_silent, process_lenient. simpl. rewrite !errs_mk, app_nil_r.
      split; [reflexivity|]. split; [discriminate|]. split; [discriminate|].
      split; [exists (mk Lenient a es); rewrite errs_mk; auto|]. split; [reflexivity|].
      destruct es as [|e0 r]; simpl.
      + split; auto. exists (mk Strict a []). auto.
      + split; reflexivity.
    - simpl. repeat split; auto; intros t ln H; injection H as H; now apply (core_not_format t ln).
  Qed.
End Finish.

(* ---------- MafHeader.from_lines ---------- *)
Section HeaderModes.
  Context {C : Type}.
  Variable registry : list (scheme C).

  Lemma so_of_name_name o : so_of_name (so_name o) = Some o.
  Proof. destruct o; reflexivity. Qed.

  Lemma reapply_contigs_ok recs : exists recs', reapply_contigs recs = Ok recs'.
  Proof.
    unfold reapply_contigs. destruct (h_contigs recs) as [cs|]; [|eauto].
    destruct (nonempty cs); [|eauto].
    destruct (h_sort_order recs) as [o cs']. destruct (so_is_coord o); [|eauto].
    unfold sort_record_of_name. rewrite so_of_name_name.
    destruct (nonempty cs && so_is_coord o); eauto.
  Qed.

  Lemma find_scheme_raises v a e : find_scheme registry v a = Raise e -> e = ValueError.
  Proof.
    unfold find_scheme, find_scheme_class.
    destruct (falsy_ostr v && falsy_ostr a); [intros H; now injection H|].
    destruct (falsy_ostr a).
    { destruct (find _ registry) as [s|]; [destruct (s_norestr s)|]; discriminate. }
    destruct (falsy_ostr v).
    { destruct (find _ registry) as [s|]; [destruct (s_norestr s)|]; discriminate. }
    destruct (find _ registry) as [s|]; [destruct (s_norestr s)|]; discriminate.
  Qed.

  Lemma h_scheme_ok recs : exists sch, h_scheme registry recs = Ok sch.
  Proof.
    unfold h_scheme. destruct (find_scheme registry (h_version recs) (h_annotation recs)) as [s|e] eqn:E.
    - eauto.
    - apply find_scheme_raises in E. subst. eauto.
  Qed.

  (* the mode-free part of from_lines: records and all errors *)
  Definition hfl_core (lines : list str) : list (str * hrec) * list verr :=
    let '(recs, errs) := parse_header_lines 0 lines [] [] in
    match reapply_contigs recs with
    | Ok recs' =>
        match h_scheme registry recs' with
        | Ok sch => (recs', errs ++ validate_errs registry recs' sch)
        | Raise _ => (recs', errs)
        end
    | Raise _ => (recs, errs)
    end.

  Definition mk_header (m : mode) (recs : list (str * hrec)) (errs : list verr) : header :=
    {| hrecs := recs; herrs := errs; hmode := m |}.

  Lemma header_from_lines_unfold lines m lg :
    header_from_lines registry lines (Some m) lg =
    finish (Ok (hfl_core lines)) mk_header m lg.
  Proof.
    unfold header_from_lines, hfl_core, finish, header_new. simpl.
    destruct (parse_header_lines 0 lines [] []) as [recs errs].
    destruct (reapply_contigs_ok recs) as [recs' ->].
    unfold header_validate. simpl.
    destruct (h_scheme_ok recs') as [sch ->]. reflexivity.
  Qed.

  Definition same_header (a b : header) : Prop := hrecs a = hrecs b /\ herrs a = herrs b.

  Lemma header_modes lines lg :
    stringency_contract lg herrs same_header
      (header_from_lines registry lines (Some Silent) lg)
      (header_from_lines registry lines (Some Lenient) lg)
      (header_from_lines registry lines (Some Strict) lg).
  Proof.
    rewrite !header_from_lines_unfold.
    apply finish_contract; try reflexivity; auto.
    intros; split; reflexivity.
  Qed.

  (* Silent (and Lenient) from_lines always returns a header *)
  Lemma header_from_lines_silent lines lg :
    header_from_lines registry lines (Some Silent) lg =
    ([], Ok (mk_header Silent (fst (hfl_core lines)) (snd (hfl_core lines)))).
  Proof.
    rewrite header_from_lines_unfold. unfold finish.
    destruct (hfl_core lines) as [recs errs]. now rewrite process_silent.
  Qed.
End HeaderModes.

(* ---------- MafRecord.validate and MafRecord.from_line ---------- *)
Section RecordModes.
  Context {C W : Type}.
  Variable sem : colsem C W.
  Notation cls := (cls C).
  Notation scheme := (scheme cls).
  Notation mrec := (mrec C W).
  Notation payload := (payload C W).

  (* the mode-free part of validate: updated columns and all errors, or the
     failed self-consistency assertion *)
  Definition rv_core (ln : option Z) (cols : rec payload) (errs_in : list verr) (reset : bool)
             (sch : option scheme) : res (rec payload * list verr) :=
    let errs0 := if reset then [] else errs_in in
    let e_count :=
      match sch with
      | Some s => if s_truthy s && negb (s_len s =? rlen cols)
                  then [mkerr T_RECORD_MISMATCH_NUMBER_OF_COLUMNS None] else []
      | None => []
      end in
    let '(es, found_none, slots') := validate_slots sem (rlist cols) 0 reset sch ln in
    let upd (c : col payload) := with_perrs c (column_validate sem c reset sch None) in
    if negb found_none && negb (asserts_hold cols) then Raise AssertionError
    else Ok ({| rdict := map (fun kc => (fst kc, upd (snd kc))) (rdict cols); rlist := slots' |},
             errs0 ++ e_count ++ es).

  Definition mk_mrec (ln : option Z) (md : mode) (cols : rec payload) (errs : list verr) : mrec :=
    {| mline := ln; mcols := cols; merrs := errs; mmode := md |}.

  Lemma record_validate_unfold (r : mrec) m lg reset sch :
    record_validate sem r m lg reset sch =
    finish (rv_core (mline r) (mcols r) (merrs r) reset sch)
           (fun _ c e => mk_mrec (mline r) (mmode r) c e)
           (match m with None => mmode r | Some x => x end) lg.
  Proof.
    unfold record_validate, rv_core, finish.
    destruct (validate_slots sem (rlist (mcols r)) 0 reset sch (mline r)) as [[es fn] slots'].
    destruct (negb fn && negb (asserts_hold (mcols r))); reflexivity.
  Qed.

  Lemma rv_core_not_format ln cols errs reset sch :
    match rv_core ln cols errs reset sch with
    | Raise e => forall t l, e <> MafFormat t l
    | Ok _ => True
    end.
  Proof.
    unfold rv_core. destruct (validate_slots sem (rlist cols) 0 reset sch ln) as [[es fn] slots'].
    destruct (negb fn && negb (asserts_hold cols)); [discriminate|exact I].
  Qed.

  Definition same_mrec (a b : mrec) : Prop := mline a = mline b /\ mcols a = mcols b /\ merrs a = merrs b.

  (* record.validate under the three stringencies (argument given explicitly) *)
  Lemma record_validate_modes (r : mrec) lg reset sch :
    stringency_contract lg (@merrs C W) eq
      (record_validate sem r (Some Silent) lg reset sch)
      (record_validate sem r (Some Lenient) lg reset sch)
      (record_validate sem r (Some Strict) lg reset sch).
  Proof.
    rewrite !record_validate_unfold.
    apply finish_contract; try reflexivity. apply rv_core_not_format.
  Qed.

  (* exceptions of __setitem__ *)
  Lemma setitem_not_format (r : rec payload) k c r' e :
    setitem r k c = (r', Raise e) -> forall t l, e <> MafFormat t l.
  Proof.
    unfold setitem. intros H t l Heq. subst e.
    match type of H with context [match ?s with Ok _ => _ | Raise _ => _ end] =>
      destruct s as [c1|e1] eqn:S1 end.
    2:{ injection H as _ ->.
        destruct k; simpl in S1;
          repeat match type of S1 with
                 | context [if ?x then _ else _] => destruct x
                 | context [match ?x with _ => _ end] => destruct x
                 end; discriminate. }
    match type of H with context [match ?s with Ok _ => _ | Raise _ => _ end] =>
      destruct s as [c2|e2] eqn:S2 end.
    2:{ injection H as _ ->.
        repeat match type of S2 with
               | context [if ?x then _ else _] => destruct x
               | context [match ?x with _ => _ end] => destruct x
               end; discriminate. }
    repeat match type of H with
           | context [if ?x then _ else _] => destruct x
           | context [match ?x with _ => _ end] => destruct x
           end; discriminate.
  Qed.

  Lemma from_line_loop_not_format nvs : forall i sch ln r errs e,
    from_line_loop sem i nvs sch ln r errs = Raise e -> forall t l, e <> MafFormat t l.
  Proof.
    induction nvs as [|[name text] rest IH]; intros i sch ln r errs e; simpl; [discriminate|].
    match goal with |- context [match ?b with Some _ => _ | None => _ end = _ -> _] => destruct b as [p|] end.
    2:{ apply IH. }
    destruct (column_validate sem _ true sch ln) as [|ce0 ce].
    - destruct (setitem r (KStr name) _) as [r' [[]|e']] eqn:ES.
      + apply IH.
      + intros H. injection H as <-. eapply setitem_not_format; eauto.
    - apply IH.
  Qed.

  (* the mode-free part of from_line *)
  Definition fl_core (line : str) (column_names : option (list str)) (sch : option scheme)
             (ln : option Z) : res (rec payload * list verr) :=
    match (match column_names with
           | Some ns => Ok ns
           | None => match sch with None => Raise ValueError | Some s => Ok (s_names s) end
           end) with
    | Raise e => Raise e
    | Ok names =>
        let values := split TAB (rstrip_crlf line) in
        if negb (Nat.eqb (length names) (length values)) then
          rv_core ln empty_rec [mkerr T_RECORD_MISMATCH_NUMBER_OF_COLUMNS ln] false None
        else
          match from_line_loop sem 0 (zip names values) sch ln empty_rec [] with
          | Raise e => Raise e
          | Ok (cols, errs) => rv_core ln cols errs false None
          end
    end.

  Lemma from_line_unfold line names sch ln m lg :
    from_line sem line names sch ln (Some m) lg =
    finish (fl_core line names sch ln) (mk_mrec ln) m lg.
  Proof.
    unfold from_line, fl_core.
    destruct (match names with Some ns => Ok ns | None => _ end) as [ns|e]; [|reflexivity].
    destruct (negb (Nat.eqb (length ns) (length (split TAB (rstrip_crlf line))))).
    - rewrite record_validate_unfold. reflexivity.
    - destruct (from_line_loop sem 0 _ sch ln _ []) as [[cols errs]|e]; [|reflexivity].
      rewrite record_validate_unfold. reflexivity.
  Qed.

  Lemma fl_core_not_format line names sch ln :
    match fl_core line names sch ln with
    | Raise e => forall t l, e <> MafFormat t l
    | Ok _ => True
    end.
  Proof.
    unfold fl_core.
    destruct names as [ns|]; [|destruct sch as [s|]; [|discriminate]].
    - destruct (negb _); [apply rv_core_not_format|].
      destruct (from_line_loop sem 0 _ sch ln _ []) as [[cols errs]|e] eqn:E; [apply rv_core_not_format|].
      eapply from_line_loop_not_format; eauto.
    - destruct (negb _); [apply rv_core_not_format|].
      destruct (from_line_loop sem 0 _ (Some s) ln _ []) as [[cols errs]|e] eqn:E; [apply rv_core_not_format|].
      eapply from_line_loop_not_format; eauto.
  Qed.

  Lemma from_line_modes line names sch ln lg :
    stringency_contract lg (@merrs C W) same_mrec
      (from_line sem line names sch ln (Some Silent) lg)
      (from_line sem line names sch ln (Some Lenient) lg)
      (from_line sem line names sch ln (Some Strict) lg).
  Proof.
    rewrite !from_line_unfold.
    apply finish_contract; try reflexivity.
    - intros; repeat split.
    - apply fl_core_not_format.
  Qed.
End RecordModes.
