(* OverlapGroups.v - lemmas for C11, part 2: what one pure group computation
   returns (partition, non-empty, members linked, separated from what remains)
   and the iteration of it: the groups form an exact grouping in the sense of
   spec/SpecOverlap.v. *)
From MafVerif Require Import lib.Base lib.OverlapLib model.Overlap spec.SpecOverlap proofs.OverlapFacts.

Section Groups.
  Context {R C : Type}.
  Variable cls_cmp : C -> C -> comparison.
  Variable cls_eqb : C -> C -> bool.
  Hypothesis HO : cls_order cls_cmp cls_eqb.
  Variable K : R -> key C.

  Notation psweep := (psweep cls_eqb K).
  Notation ploop := (ploop cls_eqb K).
  Notation klt := (klt cls_cmp).
  Notation kle := (kle cls_cmp).
  Notation clt := (clt cls_cmp).
  Notation cls := (cls K).
  Notation st := (st K).
  Notation en := (en K).
  Notation adj_sorted := (adj_sorted cls_cmp K).
  Notation overlap := (SpecOverlap.overlap cls st en).
  Notation linked := (SpecOverlap.linked cls st en).
  Notation overlaps := (overlaps cls_eqb).
  Notation min_from := (min_from cls_cmp).

  Let kle_trans' := kle_trans cls_cmp cls_eqb HO.
  Let overlaps_iff' := overlaps_iff cls_cmp cls_eqb HO.

  Variable U : list R.
  Hypothesis wfU : forall r, In r U -> st r <= en r.

  (* heads of the non-exhausted inputs, as keys *)
  Definition heads (xss : list (list R)) : list (key C) :=
    flat_map (fun xs => match xs with x :: _ => [K x] | [] => [] end) xss.

  Lemma heads_in xss k :
    In k (heads xss) -> exists x tl, In (x :: tl) xss /\ k = K x.
  Proof.
    unfold heads. rewrite in_flat_map. intros (xs & Hxs & Hk).
    destruct xs as [|x tl]; [destruct Hk|]. destruct Hk as [<-|[]]. eauto.
  Qed.

  Lemma in_heads xss x tl : In (x :: tl) xss -> In (K x) (heads xss).
  Proof. intros H. unfold heads. apply in_flat_map. exists (x :: tl). split; [assumption|now left]. Qed.

  Lemma heads_nil xss : heads xss = [] -> Forall (fun xs => xs = []) xss.
  Proof.
    intros H. apply Forall_forall. intros [|x tl] Hx; [reflexivity|].
    apply in_heads in Hx. rewrite H in Hx. destruct Hx.
  Qed.

  Definition good (xss : list (list R)) : Prop :=
    Forall adj_sorted xss /\ forall x, In x (concat xss) -> In x U.

  Lemma adj_sorted_app_r : forall (a b : list R), adj_sorted (a ++ b) -> adj_sorted b.
  Proof.
    induction a as [|x a IH]; intros b H; [assumption|]. apply IH.
    change (adj_sorted (x :: (a ++ b))) in H. eapply adj_sorted_tail. exact H.
  Qed.

  (* the partition relation between the inputs and the cells *)
  Definition parts (xss : list (list R)) (l : list pcell) : Prop :=
    Forall2 (fun xs p => fst p ++ snd p = xs) xss l.

  Lemma parts_step xss l l' :
    parts xss l ->
    Forall2 (fun p p' => exists ys, fst p' = fst p ++ ys /\ snd p = ys ++ snd p') l l' ->
    parts xss l'.
  Proof.
    unfold parts. intros H. revert l'. induction H as [|xs p xss l Hp Hr IH]; intros l' H'; inversion H'; subst.
    - constructor.
    - constructor; [|apply IH; assumption].
      destruct H1 as (ys & E1 & E2). rewrite E1, E2, app_assoc. reflexivity.
  Qed.

  Lemma parts_rem_in xss l x : parts xss l -> In x (rem_of l) -> In x (concat xss).
  Proof.
    unfold parts, rem_of. induction 1 as [|xs p xss l Hp Hr IH]; simpl; [tauto|].
    rewrite !in_app_iff. intros [H|H]; [left; rewrite <- Hp; apply in_or_app; now right|right; auto].
  Qed.

  Lemma parts_init xss : parts xss (map (fun xs => ([], xs)) xss).
  Proof. unfold parts. induction xss; simpl; constructor; auto. Qed.

  Lemma parts_nth xss l : parts xss l ->
    forall i, nth i (map fst l) [] ++ nth i (map snd l) [] = nth i xss [].
  Proof.
    unfold parts. induction 1 as [|xs p xss l Hp Hr IH]; intros [|i]; simpl; auto.
  Qed.

  Lemma parts_length xss l : parts xss l -> length l = length xss.
  Proof. unfold parts. induction 1; simpl; auto. Qed.

  (* the head whose key is the minimum is absorbed by the first sweep *)
  Lemma psweep_absorbs : forall l mk added l' mk' a,
      psweep mk added l = (l', mk', a) ->
      (exists slot x xs, In (slot, x :: xs) l /\ kcls (K x) = kcls mk /\ kstart (K x) = kstart mk) ->
      kstart mk <= kend mk ->
      a = true /\ members_of l' <> [].
  Proof.
    unfold members_of.
    induction l as [|[slot xs] tl IH]; intros mk added l' mk' a E (s0 & x0 & xs0 & Hin & Hc & Hs) Hw; simpl in E.
    - destruct Hin.
    - destruct xs as [|x xs'].
      + destruct (psweep mk added tl) as [[tl' mk1] a1] eqn:Et. injection E as <- _ <-.
        destruct Hin as [Hin|Hin]; [discriminate|].
        destruct (IH _ _ _ _ _ Et (ex_intro _ s0 (ex_intro _ x0 (ex_intro _ xs0 (conj Hin (conj Hc Hs))))) Hw) as (-> & Hm).
        split; [reflexivity|]. simpl. intros H. apply app_eq_nil in H as (_ & H). contradiction.
      + destruct (overlaps mk (K x)) eqn:Eo.
        * destruct (psweep _ true tl) as [[tl' mk1] a1] eqn:Et. injection E as <- _ <-.
          destruct (psweep_mk _ _ _ _ _ _ _ _ Et) as (_ & _ & _ & Ha). split; [now apply Ha|].
          simpl. destruct slot; discriminate.
        * destruct (psweep mk added tl) as [[tl' mk1] a1] eqn:Et. injection E as <- _ <-.
          destruct Hin as [Hin|Hin].
          -- injection Hin as _ <- _. exfalso.
             assert (overlaps mk (K x) = true) by (apply overlaps_iff'; split; [congruence|lia]).
             congruence.
          -- destruct (IH _ _ _ _ _ Et (ex_intro _ s0 (ex_intro _ x0 (ex_intro _ xs0 (conj Hin (conj Hc Hs))))) Hw) as (-> & Hm).
             split; [reflexivity|]. simpl. intros H. apply app_eq_nil in H as (_ & H). contradiction.
  Qed.

  (* ---------------- one group ---------------- *)
  Section OneGroup.
    Variable xss : list (list R).
    Hypothesis Hgood : good xss.
    Variable mr : R.
    Hypothesis mr_in : In mr (concat xss).
    Hypothesis mr_min : forall y, In y (concat xss) -> kle (K mr) (K y).

    Let mr_U : In mr U := proj2 Hgood mr mr_in.

    Notation Cov := (Cov K U mr).

    Definition GInv (mk : key C) (l : list pcell) : Prop :=
      kcls mk = cls mr /\ kstart mk = st mr /\ Cov (members_of l) (kend mk) /\ parts xss l.

    Lemma psweep_ginv mk added l l' mk' a :
      psweep mk added l = (l', mk', a) -> GInv mk l ->
      GInv mk' l' /\ forall x, In x (members_of l) -> In x (members_of l').
    Proof.
      intros E (Hk & Hs & HC & HP).
      destruct (psweep_mk _ _ _ _ _ _ _ _ E) as (A1 & A2 & _).
      pose proof (psweep_struct _ _ _ _ _ _ _ _ E) as Hst.
      assert (HU : forall x, In x (rem_of l) -> In x U).
      { intros x Hx. apply (proj2 Hgood). eapply parts_rem_in; eassumption. }
      destruct (psweep_cov cls_cmp cls_eqb HO K U mr mr_U wfU _ _ _ _ _ _ _ E Hk Hs HU HC) as (news & HC' & HM).
      split.
      - split; [congruence|]. split; [congruence|]. split; [|eapply parts_step; eassumption].
        eapply cov_ext; [|exact HC']. intros x. rewrite HM, in_app_iff. tauto.
      - intros x Hx. apply HM. now left.
    Qed.

    Lemma ploop_ginv : forall fuel mk l l',
        ploop fuel mk l = Some l' -> GInv mk l ->
        exists mk', GInv mk' l' /\
                    (forall x, In x (members_of l) -> In x (members_of l')) /\
                    forall slot x xs, In (slot, x :: xs) l' -> overlaps mk' (K x) = false.
    Proof.
      induction fuel as [|f IH]; intros mk l l' E HI; simpl in E; [discriminate|].
      destruct (psweep mk false l) as [[l1 mk1] a] eqn:Es.
      destruct (psweep_ginv _ _ _ _ _ _ Es HI) as (HI1 & Hm1).
      destruct a.
      - destruct (IH _ _ _ E HI1) as (mk' & HI' & Hm' & Hq). exists mk'.
        split; [assumption|]. split; [|assumption]. intros x Hx. apply Hm', Hm1, Hx.
      - injection E as <-. destruct (psweep_quiet _ _ _ _ _ _ Es) as (-> & -> & Hq).
        exists mk. split; [assumption|]. split; [|assumption]. intros x Hx. exact Hx.
    Qed.

    (* records beyond the group: a later class, or the same class further right *)
    Definition beyond (e : Z) (y : R) : Prop :=
      clt (cls mr) (cls y) \/ (cls y = cls mr /\ e < st y).

    Lemma beyond_later e x y : beyond e x -> kle (K x) (K y) -> beyond e y.
    Proof.
      unfold beyond. intros [Hx|(Hx1 & Hx2)] [Hl|(Hl1 & Hl2)].
      - left. eapply clt_trans; eassumption.
      - left. unfold OverlapFacts.cls in *. now rewrite <- Hl1.
      - left. unfold OverlapFacts.cls in *. now rewrite <- Hx1.
      - right. unfold OverlapFacts.cls, OverlapFacts.st in *. split; [congruence|lia].
    Qed.

    Lemma group_result l' :
      heads xss <> [] -> K mr = K mr ->
      ploop (S (length (concat xss))) (K mr) (map (fun xs => ([], xs)) xss) = Some l' ->
      (exists x tl, In (x :: tl) xss /\ K x = K mr) ->
      parts xss l' /\
      members_of l' <> [] /\
      (forall a b, In a (members_of l') -> In b (members_of l') -> linked U a b) /\
      (forall a y, In a (members_of l') -> In y (rem_of l') -> klt (K a) (K y) /\ ~ overlap a y).
    Proof.
      intros _ _ E (x0 & tl0 & Hx0 & Hkx0).
      assert (HI0 : GInv (K mr) (map (fun xs => ([], xs)) xss)).
      { split; [reflexivity|]. split; [reflexivity|]. split; [|apply parts_init].
        assert (Hm0 : members_of (map (fun xs : list R => (@nil R, xs)) xss) = []).
        { unfold members_of. clear. induction xss; simpl; auto. }
        rewrite Hm0. apply cov_init. }
      (* the first sweep absorbs the minimum head *)
      simpl in E. destruct (psweep (K mr) false _) as [[l1 mk1] a] eqn:Es.
      destruct (psweep_ginv _ _ _ _ _ _ Es HI0) as (HI1 & _).
      assert (Habs : a = true /\ members_of l1 <> []).
      { eapply psweep_absorbs; [exact Es| |].
        - exists [], x0, tl0. split; [|split; congruence].
          apply in_map_iff. exists (x0 :: tl0). split; [reflexivity|assumption].
        - apply (wfU mr mr_U). }
      destruct Habs as (-> & Hne1).
      destruct (ploop_ginv _ _ _ _ E HI1) as (mk' & (Hk & Hs & HC & HP) & Hgrow & Hq).
      split; [assumption|]. split.
      { destruct (members_of l1) as [|y ys] eqn:Ey; [congruence|].
        intros Hnil. specialize (Hgrow y (or_introl eq_refl)). rewrite Hnil in Hgrow. destruct Hgrow. }
      destruct HC as (Hc0 & Hc1 & Hc2 & Hc3). split.
      { intros a b Ha Hb. eapply linked_trans; [apply linked_sym, Hc3; assumption|apply Hc3; assumption]. }
      intros a y Ha Hy.
      (* y sits in the remaining part of some cell, behind its head x *)
      assert (Hy' : exists slot x xs, In (slot, x :: xs) l' /\ In y (x :: xs)).
      { unfold rem_of in Hy. apply in_concat in Hy as (ys & Hys & Hyy).
        apply in_map_iff in Hys as ([slot ys'] & <- & Hp). simpl in Hyy.
        destruct ys' as [|x xs]; [destruct Hyy|]. eauto. }
      destruct Hy' as (slot & x & xs & Hp & Hyx).
      (* the cell's remaining part is a sorted suffix of its input *)
      assert (Hsuf : exists inp, In inp xss /\ inp = slot ++ x :: xs).
      { clear -HP Hp. unfold parts in HP. induction HP as [|inp p xs0 l0 Hpp Hr IH]; [destruct Hp|].
        destruct Hp as [->|Hp]; [exists inp; split; [now left|now symmetry]|].
        destruct (IH Hp) as (i & Hi & Ei). exists i. split; [now right|assumption]. }
      destruct Hsuf as (inp & Hinp & Einp).
      assert (Hsorted : adj_sorted (x :: xs)).
      { apply adj_sorted_app_r with slot. rewrite <- Einp.
        exact (proj1 (Forall_forall _ _) (proj1 Hgood) inp Hinp). }
      assert (HxIn : In x (concat xss)).
      { apply in_concat. exists inp. split; [assumption|]. rewrite Einp. apply in_or_app. right. now left. }
      (* the head is beyond the group *)
      assert (Hbx : beyond (kend mk') x).
      { specialize (Hq _ _ _ Hp). pose proof (mr_min x HxIn) as Hle.
        assert (Hno : ~ (kcls mk' = kcls (K x) /\ kstart mk' <= kstart (K x) <= kend mk')).
        { intros H. apply overlaps_iff' in H. congruence. }
        unfold beyond, OverlapFacts.cls, OverlapFacts.st in *.
        destruct Hle as [Hle|(Hle1 & Hle2)]; [now left|]. right. split; [now symmetry|].
        destruct (Z_lt_le_dec (kend mk') (kstart (K x))); [assumption|].
        exfalso. apply Hno. split; [congruence|lia]. }
      assert (Hby : beyond (kend mk') y).
      { destruct Hyx as [<-|Hyx]; [assumption|].
        eapply beyond_later; [exact Hbx|]. eapply adj_sorted_all; eassumption. }
      destruct (Hc1 a Ha) as (HaU & Hca & Hsa & Hea).
      pose proof (wfU a HaU) as Hwa.
      unfold beyond, OverlapFacts.cls, OverlapFacts.st, OverlapFacts.en in *.
      destruct Hby as [Hby|(Hby1 & Hby2)].
      - split; [unfold OverlapFacts.klt; left; rewrite Hca; exact Hby|].
        intros (Ho & _). simpl in Ho. rewrite <- Hca, Ho in Hby. exact (clt_irrefl cls_cmp cls_eqb HO _ Hby).
      - split; [unfold OverlapFacts.klt; right; split; [congruence|left; lia]|].
        intros (_ & _ & Ho). simpl in Ho. lia.
    Qed.
  End OneGroup.

  (* ---------------- the pure step and its iteration ---------------- *)
  Inductive presult := PStop | PFuel | PGroup (g : list (list R)) (xss' : list (list R)).

  Definition pnext (xss : list (list R)) : presult :=
    match heads xss with
    | [] => PStop
    | k0 :: ks =>
      match ploop (S (length (concat xss))) (min_from k0 ks) (map (fun xs => ([], xs)) xss) with
      | Some l' => PGroup (map fst l') (map snd l')
      | None => PFuel
      end
    end.

  Lemma good_min xss k0 ks :
    good xss -> heads xss = k0 :: ks ->
    exists mr tl, In (mr :: tl) xss /\ K mr = min_from k0 ks /\
                  forall y, In y (concat xss) -> kle (K mr) (K y).
  Proof.
    intros (Hs & HU) Hh.
    destruct (min_from_spec cls_cmp cls_eqb HO ks k0) as (Hin & Hb & Hr).
    rewrite <- Hh in Hin. destruct (heads_in _ _ Hin) as (mr & tl & Hmr & Hk).
    exists mr, tl. split; [assumption|]. split; [now symmetry|].
    intros y Hy. apply in_concat in Hy as (ys & Hys & Hyy).
    destruct ys as [|x xs]; [destruct Hyy|].
    assert (Hhx : kle (min_from k0 ks) (K x)).
    { pose proof (in_heads _ _ _ Hys) as Hx. rewrite Hh in Hx. destruct Hx as [<-|Hx]; auto. }
    rewrite <- Hk. destruct Hyy as [<-|Hyy]; [assumption|].
    eapply kle_trans'; [exact Hhx|]. eapply adj_sorted_all; [exact HO| |exact Hyy].
    exact (proj1 (Forall_forall _ _) Hs _ Hys).
  Qed.

  Lemma pnext_spec xss :
    good xss ->
    match pnext xss with
    | PStop => Forall (fun xs => xs = []) xss
    | PFuel => False
    | PGroup g xss' =>
      length g = length xss /\ length xss' = length xss /\
      (forall i, nth i g [] ++ nth i xss' [] = nth i xss []) /\
      concat g <> [] /\
      (forall a b, In a (concat g) -> In b (concat g) -> linked U a b) /\
      (forall a y, In a (concat g) -> In y (concat xss') -> klt (K a) (K y) /\ ~ overlap a y) /\
      good xss'
    end.
  Proof.
    intros Hg. unfold pnext. destruct (heads xss) as [|k0 ks] eqn:Hh; [now apply heads_nil|].
    destruct (good_min _ _ _ Hg Hh) as (mr & tl & Hmr & Hk & Hmin).
    assert (Hmr_in : In mr (concat xss)) by (apply in_concat; exists (mr :: tl); split; [assumption|now left]).
    destruct (ploop _ _ _) as [l'|] eqn:E.
    2:{ eapply ploop_fuel; [|exact E]. unfold rem_of. rewrite map_map. simpl. rewrite map_id. lia. }
    rewrite <- Hk in E.
    assert (Hhne : heads xss <> []) by (rewrite Hh; discriminate).
    destruct (group_result xss Hg mr Hmr_in Hmin l' Hhne eq_refl E (ex_intro _ mr (ex_intro _ tl (conj Hmr eq_refl))))
      as (HP & Hne & Hl & Hsep).
    pose proof (parts_length _ _ HP) as Hlen.
    split; [now rewrite map_length|]. split; [now rewrite map_length|].
    split; [now apply parts_nth|]. split; [assumption|]. split; [assumption|]. split; [assumption|].
    split.
    - apply Forall_forall. intros ys Hys. apply in_map_iff in Hys as ([slot ys'] & <- & Hp). simpl.
      clear -HP Hp Hg. unfold parts in HP. destruct Hg as (Hs & _).
      induction HP as [|inp p xs0 l0 Hpp Hr IH]; [destruct Hp|].
      inversion Hs; subst. destruct Hp as [->|Hp]; [|auto].
      simpl in *. eapply adj_sorted_app_r. eassumption.
    - intros x Hx. apply (proj2 Hg). eapply parts_rem_in; eassumption.
  Qed.

  Fixpoint piter (fuel : nat) (xss : list (list R)) : option (list (list (list R))) :=
    match fuel with
    | O => None
    | S f =>
      match pnext xss with
      | PStop => Some []
      | PFuel => None
      | PGroup g xss' => match piter f xss' with Some gs => Some (g :: gs) | None => None end
      end
    end.

  (* the recursive shape of an exact grouping *)
  Inductive ExactRec : list (list R) -> list (list (list R)) -> Prop :=
  | ER_nil xss : Forall (fun xs => xs = []) xss -> ExactRec xss []
  | ER_cons xss g xss' gs :
      length g = length xss -> length xss' = length xss ->
      (forall i, nth i g [] ++ nth i xss' [] = nth i xss []) ->
      concat g <> [] ->
      (forall a b, In a (concat g) -> In b (concat g) -> linked U a b) ->
      (forall a y, In a (concat g) -> In y (concat xss') -> klt (K a) (K y) /\ ~ overlap a y) ->
      ExactRec xss' gs -> ExactRec xss (g :: gs).

  Lemma concat_length_split : forall (g xss' xss : list (list R)),
      length g = length xss -> length xss' = length xss ->
      (forall i, nth i g [] ++ nth i xss' [] = nth i xss []) ->
      length (concat xss) = (length (concat g) + length (concat xss'))%nat /\
      forall x, In x (concat xss) <-> In x (concat g) \/ In x (concat xss').
  Proof.
    induction g as [|s g IH]; intros xss' xss Hl1 Hl2 Hn.
    - destruct xss; [|discriminate]. destruct xss'; [|discriminate]. simpl. split; [reflexivity|tauto].
    - destruct xss as [|xs xss]; [discriminate|]. destruct xss' as [|r xss']; [discriminate|].
      simpl in Hl1, Hl2. injection Hl1 as Hl1. injection Hl2 as Hl2.
      pose proof (Hn 0%nat) as H0. simpl in H0.
      destruct (IH xss' xss Hl1 Hl2 (fun i => Hn (S i))) as (IH1 & IH2).
      simpl. rewrite !app_length, IH1, <- H0, app_length. split; [lia|].
      intros x. rewrite !in_app_iff, IH2. tauto.
  Qed.

  Lemma piter_exact : forall fuel xss,
      good xss -> (length (concat xss) < fuel)%nat ->
      exists gs, piter fuel xss = Some gs /\ ExactRec xss gs.
  Proof.
    induction fuel as [|f IH]; intros xss Hg Hf; [lia|]. simpl.
    pose proof (pnext_spec xss Hg) as Hs. destruct (pnext xss) as [| |g xss'].
    - exists []. split; [reflexivity|now constructor].
    - destruct Hs.
    - destruct Hs as (H1 & H2 & H3 & H4 & H5 & H6 & H7).
      destruct (concat_length_split _ _ _ H1 H2 H3) as (Hlen & _).
      assert (Hpos : (0 < length (concat g))%nat) by (destruct (concat g); [congruence|simpl; lia]).
      destruct (IH xss' H7) as (gs & E & HE); [lia|].
      exists (g :: gs). rewrite E. split; [reflexivity|]. econstructor; eassumption.
  Qed.

  (* ---------------- from the recursive shape to the specification -------- *)
  Notation slot_concat := (@SpecOverlap.slot_concat R).
  Notation same_group := (@SpecOverlap.same_group R).
  Notation members := (@SpecOverlap.members R).

  Lemma exact_slots xss gs : ExactRec xss gs -> forall i, slot_concat i gs = nth i xss [].
  Proof.
    unfold SpecOverlap.slot_concat.
    induction 1 as [xss Hn|xss g xss' gs H1 H2 H3 H4 H5 H6 HE IH]; intros i; simpl.
    - destruct (nth_in_or_default i xss []) as [Hin | ->]; [|reflexivity].
      symmetry. exact (proj1 (Forall_forall _ _) Hn _ Hin).
    - rewrite IH. apply H3.
  Qed.

  Lemma exact_lengths xss gs : ExactRec xss gs -> Forall (fun g => length g = length xss) gs.
  Proof.
    induction 1 as [xss Hn|xss g xss' gs H1 H2 H3 H4 H5 H6 HE IH]; constructor; [assumption|].
    eapply Forall_impl; [|exact IH]. intros g' Hg'. congruence.
  Qed.

  Lemma exact_nonempty xss gs : ExactRec xss gs -> Forall (fun g => members g <> []) gs.
  Proof. induction 1; constructor; assumption. Qed.

  (* every record of the inputs is in exactly the groups' members, and back *)
  Lemma exact_cover xss gs : ExactRec xss gs ->
    forall x, In x (concat xss) <-> exists g, In g gs /\ In x (members g).
  Proof.
    induction 1 as [xss Hn|xss g xss' gs H1 H2 H3 H4 H5 H6 HE IH]; intros x.
    - split; [|intros (g & [] & _)]. intros Hx. apply in_concat in Hx as (xs & Hxs & Hx).
      rewrite (proj1 (Forall_forall _ _) Hn _ Hxs) in Hx. destruct Hx.
    - destruct (concat_length_split _ _ _ H1 H2 H3) as (_ & Hsplit). rewrite Hsplit, IH. split.
      + intros [Hx|(g' & Hg' & Hx)]; [exists g; split; [now left|assumption]|exists g'; split; [now right|assumption]].
      + intros (g' & [<-|Hg'] & Hx); [now left|right; eauto].
  Qed.

  Lemma exact_ascending xss gs : ExactRec xss gs ->
    SpecOverlap.ascending cls st en clt gs.
  Proof.
    induction 1 as [xss Hn|xss g xss' gs H1 H2 H3 H4 H5 H6 HE IH]; simpl; [exact I|].
    split; [|assumption]. intros g' a b Hg' Ha Hb.
    assert (Hb' : In b (concat xss')) by (apply (exact_cover _ _ HE); eauto).
    exact (proj1 (H6 a b Ha Hb')).
  Qed.

  (* a group is closed under overlap inside what was still to be grouped *)
  Lemma exact_closed xss gs : ExactRec xss gs ->
    forall g b c, In g gs -> In b (members g) -> In c (concat xss) -> overlap b c -> In c (members g).
  Proof.
    induction 1 as [xss Hn|xss g0 xss' gs H1 H2 H3 H4 H5 H6 HE IH]; intros g b c Hg Hb Hc Ho; [destruct Hg|].
    destruct (concat_length_split _ _ _ H1 H2 H3) as (_ & Hsplit).
    apply Hsplit in Hc. destruct Hg as [<-|Hg].
    - destruct Hc as [Hc|Hc]; [assumption|]. exfalso. exact (proj2 (H6 b c Hb Hc) Ho).
    - assert (Hb' : In b (concat xss')) by (apply (exact_cover _ _ HE); eauto).
      destruct Hc as [Hc|Hc]; [|eapply IH; eassumption].
      exfalso. apply (proj2 (H6 c b Hc Hb')). now apply overlap_sym.
  Qed.

  Lemma exact_linked xss gs :
    ExactRec xss gs -> (forall x, In x U <-> In x (concat xss)) ->
    forall a b, In a U -> In b U -> (same_group gs a b <-> linked U a b).
  Proof.
    intros HE HU a b Ha Hb. split.
    - intros (g & Hg & Hga & Hgb).
      clear Ha Hb HU. induction HE as [xss Hn|xss g0 xss' gs H1 H2 H3 H4 H5 H6 HE IH]; [destruct Hg|].
      destruct Hg as [<-|Hg]; [now apply H5|now apply IH].
    - intros Hl. induction Hl as [a Ha'|a b c Hab IH Hc Ho].
      + apply HU, (exact_cover _ _ HE) in Ha' as (g & Hg & Hx). exists g. auto.
      + destruct (IH Ha (linked_in_r _ _ _ _ Hab)) as (g & Hg & Hga & Hgb).
        exists g. split; [assumption|]. split; [assumption|].
        eapply exact_closed; try eassumption. now apply HU.
  Qed.
End Groups.
