(* RecordPoolFacts.v - a history with aliased column objects is a plain
   history: every pool step is a plain step on the resolved operation, so the
   coherence theorems of RecordFacts carry over. *)
From MafVerif Require Import lib.Base model.RecordOps model.RecordPool proofs.RecordFacts.

Section PoolFacts.
  Context {V : Type}.
  Variable dflt : col V.

  Lemma pstep_is_step (st : rec V * list (col V)) (o : pop V) :
    exists o', fst (fst (pstep dflt st o)) = fst (step (fst st) o') /\
               snd (pstep dflt st o) = snd (step (fst st) o').
  Proof.
    unfold pstep. destruct (presolve dflt (fst st) (snd st) o) as [o' pool'].
    exists o'. destruct (step (fst st) o') as [r' out]. split; reflexivity.
  Qed.

  Lemma prun_is_run (ops : list (pop V)) (st : rec V * list (col V)) :
    exists ops', fst (prun dflt st ops) = run (fst st) ops'.
  Proof.
    revert st. induction ops as [|o ops IH]; intros st.
    - exists []. reflexivity.
    - unfold prun. cbn [fold_left]. fold (prun dflt (fst (pstep dflt st o)) ops).
      destruct (pstep_is_step st o) as [o' [H1 _]].
      destruct (IH (fst (pstep dflt st o))) as [ops' H].
      exists (o' :: ops'). rewrite H, H1. unfold run. reflexivity.
  Qed.

  Lemma prun_coherent (ops : list (pop V)) (st : rec V * list (col V)) :
    Coherent (fst st) -> Coherent (fst (prun dflt st ops)).
  Proof.
    intros Hc. destruct (prun_is_run ops st) as [ops' ->]. now apply run_coherent.
  Qed.

  Lemma pstep_fail_unchanged (st : rec V * list (col V)) (o : pop V) st' e :
    Coherent (fst st) -> pstep dflt st o = (st', Raise e) -> fst st' = fst st.
  Proof.
    intros Hc H. unfold pstep in H.
    destruct (presolve dflt (fst st) (snd st) o) as [o' pool'].
    destruct (step (fst st) o') as [r' out] eqn:E.
    injection H as <- ->. simpl. eapply step_fail_unchanged; eauto.
  Qed.
End PoolFacts.
