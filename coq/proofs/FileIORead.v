(* FileIORead.v - MafReader run over the lines of a written file (C02):
   the pragma lines parse back to the header that was printed (C13) and form
   the whole '#' block; the column line yields the scheme's names; every data
   line parses to the canonical record of its row; the order check passes when
   the rows are in the declared order. *)
From MafVerif Require Import lib.Base lib.Str model.RecordOps model.Validation model.Header
  model.RecordParse model.Reader model.WriterMode model.FileIO spec.SpecHeader
  proofs.RecordFacts proofs.HeaderSpec proofs.HeaderRoundTrip proofs.ReaderModes proofs.ReaderTotal
  proofs.FileIOText proofs.FileIORecord proofs.FileIOWrite.

(* ---------- the printed header ---------- *)
Section PrintedHeader.
  Context {C : Type} (registry : list (scheme C)).

  (* every character of a printed pragma line comes from one of the lines the
     header was parsed from *)
  Lemma print_line_chars lines m lg l h pl c :
    header_from_lines registry lines m lg = (l, Ok h) ->
    In pl (header_print_lines (hrecs h)) -> In c pl ->
    c = HASH \/ c = SP \/ exists l0, In l0 lines /\ In c l0.
  Proof.
    intros H Hpl Hc. apply (from_lines_ok_recs registry) in H.
    set (K := fst (expected_header lines)) in *.
    assert (Hwf : forall p k v, In (p, k, v) K -> wf_pragma k v)
      by (intros p k v; apply expected_kept_wf).
    rewrite H, (print_lines_final K K Hwf) in Hpl.
    apply in_map_iff in Hpl as ([[p k] v] & <- & Hin).
    apply expected_kept_from_line in Hin as (l0 & Hl0 & Hcl).
    apply classify_wellformed_iff in Hcl as (text & -> & _ & _ & -> & _).
    destruct (rstrip_decomp is_space text) as (t & Ht & _).
    unfold pline, kept_key, kept_val in Hc. cbn [fst snd] in Hc.
    destruct Hc as [Hc|Hc]; [now left|].
    apply in_app_or in Hc as [Hc|[Hc|Hc]].
    - right. right. exists (HASH :: k ++ SP :: text). split; [assumption|].
      right. apply in_or_app. now left.
    - right. now left.
    - right. right. exists (HASH :: k ++ SP :: text). split; [assumption|].
      right. apply in_or_app. right. right. rewrite Ht. apply in_or_app. now left.
  Qed.

  (* the printed lines are lines, and each starts with '#' *)
  Lemma printed_lines_block lines m lg l h :
    header_from_lines registry lines m lg = (l, Ok h) -> Forall no_crlf lines ->
    Forall (fun pl => no_crlf pl /\ startswith pl [HASH] = true) (header_print_lines (hrecs h)).
  Proof.
    intros H Hl. apply Forall_forall. intros pl Hpl. split.
    - rewrite Forall_forall in Hl.
      split; intros Hc; destruct (print_line_chars _ _ _ _ _ _ _ H Hpl Hc) as [E|[E|(l0 & Hl0 & Hc0)]];
        try discriminate; destruct (Hl _ Hl0); tauto.
    - unfold header_print_lines in Hpl. apply in_map_iff in Hpl as (kr & <- & _). apply hrec_print_hash.
  Qed.

  (* C13: the printed lines parse back to the same records, leaving only the
     header-level checks as errors *)
  Lemma printed_lines_parse lines m lg l h :
    header_from_lines registry lines m lg = (l, Ok h) ->
    exists sch, h_scheme registry (hrecs h) = Ok sch /\
      hfl_core registry (header_print_lines (hrecs h)) = (hrecs h, validate_errs registry (hrecs h) sch).
  Proof.
    intros H. destruct (round_trip registry lines m lg LgRoot l h H) as (sch & Hs & Hr).
    exists sch. split; [exact Hs|].
    rewrite header_from_lines_silent in Hr. unfold mk_header in Hr.
    destruct (hfl_core registry (header_print_lines (hrecs h))) as [a b]. cbn [fst snd] in Hr.
    now injection Hr as -> ->.
  Qed.

  Lemma h_scheme_not_norestr recs s : h_scheme registry recs = Ok (Some s) -> s_norestr s = false.
  Proof.
    unfold h_scheme, find_scheme. destruct (find_scheme_class registry (h_version recs) (h_annotation recs)) as [[s'|]|e].
    - destruct (s_norestr s') eqn:E; [discriminate|]. intros H. now injection H as <-.
    - discriminate.
    - destruct e; discriminate.
  Qed.
End PrintedHeader.

Lemma name_mismatches_refl names ln : name_mismatches names names ln = [].
Proof. induction names as [|n names IH]; [reflexivity|]. cbn [name_mismatches]. now rewrite str_eqb_refl, IH. Qed.

(* ---------- MafReader.__init__ on a written file ---------- *)
Section ReadBack.
  Context {C W : Type}.
  Variable sem : colsem C W.
  Notation cls := (cls C).
  Notation scheme := (scheme cls).
  Notation mrec := (mrec C W).
  Notation payload := (payload C W).
  Notation pvalue := (pvalue C W).
  Variable registry : list scheme.
  Context {K : Type}.
  Variable key_of : sorder -> list str -> rec payload -> res K.
  Variable key_lt : K -> K -> bool.

  (* the scheme the reader settles on *)
  Definition reader_scheme (sch : option scheme) (names : list str) : scheme :=
    match sch with
    | Some s => if s_norestr s then no_restrictions names else s
    | None => no_restrictions names
    end.

  (* names a column line can carry *)
  Definition carriable (names : list str) : Prop :=
    names <> [] /\ Forall no_sep names /\ startswith (hd [] names) [HASH] = false.

  (* the repaired writer's check is exactly `carriable` *)
  Lemma names_writable_carriable names : names_writable names = true -> carriable names.
  Proof.
    unfold names_writable. destruct names as [|n0 names]; [discriminate|].
    intros H. apply andb_true_iff in H as [H1 H2]. split; [discriminate|]. split.
    - apply Forall_forall. intros n Hn. rewrite forallb_forall in H1. specialize (H1 n Hn).
      unfold name_sep_free in H1. apply negb_true_iff in H1. apply has_sep_false_iff. exact H1.
    - cbn [hd]. now apply negb_true_iff.
  Qed.

  Lemma column_line_ok names : carriable names ->
    no_crlf (join [TAB] names) /\ startswith (join [TAB] names) [HASH] = false /\
    split TAB (join [TAB] names) = names.
  Proof.
    intros (Hne & Hsep & Hh). split; [now apply join_tab_no_crlf|]. split.
    - destruct names as [|n0 names]; [congruence|]. now apply column_line_no_hash.
    - apply split_join; [assumption|]. eapply Forall_impl; [|exact Hsep]. unfold no_sep. tauto.
  Qed.

  Lemma plan_written (recs : list (str * hrec)) verrs sch names data :
    Forall (fun pl => no_crlf pl /\ startswith pl [HASH] = true) (header_print_lines recs) ->
    hfl_core registry (header_print_lines recs) = (recs, verrs) ->
    h_scheme registry recs = Ok sch ->
    carriable names -> s_names (reader_scheme sch names) = names ->
    Forall no_crlf data ->
    let p := plan_of registry (header_print_lines recs ++ join [TAB] names :: data) None in
    ip_recs p = recs /\ ip_herrs p = verrs /\ ip_errs p = verrs ++ [] /\
    ip_scheme p = Some (reader_scheme sch names) /\
    ip_next p = hd_error data /\ ip_pending p = tl data /\
    ip_lineno p = Z.of_nat (length (header_print_lines recs)) + 1 + (match data with [] => 0 | _ => 1 end).
  Proof.
    intros Hblock Hcore Hsch Hcar Hnames Hdata.
    destruct (column_line_ok names Hcar) as (Hc1 & Hc2 & Hc3).
    unfold plan_of. rewrite (read_header_lines_block _ _ _ 0 [] Hblock Hc1 Hc2). cbn [app].
    rewrite Hcore, Hsch, Hc3.
    assert (Hexp : (if negb (Nat.eqb (length names) (length (s_names (reader_scheme sch names))))
                    then [mkerr T_SCHEME_MISMATCHING_NUMBER_OF_COLUMN_NAMES
                                (Some (0 + Z.of_nat (length (header_print_lines recs)) + 1))]
                    else name_mismatches names (s_names (reader_scheme sch names))
                                         (Some (0 + Z.of_nat (length (header_print_lines recs)) + 1))) = []).
    { rewrite Hnames, Nat.eqb_refl. cbn [negb]. apply name_mismatches_refl. }
    destruct data as [|d data].
    - unfold reader_scheme in *. cbn [ip_recs ip_herrs ip_errs ip_scheme ip_next ip_pending ip_lineno hd_error tl].
      rewrite Hexp. repeat split; lia.
    - inversion Hdata as [|? ? Hd _]; subst. rewrite (rstrip_crlf_id d Hd).
      unfold reader_scheme in *. cbn [ip_recs ip_herrs ip_errs ip_scheme ip_next ip_pending ip_lineno hd_error tl].
      rewrite Hexp. repeat split; lia.
  Qed.

  (* a file with pragma lines only: no column line *)
  Lemma plan_header_only (recs : list (str * hrec)) verrs sch :
    Forall (fun pl => no_crlf pl /\ startswith pl [HASH] = true) (header_print_lines recs) ->
    hfl_core registry (header_print_lines recs) = (recs, verrs) ->
    h_scheme registry recs = Ok sch ->
    let p := plan_of registry (header_print_lines recs) None in
    ip_recs p = recs /\ ip_herrs p = verrs /\ ip_scheme p = sch /\ ip_next p = None /\
    ip_errs p = verrs ++ [mkerr T_HEADER_MISSING_COLUMN_NAMES
                                (Some (0 + Z.of_nat (length (header_print_lines recs)) + 1))].
  Proof.
    intros Hblock Hcore Hsch. unfold plan_of.
    rewrite (read_header_lines_only _ 0 [] Hblock). cbn [app]. rewrite Hcore, Hsch.
    cbn [ip_recs ip_herrs ip_errs ip_scheme ip_next]. repeat split.
  Qed.

  (* opening succeeds whenever the stringency lets the collected errors pass *)
  Lemma reader_init_ok lines m l1 l2 :
    let p := plan_of registry lines None in
    process m LgRoot (ip_herrs p) = (l1, Ok tt) -> process m LgReader (ip_errs p) = (l2, Ok tt) ->
    snd (reader_init registry lines (Some m) None) = Ok (mk_reader m p).
  Proof.
    intros p H1 H2. rewrite reader_init_unfold. cbv zeta. fold p. rewrite H1. cbn [obind olog].
    rewrite H2. reflexivity.
  Qed.

  (* ---------- iteration ---------- *)
  Notation iterate := (iterate sem key_of key_lt).

  (* the re-read record of a row at physical line n *)
  Definition reread (m : mode) (n : Z) (row : list (@cell C W)) : mrec :=
    mk_mrec (Some n) m (canon_rec (cells_of row)) [].

  Fixpoint rereads (m : mode) (n : Z) (rows : list (list (@cell C W))) : list mrec :=
    match rows with
    | [] => []
    | row :: rest => reread m n row :: rereads m (n + 1) rest
    end.

  (* SortOrderChecker lets every record through *)
  Fixpoint order_passes (o : sorder) (cs : list str) (last : option mrec) (rs : list mrec) : Prop :=
    match rs with
    | [] => True
    | r :: rest => check_order key_of key_lt o cs last r = Ok tt /\ order_passes o cs (Some r) rest
    end.

  Definition row_line (row : list (@cell C W)) : str := join [TAB] (map (@c_text C W) row).

  Definition row_good (s : scheme) (row : list (@cell C W)) : Prop :=
    s_names s = map (@c_name C W) row /\ row_ok sem s 0 row /\ Forall no_sep (map (@c_text C W) row).

  Lemma row_line_no_crlf s row : row_good s row -> no_crlf (row_line row).
  Proof. intros (_ & _ & H). now apply join_tab_no_crlf. Qed.

  Lemma iterate_rows (s : scheme) m o cs : forall rows row n last,
    s_truthy s = true -> NoDup (s_names s) ->
    Forall (row_good s) (row :: rows) ->
    order_passes o cs last (rereads m n (row :: rows)) ->
    iterate (row_line row) n (map row_line rows) (Some s) m o cs last
    = ([], rereads m n (row :: rows), EndStop, []).
  Proof.
    induction rows as [|row2 rows IH]; intros row n last Ht ND Hgood Hord;
      inversion Hgood as [|? ? (Hn & Hrow & Hsep) Hgood']; subst;
      cbn [rereads order_passes] in Hord; destruct Hord as [Hck Hord];
      rewrite iterate_eq; unfold row_line at 1;
      rewrite (from_line_canon sem s row (Some n) m LgRoot Ht Hn ND Hrow Hsep);
      fold (reread m n row); rewrite Hck.
    - reflexivity.
    - cbn [map]. rewrite (rstrip_crlf_id (row_line row2)).
      2:{ inversion Hgood' as [|? ? Hg2 _]; subst. eapply row_line_no_crlf; eauto. }
      rewrite (IH row2 (n + 1) (Some (reread m n row)) Ht ND Hgood' Hord).
      reflexivity.
  Qed.
End ReadBack.
