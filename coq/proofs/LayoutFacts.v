(* LayoutFacts.v - the regenerated scheme definitions build the pinned documented layouts *)
From Coq Require Import String Ascii.
From MafVerif Require Import lib.Base lib.Str gen.GenClasses gen.GenSchemas model.Classes model.Columns model.Layouts spec.SpecLayouts.
Open Scope string_scope.

Definition ok_or_nil (r : res (list layout)) : list layout :=
  match r with Ok ls => ls | Raise _ => [] end.
Definition layouts_ok : list layout := ok_or_nil built_layouts.

(* names, in order, of the layout built for an annotation *)
Definition built_names (annot : string) : option (list str) :=
  option_map (fun l => map fst (l_cols l)) (find_layout layouts_ok annot).

(* fast boolean equality on texts / lists of texts (no proof terms for vm_compute) *)
Fixpoint seqb (a b : str) : bool :=
  match a, b with
  | [], [] => true
  | x :: a', y :: b' => N.eqb x y && seqb a' b'
  | _, _ => false
  end.
Lemma seqb_eq a b : seqb a b = true -> a = b.
Proof.
  revert b; induction a as [|x a IH]; intros [|y b]; simpl; try discriminate; auto.
  intros H. apply andb_true_iff in H as [H1 H2]. apply N.eqb_eq in H1. subst. f_equal. auto.
Qed.
Fixpoint lseqb (a b : list str) : bool :=
  match a, b with
  | [], [] => true
  | x :: a', y :: b' => seqb x y && lseqb a' b'
  | _, _ => false
  end.
Lemma lseqb_eq a b : lseqb a b = true -> a = b.
Proof.
  revert b; induction a as [|x a IH]; intros [|y b]; simpl; try discriminate; auto.
  intros H. apply andb_true_iff in H as [H1 H2]. apply seqb_eq in H1. subst. f_equal. auto.
Qed.

Definition names_match_in (ls : list layout) (sl : string * string * list (string * descr)) : bool :=
  let '(ver, annot, cols) := sl in
  match find_layout ls annot with
  | Some l => String.eqb (l_version l) ver && lseqb (map fst (l_cols l)) (map (fun c => s2l (fst c)) cols)
  | None => false
  end.

Lemma names_match_sound ls ver annot cols :
  names_match_in ls (ver, annot, cols) = true ->
  exists l, find_layout ls annot = Some l /\ l_version l = ver /\
            map fst (l_cols l) = map (fun c => s2l (fst c)) cols.
Proof.
  unfold names_match_in. destruct (find_layout ls annot) as [l|]; [|discriminate].
  intros H. apply andb_true_iff in H as [Hv Hn]. apply String.eqb_eq in Hv. apply lseqb_eq in Hn.
  exists l. auto.
Qed.

Lemma built_ok : match built_layouts with Ok ls => Nat.eqb (length ls) 14 | Raise _ => false end = true.
Proof. vm_compute. reflexivity. Qed.

Lemma all_names_match : forallb (names_match_in layouts_ok) spec_layouts = true.
Proof. vm_compute. reflexivity. Qed.

Lemma layout_names_as_documented ver annot cols :
  In (ver, annot, cols) spec_layouts ->
  exists l, find_layout layouts_ok annot = Some l /\ l_version l = ver /\
            map fst (l_cols l) = map (fun c => s2l (fst c)) cols.
Proof.
  intros Hin. apply names_match_sound.
  exact (proj1 (forallb_forall _ _) all_names_match _ Hin).
Qed.
