(* RenderFacts2.v - C04 lifted from fields to whole lines, and tied to the
   regenerated tables.  As in MaskFacts.v all reasoning is done with the class
   table and the scheme ABSTRACT (Section variables); the concrete
   `class_table` / `layouts_ok` enter only through boolean sweeps proved by
   vm_compute at the end. *)
From Coq Require Import String Ascii.
From MafVerif Require Import lib.Base lib.Str lib.PyInt gen.GenClasses gen.GenEnums gen.GenSchemas
     model.Classes model.Columns model.Layouts model.RecordOps model.ColRecord
     proofs.RecordFacts proofs.LayoutFacts proofs.ColumnFacts proofs.ParseFacts proofs.RenderFacts.
Open Scope string_scope.

(* ---------- small list facts ---------- *)
Lemma list_choice {X} (P : nat -> X -> Prop) n :
  (forall j, (j < n)%nat -> exists x, P j x) ->
  exists l, length l = n /\ forall j x, nth_error l j = Some x -> P j x.
Proof.
  induction n as [|n IH]; intros H.
  - exists []. split; [reflexivity|]. intros [|j] x Hx; discriminate.
  - destruct IH as (l & Hl & Hall); [intros j Hj; apply H; lia|].
    destruct (H n ltac:(lia)) as [x Hx].
    exists (l ++ [x])%list. split; [rewrite app_length; simpl; lia|].
    intros j y Hy. destruct (Nat.lt_ge_cases j (length l)).
    + rewrite nth_error_app1 in Hy by assumption. auto.
    + rewrite nth_error_app2 in Hy by assumption.
      destruct (j - length l)%nat eqn:E; simpl in Hy; [|destruct n0; discriminate].
      injection Hy as <-. assert (j = n) by lia. now subst.
Qed.

Lemma nth_error_eq_ext {X} (a b : list X) :
  length a = length b -> (forall j x y, nth_error a j = Some x -> nth_error b j = Some y -> x = y) -> a = b.
Proof.
  revert b; induction a as [|x a IH]; intros [|y b] Hl H; simpl in Hl; try discriminate; [reflexivity|].
  f_equal.
  - apply (H 0%nat); reflexivity.
  - apply IH; [lia|]. intros j u w Hu Hw. apply (H (S j)); assumption.
Qed.

Lemma map_res_nth {X Y} (f : X -> res Y) l ys :
  length l = length ys ->
  (forall j x y, nth_error l j = Some x -> nth_error ys j = Some y -> f x = Ok y) ->
  map_res f l = Ok ys.
Proof.
  revert ys; induction l as [|x l IH]; intros [|y ys] Hl H; simpl in Hl; try discriminate; [reflexivity|].
  simpl. rewrite (H 0%nat x y eq_refl eq_refl).
  rewrite (IH ys); [reflexivity|lia|]. intros j u w Hu Hw. apply (H (S j)); assumption.
Qed.

Lemma nth_error_lt_some {X} (l : list X) j : (j < length l)%nat -> exists x, nth_error l j = Some x.
Proof. intros H. destruct (nth_error l j) eqn:E; [eauto|]. apply nth_error_None in E. lia. Qed.

Lemma assoc_nth_nodup {V} (s : list (str * V)) j n v :
  NoDup (map fst s) -> nth_error s j = Some (n, v) -> assoc n s = Some v.
Proof.
  revert j; induction s as [|[k w] s IH]; intros j Hnd H; [destruct j; discriminate|].
  simpl. destruct j as [|j]; simpl in H.
  - injection H as -> ->. now rewrite str_eqb_refl.
  - inversion Hnd as [|? ? Hnotin Hnd']; subst.
    destruct (str_eqb n k) eqn:E.
    + apply str_eqb_eq in E. subst. exfalso. apply Hnotin.
      apply nth_error_In in H. apply (in_map fst) in H. exact H.
    + eauto.
Qed.

Fixpoint nodupb (l : list str) : bool :=
  match l with [] => true | x :: r => negb (existsb (seqb x) r) && nodupb r end.
Lemma seqb_refl a : seqb a a = true.
Proof. induction a; simpl; [reflexivity|]. now rewrite N.eqb_refl. Qed.
Lemma nodupb_sound l : nodupb l = true -> NoDup l.
Proof.
  induction l as [|x l IH]; simpl; intros H; [constructor|].
  apply andb_true_iff in H as [H1 H2]. constructor; [|auto].
  intros Hin. apply negb_true_iff in H1.
  assert (existsb (seqb x) l = true); [|congruence].
  apply existsb_exists. exists x. split; [exact Hin|apply seqb_refl].
Qed.

Lemma dense_unique (r r' : crec) cs : dense r cs -> dense r' cs -> r = r'.
Proof.
  intros (H1 & H2 & _) (H1' & H2' & _). destruct r, r'. simpl in *. congruence.
Qed.

(* ---------- the line-level theorem, tables abstract ---------- *)
Section Line.
  Variable tbl : list class_info.
  Variable O : oracles.
  Hypothesis HO : oracle_laws O.

  (* the class at a scheme position resolves to a custom class of a proved shape *)
  Definition col_class_ok (c : str * cref) : bool :=
    match resolve tbl (snd c) with Some rr => e_custom (r_self rr) && class_ok rr | None => false end.
  Definition col_class_strict (c : str * cref) : bool :=
    match resolve tbl (snd c) with Some rr => e_custom (r_self rr) && class_strict_ok rr | None => false end.

  Variable s : scheme.
  Hypothesis Hnd : NoDup (map fst s).
  Hypothesis Hcols : forallb col_class_ok s = true.

  (* what C04 needs to know about one stored field *)
  Lemma field_step ln j n sc t c :
    nth_error s j = Some (n, sc) ->
    parse_field tbl O (Some s) ln j n t = (Some c, []) ->
    exists rr v, resolve tbl sc = Some rr /\ cval c = {| v_cls := sc; v_val := v |} /\
      field_outcome O rr t = Valid v /\
      (col_class_strict (n, sc) = true \/ single_empty v = false ->
       exists t', col_str rr v = Ok t' /\ contains_sep t' = false /\
                  parse_field tbl O (Some s) ln j n t' = (Some c, []) /\
                  field_outcome O rr t' = Valid v /\
                  (in_null_values (r_self rr) v = true -> t' = preferred_null (r_self rr))).
  Proof.
    intros Hj Hpf.
    assert (Htr : scheme_truthy s = true) by (destruct s; [destruct j; discriminate|reflexivity]).
    pose proof (assoc_nth_nodup s j n sc Hnd Hj) as Hsc.
    pose proof (proj1 (forallb_forall _ _) Hcols _ (nth_error_In _ _ Hj)) as Hok.
    unfold col_class_ok in Hok. cbn [snd] in Hok.
    destruct (resolve tbl sc) as [rr|] eqn:Hr; [|discriminate].
    apply andb_true_iff in Hok as [Hc Hok].
    destruct (stored_typed tbl O s ln j n t c [] sc rr Hpf Htr Hsc Hr Hc) as (v & Hcv & _ & Hb & Hinv & Hsep).
    pose proof (field_outcome_valid_intro O rr t v Hb Hinv Hsep) as Hval.
    exists rr, v. repeat split; auto.
    intros Hse.
    assert (Hfix : fix_at O rr v).
    { destruct Hse as [Hst|Hse].
      - unfold col_class_strict in Hst. cbn [snd] in Hst. rewrite Hr in Hst.
        apply andb_true_iff in Hst as [_ Hst]. now apply (field_fixpoint_strict O HO rr t v).
      - now apply (field_fixpoint O HO rr t v). }
    destruct Hfix as (t' & Hs' & Hsep' & Hval' & Hnull).
    exists t'. repeat split; auto.
    (* the same class builds the same value from t', hence the same column object *)
    apply field_outcome_valid_inv in Hval' as (Hb' & _ & _).
    unfold parse_field in *. unfold scheme_class in *. rewrite Htr, Hsc in *.
    assert (Hrp : resolve_or_plain tbl sc = rr) by (unfold resolve_or_plain; now rewrite Hr).
    rewrite Hrp in *. rewrite Hb'. rewrite Hb in Hpf. exact Hpf.
  Qed.

  Theorem line_fixpoint ln line r errs :
    from_line tbl O Strict None (Some s) ln line = Ok (r, errs) ->
    (forall j c, nth_error (rlist r) j = Some (Some c) ->
       (exists nc, nth_error s j = Some nc /\ col_class_strict nc = true) \/ single_empty (v_val (cval c)) = false) ->
    exists l',
      rec_str tbl r = Ok l' /\
      existsb is_crlf l' = false /\
      length (split TAB l') = length (rlist r) /\
      (forall j o f, nth_error (rlist r) j = Some o -> nth_error (split TAB l') j = Some f ->
                     slot_str tbl o = Ok f /\ contains_sep f = false) /\
      from_line tbl O Strict None (Some s) ln l' = Ok (r, []) /\
      (forall j c rr, nth_error (rlist r) j = Some (Some c) -> resolve tbl (v_cls (cval c)) = Some rr ->
                      in_null_values (r_self rr) (v_val (cval c)) = true ->
                      nth_error (split TAB l') j = Some (preferred_null (r_self rr))).
  Proof.
    intros Hfl Hse.
    destruct (strict_ok_every_field_stored tbl O s ln line r errs Hfl) as [Hlen Hall].
    set (texts := split TAB (rstrip_crlf line)) in *.
    destruct (from_line_accepts tbl O s ln line Hnd Hlen Hall) as (r0 & cs & Hfl0 & Hd & Hlcs & Hst).
    fold texts in Hst. rewrite Hfl in Hfl0. injection Hfl0 as <- ->.
    destruct Hd as (Hrl & Hrd & Hndk & Hidx).
    (* per position: the rendering and what it parses to *)
    set (P := fun (j : nat) (t' : str) =>
                exists n sc c rr v, nth_error s j = Some (n, sc) /\ nth_error cs j = Some c /\
                  resolve tbl sc = Some rr /\ cval c = {| v_cls := sc; v_val := v |} /\
                  col_str rr v = Ok t' /\ contains_sep t' = false /\
                  parse_field tbl O (Some s) ln j n t' = (Some c, []) /\
                  (in_null_values (r_self rr) v = true -> t' = preferred_null (r_self rr))).
    assert (Hper : forall j, (j < length s)%nat -> exists t', P j t').
    { intros j Hj.
      destruct (nth_error_lt_some s j Hj) as [[n sc] Hnsc].
      assert (Hn : nth_error (map fst s) j = Some n) by (rewrite nth_error_map, Hnsc; reflexivity).
      destruct (nth_error_lt_some texts j ltac:(lia)) as [t Ht].
      destruct (Hst j n t Hn Ht) as (c & Hc & Hpf).
      destruct (field_step ln j n sc t c Hnsc Hpf) as (rr & v & Hr & Hcv & Hval & Hfix).
      assert (Hslot : nth_error (rlist r) j = Some (Some c)) by (rewrite Hrl, nth_error_map, Hc; reflexivity).
      destruct Hfix as (t' & H1 & H2 & H3 & _ & H5).
      { destruct (Hse j c Hslot) as [(nc & Hnc & Hstr)|Hs].
        - left. rewrite Hnsc in Hnc. injection Hnc as <-. exact Hstr.
        - right. rewrite Hcv in Hs. exact Hs. }
      exists t', n, sc, c, rr, v. repeat split; auto. }
    destruct (list_choice P (length s) Hper) as (ts' & Hlts & HP).
    assert (Hsne : s <> []).
    { intros ->. simpl in Hlen. pose proof (split_nonempty TAB (rstrip_crlf line)).
      fold texts in H. destruct texts; [congruence|discriminate]. }
    assert (Htne : ts' <> []) by (intros ->; destruct s; [congruence|discriminate]).
    (* the record renders to the TAB-join of the per-column renderings *)
    assert (Hmr : map_res (slot_str tbl) (rlist r) = Ok ts').
    { apply map_res_nth; [rewrite Hrl, map_length; lia|].
      intros j o f Ho Hf. destruct (HP j f Hf) as (n & sc & c & rr & v & _ & Hc & Hr & Hcv & Hs' & _).
      rewrite Hrl, nth_error_map, Hc in Ho. injection Ho as <-.
      unfold slot_str. rewrite Hcv. cbn [v_cls v_val]. unfold resolve_or_plain. now rewrite Hr. }
    assert (Hnotab : Forall (fun p => ~ In TAB p) ts').
    { apply Forall_forall. intros f Hf. destruct (In_nth_error _ _ Hf) as [j Hj].
      destruct (HP j f Hj) as (n & sc & c & rr & v & _ & _ & _ & _ & _ & Hsep & _).
      intros Hin. now destruct (contains_sep_false_in f TAB Hsep Hin) as [? _]. }
    assert (Hsplit : split TAB (join [TAB] ts') = ts') by (now apply split_join).
    assert (Hcrlf : forallb (fun c => negb (is_crlf c)) (join [TAB] ts') = true).
    { apply forallb_forall. intros ch Hch. apply in_join_sep in Hch as [->|(p & Hp & Hch)]; [reflexivity|].
      destruct (In_nth_error _ _ Hp) as [j Hj].
      destruct (HP j p Hj) as (n & sc & c & rr & v & _ & _ & _ & _ & _ & Hsep & _).
      destruct (contains_sep_false_in p ch Hsep Hch) as (_ & H2 & H3).
      unfold is_crlf. apply negb_true_iff. apply orb_false_iff. split; now apply N.eqb_neq. }
    assert (Hrs : rstrip_crlf (join [TAB] ts') = join [TAB] ts') by (now apply rstrip_no_match).
    exists (join [TAB] ts').
    split; [unfold rec_str; now rewrite Hmr|].
    split.
    { apply not_true_is_false. intros H. apply existsb_exists in H as (ch & Hin & Hch).
      rewrite forallb_forall in Hcrlf. specialize (Hcrlf _ Hin). now rewrite Hch in Hcrlf. }
    rewrite Hsplit.
    split; [rewrite Hrl, map_length; lia|].
    split.
    { intros j o f Ho Hf. destruct (HP j f Hf) as (n & sc & c & rr & v & _ & Hc & Hr & Hcv & Hs' & Hsep & _).
      rewrite Hrl, nth_error_map, Hc in Ho. injection Ho as <-. split; [|exact Hsep].
      unfold slot_str. rewrite Hcv. cbn [v_cls v_val]. unfold resolve_or_plain. now rewrite Hr. }
    split.
    { (* re-parse: every field is stored as the very same column object *)
      destruct (from_line_accepts tbl O s ln (join [TAB] ts') Hnd) as (r' & cs' & Hfl' & Hd' & Hlcs' & Hst').
      - rewrite Hrs, Hsplit. exact Hlts.
      - rewrite Hrs, Hsplit. intros j n f Hn Hf.
        destruct (HP j f Hf) as (n' & sc & c & rr & v & Hnsc & _ & _ & _ & _ & _ & Hpf & _).
        rewrite nth_error_map, Hnsc in Hn. injection Hn as <-. eauto.
      - rewrite Hrs, Hsplit in Hst'.
        assert (cs' = cs).
        { apply nth_error_eq_ext; [lia|]. intros j x y Hx Hy.
          assert (Hj : (j < length s)%nat) by (rewrite <- Hlcs; apply nth_error_Some; congruence).
          destruct (nth_error_lt_some ts' j ltac:(lia)) as [f Hf].
          destruct (HP j f Hf) as (n & sc & c & rr & v & Hnsc & Hc & _ & _ & _ & _ & Hpf & _).
          assert (Hn : nth_error (map fst s) j = Some n) by (rewrite nth_error_map, Hnsc; reflexivity).
          destruct (Hst' j n f Hn Hf) as (c' & Hc' & Hpf'). rewrite Hpf in Hpf'. injection Hpf' as <-.
          congruence. }
        subst cs'. rewrite Hfl'. f_equal. f_equal.
        apply (dense_unique r' r cs Hd'). repeat split; auto. }
    intros j c rr Hslot Hr Hnull.
    rewrite Hrl, nth_error_map in Hslot. destruct (nth_error cs j) as [c0|] eqn:Hc0; [|discriminate].
    injection Hslot as ->.
    assert (Hj : (j < length s)%nat) by (rewrite <- Hlcs; apply nth_error_Some; congruence).
    destruct (nth_error_lt_some ts' j ltac:(lia)) as [f Hf].
    destruct (HP j f Hf) as (n & sc & c' & rr' & v & _ & Hc' & Hr' & Hcv & _ & _ & _ & Hn).
    rewrite Hc0 in Hc'. injection Hc' as <-. rewrite Hcv in Hr, Hnull. cbn [v_cls v_val] in Hr, Hnull.
    rewrite Hr' in Hr. injection Hr as <-. rewrite Hf. f_equal. now apply Hn.
  Qed.
  (* when every position is strict no side condition is needed *)
  Theorem line_fixpoint_strict ln line r errs :
    forallb col_class_strict s = true ->
    from_line tbl O Strict None (Some s) ln line = Ok (r, errs) ->
    exists l',
      rec_str tbl r = Ok l' /\
      existsb is_crlf l' = false /\
      length (split TAB l') = length (rlist r) /\
      (forall j o f, nth_error (rlist r) j = Some o -> nth_error (split TAB l') j = Some f ->
                     slot_str tbl o = Ok f /\ contains_sep f = false) /\
      from_line tbl O Strict None (Some s) ln l' = Ok (r, []) /\
      (forall j c rr, nth_error (rlist r) j = Some (Some c) -> resolve tbl (v_cls (cval c)) = Some rr ->
                      in_null_values (r_self rr) (v_val (cval c)) = true ->
                      nth_error (split TAB l') j = Some (preferred_null (r_self rr))).
  Proof.
    intros Hstrict Hfl. apply (line_fixpoint ln line r errs Hfl).
    intros j c Hslot. left.
    destruct (strict_ok_every_field_stored tbl O s ln line r errs Hfl) as [Hlen Hall].
    destruct (from_line_accepts tbl O s ln line Hnd Hlen Hall) as (r0 & cs & Hfl0 & Hd & Hlcs & _).
    rewrite Hfl in Hfl0. injection Hfl0 as <- _. destruct Hd as (Hrl & _).
    assert (Hj : (j < length s)%nat).
    { rewrite <- Hlcs, <- (map_length Some), <- Hrl. apply nth_error_Some. intros E. pose proof (eq_trans (eq_sym E) Hslot) as X. discriminate X. }
    destruct (nth_error_lt_some _ j Hj) as [nc Hnc]. exists nc. split; [exact Hnc|].
    rewrite forallb_forall in Hstrict. apply Hstrict. eapply nth_error_In; eauto.
  Qed.
End Line.

(* ---------- sweeps over the regenerated tables ---------- *)
Section Sweeps.
  Variable tbl : list class_info.
  Definition layout_cols_ok (l : layout) : bool :=
    nodupb (map fst (l_cols l)) && forallb (col_class_ok tbl) (l_cols l).
  Definition layout_cols_strict (l : layout) : bool := forallb (col_class_strict tbl) (l_cols l).
  Definition count_cols (ls : list layout) : nat * nat * nat :=
    fold_left (fun acc l =>
                 fold_left (fun a c => let '(st, ok, tot) := a in
                                       ((if col_class_strict tbl c then S st else st),
                                        (if col_class_ok tbl c then S ok else ok), S tot)) (l_cols l) acc)
              ls (O, O, O).
  Lemma layout_cols_ok_sound ls l :
    forallb layout_cols_ok ls = true -> In l ls ->
    NoDup (map fst (l_cols l)) /\ forallb (col_class_ok tbl) (l_cols l) = true.
  Proof.
    intros Hall Hin. pose proof (proj1 (forallb_forall _ _) Hall _ Hin) as H.
    unfold layout_cols_ok in H. apply andb_true_iff in H as [H1 H2]. split; [now apply nodupb_sound|exact H2].
  Qed.
End Sweeps.

Lemma all_layout_columns_ok : forallb (layout_cols_ok class_table) layouts_ok = true.
Proof. vm_compute. reflexivity. Qed.

Definition layout_hyps l := layout_cols_ok_sound class_table layouts_ok l all_layout_columns_ok.

(* C04 for the real layouts *)
Theorem built_layout_line_fixpoint (Or : oracles) (HO : oracle_laws Or) l ln line r errs :
  In l layouts_ok ->
  from_line class_table Or Strict None (Some (l_cols l)) ln line = Ok (r, errs) ->
  (forall j c, nth_error (rlist r) j = Some (Some c) ->
     (exists nc, nth_error (l_cols l) j = Some nc /\ col_class_strict class_table nc = true)
     \/ single_empty (v_val (cval c)) = false) ->
  exists l',
    rec_str class_table r = Ok l' /\
    existsb is_crlf l' = false /\
    length (split TAB l') = length (rlist r) /\
    (forall j o f, nth_error (rlist r) j = Some o -> nth_error (split TAB l') j = Some f ->
                   slot_str class_table o = Ok f /\ contains_sep f = false) /\
    from_line class_table Or Strict None (Some (l_cols l)) ln l' = Ok (r, []) /\
    (forall j c rr, nth_error (rlist r) j = Some (Some c) -> resolve class_table (v_cls (cval c)) = Some rr ->
                    in_null_values (r_self rr) (v_val (cval c)) = true ->
                    nth_error (split TAB l') j = Some (preferred_null (r_self rr))).
Proof.
  intros Hin. destruct (layout_hyps l Hin) as [Hnd Hcols].
  exact (line_fixpoint class_table Or HO (l_cols l) Hnd Hcols ln line r errs).
Qed.

(* layouts all of whose columns are strict need no side condition *)
Theorem strict_layout_line_fixpoint (Or : oracles) (HO : oracle_laws Or) l ln line r errs :
  In l layouts_ok -> layout_cols_strict class_table l = true ->
  from_line class_table Or Strict None (Some (l_cols l)) ln line = Ok (r, errs) ->
  exists l',
    rec_str class_table r = Ok l' /\
    existsb is_crlf l' = false /\
    length (split TAB l') = length (rlist r) /\
    (forall j o f, nth_error (rlist r) j = Some o -> nth_error (split TAB l') j = Some f ->
                   slot_str class_table o = Ok f /\ contains_sep f = false) /\
    from_line class_table Or Strict None (Some (l_cols l)) ln l' = Ok (r, []) /\
    (forall j c rr, nth_error (rlist r) j = Some (Some c) -> resolve class_table (v_cls (cval c)) = Some rr ->
                    in_null_values (r_self rr) (v_val (cval c)) = true ->
                    nth_error (split TAB l') j = Some (preferred_null (r_self rr))).
Proof.
  intros Hin. destruct (layout_hyps l Hin) as [Hnd Hcols].
  exact (line_fixpoint_strict class_table Or HO (l_cols l) Hnd Hcols ln line r errs).
Qed.

(* ---------- how much of the real layouts the theorems cover ---------- *)
Definition covered_columns : nat * nat * nat := count_cols class_table layouts_ok.   (* (strict, ok, all) *)
Definition strict_layout_names : list string :=
  map l_annot (filter (layout_cols_strict class_table) layouts_ok).
Definition get_rcls (o : option rcls) : rcls :=
  match o with Some r => r | None => mk_r (mk None None [] [] []) None end.
Fixpoint dedup_cref (l : list cref) : list cref :=
  match l with [] => [] | x :: r => if mem_cref x r then dedup_cref r else x :: dedup_cref r end.
Definition non_strict_classes : list cref :=
  dedup_cref (map snd (filter (fun c => negb (col_class_strict class_table c)) (flat_map l_cols layouts_ok))).

(* ---------- enumerations: the finite facts, swept over the regenerated table ---------- *)
Definition enum_names : list string := map (fun e => fst (fst e)) enum_table.
Definition enum_member_facts (en : string) (i : nat) : bool :=
  res_is_member (enum_lookup en (enum_value en i)) en i           (* str(member) builds the same member *)
  && negb (contains_sep (enum_value en i)) && no_semi (enum_value en i).
Definition enum_facts (en : string) : bool :=
  forallb (enum_member_facts en) (seq 0 (length (enum_members en))).
Definition enum_declared_unique : bool :=
  forallb (fun e => snd (fst e) && nodupb (map (fun m => s2l (snd m)) (snd e))) enum_table.

Lemma enum_facts_lift (names : list string) :
  forallb enum_facts names = true ->
  forall en i, In en names -> (i < length (enum_members en))%nat ->
    enum_lookup en (enum_value en i) = Ok (VEnum en i) /\
    contains_sep (enum_value en i) = false /\ ~ In SEMI (enum_value en i).
Proof.
  intros H en i Hen Hi. rewrite forallb_forall in H. specialize (H _ Hen).
  unfold enum_facts in H. rewrite forallb_forall in H.
  assert (Hin : In i (seq 0 (length (enum_members en)))) by (apply in_seq; lia).
  specialize (H _ Hin). unfold enum_member_facts in H.
  apply andb_true_iff in H as [H H3]. apply andb_true_iff in H as [H1 H2].
  split; [now apply res_is_member_eq|]. split; [now apply negb_true_iff in H2|now apply no_semi_not_in].
Qed.

Lemma all_enum_facts : forallb enum_facts enum_names = true.
Proof. vm_compute. reflexivity. Qed.
Lemma all_enums_unique : enum_declared_unique = true.
Proof. vm_compute. reflexivity. Qed.

Definition enum_members_round_trip := enum_facts_lift enum_names all_enum_facts.

(* ---------- the one class for which the unconditional statement is false ---------- *)
Definition rseq_nyn : rcls := get_rcls (resolve class_table (CSrc "SequenceOfNullableYesOrNo")).
Definition v_single_null : pyval := VList [VEnum "NullableYesOrNoEnum" 0].

Lemma seq_nullable_yes_or_no_refuted (Or : oracles) :
  resolve class_table (CSrc "SequenceOfNullableYesOrNo") = Some rseq_nyn /\
  class_ok rseq_nyn = true /\
  field_outcome Or rseq_nyn (s2l "Null") = Valid v_single_null /\
  in_null_values (r_self rseq_nyn) v_single_null = false /\
  col_str rseq_nyn v_single_null = Ok [] /\
  field_outcome Or rseq_nyn [] = Valid (VList []) /\
  in_null_values (r_self rseq_nyn) (VList []) = true /\
  v_single_null <> VList [].
Proof. vm_compute. repeat split; try reflexivity. discriminate. Qed.

(* ---------- every class of the class table, and every RequireNullValue mix over one ---------- *)
Section ClassSweep.
  Variable tbl : list class_info.
  Definition cref_strict (c : cref) : bool :=
    match resolve tbl c with Some r => class_strict_ok r | None => false end.
  Lemma cref_strict_sound c : cref_strict c = true -> exists r, resolve tbl c = Some r /\ class_strict_ok r = true.
  Proof. unfold cref_strict. destruct (resolve tbl c) as [r|]; [eauto|discriminate]. Qed.

  (* column classes = what get_column_types() returns; `but` is left out *)
  Definition column_class_names (but : list string) : list string :=
    filter (fun n => is_column_type tbl n && negb (existsb (String.eqb n) but)) (map ci_name tbl).
  Definition all_classes_strict (but : list string) : bool :=
    forallb (fun n => cref_strict (CSrc n)) (column_class_names but).
  Definition all_mixes_strict (but : list string) : bool :=
    forallb (fun n => cref_strict (CMix (CSrc "RequireNullValue") (CSrc n))) (column_class_names but).

  Lemma classes_strict_lift but : all_classes_strict but = true ->
    forall n, In n (column_class_names but) -> exists r, resolve tbl (CSrc n) = Some r /\ class_strict_ok r = true.
  Proof. intros H n Hn. apply cref_strict_sound. exact (proj1 (forallb_forall _ _) H n Hn). Qed.
  Lemma mixes_strict_lift but : all_mixes_strict but = true ->
    forall n, In n (column_class_names but) ->
      exists r, resolve tbl (CMix (CSrc "RequireNullValue") (CSrc n)) = Some r /\ class_strict_ok r = true.
  Proof. intros H n Hn. apply cref_strict_sound. exact (proj1 (forallb_forall _ _) H n Hn). Qed.
End ClassSweep.

(* all column classes but the refuted one *)
Lemma every_column_class_strict : all_classes_strict class_table ["SequenceOfNullableYesOrNo"] = true.
Proof. vm_compute. reflexivity. Qed.
(* RequireNullValue mixed over every column class (type(name, (RequireNullValue, base), {})); over
   itself python refuses the duplicate base, and so does the model's C3 *)
Lemma every_rnv_mix_strict : all_mixes_strict class_table ["RequireNullValue"] = true.
Proof. vm_compute. reflexivity. Qed.

Definition column_class_fixpoint := classes_strict_lift class_table _ every_column_class_strict.
Definition rnv_mix_fixpoint := mixes_strict_lift class_table _ every_rnv_mix_strict.
