(* FileIOText.v - the framing of a MAF file as text (C02): "\n"-terminated
   entries split back into the lines that were written; CR/LF stripping leaves
   TAB-separated fields (empty trailing ones included) alone; the '#'-prefixed
   block of a written file is exactly the header; an empty header writes no
   line.  Pure text lemmas over lib/Str.v and the line-level functions of
   model/FileIO.v and model/Reader.v. *)
From MafVerif Require Import lib.Base lib.Str model.Validation model.Header model.RecordParse
  model.Reader model.FileIO.

(* a line as file iteration delivers it: no line terminator inside *)
Definition no_crlf (l : str) : Prop := ~ In CR l /\ ~ In LF l.
(* a field: additionally no column separator *)
Definition no_sep (t : str) : Prop := ~ In TAB t /\ ~ In CR t /\ ~ In LF t.

Lemma has_sep_false_iff t : has_sep t = false <-> no_sep t.
Proof.
  unfold has_sep, no_sep. split.
  - intros H.
    assert (F : forall c, In c t -> is_sep c = false).
    { intros c Hc. destruct (is_sep c) eqn:E; [|reflexivity].
      assert (X : existsb is_sep t = true) by (apply existsb_exists; eauto).
      rewrite X in H. discriminate. }
    repeat split; intros Hin; apply F in Hin; unfold is_sep in Hin;
      rewrite N.eqb_refl in Hin; simpl in Hin; try discriminate;
      rewrite ?orb_true_r in Hin; discriminate.
  - intros (H1 & H2 & H3). destruct (existsb is_sep t) eqn:E; [|reflexivity].
    apply existsb_exists in E as (c & Hc & E). unfold is_sep in E.
    apply orb_true_iff in E as [E|E]; [apply orb_true_iff in E as [E|E]|];
      apply N.eqb_eq in E; subst; tauto.
Qed.

Lemma no_sep_no_crlf t : no_sep t -> no_crlf t.
Proof. unfold no_sep, no_crlf. tauto. Qed.

(* ---------- rstrip("\r\n") ---------- *)
Lemma rstrip_crlf_id l : no_crlf l -> rstrip_crlf l = l.
Proof.
  intros [H1 H2]. apply rstrip_no_match. apply forallb_forall. intros c Hc.
  unfold is_crlf. destruct (N.eqb_spec c CR) as [->|]; [tauto|].
  destruct (N.eqb_spec c LF) as [->|]; [tauto|]. reflexivity.
Qed.

(* joining fields free of CR/LF with TAB gives a line free of CR/LF *)
Lemma join_tab_no_crlf fs : Forall no_sep fs -> no_crlf (join [TAB] fs).
Proof.
  intros H. rewrite Forall_forall in H. split; intros Hin; apply in_join_sep in Hin as [E|(p & Hp & Hx)];
    try discriminate; apply H in Hp; unfold no_sep in Hp; tauto.
Qed.

(* (ii) the fields of a written line come back, empty trailing ones included:
   TAB is not stripped and the line has no terminator left to strip *)
Theorem fields_survive fs :
  fs <> [] -> Forall no_sep fs -> split TAB (rstrip_crlf (join [TAB] fs)) = fs.
Proof.
  intros Hne H. rewrite rstrip_crlf_id by now apply join_tab_no_crlf.
  apply split_join; [assumption|]. eapply Forall_impl; [|exact H]. unfold no_sep. tauto.
Qed.

(* ---------- "\n"-terminated entries and the lines of the file ---------- *)
Lemma file_text_cons e es : file_text (e :: es) = e ++ LF :: file_text es.
Proof. unfold file_text. simpl. now rewrite <- app_assoc. Qed.

Lemma file_text_app a b : file_text (a ++ b) = file_text a ++ file_text b.
Proof. unfold file_text. apply flat_map_app. Qed.

Lemma split_file_text ls : Forall (fun l => ~ In LF l) ls -> split LF (file_text ls) = ls ++ [[]].
Proof.
  induction ls as [|l ls IH]; intros H; [reflexivity|].
  inversion H as [|? ? Hl Hls]; subst.
  rewrite file_text_cons, split_app_sep by assumption. now rewrite IH.
Qed.

Lemma drop_last_empty_snoc ls : drop_last_empty (ls ++ [[]]) = ls.
Proof.
  induction ls as [|p rest IH]; [reflexivity|].
  change ((p :: rest) ++ [[]]) with (p :: (rest ++ [[]])).
  destruct (rest ++ [[]]) as [|q qs] eqn:E.
  - destruct rest; discriminate.
  - change (drop_last_empty (p :: q :: qs)) with (p :: drop_last_empty (q :: qs)). now rewrite IH.
Qed.

(* (iv) what was written line by line is read line by line *)
Theorem lines_of_file_text ls : Forall (fun l => ~ In LF l) ls -> lines_of (file_text ls) = ls.
Proof. intros H. unfold lines_of. now rewrite split_file_text, drop_last_empty_snoc. Qed.

Lemma in_file_text c ls : In c (file_text ls) -> c = LF \/ exists l, In l ls /\ In c l.
Proof.
  induction ls as [|l ls IH]; [intros []|].
  rewrite file_text_cons. intros H. apply in_app_or in H as [H|[H|H]].
  - right. exists l. split; [now left|assumption].
  - now left.
  - destruct (IH H) as [?|(l' & Hl & Hc)]; [now left|right; exists l'; split; [now right|assumption]].
Qed.

Lemma universal_newlines_id s : ~ In CR s -> universal_newlines s = s.
Proof.
  induction s as [|c r IH]; intros H; [reflexivity|].
  cbn [universal_newlines]. destruct (N.eqb_spec c CR) as [->|Hne]; [exfalso; apply H; now left|].
  f_equal. apply IH. intros Hin. apply H. now right.
Qed.

(* reading by path (universal newlines) and from a handle agree on such a file *)
Theorem file_lines_file_text ls : Forall no_crlf ls -> file_lines (file_text ls) = ls.
Proof.
  intros H. unfold file_lines. rewrite universal_newlines_id.
  - apply lines_of_file_text. eapply Forall_impl; [|exact H]. unfold no_crlf. tauto.
  - intros Hin. apply in_file_text in Hin as [E|(l & Hl & Hc)]; [discriminate|].
    rewrite Forall_forall in H. apply H in Hl. unfold no_crlf in Hl. tauto.
Qed.

(* the header block is written as one entry str(header) = "\n".join(lines) *)
Lemma file_text_join ls rest : ls <> [] -> file_text (join [LF] ls :: rest) = file_text (ls ++ rest).
Proof.
  induction ls as [|p ls IH]; intros Hne; [congruence|].
  destruct ls as [|q ls]; [reflexivity|].
  change (join [LF] (p :: q :: ls)) with (p ++ LF :: join [LF] (q :: ls)).
  rewrite file_text_cons. cbn [app]. rewrite (file_text_cons p).
  change (q :: ls ++ rest) with ((q :: ls) ++ rest).
  rewrite <- IH by discriminate. rewrite file_text_cons, <- app_assoc. reflexivity.
Qed.

(* (iii) an empty header contributes nothing, not even a blank line *)
Theorem empty_header_no_line rest : file_text ([] ++ rest) = file_text rest.
Proof. reflexivity. Qed.

(* ---------- the '#' block ---------- *)
Lemma startswith_hash_cons c l : startswith (c :: l) [HASH] = N.eqb HASH c.
Proof. simpl. now rewrite andb_true_r. Qed.

Lemma hrec_print_hash r : startswith (hrec_print r) [HASH] = true.
Proof. unfold hrec_print. now rewrite startswith_hash_cons. Qed.

(* the column line begins as its first name begins (or with TAB / not at all) *)
Lemma column_line_no_hash n0 names :
  startswith n0 [HASH] = false -> startswith (join [TAB] (n0 :: names)) [HASH] = false.
Proof.
  intros H. destruct names as [|n1 names].
  - exact H.
  - change (join [TAB] (n0 :: n1 :: names)) with (n0 ++ TAB :: join [TAB] (n1 :: names)).
    destruct n0 as [|c n0]; [reflexivity|]. cbn [app]. rewrite startswith_hash_cons in *. exact H.
Qed.

Lemma Zlen_cons {X} (n : Z) (x : X) l k : n + 1 + Z.of_nat (length l) + k = n + Z.of_nat (length (x :: l)) + k.
Proof. cbn [length]. lia. Qed.

(* (i) the header lines of a file are its maximal '#'-prefixed prefix: the
   pragma lines stop at the first line that does not start with '#', whatever
   the lines after it start with *)
Lemma read_header_lines_block (hl : list str) c data : forall n acc,
  Forall (fun l => no_crlf l /\ startswith l [HASH] = true) hl ->
  no_crlf c -> startswith c [HASH] = false ->
  read_header_lines (hl ++ c :: data) n acc = (acc ++ hl, Some c, n + Z.of_nat (length hl) + 1, data).
Proof.
  induction hl as [|l hl IH]; intros n acc H Hc Hs.
  - cbn [app read_header_lines length]. rewrite (rstrip_crlf_id c Hc), Hs, app_nil_r.
    change (Z.of_nat 0) with 0. rewrite Z.add_0_r. reflexivity.
  - inversion H as [|? ? [Hl1 Hl2] Hr]; subst.
    cbn [app read_header_lines]. rewrite (rstrip_crlf_id l Hl1), Hl2.
    rewrite IH by assumption. rewrite <- app_assoc. cbn [app].
    rewrite (Zlen_cons n l hl). reflexivity.
Qed.

Lemma read_header_lines_only (hl : list str) : forall n acc,
  Forall (fun l => no_crlf l /\ startswith l [HASH] = true) hl ->
  read_header_lines hl n acc = (acc ++ hl, None, n + Z.of_nat (length hl), []).
Proof.
  induction hl as [|l hl IH]; intros n acc H.
  - cbn [read_header_lines length]. rewrite app_nil_r. change (Z.of_nat 0) with 0. rewrite Z.add_0_r. reflexivity.
  - inversion H as [|? ? [Hl1 Hl2] Hr]; subst.
    cbn [read_header_lines]. rewrite (rstrip_crlf_id l Hl1), Hl2.
    rewrite IH by assumption. rewrite <- app_assoc. cbn [app].
    replace (n + 1 + Z.of_nat (length hl)) with (n + Z.of_nat (length (l :: hl))) by (cbn [length]; lia).
    reflexivity.
Qed.
