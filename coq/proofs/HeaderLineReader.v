(* HeaderLineReader.v - MafHeader.from_line_reader reads exactly the maximal
   prefix of pragma lines and leaves the LineReader right behind it. *)
From MafVerif Require Import lib.Base lib.Str model.Validation model.Header model.LineReader.

Definition is_header_line (l : str) : bool := startswith l [HASH].

Fixpoint take_while {X} (f : X -> bool) (l : list X) : list X :=
  match l with
  | [] => []
  | x :: r => if f x then x :: take_while f r else []
  end.

(* the lines a reader will still show, in order: the peeked one, then the rest
   of the handle without terminators; beyond the end every line is "" *)
Definition lr_view (lr : linereader) : list str := lr_line lr :: map rstrip_crlf (lr_rest lr).

Lemma lr_take_pragmas_spec rest : forall cur n acc,
  let pre := take_while is_header_line (cur :: map rstrip_crlf rest) in
  let out := lr_take_pragmas cur rest n acc in
  fst out = acc ++ pre /\
  lr_no (snd out) = n + Z.of_nat (length pre) /\
  forall i, nth i (lr_view (snd out)) [] = nth (length pre + i) (cur :: map rstrip_crlf rest) [].
Proof.
  assert (TW : forall (x : str) r, take_while is_header_line (x :: r) =
                                   if startswith x [HASH] then x :: take_while is_header_line r else [])
    by reflexivity.
  induction rest as [|l r IH]; intros cur n acc; cbv zeta; cbn [lr_take_pragmas map]; rewrite TW.
  - destruct (startswith cur [HASH]); cbn [fst snd length lr_no lr_view lr_line lr_rest map take_while].
    + split; [reflexivity|]. split; [lia|]. intros i. destruct i as [|[|i]]; reflexivity.
    + rewrite app_nil_r. split; [reflexivity|]. split; [lia|]. intros i. reflexivity.
  - destruct (startswith cur [HASH]) eqn:E.
    + specialize (IH (rstrip_crlf l) (n + 1) (acc ++ [cur])). cbv zeta in IH.
      destruct IH as (I1 & I2 & I3).
      set (pre := take_while is_header_line (rstrip_crlf l :: map rstrip_crlf r)) in *.
      cbn [length]. split; [rewrite I1, <- app_assoc; reflexivity|]. split.
      * rewrite I2. lia.
      * intros i. rewrite I3. reflexivity.
    + cbn [fst snd length lr_no lr_view lr_line lr_rest]. rewrite app_nil_r.
      split; [reflexivity|]. split; [lia|]. intros i. reflexivity.
Qed.

(* the line number given to from_line only ends up in the error *)
Lemma hrec_from_line_ln line ln ln' :
  hrec_from_line line ln' =
  match hrec_from_line line ln with
  | inl r => inl r
  | inr e => inr (mkerr (etpe e) ln')
  end.
Proof.
  unfold hrec_from_line.
  repeat match goal with
         | |- context [if ?b then _ else _] => destruct b
         | |- context [match ?x with _ => _ end] => destruct x
         end; reflexivity.
Qed.

Lemma hrec_from_line_err_line line ln e : hrec_from_line line ln = inr e -> eline e = ln.
Proof.
  unfold hrec_from_line. intros E.
  repeat match type of E with
         | context [if ?b then _ else _] => destruct b
         | context [match ?x with _ => _ end] => destruct x
         end; try discriminate; injection E as <-; reflexivity.
Qed.

Definition shift_err (d : Z) (e : verr) : verr := mkerr (etpe e) (option_map (fun k => k + d) (eline e)).

(* starting the numbering d later shifts the numbers of the errors by d and
   changes nothing else *)
Lemma parse_header_lines_shift_gen lines d : forall n recs errs,
  parse_header_lines (n + d) lines recs (map (shift_err d) errs) =
  (fst (parse_header_lines n lines recs errs), map (shift_err d) (snd (parse_header_lines n lines recs errs))).
Proof.
  induction lines as [|l lines IH]; intros n recs errs; simpl; [reflexivity|].
  rewrite (hrec_from_line_ln l (Some (n + 1)) (Some (n + d + 1))).
  replace (n + d + 1) with (n + 1 + d) by lia.
  destruct (hrec_from_line l (Some (n + 1))) as [r|e] eqn:E.
  - destruct (h_contains (hkey r) recs).
    + rewrite <- IH. rewrite map_app. reflexivity.
    + apply IH.
  - rewrite <- IH. rewrite map_app. simpl. unfold shift_err at 3.
    rewrite (hrec_from_line_err_line _ _ _ E). reflexivity.
Qed.

Lemma parse_header_lines_shift lines d :
  exists recs errs, parse_header_lines d lines [] [] = (recs, errs) /\
    fst (parse_header_lines 0 lines [] []) = recs /\
    errs = map (shift_err d) (snd (parse_header_lines 0 lines [] [])).
Proof.
  pose proof (parse_header_lines_shift_gen lines d 0 [] []) as H. simpl in H.
  rewrite H. eexists _, _. split; [reflexivity|]. split; reflexivity.
Qed.

Section Thm.
  Context {C : Type}.
  Variable registry : list (scheme C).

  (* from_line_reader lr = from_lines (the maximal prefix of pragma lines the
     reader still holds); afterwards the reader shows the line right behind
     that prefix and has counted its length *)
  Theorem from_line_reader_spec (lr : linereader) m lg :
    let pre := take_while is_header_line (lr_view lr) in
    let out := header_from_line_reader registry lr m lg in
    fst out = header_from_lines_at registry (lr_no lr + 1) pre m lg /\
    lr_no (snd out) = lr_no lr + Z.of_nat (length pre) /\
    (forall i, nth i (lr_view (snd out)) [] = nth (length pre + i) (lr_view lr) []).
  Proof.
    cbv zeta. unfold header_from_line_reader.
    pose proof (lr_take_pragmas_spec (lr_rest lr) (lr_line lr) (lr_no lr) []) as H. cbv zeta in H.
    destruct (lr_take_pragmas (lr_line lr) (lr_rest lr) (lr_no lr) []) as [lines lr'].
    cbn [fst snd] in *. destruct H as (H1 & H2 & H3). subst lines. auto.
  Qed.

  (* from_lines is the numbering from 1; numbered from `first`, the records are
     the same and every pragma-line error is the one from_lines' loop gives for
     the lines numbered first, first+1, ... *)
  Lemma header_from_lines_at_one lines m lg :
    header_from_lines_at registry 1 lines m lg = header_from_lines registry lines m lg.
  Proof. reflexivity. Qed.

  (* peeking is the head of the view; read_line steps over a non-empty line and
     stays put on an empty one (and at the end of the input) *)
  Lemma lr_read_line_spec (lr : linereader) :
    match lr_line lr with
    | [] => lr_read_line lr = ([], lr)
    | c :: cur =>
        fst (lr_read_line lr) = c :: cur /\ lr_no (snd (lr_read_line lr)) = lr_no lr + 1 /\
        forall i, nth i (lr_view (snd (lr_read_line lr))) [] = nth (S i) (lr_view lr) []
    end.
  Proof.
    unfold lr_read_line. destruct (lr_line lr) as [|c cur] eqn:E; [reflexivity|].
    destruct (lr_rest lr) as [|l r] eqn:R; cbn [lr_fetch fst snd lr_no lr_view lr_line lr_rest map].
    - split; [reflexivity|]. split; [reflexivity|]. intros i. unfold lr_view. rewrite E, R. simpl. destruct i as [|[|i]]; reflexivity.
    - split; [reflexivity|]. split; [reflexivity|]. intros i. unfold lr_view. rewrite E, R. reflexivity.
  Qed.
End Thm.
