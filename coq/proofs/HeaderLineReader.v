(* HeaderLineReader.v - MafHeader.from_line_reader reads exactly the maximal
   prefix of pragma lines and leaves the LineReader right behind it. *)
From MafVerif Require Import lib.Base lib.Str model.Validation model.Header model.LineReader.

Definition is_header_line (l : str) : bool := startswith l [HASH].

Fixpoint take_while {X} (f : X -> bool) (l : list X) : list X :=
  match l with
  | [] => []
  | x :: r => if f x then x :: take_while f r else []
  end.

(* the lines a reader will still show, in order: the peeked one, then the rest
   of the handle without terminators; beyond the end every line is "" *)
Definition lr_view (lr : linereader) : list str := lr_line lr :: map rstrip_crlf (lr_rest lr).

Lemma lr_take_pragmas_spec rest : forall cur n acc,
  let pre := take_while is_header_line (cur :: map rstrip_crlf rest) in
  let out := lr_take_pragmas cur rest n acc in
  fst out = acc ++ pre /\
  lr_no (snd out) = n + Z.of_nat (length pre) /\
  forall i, nth i (lr_view (snd out)) [] = nth (length pre + i) (cur :: map rstrip_crlf rest) [].
Proof.
  assert (TW : forall (x : str) r, take_while is_header_line (x :: r) =
                                   if startswith x [HASH] then x :: take_while is_header_line r else [])
    by reflexivity.
  induction rest as [|l r IH]; intros cur n acc; cbv zeta; cbn [lr_take_pragmas map]; rewrite TW.
  - destruct (startswith cur [HASH]); cbn [fst snd length lr_no lr_view lr_line lr_rest map take_while].
    + split; [reflexivity|]. split; [lia|]. intros i. destruct i as [|[|i]]; reflexivity.
    + rewrite app_nil_r. split; [reflexivity|]. split; [lia|]. intros i. reflexivity.
  - destruct (startswith cur [HASH]) eqn:E.
    + specialize (IH (rstrip_crlf l) (n + 1) (acc ++ [cur])). cbv zeta in IH.
      destruct IH as (I1 & I2 & I3).
      set (pre := take_while is_header_line (rstrip_crlf l :: map rstrip_crlf r)) in *.
      cbn [length]. split; [rewrite I1, <- app_assoc; reflexivity|]. split.
      * rewrite I2. lia.
      * intros i. rewrite I3. reflexivity.
    + cbn [fst snd length lr_no lr_view lr_line lr_rest]. rewrite app_nil_r.
      split; [reflexivity|]. split; [lia|]. intros i. reflexivity.
Qed.

Section Thm.
  Context {C : Type}.
  Variable registry : list (scheme C).

  (* from_line_reader lr = from_lines (the maximal prefix of pragma lines the
     reader still holds); afterwards the reader shows the line right behind
     that prefix and has counted its length *)
  Theorem from_line_reader_spec (lr : linereader) m lg :
    let pre := take_while is_header_line (lr_view lr) in
    let out := header_from_line_reader registry lr m lg in
    fst out = header_from_lines registry pre m lg /\
    lr_no (snd out) = lr_no lr + Z.of_nat (length pre) /\
    (forall i, nth i (lr_view (snd out)) [] = nth (length pre + i) (lr_view lr) []).
  Proof.
    cbv zeta. unfold header_from_line_reader.
    pose proof (lr_take_pragmas_spec (lr_rest lr) (lr_line lr) (lr_no lr) []) as H. cbv zeta in H.
    destruct (lr_take_pragmas (lr_line lr) (lr_rest lr) (lr_no lr) []) as [lines lr'].
    cbn [fst snd] in *. destruct H as (H1 & H2 & H3). subst lines. auto.
  Qed.

  (* peeking is the head of the view; read_line steps over a non-empty line and
     stays put on an empty one (and at the end of the input) *)
  Lemma lr_read_line_spec (lr : linereader) :
    match lr_line lr with
    | [] => lr_read_line lr = ([], lr)
    | c :: cur =>
        fst (lr_read_line lr) = c :: cur /\ lr_no (snd (lr_read_line lr)) = lr_no lr + 1 /\
        forall i, nth i (lr_view (snd (lr_read_line lr))) [] = nth (S i) (lr_view lr) []
    end.
  Proof.
    unfold lr_read_line. destruct (lr_line lr) as [|c cur] eqn:E; [reflexivity|].
    destruct (lr_rest lr) as [|l r] eqn:R; cbn [lr_fetch fst snd lr_no lr_view lr_line lr_rest map].
    - split; [reflexivity|]. split; [reflexivity|]. intros i. unfold lr_view. rewrite E, R. simpl. destruct i as [|[|i]]; reflexivity.
    - split; [reflexivity|]. split; [reflexivity|]. intros i. unfold lr_view. rewrite E, R. reflexivity.
  Qed.
End Thm.
