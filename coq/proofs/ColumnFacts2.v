(* ColumnFacts2.v - C01 for the remaining documented domain kinds: Canonical,
   Boolean, text-or-integer, float, UUID, the enumerations and the ';'-lists.
   Same discipline as ColumnFacts.v: per-kind lemmas "zone versus what
   build+validate does" over explicit resolved shapes.  The enum table enters
   only through `enum_members e`, which is never unfolded here (side conditions
   on it are booleans discharged by vm_compute sweeps in ShapeFacts2.v). *)
From Coq Require Import String Ascii.
From MafVerif Require Import lib.Base lib.Str lib.PyInt gen.GenClasses gen.GenEnums model.Classes model.Columns
     spec.SpecLayouts proofs.LayoutFacts proofs.ColumnFacts proofs.ShapeFacts.
Open Scope string_scope.

(* ---------- the oracle law (an explicit hypothesis of the theorems) ---------- *)
(* repr(float(t)) and str(uuid.UUID(t)) never contain TAB, CR or LF *)
Definition oracle_clean (O : oracles) : Prop :=
  (forall t r, fval O t = Some r -> contains_sep r = false) /\
  (forall t r, uval O t = Some r -> contains_sep r = false).

(* ---------- field outcome for a resolved (self, element) pair ---------- *)
Definition fo2 (O : oracles) (e : ecls) (el : option ecls) (t : str) : outcome := field_outcome O (mk_r e el) t.

Lemma field_outcome_fo2 O r t : field_outcome O r t = fo2 O (r_self r) (r_elem r) t.
Proof. destruct r. reflexivity. Qed.

Lemma fo_fo2 O e t : fo O e t = fo2 O e None t.
Proof. reflexivity. Qed.

Lemma fo2_valid O e el t v :
  cls_build O (mk_r e el) t = Ok v -> cls_value_invalid (mk_r e el) v = false ->
  cls_text_has_sep (mk_r e el) v = false -> fo2 O e el t = Valid v.
Proof. intros A B C. unfold fo2, field_outcome. now rewrite A, B, C. Qed.

Lemma fo2_raise O e el t x : cls_build O (mk_r e el) t = Raise x -> fo2 O e el t = Invalid.
Proof. intros A. unfold fo2, field_outcome. now rewrite A. Qed.

Lemma fo2_invalid O e el t v :
  cls_build O (mk_r e el) t = Ok v -> cls_value_invalid (mk_r e el) v = true -> fo2 O e el t = Invalid.
Proof. intros A B. unfold fo2, field_outcome. now rewrite A, B. Qed.

(* ---------- the resolved shapes of the remaining kinds ---------- *)
Definition sh_canonical : ecls := mk None None ["Canonical"; MCCR] ["Canonical"; MCCR] ["Canonical"; "MafColumnRecord"].
Definition sh_bool : ecls := mk None None ["BooleanColumn"; MCCR] ["BooleanColumn"; MCCR] ["MafColumnRecord"].
Definition sh_textorint : ecls :=
  mk None None ["StringOrIntegerColumn"; MCCR] ["StringOrIntegerColumn"; MCCR] ["MafColumnRecord"].
Definition sh_float (nullable : bool) : ecls :=
  mk (if nullable then null_none else None) None ["FloatColumn"; MCCR] ["FloatColumn"; MCCR] ["MafColumnRecord"].
Definition sh_uuid (nullable : bool) : ecls :=
  mk (if nullable then null_none else None) None ["UUIDColumn"; MCCR] ["UUIDColumn"; MCCR] ["MafColumnRecord"].
(* enumerations: `pre` is the (possibly empty) list of classes that define
   their own __build__ in front of EnumColumn's *)
Definition sh_enum (pre : list string) (en : string) (nl : option (list (str * pyval))) : ecls :=
  {| e_custom := true; e_null := nl; e_min := None; e_max := None; e_enum := Some en;
     e_build := pre ++ ["EnumColumn"; MCCR]; e_validate := ["EnumColumn"; MCCR];
     e_string_it := ["EnumColumn"; "MafColumnRecord"] |}.
Definition sh_seq : ecls :=
  mk (Some [([], VList [])]) None ["SequenceOfValuesColumn"; MCCR] ["SequenceOfValuesColumn"; MCCR]
     ["SequenceOfValuesColumn"; "MafColumnRecord"].

(* the three capitalising classes / the plain and the pass-through ones *)
Definition cap_pres : list (list string) := [["NullableYesOrNo"]; ["NullableYOrN"]; ["PickColumn"]].
Definition nocap_pres : list (list string) := [[]; ["YesNoOrUnknown"]].

(* null keys of an enumeration descriptor, as a nullable dict: (key text, member index) *)
Definition null_keys_of (en : string) (nulls : list (string * nat)) : list (str * pyval) :=
  map (fun kn => (s2l (fst kn), VEnum en (snd kn))) nulls.
(* None: a combination no documented class has *)
Definition enum_nl (en : string) (nulls : list (string * nat)) (nullable : bool)
  : option (option (list (str * pyval))) :=
  match nulls, nullable with
  | [], true => Some null_none
  | [], false => Some None
  | _ :: _, false => Some (Some (null_keys_of en nulls))
  | _ :: _, true => None
  end.

(* ---------- zones of the remaining kinds ---------- *)
Definition zone_enum_lookup (en : string) (u : str) : zres :=
  match enum_lookup en u with Ok v => ZAccept v | Raise _ => ZReject end.
(* capitalising classes: ASCII case variants; non-ASCII text is DontCare (the
   model's case mapping is exact on ASCII only) *)
Definition zone_enum_body (en : string) (cap : bool) (t : str) : zres :=
  if cap then (if is_ascii t then zone_enum_lookup en (capitalize_a t) else ZDontCare)
  else zone_enum_lookup en t.

Definition zone_textorint (t : str) : zres :=
  if is_ascii t then
    match py_int t with
    | Some z => if str_eqb (render_int z) t then ZAccept (VInt z) else ZDontCare   (* lenient spelling: which value *)
    | None => ZAccept (VStr t)
    end
  else ZDontCare.

(* one ';'-piece: built by the element class WITHOUT its nullable dict *)
Definition zone_elem (d : descr) (p : str) : zres :=
  match d with
  | DEnum en cap _ _ => zone_enum_body en cap p
  | DText true false => zone d p
  | DInt _ false => zone d p
  | _ => ZDontCare
  end.

Definition is_reject (z : zres) : bool := match z with ZReject => true | _ => false end.
Fixpoint collect (zs : list zres) : option (list pyval) :=
  match zs with
  | [] => Some []
  | ZAccept v :: r => match collect r with Some vs => Some (v :: vs) | None => None end
  | _ :: _ => None
  end.

Definition zone_seq (de : descr) (t : str) : zres :=
  if str_eqb t [] then ZAccept (VList [])
  else let zs := map (zone_elem de) (split SEMI t) in
       if existsb is_reject zs then ZReject
       else match collect zs with Some vs => ZAccept (VList vs) | None => ZDontCare end.

Definition zone2 (O : oracles) (d : descr) (t : str) : zres :=
  match d with
  | DCanonical =>
      if str_eqb t [] then ZAccept (VBool false)
      else if is_ascii t then (if str_eqb (upper_a t) (s2l "YES") then ZAccept (VBool true) else ZReject)
      else ZDontCare
  | DBool =>
      if is_ascii t then
        (if str_eqb (upper_a t) (s2l "TRUE") then ZAccept (VBool true)
         else if str_eqb (upper_a t) (s2l "FALSE") then ZAccept (VBool false) else ZReject)
      else ZDontCare
  | DTextOrInt => zone_textorint t
  | DFloat nullable =>
      if nullable && str_eqb t [] then ZAccept VNone
      else match fval O t with Some r => ZAccept (VFloat r) | None => ZReject end
  | DUuid nullable =>
      if nullable && str_eqb t [] then ZAccept VNone
      else match uval O t with Some u => ZAccept (VUuid u) | None => ZReject end
  | DEnum en cap nulls nullable =>
      if nullable && str_eqb t [] then ZAccept VNone
      else match assoc t (null_keys_of en nulls) with
           | Some v => ZAccept v                 (* looked up before any capitalisation *)
           | None => zone_enum_body en cap t
           end
  | DSeq de => zone_seq de t
  | _ => zone d t
  end.

(* ---------- Canonical ---------- *)
Lemma upper_a_nil t : str_eqb (upper_a t) [] = str_eqb t [].
Proof. destruct t; reflexivity. Qed.

Lemma canonical_meets O t :
  (forall v, zone2 O DCanonical t = ZAccept v -> fo2 O sh_canonical None t = Valid v) /\
  (zone2 O DCanonical t = ZReject -> fo2 O sh_canonical None t = Invalid).
Proof.
  unfold zone2. destruct (str_eqb t []) eqn:E.
  - apply str_eqb_eq in E. subst. split; [|discriminate]. intros v H; injection H as <-. reflexivity.
  - destruct (is_ascii t); [|split; discriminate].
    destruct (str_eqb (upper_a t) (s2l "YES")) eqn:Y.
    + split; [|discriminate]. intros v H; injection H as <-.
      unfold fo2, field_outcome, cls_build. cbn. rewrite upper_a_nil, E. cbn in Y. rewrite Y. reflexivity.
    + split; [discriminate|]. intros _.
      unfold fo2, field_outcome, cls_build. cbn. rewrite upper_a_nil, E. cbn in Y. rewrite Y. reflexivity.
Qed.

(* ---------- Boolean ---------- *)
Lemma bool_meets O t :
  (forall v, zone2 O DBool t = ZAccept v -> fo2 O sh_bool None t = Valid v) /\
  (zone2 O DBool t = ZReject -> fo2 O sh_bool None t = Invalid).
Proof.
  unfold zone2. destruct (is_ascii t); [|split; discriminate].
  destruct (str_eqb (upper_a t) (s2l "TRUE")) eqn:T.
  - split; [|discriminate]. intros v H; injection H as <-.
    unfold fo2, field_outcome, cls_build. cbn. cbn in T. rewrite T. reflexivity.
  - destruct (str_eqb (upper_a t) (s2l "FALSE")) eqn:F.
    + split; [|discriminate]. intros v H; injection H as <-.
      unfold fo2, field_outcome, cls_build. cbn. cbn in T, F. rewrite T, F. reflexivity.
    + split; [discriminate|]. intros _.
      unfold fo2, field_outcome, cls_build. cbn. cbn in T, F. rewrite T, F. reflexivity.
Qed.

(* ---------- text-or-integer ---------- *)
Lemma textorint_meets O t :
  contains_sep t = false ->
  (forall v, zone2 O DTextOrInt t = ZAccept v -> fo2 O sh_textorint None t = Valid v) /\
  (zone2 O DTextOrInt t = ZReject -> fo2 O sh_textorint None t = Invalid).
Proof.
  intros Hsep. unfold zone2, zone_textorint. destruct (is_ascii t); [|split; discriminate].
  destruct (py_int t) as [z|] eqn:P.
  - destruct (str_eqb (render_int z) t); [|split; discriminate].
    split; [|discriminate]. intros v H; injection H as <-.
    apply fo2_valid.
    + unfold cls_build. cbn. now rewrite P.
    + reflexivity.
    + unfold cls_text_has_sep. cbn. apply contains_sep_int.
  - split; [|discriminate]. intros v H; injection H as <-.
    apply fo2_valid.
    + unfold cls_build. cbn. now rewrite P.
    + reflexivity.
    + unfold cls_text_has_sep. cbn. exact Hsep.
Qed.

(* ---------- float and UUID: the value is the host's ---------- *)
Lemma float_meets O nullable t :
  oracle_clean O ->
  (forall v, zone2 O (DFloat nullable) t = ZAccept v -> fo2 O (sh_float nullable) None t = Valid v) /\
  (zone2 O (DFloat nullable) t = ZReject -> fo2 O (sh_float nullable) None t = Invalid).
Proof.
  intros [Hc _]. unfold zone2.
  assert (G : (forall v, match fval O t with Some r => ZAccept (VFloat r) | None => ZReject end = ZAccept v ->
                         (nullable = false \/ t <> []) -> fo2 O (sh_float nullable) None t = Valid v) /\
              (match fval O t with Some r => ZAccept (VFloat r) | None => ZReject end = ZReject ->
               (nullable = false \/ t <> []) -> fo2 O (sh_float nullable) None t = Invalid)).
  { destruct (fval O t) as [r|] eqn:F.
    - split; [|discriminate]. intros v H Hn; injection H as <-.
      apply fo2_valid.
      + unfold cls_build. destruct Hn as [->|Hn]; cbn; [now rewrite F|].
        apply str_eqb_neq in Hn. destruct nullable; cbn; rewrite ?Hn; cbn; now rewrite F.
      + destruct nullable; reflexivity.
      + unfold cls_text_has_sep. destruct nullable; cbn; eauto.
    - split; [discriminate|]. intros _ Hn.
      apply (fo2_raise _ _ _ _ ValueError).
      unfold cls_build. destruct Hn as [->|Hn]; cbn; [now rewrite F|].
      apply str_eqb_neq in Hn. destruct nullable; cbn; rewrite ?Hn; cbn; now rewrite F. }
  destruct nullable; cbn [andb].
  - destruct (str_eqb t []) eqn:E.
    + apply str_eqb_eq in E; subst. split; [|discriminate]. intros v H; injection H as <-. reflexivity.
    + apply str_eqb_neq in E. destruct G as [G1 G2]. split; auto.
  - destruct G as [G1 G2]. split; auto.
Qed.

Lemma uuid_meets O nullable t :
  oracle_clean O ->
  (forall v, zone2 O (DUuid nullable) t = ZAccept v -> fo2 O (sh_uuid nullable) None t = Valid v) /\
  (zone2 O (DUuid nullable) t = ZReject -> fo2 O (sh_uuid nullable) None t = Invalid).
Proof.
  intros [_ Hc]. unfold zone2.
  assert (G : (forall v, match uval O t with Some r => ZAccept (VUuid r) | None => ZReject end = ZAccept v ->
                         (nullable = false \/ t <> []) -> fo2 O (sh_uuid nullable) None t = Valid v) /\
              (match uval O t with Some r => ZAccept (VUuid r) | None => ZReject end = ZReject ->
               (nullable = false \/ t <> []) -> fo2 O (sh_uuid nullable) None t = Invalid)).
  { destruct (uval O t) as [r|] eqn:F.
    - split; [|discriminate]. intros v H Hn; injection H as <-.
      apply fo2_valid.
      + unfold cls_build. destruct Hn as [->|Hn]; cbn; [now rewrite F|].
        apply str_eqb_neq in Hn. destruct nullable; cbn; rewrite ?Hn; cbn; now rewrite F.
      + destruct nullable; reflexivity.
      + unfold cls_text_has_sep. destruct nullable; cbn; eauto.
    - split; [discriminate|]. intros _ Hn.
      apply (fo2_raise _ _ _ _ ValueError).
      unfold cls_build. destruct Hn as [->|Hn]; cbn; [now rewrite F|].
      apply str_eqb_neq in Hn. destruct nullable; cbn; rewrite ?Hn; cbn; now rewrite F. }
  destruct nullable; cbn [andb].
  - destruct (str_eqb t []) eqn:E.
    + apply str_eqb_eq in E; subst. split; [|discriminate]. intros v H; injection H as <-. reflexivity.
    + apply str_eqb_neq in E. destruct G as [G1 G2]. split; auto.
  - destruct G as [G1 G2]. split; auto.
Qed.

(* ---------- enumerations: general lemma over an abstract member list ---------- *)
Definition lookup_ms (e : string) (ms : list (string * string)) (t : str) : res pyval :=
  match find_index (fun m => str_eqb (s2l (snd m)) t) ms 0 with
  | Some i => Ok (VEnum e i)
  | None =>
      match find_index (fun m => str_eqb (s2l (fst m)) t) ms 0 with
      | Some i => Ok (VEnum e i)
      | None => Raise KeyError
      end
  end.

Lemma enum_lookup_ms e t : enum_lookup e t = lookup_ms e (enum_members e) t.
Proof. reflexivity. Qed.
Lemma enum_value_ms e i : enum_value e i = match nth_error (enum_members e) i with Some m => s2l (snd m) | None => [] end.
Proof. reflexivity. Qed.

Lemma find_index_some {X} (p : X -> bool) (l : list X) : forall k i,
  find_index p l k = Some i -> exists j x, i = (k + j)%nat /\ nth_error l j = Some x /\ p x = true.
Proof.
  induction l as [|y l IH]; intros k i H; simpl in H; [discriminate|].
  destruct (p y) eqn:Py.
  - injection H as <-. exists 0%nat, y. repeat split; auto; lia.
  - apply IH in H as (j & x & -> & Hn & Hp). exists (S j), x. repeat split; auto; lia.
Qed.

Lemma lookup_ms_ok e ms t v :
  lookup_ms e ms t = Ok v -> exists i m, v = VEnum e i /\ nth_error ms i = Some m.
Proof.
  unfold lookup_ms.
  destruct (find_index _ ms 0) as [i|] eqn:F1.
  - intros H; injection H as <-. apply find_index_some in F1 as (j & x & -> & Hn & _). eauto.
  - destruct (find_index (fun m => str_eqb (s2l (fst m)) t) ms 0) as [i|] eqn:F2; [|discriminate].
    intros H; injection H as <-. apply find_index_some in F2 as (j & x & -> & Hn & _). eauto.
Qed.

Lemma enum_lookup_ok e t v :
  enum_lookup e t = Ok v -> exists i m, v = VEnum e i /\ nth_error (enum_members e) i = Some m.
Proof. rewrite enum_lookup_ms. apply lookup_ms_ok. Qed.

(* from here on the enum functions are black boxes for the tactics *)
Opaque enum_lookup enum_value enum_members.

(* side conditions on the (regenerated) member table and on the descriptor's
   null keys, as booleans; `bad` is the set of forbidden characters *)
Definition is_sep (c : char) : bool := N.eqb c TAB || N.eqb c CR || N.eqb c LF.
Definition is_semi (c : char) : bool := N.eqb SEMI c.
Definition members_free (bad : char -> bool) (en : string) : bool :=
  forallb (fun m => negb (existsb bad (s2l (snd m)))) (enum_members en).
Definition keys_free (bad : char -> bool) (nl : option (list (str * pyval))) : bool :=
  match nl with Some d => forallb (fun kv => negb (existsb bad (fst kv))) d | None => true end.
(* every null key of the descriptor denotes an existing member *)
Definition nulls_exist (en : string) (nulls : list (string * nat)) : bool :=
  forallb (fun kn => is_some (nth_error (enum_members en) (snd kn))) nulls.

Lemma contains_sep_is_sep s : contains_sep s = existsb is_sep s.
Proof. reflexivity. Qed.

Lemma members_free_value bad en i m :
  members_free bad en = true -> nth_error (enum_members en) i = Some m -> existsb bad (enum_value en i) = false.
Proof.
  intros H Hn. rewrite enum_value_ms, Hn. unfold members_free in H. rewrite forallb_forall in H.
  apply nth_error_In in Hn. specialize (H _ Hn). now apply negb_true_iff in H.
Qed.

Lemma py_eq_enum_refl en i : py_eq (VEnum en i) (VEnum en i) = true.
Proof. cbn. now rewrite String.eqb_refl, Nat.eqb_refl. Qed.

(* what an enum member renders to under a class whose __string_it__ is EnumColumn's *)
Lemma ecls_str_enum bad e en i m :
  e_string_it e = ["EnumColumn"; "MafColumnRecord"] ->
  keys_free bad (e_null e) = true -> members_free bad en = true ->
  nth_error (enum_members en) i = Some m ->
  exists s, ecls_str e (VEnum en i) = Ok s /\ existsb bad s = false.
Proof.
  intros Hs Hk Hm Hn. unfold ecls_str.
  destruct (e_null e) as [d|] eqn:Hd.
  - destruct (map fst (filter (fun kv => py_eq (snd kv) (VEnum en i)) d)) as [|k ks] eqn:Hf.
    + rewrite Hs. cbn. eexists; split; [reflexivity|]. eapply members_free_value; eauto.
    + destruct (existsb (fun x => str_eqb x []) (k :: ks)).
      * eexists; split; [reflexivity|reflexivity].
      * eexists; split; [reflexivity|].
        assert (Hin : In k (map fst (filter (fun kv => py_eq (snd kv) (VEnum en i)) d))) by (rewrite Hf; now left).
        apply in_map_iff in Hin as [kv [<- Hin]]. apply filter_In in Hin as [Hin _].
        cbn in Hk. rewrite forallb_forall in Hk. specialize (Hk _ Hin). now apply negb_true_iff in Hk.
  - rewrite Hs. cbn. eexists; split; [reflexivity|]. eapply members_free_value; eauto.
Qed.

Lemma enum_validate_ok en nl pre el i :
  cls_validate_raw (mk_r (sh_enum pre en nl) el) (VEnum en i) = false.
Proof. unfold cls_validate_raw. cbn. now rewrite String.eqb_refl. Qed.

Lemma enum_value_valid en nl pre el i :
  cls_value_invalid (mk_r (sh_enum pre en nl) el) (VEnum en i) = false.
Proof.
  unfold cls_value_invalid. cbn [r_self mk_r sh_enum e_custom].
  destruct (in_null_values _ _); [reflexivity|]. apply enum_validate_ok.
Qed.

Lemma enum_text_clean en nl pre el i m :
  keys_free is_sep nl = true -> members_free is_sep en = true ->
  nth_error (enum_members en) i = Some m ->
  cls_text_has_sep (mk_r (sh_enum pre en nl) el) (VEnum en i) = false.
Proof.
  intros Hk Hm Hn. unfold cls_text_has_sep, col_str. cbn [r_self mk_r].
  destruct (ecls_str_enum is_sep (sh_enum pre en nl) en i m eq_refl Hk Hm Hn) as (s & -> & Hs).
  now rewrite contains_sep_is_sep.
Qed.

(* the raw __build__ of the enum classes *)
Lemma enum_build_cap O pre en nl el t :
  In pre cap_pres -> cls_build_raw O (mk_r (sh_enum pre en nl) el) t = enum_lookup en (capitalize_a t).
Proof. intros [<-|[<-|[<-|[]]]]; reflexivity. Qed.
Lemma enum_build_nocap O pre en nl el t :
  In pre nocap_pres -> cls_build_raw O (mk_r (sh_enum pre en nl) el) t = enum_lookup en t.
Proof. intros [<-|[<-|[]]]; reflexivity. Qed.

Definition pres_of (cap : bool) : list (list string) := if cap then cap_pres else nocap_pres.

Lemma enum_build_body O pre en nl el cap t :
  In pre (pres_of cap) ->
  cls_build_raw O (mk_r (sh_enum pre en nl) el) t = enum_lookup en (if cap then capitalize_a t else t).
Proof. destruct cap; [apply enum_build_cap|apply enum_build_nocap]. Qed.

(* zone_enum_body against the raw build *)
Lemma enum_body_meets O pre en nl cap t :
  In pre (pres_of cap) -> keys_free is_sep nl = true -> members_free is_sep en = true ->
  cls_build O (mk_r (sh_enum pre en nl) None) t = cls_build_raw O (mk_r (sh_enum pre en nl) None) t ->
  (forall v, zone_enum_body en cap t = ZAccept v -> fo2 O (sh_enum pre en nl) None t = Valid v) /\
  (zone_enum_body en cap t = ZReject -> fo2 O (sh_enum pre en nl) None t = Invalid).
Proof.
  intros Hpre Hk Hm Hb. rewrite (enum_build_body O pre en nl None cap t Hpre) in Hb.
  assert (G : forall u, cls_build O (mk_r (sh_enum pre en nl) None) t = enum_lookup en u ->
              (forall v, zone_enum_lookup en u = ZAccept v -> fo2 O (sh_enum pre en nl) None t = Valid v) /\
              (zone_enum_lookup en u = ZReject -> fo2 O (sh_enum pre en nl) None t = Invalid)).
  { intros u Hu. unfold zone_enum_lookup. destruct (enum_lookup en u) as [w|x] eqn:L.
    - split; [|discriminate]. intros v H; injection H as <-.
      apply enum_lookup_ok in L as (i & m & -> & Hn).
      apply fo2_valid; [exact Hu|apply enum_value_valid|eapply enum_text_clean; eauto].
    - split; [discriminate|]. intros _. eapply fo2_raise; eauto. }
  unfold zone_enum_body. destruct cap.
  - destruct (is_ascii t); [|split; discriminate]. now apply G.
  - now apply G.
Qed.

Lemma assoc_in_pairs {V} k (d : list (str * V)) v : assoc k d = Some v -> In (k, v) d.
Proof.
  induction d as [|[k' v'] d IH]; simpl; [discriminate|].
  destruct (str_eqb k k') eqn:E.
  - apply str_eqb_eq in E. subst. intros H; injection H as <-. now left.
  - intros H. right. auto.
Qed.

Lemma keys_free_null_none bad : keys_free bad null_none = true.
Proof. reflexivity. Qed.

Lemma enum_nl_cons en kn nulls :
  enum_nl en (kn :: nulls) false = Some (Some (null_keys_of en (kn :: nulls))).
Proof. reflexivity. Qed.

(* the enumeration kind *)
Lemma enum_meets O pre en cap nulls nullable nl t :
  enum_nl en nulls nullable = Some nl -> In pre (pres_of cap) ->
  keys_free is_sep nl = true -> members_free is_sep en = true -> nulls_exist en nulls = true ->
  (forall v, zone2 O (DEnum en cap nulls nullable) t = ZAccept v -> fo2 O (sh_enum pre en nl) None t = Valid v) /\
  (zone2 O (DEnum en cap nulls nullable) t = ZReject -> fo2 O (sh_enum pre en nl) None t = Invalid).
Proof.
  intros Hnl Hpre Hk Hm Hex. unfold zone2.
  destruct nulls as [|kn0 nulls0].
  - (* no enum-valued null keys *)
    cbn [null_keys_of map assoc].
    destruct nullable; cbn in Hnl; injection Hnl as <-; cbn [andb].
    + destruct (str_eqb t []) eqn:E.
      * apply str_eqb_eq in E; subst. split; [|discriminate]. intros v H; injection H as <-. reflexivity.
      * apply enum_body_meets; auto. unfold cls_build. cbn. now rewrite E.
    + apply enum_body_meets; auto.
  - destruct nullable; [discriminate|]. rewrite enum_nl_cons in Hnl. cbn [andb].
    remember (null_keys_of en (kn0 :: nulls0)) as d eqn:Hd. injection Hnl as <-.
    destruct (assoc t d) as [w|] eqn:A.
    + split; [|discriminate]. intros v H; injection H as <-.
      pose proof (assoc_in_pairs _ _ _ A) as Hin.
      assert (Hw : exists i m, w = VEnum en i /\ nth_error (enum_members en) i = Some m).
      { rewrite Hd in Hin. unfold null_keys_of in Hin. apply in_map_iff in Hin as [kn [Hkn Hin]]. injection Hkn as _ <-.
        unfold nulls_exist in Hex. rewrite forallb_forall in Hex. specialize (Hex _ Hin).
        destruct (nth_error (enum_members en) (snd kn)) as [m|] eqn:Hn; [|discriminate]. eauto. }
      destruct Hw as (i & m & -> & Hn).
      apply fo2_valid.
      * unfold cls_build. cbn [r_self mk_r sh_enum e_custom e_null]. now rewrite A.
      * apply enum_value_valid.
      * eapply enum_text_clean; eauto.
    + apply enum_body_meets; auto. unfold cls_build. cbn [r_self mk_r sh_enum e_custom e_null]. now rewrite A.
Qed.

(* ---------- which resolved classes fit a descriptor (boolean, for the sweeps) ---------- *)
Definition fits_top (d : descr) (e : ecls) : bool :=
  match d with
  | DCanonical => ecls_eqb e sh_canonical
  | DBool => ecls_eqb e sh_bool
  | DTextOrInt => ecls_eqb e sh_textorint
  | DFloat n => ecls_eqb e (sh_float n)
  | DUuid n => ecls_eqb e (sh_uuid n)
  | DEnum en cap nulls nullable =>
      match enum_nl en nulls nullable with
      | Some nl => existsb (fun pre => ecls_eqb e (sh_enum pre en nl)) (pres_of cap)
                   && keys_free is_sep nl && members_free is_sep en && nulls_exist en nulls
      | None => false
      end
  | DSeq _ => false
  | _ => match shape d with Some e' => ecls_eqb e e' | None => false end
  end.
(* element kinds of the documented ';'-lists *)
Definition elem_kind (d : descr) : bool :=
  match d with DText true false => true | DInt _ false => true | DEnum _ _ _ _ => true | _ => false end.
(* an element's text must not contain ';' : enum members and null keys are checked *)
Definition elem_side (d : descr) (el : ecls) : bool :=
  match d with DEnum en _ _ _ => keys_free is_semi (e_null el) && members_free is_semi en | _ => true end.
Definition fits (d : descr) (e : ecls) (el : option ecls) : bool :=
  match d with
  | DSeq de => ecls_eqb e sh_seq
               && match el with Some x => elem_kind de && fits_top de x && elem_side de x | None => false end
  | _ => fits_top d e && is_none el
  end.

(* ---------- ';'-lists: generic part ---------- *)
(* the per-element test of SequenceOfValuesColumn.__validate__ *)
Definition elem_bad (el : ecls) (x : pyval) : bool :=
  if eval_validate el no_seqv (e_validate el) x then true
  else match ecls_str el x with Ok t => existsb (N.eqb SEMI) t | Raise _ => true end.
Definition elem_build (O : oracles) (el : ecls) (p : str) : res pyval :=
  eval_build O (e_enum el) no_seq (e_build el) p.
Definition elem_outcome (O : oracles) (el : ecls) (p : str) : outcome :=
  match elem_build O el p with
  | Raise _ => Invalid
  | Ok v => if elem_bad el v then Invalid else Valid v
  end.

Lemma map_res_ok {X Y} (f : X -> res Y) ps vs :
  Forall2 (fun p v => f p = Ok v) ps vs -> map_res f ps = Ok vs.
Proof. induction 1 as [|p v ps vs Hp _ IH]; simpl; [reflexivity|]. now rewrite Hp, IH. Qed.

Lemma map_res_inv {X Y} (f : X -> res Y) ps : forall vs,
  map_res f ps = Ok vs -> Forall2 (fun p v => f p = Ok v) ps vs.
Proof.
  induction ps as [|p ps IH]; simpl; intros vs H.
  - injection H as <-. constructor.
  - destruct (f p) as [y|] eqn:Fp; [|discriminate].
    destruct (map_res f ps) as [ys|]; [|discriminate]. injection H as <-. constructor; auto.
Qed.

Lemma seq_build O el t :
  t <> [] ->
  cls_build O (mk_r sh_seq (Some el)) t =
  match map_res (elem_build O el) (split SEMI t) with Ok vs => Ok (VList vs) | Raise x => Raise x end.
Proof. intros H. apply str_eqb_neq in H. unfold cls_build. cbn. rewrite H. reflexivity. Qed.

Lemma seq_value_invalid el vs :
  vs <> [] -> cls_value_invalid (mk_r sh_seq (Some el)) (VList vs) = existsb (elem_bad el) vs.
Proof. destruct vs as [|v vs]; [congruence|]. intros _. reflexivity. Qed.

Lemma seq_text el vs :
  vs <> [] ->
  cls_text_has_sep (mk_r sh_seq (Some el)) (VList vs) =
  match map_res py_str vs with Ok ps => contains_sep (join [SEMI] ps) | Raise _ => false end.
Proof.
  destruct vs as [|v vs]; [congruence|]. intros _.
  unfold cls_text_has_sep, col_str, ecls_str. cbn -[map_res join].
  destruct (map_res py_str (v :: vs)); reflexivity.
Qed.

Lemma contains_sep_join ps :
  Forall (fun s => contains_sep s = false) ps -> contains_sep (join [SEMI] ps) = false.
Proof.
  intros HF. apply not_true_is_false. intros H. unfold contains_sep in H.
  apply existsb_exists in H as [c [Hin Hc]].
  apply in_join_sep in Hin as [->|[p [Hp Hx]]]; [discriminate|].
  rewrite Forall_forall in HF. specialize (HF _ Hp). unfold contains_sep in HF.
  assert (existsb (fun c => N.eqb c TAB || N.eqb c CR || N.eqb c LF) p = true)
    by (apply existsb_exists; eauto).
  congruence.
Qed.

Lemma Forall2_weaken {X Y} (R S : X -> Y -> Prop) a b :
  (forall x y, R x y -> S x y) -> Forall2 R a b -> Forall2 S a b.
Proof. intros H; induction 1; constructor; auto. Qed.

Lemma Forall2_length_nonempty {X Y} (R : X -> Y -> Prop) a b : Forall2 R a b -> a <> [] -> b <> [].
Proof. destruct 1; congruence. Qed.

Definition elem_good (O : oracles) (el : ecls) (p : str) (v : pyval) : Prop :=
  elem_outcome O el p = Valid v /\ exists s, py_str v = Ok s /\ contains_sep s = false.

Lemma elem_outcome_valid_inv O el p v :
  elem_outcome O el p = Valid v -> elem_build O el p = Ok v /\ elem_bad el v = false.
Proof.
  unfold elem_outcome. destruct (elem_build O el p) as [w|]; [|discriminate].
  destruct (elem_bad el w) eqn:B; [discriminate|]. intros H; injection H as <-. auto.
Qed.

Lemma seq_valid O el t vs :
  t <> [] -> Forall2 (elem_good O el) (split SEMI t) vs -> fo2 O sh_seq (Some el) t = Valid (VList vs).
Proof.
  intros Ht HF.
  assert (Hne : vs <> []) by (eapply Forall2_length_nonempty; [exact HF|apply split_nonempty]).
  apply fo2_valid.
  - rewrite seq_build by assumption. rewrite (map_res_ok _ _ vs); [reflexivity|].
    eapply Forall2_weaken; [|exact HF]. intros p v [H _]. now apply elem_outcome_valid_inv in H.
  - rewrite seq_value_invalid by assumption. apply not_true_is_false. intros H.
    apply existsb_exists in H as [v [Hin Hb]].
    clear Hne. induction HF as [|p w ps ws [Hw _] _ IH]; [destruct Hin|].
    destruct Hin as [<-|Hin]; [|auto]. apply elem_outcome_valid_inv in Hw as [_ Hw]. congruence.
  - rewrite seq_text by assumption.
    assert (G : exists ss, map_res py_str vs = Ok ss /\ Forall (fun s => contains_sep s = false) ss).
    { clear Hne. induction HF as [|p w ps ws [_ (s & Hs & Hc)] _ (ss & IH1 & IH2)].
      - exists []. split; [reflexivity|constructor].
      - exists (s :: ss). split; [simpl; now rewrite Hs, IH1|now constructor]. }
    destruct G as (ss & -> & Hss). now apply contains_sep_join.
Qed.

Lemma seq_invalid O el t :
  t <> [] -> Exists (fun p => elem_outcome O el p = Invalid) (split SEMI t) -> fo2 O sh_seq (Some el) t = Invalid.
Proof.
  intros Ht HE.
  destruct (map_res (elem_build O el) (split SEMI t)) as [vs|x] eqn:M.
  - pose proof (map_res_inv _ _ _ M) as HF.
    assert (Hne : vs <> []) by (eapply Forall2_length_nonempty; [exact HF|apply split_nonempty]).
    eapply fo2_invalid.
    + rewrite seq_build by assumption. now rewrite M.
    + rewrite seq_value_invalid by assumption.
      clear M Hne. induction HF as [|p w ps ws Hw _ IH]; [inversion HE|].
      simpl. inversion HE as [? ? Hp|? ? Hp]; subst.
      * unfold elem_outcome in Hp. rewrite Hw in Hp. destruct (elem_bad el w); [reflexivity|discriminate].
      * rewrite IH by assumption. apply orb_true_r.
  - eapply fo2_raise. rewrite seq_build by assumption. now rewrite M.
Qed.

(* the zone of a list against the zones of its pieces *)
Lemma collect_forall2 zs vs : collect zs = Some vs -> Forall2 (fun z v => z = ZAccept v) zs vs.
Proof.
  revert vs; induction zs as [|z zs IH]; simpl; intros vs H.
  - injection H as <-. constructor.
  - destruct z as [v| |]; try discriminate.
    destruct (collect zs) as [ws|]; [|discriminate]. injection H as <-. constructor; auto.
Qed.

Lemma seq_meets_generic O de el t :
  (forall p, In p (split SEMI t) ->
     (forall v, zone_elem de p = ZAccept v -> elem_good O el p v) /\
     (zone_elem de p = ZReject -> elem_outcome O el p = Invalid)) ->
  (forall v, zone2 O (DSeq de) t = ZAccept v -> fo2 O sh_seq (Some el) t = Valid v) /\
  (zone2 O (DSeq de) t = ZReject -> fo2 O sh_seq (Some el) t = Invalid).
Proof.
  intros Hp. unfold zone2, zone_seq. destruct (str_eqb t []) eqn:E.
  - apply str_eqb_eq in E; subst. split; [|discriminate]. intros v H; injection H as <-. reflexivity.
  - apply str_eqb_neq in E.
    destruct (existsb is_reject (map (zone_elem de) (split SEMI t))) eqn:Rj.
    + split; [discriminate|]. intros _. apply seq_invalid; [assumption|].
      apply existsb_exists in Rj as [z [Hin Hz]]. apply in_map_iff in Hin as [p [<- Hin]].
      apply Exists_exists. exists p. split; [assumption|].
      destruct (zone_elem de p) eqn:Z; try discriminate. now apply (proj2 (Hp p Hin)).
    + destruct (collect (map (zone_elem de) (split SEMI t))) as [vs|] eqn:C; [|split; discriminate].
      split; [|discriminate]. intros v H; injection H as <-.
      apply seq_valid; [assumption|].
      apply collect_forall2 in C.
      revert Hp C. generalize (split SEMI t) as ps. intros ps Hp C.
      revert vs C. induction ps as [|p ps IH]; intros vs C; inversion C; subst; constructor.
      * apply (proj1 (Hp p (or_introl eq_refl))). assumption.
      * apply IH; [|assumption]. intros q Hq. apply Hp. now right.
Qed.

(* ---------- the three element kinds ---------- *)
Lemma no_semi_existsb p : ~ In SEMI p -> existsb (N.eqb SEMI) p = false.
Proof.
  intros H. apply not_true_is_false. intros Hx. apply existsb_exists in Hx as [c [Hin Hc]].
  apply N.eqb_eq in Hc. now subst.
Qed.

Lemma elem_text_meets O p :
  contains_sep p = false -> ~ In SEMI p ->
  forall el, shape (DText true false) = Some el ->
  (forall v, zone (DText true false) p = ZAccept v -> elem_good O el p v) /\
  (zone (DText true false) p = ZReject -> elem_outcome O el p = Invalid).
Proof.
  intros Hsep Hsemi el Hs. simpl in Hs. injection Hs as <-. unfold zone.
  destruct (str_eqb p []) eqn:E.
  - split; [discriminate|]. intros _. apply str_eqb_eq in E; subst. reflexivity.
  - split; [|discriminate]. intros v H; injection H as <-. split.
    + unfold elem_outcome, elem_build, elem_bad. cbn. rewrite E. cbn. now rewrite no_semi_existsb.
    + exists p. split; [reflexivity|assumption].
Qed.

Lemma render_int_no_semi z : existsb (N.eqb SEMI) (render_int z) = false.
Proof.
  apply not_true_is_false. intros H. apply existsb_exists in H as [c [Hin Hc]].
  apply N.eqb_eq in Hc. subst c.
  pose proof (render_int_chars z) as HF. rewrite forallb_forall in HF. specialize (HF _ Hin). discriminate.
Qed.

Lemma elem_int_meets O lo p :
  forall el, shape (DInt lo false) = Some el ->
  (forall v, zone (DInt lo false) p = ZAccept v -> elem_good O el p v) /\
  (zone (DInt lo false) p = ZReject -> elem_outcome O el p = Invalid).
Proof.
  intros el Hs. simpl in Hs. injection Hs as <-. unfold zone. cbn [andb]. split.
  - intros v Hv. apply zone_int_accept in Hv as (z & -> & Hp & Hm). split.
    + unfold elem_outcome, elem_build, elem_bad. cbn. unfold build_int. rewrite Hp. cbn.
      destruct lo as [m|]; cbn; rewrite ?Hm; cbn; now rewrite render_int_no_semi.
    + exists (render_int z). split; [reflexivity|apply contains_sep_int].
  - intros Hr. apply zone_int_reject in Hr as [Hp|(z & m & Hp & -> & Hm)].
    + unfold elem_outcome, elem_build. cbn. unfold build_int. now rewrite Hp.
    + unfold elem_outcome, elem_build, elem_bad. cbn. unfold build_int. rewrite Hp. cbn. now rewrite Hm.
Qed.

Lemma enum_elem_build O pre en nl cap p :
  In pre (pres_of cap) ->
  elem_build O (sh_enum pre en nl) p = enum_lookup en (if cap then capitalize_a p else p).
Proof.
  destruct cap.
  - intros [<-|[<-|[<-|[]]]]; reflexivity.
  - intros [<-|[<-|[]]]; reflexivity.
Qed.

Lemma elem_enum_meets O pre en cap nl p :
  In pre (pres_of cap) ->
  keys_free is_semi nl = true -> members_free is_semi en = true -> members_free is_sep en = true ->
  (forall v, zone_enum_body en cap p = ZAccept v -> elem_good O (sh_enum pre en nl) p v) /\
  (zone_enum_body en cap p = ZReject -> elem_outcome O (sh_enum pre en nl) p = Invalid).
Proof.
  intros Hpre Hk Hm Hm2.
  pose proof (enum_elem_build O pre en nl cap p Hpre) as Hb.
  assert (G : forall u, elem_build O (sh_enum pre en nl) p = enum_lookup en u ->
              (forall v, zone_enum_lookup en u = ZAccept v -> elem_good O (sh_enum pre en nl) p v) /\
              (zone_enum_lookup en u = ZReject -> elem_outcome O (sh_enum pre en nl) p = Invalid)).
  { intros u Hu. unfold zone_enum_lookup. destruct (enum_lookup en u) as [w|x] eqn:L.
    - split; [|discriminate]. intros v H; injection H as <-.
      apply enum_lookup_ok in L as (i & m & -> & Hn). split.
      + unfold elem_outcome. rewrite Hu. unfold elem_bad.
        assert (V : eval_validate (sh_enum pre en nl) no_seqv (e_validate (sh_enum pre en nl)) (VEnum en i) = false)
          by (cbn; now rewrite String.eqb_refl).
        rewrite V.
        destruct (ecls_str_enum is_semi (sh_enum pre en nl) en i m eq_refl Hk Hm Hn) as (s & -> & Hs).
        change (existsb (N.eqb SEMI) s = false) in Hs. now rewrite Hs.
      + exists (enum_value en i). split; [reflexivity|].
        rewrite contains_sep_is_sep. eapply members_free_value; eauto.
    - split; [discriminate|]. intros _. unfold elem_outcome. now rewrite Hu. }
  unfold zone_enum_body. destruct cap.
  - destruct (is_ascii p); [|split; discriminate]. now apply G.
  - now apply G.
Qed.

Lemma existsb_ecls_eqb (e : ecls) (f : list string -> ecls) pres :
  existsb (fun pre => ecls_eqb e (f pre)) pres = true -> exists pre, In pre pres /\ e = f pre.
Proof.
  intros H. apply existsb_exists in H as [pre [Hin He]]. apply ecls_eqb_eq in He. eauto.
Qed.

Lemma fits_top_enum e en cap nulls nullable :
  fits_top (DEnum en cap nulls nullable) e = true ->
  exists nl pre, enum_nl en nulls nullable = Some nl /\ In pre (pres_of cap) /\ e = sh_enum pre en nl /\
                 keys_free is_sep nl = true /\ members_free is_sep en = true /\ nulls_exist en nulls = true.
Proof.
  unfold fits_top. destruct (enum_nl en nulls nullable) as [nl|]; [|discriminate].
  intros H. repeat (apply andb_true_iff in H; destruct H as [H ?]).
  apply existsb_ecls_eqb in H as (pre & Hin & ->). exists nl, pre. repeat split; auto.
Qed.

Lemma pieces_clean t p : contains_sep t = false -> In p (split SEMI t) -> contains_sep p = false.
Proof.
  intros Ht Hp. apply not_true_is_false. intros H. unfold contains_sep in H.
  apply existsb_exists in H as [c [Hin Hc]].
  assert (Hint : In c t).
  { rewrite <- (join_split SEMI t).
    clear Ht. revert Hp. generalize (split SEMI t) as ps.
    induction ps as [|q ps IH]; intros Hp; [destruct Hp|].
    destruct ps as [|q' ps].
    - destruct Hp as [->|[]]. exact Hin.
    - change (join [SEMI] (q :: q' :: ps)) with (q ++ [SEMI] ++ join [SEMI] (q' :: ps))%list.
      destruct Hp as [->|Hp]; apply in_or_app; [now left|right].
      apply in_or_app. right. now apply IH. }
  assert (contains_sep t = true) by (apply existsb_exists; eauto). congruence.
Qed.

Lemma seq_meets O de el t :
  elem_kind de = true -> fits_top de el = true -> elem_side de el = true -> contains_sep t = false ->
  (forall v, zone2 O (DSeq de) t = ZAccept v -> fo2 O sh_seq (Some el) t = Valid v) /\
  (zone2 O (DSeq de) t = ZReject -> fo2 O sh_seq (Some el) t = Invalid).
Proof.
  intros Hk Hf Hside Hsep. apply seq_meets_generic. intros p Hp.
  pose proof (pieces_clean _ _ Hsep Hp) as Hpc.
  pose proof (split_pieces_no_sep _ _ _ Hp) as Hns.
  destruct de; try discriminate.
  - (* text *)
    destruct nonempty, nullable; try discriminate. cbn [zone_elem].
    unfold fits_top in Hf. cbn [shape] in Hf. apply ecls_eqb_eq in Hf.
    apply elem_text_meets; auto. cbn [shape]. now rewrite Hf.
  - (* int *)
    destruct nullable; try discriminate. cbn [zone_elem].
    unfold fits_top in Hf. cbn [shape] in Hf. apply ecls_eqb_eq in Hf.
    apply elem_int_meets. cbn [shape]. now rewrite Hf.
  - (* enum *)
    cbn [zone_elem].
    apply fits_top_enum in Hf as (nl & pre & _ & Hpre & -> & _ & Hm & _).
    cbn [elem_side] in Hside. apply andb_true_iff in Hside as [Hs1 Hs2].
    apply elem_enum_meets; auto.
Qed.

(* ---------- all kinds together ---------- *)
Theorem class_meets_descr_all O d e el t :
  oracle_clean O -> fits d e el = true -> contains_sep t = false ->
  (forall v, zone2 O d t = ZAccept v -> fo2 O e el t = Valid v) /\
  (zone2 O d t = ZReject -> fo2 O e el t = Invalid).
Proof.
  intros HO Hf Hsep.
  assert (Hold : forall e', shape d = Some e' -> zone2 O d = zone d ->
                 fits_top d e = ecls_eqb e e' -> fits d e el = fits_top d e && is_none el ->
                 (forall v, zone2 O d t = ZAccept v -> fo2 O e el t = Valid v) /\
                 (zone2 O d t = ZReject -> fo2 O e el t = Invalid)).
  { intros e' Hs Hz Hft Hfi. rewrite Hfi, Hft in Hf. apply andb_true_iff in Hf as [He Hn].
    apply ecls_eqb_eq in He. subst e'. destruct el; [discriminate|]. rewrite Hz.
    exact (class_meets_descr O d e t Hs Hsep). }
  destruct d.
  - (* DText *) unfold fits in Hf. apply andb_true_iff in Hf as [Hf Hn].
    unfold fits_top in Hf. destruct (shape (DText nonempty nullable)) as [e'|] eqn:Hs; [|discriminate].
    eapply Hold; eauto. unfold fits_top. now rewrite Hs.
  - (* DInt *) unfold fits in Hf. apply andb_true_iff in Hf as [Hf Hn].
    unfold fits_top in Hf. destruct (shape (DInt lo nullable)) as [e'|] eqn:Hs; [|discriminate].
    eapply Hold; eauto. unfold fits_top. now rewrite Hs.
  - (* DEntrez *) unfold fits in Hf. apply andb_true_iff in Hf as [Hf Hn].
    unfold fits_top in Hf. destruct (shape DEntrez) as [e'|] eqn:Hs; [|discriminate].
    eapply Hold; eauto. unfold fits_top. now rewrite Hs.
  - (* DTextOrInt *) unfold fits, fits_top in Hf. apply andb_true_iff in Hf as [Hf Hn].
    apply ecls_eqb_eq in Hf. subst e. destruct el; [discriminate|]. now apply textorint_meets.
  - (* DFloat *) unfold fits, fits_top in Hf. apply andb_true_iff in Hf as [Hf Hn].
    apply ecls_eqb_eq in Hf. subst e. destruct el; [discriminate|]. now apply float_meets.
  - (* DEnum *) unfold fits in Hf. apply andb_true_iff in Hf as [Hf Hn].
    apply fits_top_enum in Hf as (nl & pre & Hnl & Hpre & -> & Hk & Hm & Hex).
    destruct el; [discriminate|]. now apply enum_meets.
  - (* DDna *) unfold fits in Hf. apply andb_true_iff in Hf as [Hf Hn].
    unfold fits_top in Hf. destruct (shape (DDna nullable)) as [e'|] eqn:Hs; [|discriminate].
    eapply Hold; eauto. unfold fits_top. now rewrite Hs.
  - (* DUuid *) unfold fits, fits_top in Hf. apply andb_true_iff in Hf as [Hf Hn].
    apply ecls_eqb_eq in Hf. subst e. destruct el; [discriminate|]. now apply uuid_meets.
  - (* DCanonical *) unfold fits, fits_top in Hf. apply andb_true_iff in Hf as [Hf Hn].
    apply ecls_eqb_eq in Hf. subst e. destruct el; [discriminate|]. apply canonical_meets.
  - (* DBool *) unfold fits, fits_top in Hf. apply andb_true_iff in Hf as [Hf Hn].
    apply ecls_eqb_eq in Hf. subst e. destruct el; [discriminate|]. apply bool_meets.
  - (* DStrand *) unfold fits in Hf. apply andb_true_iff in Hf as [Hf Hn].
    unfold fits_top in Hf. destruct (shape DStrand) as [e'|] eqn:Hs; [|discriminate].
    eapply Hold; eauto. unfold fits_top. now rewrite Hs.
  - (* DSeq *) unfold fits in Hf. apply andb_true_iff in Hf as [He Hf].
    apply ecls_eqb_eq in He. subst e. destruct el as [x|]; [|discriminate].
    apply andb_true_iff in Hf as [Hf Hside]. apply andb_true_iff in Hf as [Hk Hf].
    now apply seq_meets.
  - (* DMustNull *) unfold fits in Hf. apply andb_true_iff in Hf as [Hf Hn].
    unfold fits_top in Hf. destruct (shape (DMustNull d)) as [e'|] eqn:Hs; [|discriminate].
    eapply Hold; eauto. unfold fits_top. now rewrite Hs.
Qed.

(* the opacity above was only a guard for the tactics of this file *)
Transparent enum_lookup enum_value enum_members.
