(* FileIORecord.v - one record of a round trip (C02).
   The record MafRecord.from_line builds from a line whose fields all parse
   and validate is *canonical*: slot i holds the column named names[i] with
   index i and an empty error list, and the name map lists the columns in slot
   order.  This file computes, for canonical records, exactly what from_line
   returns, what MafRecord.validate returns (both as from_line and as the
   writer call it) and what str(record) is; and it extracts from "the writer
   accepted this record without validation errors" the facts the round trip
   needs.  The dependence on the internals of record_validate is confined to
   this file (rv_core_canon, accepted_facts). *)
From MafVerif Require Import lib.Base lib.Str model.RecordOps model.Validation model.Header
  model.RecordParse model.Reader model.WriterMode model.FileIO
  proofs.RecordFacts proofs.HeaderSpec proofs.ReaderModes proofs.ReaderTotal proofs.FileIOText.

(* ---------- small list facts ---------- *)
Lemma lset_pad_snoc {V} (l : list (option (col V))) (c : col V) :
  lset (length l) (Some c) (pad l (S (length l))) = l ++ [Some c].
Proof.
  unfold pad. replace (S (length l) - length l)%nat with 1%nat by lia. cbn [repeat].
  induction l as [|x l IH]; [reflexivity|]. cbn [length app lset]. now rewrite IH.
Qed.

Lemma zip_map {X A B} (f : X -> A) (g : X -> B) (l : list X) :
  zip (map f l) (map g l) = map (fun x => (f x, g x)) l.
Proof. induction l as [|x l IH]; [reflexivity|]. cbn [map zip]. now rewrite IH. Qed.

Lemma index_of_nth (names : list str) : forall name i k,
  index_of name names k = Some i -> exists n, i = k + Z.of_nat n /\ nth_error names n = Some name.
Proof.
  induction names as [|x names IH]; intros name i k; cbn [index_of]; [discriminate|].
  destruct (str_eqb name x) eqn:E.
  - apply str_eqb_eq in E. subst x. intros H; injection H as <-. exists O. split; [simpl; lia|reflexivity].
  - intros H. apply IH in H as (n & -> & Hn). exists (S n). split; [lia|exact Hn].
Qed.

Lemma index_of_nodup (names : list str) : forall n name k,
  NoDup names -> nth_error names n = Some name -> index_of name names k = Some (k + Z.of_nat n).
Proof.
  induction names as [|x names IH]; intros n name k ND Hn; [destruct n; discriminate|].
  inversion ND as [|? ? Hx ND']; subst. cbn [index_of]. destruct n as [|n]; cbn [nth_error] in Hn.
  - injection Hn as ->. rewrite str_eqb_refl. f_equal. simpl. lia.
  - destruct (str_eqb name x) eqn:E.
    + apply str_eqb_eq in E. subst x. exfalso. apply Hx. eapply nth_error_In; eauto.
    + rewrite (IH n name (k + 1) ND' Hn). f_equal. lia.
Qed.

Section Canon.
  Context {C W : Type}.
  Variable sem : colsem C W.
  Notation cls := (cls C).
  Notation scheme := (scheme cls).
  Notation mrec := (mrec C W).
  Notation payload := (payload C W).
  Notation pvalue := (pvalue C W).
  Notation column := (col payload).

  (* ---------- canonical columns ---------- *)
  Definition mkcol (name : str) (i : nat) (p : pvalue) : column :=
    {| ckey := name; cidx := Some (Z.of_nat i); cval := {| pv := p; perrs := []; poid := Z.of_nat i |} |}.

  (* a cell: column name and the value it holds *)
  Fixpoint canon_cols (i : nat) (cells : list (str * pvalue)) : list column :=
    match cells with
    | [] => []
    | (n, p) :: rest => mkcol n i p :: canon_cols (S i) rest
    end.

  Definition rec_of (cs : list column) : rec payload :=
    {| rdict := map (fun c => (ckey c, c)) cs; rlist := map Some cs |}.

  Definition canon_rec (cells : list (str * pvalue)) : rec payload := rec_of (canon_cols 0 cells).

  Lemma canon_cols_app i a b :
    canon_cols i (a ++ b) = canon_cols i a ++ canon_cols (i + length a) b.
  Proof.
    revert i. induction a as [|[n p] a IH]; intros i; cbn [app canon_cols length].
    - now rewrite Nat.add_0_r.
    - rewrite IH. do 3 f_equal. lia.
  Qed.

  Lemma canon_cols_keys i cells : map ckey (canon_cols i cells) = map fst cells.
  Proof. revert i. induction cells as [|[n p] r IH]; intros i; [reflexivity|]. cbn [canon_cols map]. now rewrite IH. Qed.

  Lemma canon_cols_length i cells : length (canon_cols i cells) = length cells.
  Proof. revert i. induction cells as [|[n p] r IH]; intros i; [reflexivity|]. cbn [canon_cols length]. now rewrite IH. Qed.

  Lemma with_perrs_mkcol n i p : with_perrs (mkcol n i p) [] = mkcol n i p.
  Proof. reflexivity. Qed.

  Lemma rec_of_keys cs : map fst (rdict (rec_of cs)) = map ckey cs.
  Proof. unfold rec_of. cbn [rdict]. rewrite map_map. reflexivity. Qed.

  (* ---------- what makes a cell acceptable under a scheme ---------- *)
  (* column.validate(scheme=s) finds nothing to report for the column
     (name, index i, value p), whatever error list it starts from empty *)
  Record cell_valid (s : scheme) (i : nat) (name : str) (p : pvalue) : Prop := {
    cv_value : match p with PTyped k w => cs_invalid sem k w = false | PPlain _ => True end;
    cv_text : has_sep (match col_text sem p with Some t => t | None => [] end) = false;
    cv_index : s_truthy s = true -> s_index s name = Some (Z.of_nat i);
    cv_class : s_truthy s = true ->
               match s_class s name with Some k => cs_isinst sem (cls_of p) k = true | None => True end
  }.

  Lemma column_validate_cell s i name p reset ln :
    cell_valid s i name p -> column_validate sem (mkcol name i p) reset (Some s) ln = [].
  Proof.
    intros [Hv Ht Hi Hc]. unfold column_validate. cbn [mkcol cval pv perrs ckey cidx].
    assert (E0 : (if reset then [] else @nil verr) = []) by (destruct reset; reflexivity).
    rewrite E0, Ht. cbn [app].
    assert (E1 : match p with
                 | PPlain _ => []
                 | PTyped k w => if cs_invalid sem k w then [mkerr T_RECORD_COLUMN_WRONG_FORMAT ln] else []
                 end = []).
    { destruct p as [t|k w]; [reflexivity|]. now rewrite Hv. }
    rewrite E1. cbn [app].
    destruct (s_truthy s) eqn:Et; [|reflexivity]. cbn [negb].
    rewrite (Hi eq_refl), Z.eqb_refl. cbn [negb].
    specialize (Hc eq_refl). destruct (s_class s name) as [k|]; [|reflexivity]. now rewrite Hc.
  Qed.

  Lemma column_validate_cell_none i name p reset ln :
    match p with PTyped k w => cs_invalid sem k w = false | PPlain _ => True end ->
    has_sep (match col_text sem p with Some t => t | None => [] end) = false ->
    column_validate sem (mkcol name i p) reset None ln = [].
  Proof.
    intros Hv Ht. unfold column_validate. cbn [mkcol cval pv perrs ckey cidx].
    assert (E0 : (if reset then [] else @nil verr) = []) by (destruct reset; reflexivity).
    rewrite E0, Ht. destruct p as [t|k w]; [reflexivity|]. now rewrite Hv.
  Qed.

  (* all cells of a row, cell j sitting at position i + j *)
  Fixpoint cells_valid (s : scheme) (i : nat) (cells : list (str * pvalue)) : Prop :=
    match cells with
    | [] => True
    | (n, p) :: rest => cell_valid s i n p /\ cells_valid s (S i) rest
    end.

  (* ---------- MafRecord.validate on a canonical record ---------- *)
  Lemma validate_slots_canon (sch : option scheme) reset ln cells : forall i z,
    (forall n p j, nth_error cells j = Some (n, p) ->
                   column_validate sem (mkcol n (i + j) p) reset sch None = []) ->
    validate_slots sem (map Some (canon_cols i cells)) z reset sch ln
    = ([], false, map Some (canon_cols i cells)).
  Proof.
    induction cells as [|[n p] rest IH]; intros i z H; [reflexivity|].
    cbn [canon_cols map validate_slots].
    pose proof (H n p O eq_refl) as H0. rewrite Nat.add_0_r in H0. rewrite H0.
    rewrite IH.
    - reflexivity.
    - intros n' p' j Hj. replace (S i + j)%nat with (i + S j)%nat by lia. apply (H n' p' (S j)). exact Hj.
  Qed.

  Lemma index_sync_canon ln cells : forall i,
    index_sync_errs (map Some (canon_cols i cells)) (Z.of_nat i) ln = [].
  Proof.
    induction cells as [|[n p] rest IH]; intros i; [reflexivity|].
    cbn [canon_cols map index_sync_errs mkcol cidx]. rewrite Z.eqb_refl. cbn [app].
    replace (Z.of_nat i + 1) with (Z.of_nat (S i)) by lia. apply IH.
  Qed.

  Lemma in_sync_rec_of (cs : list column) :
    NoDup (map ckey cs) -> forallb (slot_in_sync (rdict (rec_of cs))) (rlist (rec_of cs)) = true.
  Proof.
    intros ND. apply forallb_forall. intros o Ho. unfold rec_of in Ho. cbn [rlist] in Ho.
    apply in_map_iff in Ho as (c & <- & Hc). cbn [slot_in_sync].
    assert (E : assoc (ckey c) (rdict (rec_of cs)) = Some c).
    { apply in_assoc; [now rewrite rec_of_keys|]. unfold rec_of. cbn [rdict].
      apply in_map_iff. exists c. split; [reflexivity|assumption]. }
    rewrite E. apply Z.eqb_refl.
  Qed.

  Lemma sync_errs_canon ln cells :
    NoDup (map fst cells) -> sync_errs (canon_rec cells) ln = [].
  Proof.
    intros ND. unfold sync_errs, canon_rec.
    rewrite in_sync_rec_of by now rewrite canon_cols_keys.
    unfold rec_of at 1 2. cbn [rdict rlist]. rewrite !map_length, Nat.eqb_refl. cbn [negb orb app].
    apply (index_sync_canon ln cells 0).
  Qed.

  Lemma upd_dict_canon (f : column -> column) (cs : list column) :
    (forall c, In c cs -> f c = c) ->
    map (fun kc => (fst kc, f (snd kc))) (rdict (rec_of cs)) = rdict (rec_of cs).
  Proof.
    intros H. unfold rec_of. cbn [rdict]. rewrite map_map. apply map_ext_in. intros c Hc.
    cbn [fst snd]. now rewrite (H c Hc).
  Qed.

  Lemma in_canon_cols c cells : forall i,
    In c (canon_cols i cells) -> exists n p j, nth_error cells j = Some (n, p) /\ c = mkcol n (i + j) p.
  Proof.
    induction cells as [|[n p] rest IH]; intros i; cbn [canon_cols]; [intros []|].
    intros [<-|H].
    - exists n, p, O. split; [reflexivity|]. now rewrite Nat.add_0_r.
    - apply IH in H as (n' & p' & j & Hj & ->). exists n', p', (S j). split; [exact Hj|].
      f_equal. lia.
  Qed.

  (* the mode-free part of validate returns the canonical record unchanged and
     adds no error, whenever every column validates cleanly *)
  Lemma rv_core_canon ln cells errs_in reset (sch : option scheme) :
    NoDup (map fst cells) ->
    (forall n p j, nth_error cells j = Some (n, p) ->
                   column_validate sem (mkcol n j p) reset sch None = []) ->
    match sch with
    | Some s => s_truthy s = true -> length (s_cols s) = length cells
    | None => True
    end ->
    rv_core sem ln (canon_rec cells) errs_in reset sch
    = Ok (canon_rec cells, if reset then [] else errs_in).
  Proof.
    intros ND Hcv Hlen. unfold rv_core.
    change (rlist (canon_rec cells)) with (map Some (canon_cols 0 cells)).
    rewrite (validate_slots_canon sch reset ln cells 0 0) by (intros n p j; apply Hcv).
    rewrite sync_errs_canon by assumption.
    assert (Ec : match sch with
                 | Some s => if s_truthy s && negb (s_len s =? rlen (canon_rec cells))
                             then [mkerr T_RECORD_MISMATCH_NUMBER_OF_COLUMNS None] else []
                 | None => []
                 end = []).
    { destruct sch as [s|]; [|reflexivity]. destruct (s_truthy s) eqn:Et; [|reflexivity].
      unfold s_len, rlen, canon_rec, rec_of. cbn [rlist]. rewrite map_length, canon_cols_length, (Hlen eq_refl).
      now rewrite Z.eqb_refl. }
    rewrite Ec. cbn [app]. rewrite !app_nil_r.
    f_equal. f_equal. unfold canon_rec.
    pose proof (upd_dict_canon (fun c => with_perrs c (column_validate sem c reset sch None)) (canon_cols 0 cells)) as U.
    cbv beta in U. rewrite U.
    - reflexivity.
    - intros c Hc. apply in_canon_cols in Hc as (n & p & j & Hj & ->). cbn [Nat.add].
      rewrite (Hcv n p j Hj). reflexivity.
  Qed.

  (* ---------- str(record) ---------- *)
  Lemma slots_text_canon cells : forall i texts,
    Forall2 (fun np t => col_text sem (snd np) = Some t) cells texts ->
    slots_text sem (map Some (canon_cols i cells)) = Ok texts.
  Proof.
    induction cells as [|[n p] rest IH]; intros i texts H; inversion H as [|? t ? ts Ht Hr]; subst; [reflexivity|].
    cbn [canon_cols map slots_text mkcol cval pv]. cbn [snd] in Ht. rewrite Ht, (IH (S i) ts Hr). reflexivity.
  Qed.

  Lemma record_text_canon ln md errs cells texts :
    Forall2 (fun np t => col_text sem (snd np) = Some t) cells texts ->
    record_text sem (mk_mrec ln md (canon_rec cells) errs) = Ok (join [TAB] texts).
  Proof.
    intros H. unfold record_text, mk_mrec, canon_rec, rec_of. cbn [mcols rlist].
    now rewrite (slots_text_canon cells 0 texts H).
  Qed.
End Canon.

(* ---------- MafRecord.from_line on a line whose fields all parse ---------- *)
Section Parse.
  Context {C W : Type}.
  Variable sem : colsem C W.
  Notation cls := (cls C).
  Notation scheme := (scheme cls).
  Notation mrec := (mrec C W).
  Notation payload := (payload C W).
  Notation pvalue := (pvalue C W).
  Notation column := (col payload).

  (* what from_line builds for a field text under the scheme's class *)
  Definition parses (k : cls) (t : str) (p : pvalue) : Prop :=
    match k with
    | CPlain => p = PPlain t
    | CTyped c => exists w, cs_build sem c t = Some w /\ p = PTyped c w
    end.

  (* one column of a row: name, scheme class, field text, value built *)
  Record cell := { c_name : str; c_cls : cls; c_text : str; c_pv : pvalue }.
  Definition cells_of (row : list cell) : list (str * pvalue) := map (fun c => (c_name c, c_pv c)) row.

  Lemma cells_of_keys row : map fst (cells_of row) = map c_name row.
  Proof. unfold cells_of. rewrite map_map. reflexivity. Qed.

  Definition row_ok (s : scheme) (off : nat) (row : list cell) : Prop :=
    forall j c, nth_error row j = Some c ->
      s_class s (c_name c) = Some (c_cls c) /\ parses (c_cls c) (c_text c) (c_pv c) /\
      cell_valid sem s (off + j) (c_name c) (c_pv c).

  Lemma row_ok_tail s off c row : row_ok s off (c :: row) -> row_ok s (S off) row.
  Proof.
    intros H j c' Hj. specialize (H (S j) c' Hj). replace (S off + j)%nat with (off + S j)%nat by lia. exact H.
  Qed.

  Lemma canon_rec_snoc (done : list (str * pvalue)) name p :
    canon_rec (done ++ [(name, p)]) =
    {| rdict := rdict (canon_rec done) ++ [(name, mkcol name (length done) p)];
       rlist := rlist (canon_rec done) ++ [Some (mkcol name (length done) p)] |}.
  Proof.
    unfold canon_rec, rec_of. rewrite canon_cols_app. cbn [canon_cols Nat.add rdict rlist].
    rewrite !map_app. reflexivity.
  Qed.

  Lemma from_line_loop_canon (s : scheme) ln : forall (row : list cell) (done : list (str * pvalue)),
    s_truthy s = true ->
    NoDup (map fst done ++ map c_name row) ->
    row_ok s (length done) row ->
    from_line_loop sem (Z.of_nat (length done)) (map (fun c => (c_name c, c_text c)) row) (Some s) ln
                   (canon_rec done) []
    = Ok (canon_rec (done ++ cells_of row), []).
  Proof.
    induction row as [|c row IH]; intros done Ht ND Hrow.
    - cbn [map from_line_loop cells_of]. now rewrite app_nil_r.
    - destruct (Hrow O c eq_refl) as (Hcls & Hparse & Hvalid). rewrite Nat.add_0_r in Hvalid.
      cbn [map from_line_loop]. rewrite Ht, Hcls.
      assert (Hb : match c_cls c with
                   | CPlain => Some (PPlain (c_text c))
                   | CTyped k => option_map (PTyped k) (cs_build sem k (c_text c))
                   end = Some (c_pv c)).
      { unfold parses in Hparse. destruct (c_cls c) as [|k].
        - now rewrite Hparse.
        - destruct Hparse as (w & Hw & ->). now rewrite Hw. }
      rewrite Hb.
      change {| ckey := c_name c; cidx := Some (Z.of_nat (length done));
                cval := {| pv := c_pv c; perrs := []; poid := Z.of_nat (length done) |} |}
        with (mkcol (c_name c) (length done) (c_pv c)).
      rewrite (column_validate_cell sem s (length done) (c_name c) (c_pv c) true ln Hvalid).
      rewrite with_perrs_mkcol.
      assert (Hfresh : assoc (c_name c) (rdict (canon_rec done)) = None).
      { apply assoc_none_iff. unfold canon_rec. rewrite rec_of_keys, canon_cols_keys.
        intros Hin. apply NoDup_remove_2 in ND. apply ND. apply in_or_app. left. exact Hin. }
      assert (Hlen : length (rlist (canon_rec done)) = length done).
      { unfold canon_rec, rec_of. cbn [rlist]. now rewrite map_length, canon_cols_length. }
      rewrite (setitem_fresh_eq (canon_rec done) (c_name c) (mkcol (c_name c) (length done) (c_pv c)) (length done)
                 Hfresh eq_refl eq_refl) by lia.
      rewrite (dset_absent _ _ _ Hfresh).
      assert (El : lset (length done) (Some (mkcol (c_name c) (length done) (c_pv c)))
                        (pad (rlist (canon_rec done)) (S (length done)))
                   = rlist (canon_rec done) ++ [Some (mkcol (c_name c) (length done) (c_pv c))]).
      { rewrite <- Hlen. apply lset_pad_snoc. }
      rewrite El. rewrite <- canon_rec_snoc.
      cbn [app]. replace (Z.of_nat (length done) + 1) with (Z.of_nat (length (done ++ [(c_name c, c_pv c)])))
        by (rewrite app_length; cbn [length]; lia).
      rewrite IH.
      + cbn [cells_of map]. rewrite <- app_assoc. reflexivity.
      + exact Ht.
      + rewrite map_app. cbn [map fst]. rewrite <- app_assoc. exact ND.
      + rewrite app_length. cbn [length]. replace (length done + 1)%nat with (S (length done)) by lia.
        eapply row_ok_tail; eauto.
  Qed.

  (* the whole of from_line, any stringency: no error, nothing logged, the
     canonical record of the row *)
  Theorem from_line_canon (s : scheme) (row : list cell) ln m lg :
    s_truthy s = true -> s_names s = map c_name row -> NoDup (s_names s) ->
    row_ok s 0 row -> Forall no_sep (map c_text row) ->
    from_line sem (join [TAB] (map c_text row)) None (Some s) ln (Some m) lg
    = ([], Ok (mk_mrec ln m (canon_rec (cells_of row)) [])).
  Proof.
    intros Ht Hn ND Hrow Hsep.
    assert (Hne : map c_text row <> []).
    { destruct row; [|discriminate]. unfold s_truthy, s_names in *. destruct (s_cols s); discriminate. }
    rewrite from_line_unfold. unfold fl_core.
    rewrite (fields_survive _ Hne Hsep), Hn, !map_length, Nat.eqb_refl. cbn [negb].
    rewrite zip_map.
    pose proof (from_line_loop_canon s ln row [] Ht) as L. cbn [length app map] in L.
    change (canon_rec []) with (@empty_rec payload) in L. change (Z.of_nat 0) with 0 in L.
    rewrite L; [|rewrite <- Hn; exact ND|exact Hrow].
    rewrite rv_core_canon.
    - unfold finish. destruct m; reflexivity.
    - rewrite cells_of_keys, <- Hn. exact ND.
    - intros n p j Hj. unfold cells_of in Hj. rewrite nth_error_map in Hj.
      destruct (nth_error row j) as [c|] eqn:Ej; [|discriminate]. injection Hj as <- <-.
      destruct (Hrow j c Ej) as (_ & _ & [Hv Htx _ _]). now apply column_validate_cell_none.
    - exact I.
  Qed.
End Parse.

(* ---------- what "the writer accepted the record" gives ---------- *)
Lemma list_eq_nth {X} (a b : list X) :
  length a = length b -> (forall j x, nth_error a j = Some x -> nth_error b j = Some x) -> a = b.
Proof.
  revert b. induction a as [|x a IH]; intros [|y b] Hl H; try discriminate; [reflexivity|].
  pose proof (H O x eq_refl) as H0. injection H0 as ->. f_equal.
  apply IH; [simpl in Hl; lia|]. intros j z Hj. exact (H (S j) z Hj).
Qed.

Section Accept.
  Context {C W : Type}.
  Variable sem : colsem C W.
  Notation cls := (cls C).
  Notation scheme := (scheme cls).
  Notation mrec := (mrec C W).
  Notation payload := (payload C W).
  Notation pvalue := (pvalue C W).
  Notation column := (col payload).

  (* name and value of a stored column *)
  Definition cell_of (c : column) : str * pvalue := (ckey c, pv (cval c)).

  Lemma validate_slots_nil (sch : option scheme) ln slots : forall z es fn slots',
    validate_slots sem slots z true sch ln = (es, fn, slots') -> es = [] ->
    fn = false /\ exists cols, slots = map Some cols /\
      slots' = map (fun c => Some (with_perrs c [])) cols /\
      Forall (fun c => column_validate sem c true sch None = []) cols.
  Proof.
    induction slots as [|[c|] rest IH]; intros z es fn slots' H Hnil; cbn [validate_slots] in H.
    - injection H as <- <- <-. split; [reflexivity|]. exists []. repeat split. constructor.
    - destruct (validate_slots sem rest (z + 1) true sch ln) as [[es1 fn1] rest'] eqn:E.
      injection H as <- <- <-. apply app_eq_nil in Hnil as [Hc He].
      destruct (IH _ _ _ _ E He) as (-> & cols & -> & -> & Hall).
      split; [reflexivity|]. exists (c :: cols). cbn [map]. rewrite Hc. repeat split. constructor; assumption.
    - destruct (validate_slots sem rest (z + 1) true sch ln) as [[es1 fn1] rest'].
      injection H as <- _ _. discriminate.
  Qed.

  Lemma index_sync_nil ln (cols : list column) : forall i,
    index_sync_errs (map Some cols) (Z.of_nat i) ln = [] ->
    forall j c, nth_error cols j = Some c -> cidx c = Some (Z.of_nat (i + j)).
  Proof.
    induction cols as [|c0 cols IH]; intros i H j c Hj; [destruct j; discriminate|].
    cbn [map index_sync_errs] in H. apply app_eq_nil in H as [H0 H1].
    replace (Z.of_nat i + 1) with (Z.of_nat (S i)) in H1 by lia.
    destruct j as [|j]; cbn [nth_error] in Hj.
    - injection Hj as <-. rewrite Nat.add_0_r. destruct (cidx c0) as [ci|]; [|discriminate].
      destruct (Z.eqb_spec ci (Z.of_nat i)); [now subst|discriminate].
    - replace (i + S j)%nat with (S i + j)%nat by lia. eapply IH; eauto.
  Qed.

  (* a slot without the identity of the column object in it *)
  Definition slot_view (o : option column) : option (str * option Z * pvalue * list verr) :=
    option_map (fun c => (ckey c, cidx c, pv (cval c), perrs (cval c))) o.

  Lemma canon_of_cols (cols : list column) : forall i,
    (forall j c, nth_error cols j = Some c -> cidx c = Some (Z.of_nat (i + j))) ->
    map slot_view (map (fun c => Some (with_perrs c [])) cols)
    = map slot_view (map Some (canon_cols i (map cell_of cols))).
  Proof.
    induction cols as [|c cols IH]; intros i H; [reflexivity|].
    cbn [map canon_cols cell_of]. f_equal.
    - pose proof (H O c eq_refl) as H0. rewrite Nat.add_0_r in H0.
      unfold slot_view, with_perrs, mkcol. cbn [option_map ckey cidx cval pv perrs]. now rewrite H0.
    - apply IH. intros j c' Hj. replace (S i + j)%nat with (i + S j)%nat by lia. exact (H (S j) c' Hj).
  Qed.

  Lemma cell_of_with_perrs (c : column) e : cell_of (with_perrs c e) = cell_of c.
  Proof. reflexivity. Qed.

  (* a clean column.validate(scheme=s) for a stored column at position j *)
  Lemma column_validate_nil_cell (s : scheme) (c : column) j :
    s_truthy s = true -> cidx c = Some (Z.of_nat j) ->
    column_validate sem c true (Some s) None = [] ->
    cell_valid sem s j (ckey c) (pv (cval c)).
  Proof.
    intros Ht Hi H. unfold column_validate in H. cbn [app] in H. rewrite Ht, Hi in H. cbn [negb] in H.
    apply app_eq_nil in H as [H1 H]. apply app_eq_nil in H as [H2 H3].
    constructor.
    - destruct (pv (cval c)) as [t|k w]; [exact I|]. destruct (cs_invalid sem k w); [discriminate|reflexivity].
    - destruct (has_sep _); [discriminate|reflexivity].
    - intros _. destruct (s_index s (ckey c)) as [si|]; [|discriminate].
      destruct (Z.eqb_spec si (Z.of_nat j)); [now subst|discriminate].
    - intros _. destruct (s_index s (ckey c)) as [si|]; [|discriminate].
      destruct (negb (si =? Z.of_nat j)); [discriminate|].
      destruct (s_class s (ckey c)) as [k|]; [|exact I].
      destruct (cs_isinst sem (cls_of (pv (cval c))) k); [reflexivity|discriminate].
  Qed.

  Lemma cells_valid_nth (s : scheme) cells : forall i,
    (forall j n p, nth_error cells j = Some (n, p) -> cell_valid sem s (i + j) n p) -> cells_valid sem s i cells.
  Proof.
    induction cells as [|[n p] rest IH]; intros i H; [exact I|]. cbn [cells_valid]. split.
    - pose proof (H O n p eq_refl) as H0. now rewrite Nat.add_0_r in H0.
    - apply IH. intros j n' p' Hj. replace (S i + j)%nat with (i + S j)%nat by lia. exact (H (S j) n' p' Hj).
  Qed.

  Lemma cells_valid_nth_inv (s : scheme) cells : forall i,
    cells_valid sem s i cells -> forall j n p, nth_error cells j = Some (n, p) -> cell_valid sem s (i + j) n p.
  Proof.
    induction cells as [|[n p] rest IH]; intros i H j n' p' Hj; [destruct j; discriminate|].
    destruct H as [H0 H1]. destruct j as [|j]; cbn [nth_error] in Hj.
    - injection Hj as <- <-. now rewrite Nat.add_0_r.
    - replace (i + S j)%nat with (S i + j)%nat by lia. eapply IH; eauto.
  Qed.

  (* MafRecord.validate(stringency, reset_errors=True, scheme=s) returned and
     left no error: the record has exactly the scheme's columns in order, every
     column validates, and the record afterwards is canonical in its slots *)
  Theorem accepted_facts (s : scheme) (r r' : mrec) m lg l :
    s_truthy s = true -> NoDup (s_names s) ->
    record_validate sem r (Some m) lg true (Some s) = (l, Ok r') -> merrs r' = [] ->
    exists cols,
      rlist (mcols r) = map Some cols /\
      map ckey cols = s_names s /\
      cells_valid sem s 0 (map cell_of cols) /\
      rlist (mcols r') = map (fun c => Some (with_perrs c [])) cols /\
      map slot_view (rlist (mcols r')) = map slot_view (map Some (canon_cols 0 (map cell_of cols))) /\
      mline r' = mline r.
  Proof.
    intros Ht ND H Herr. rewrite record_validate_unfold in H. unfold finish, rv_core in H.
    destruct (validate_slots sem (rlist (mcols r)) 0 true (Some s) (mline r)) as [[es fn] slots'] eqn:EV.
    apply obind_process_ok in H. subst r'. cbn [mk_mrec merrs mcols rlist mline] in *.
    cbn [app] in Herr. apply app_eq_nil in Herr as [Hcount Herr]. apply app_eq_nil in Herr as [Hes Hsync].
    destruct (validate_slots_nil (Some s) (mline r) _ _ _ _ _ EV Hes) as (-> & cols & Hslots & -> & Hall).
    unfold sync_errs in Hsync. apply app_eq_nil in Hsync as [_ Hidx]. rewrite Hslots in Hidx.
    pose proof (index_sync_nil (mline r) cols 0 Hidx) as Hpos. cbn [Nat.add] in Hpos.
    assert (Hlen : length (s_cols s) = length cols).
    { rewrite Ht in Hcount. cbn [andb] in Hcount.
      destruct (s_len s =? rlen (mcols r)) eqn:E; [|discriminate].
      apply Z.eqb_eq in E. unfold s_len, rlen in E. rewrite Hslots, map_length in E. lia. }
    assert (Hvalid : forall j c, nth_error cols j = Some c -> cell_valid sem s j (ckey c) (pv (cval c))).
    { intros j c Hj. apply column_validate_nil_cell; [exact Ht|exact (Hpos j c Hj)|].
      rewrite Forall_forall in Hall. apply Hall. eapply nth_error_In; eauto. }
    exists cols. split; [exact Hslots|]. split; [|split; [|split; [reflexivity|split; [|reflexivity]]]].
    - apply list_eq_nth.
      + unfold s_names. rewrite !map_length. lia.
      + intros j x Hj. rewrite nth_error_map in Hj. destruct (nth_error cols j) as [c|] eqn:Ej; [|discriminate].
        injection Hj as <-. destruct (Hvalid j c Ej) as [_ _ Hi _]. specialize (Hi Ht).
        unfold s_index in Hi. apply index_of_nth in Hi as (n & Hn & Hnth).
        assert (n = j) by lia. now subst n.
    - apply cells_valid_nth. intros j n p Hj. rewrite nth_error_map in Hj.
      destruct (nth_error cols j) as [c|] eqn:Ej; [|discriminate]. injection Hj as <- <-.
      cbn [Nat.add]. exact (Hvalid j c Ej).
    - exact (canon_of_cols cols 0 Hpos).
  Qed.

  (* str(record) only looks at the slot list *)
  Lemma record_text_slots (a b : mrec) : rlist (mcols a) = rlist (mcols b) -> record_text sem a = record_text sem b.
  Proof. unfold record_text. now intros ->. Qed.
End Accept.
