(* OverlapReport.v - C11, the out-of-order report.  An input that is not
   sorted is cut at its first descent; the model run on the real inputs
   simulates the run on the sorted prefixes step by step until the wrapper
   pulls a descending record, where it raises Exception.  Hence: the run ends
   with that report, and the groups emitted before it are an initial segment of
   the exact grouping of the sorted prefixes. *)
From MafVerif Require Import lib.Base lib.OverlapLib model.Overlap spec.SpecOverlap
     proofs.OverlapFacts proofs.OverlapGroups proofs.OverlapRefine proofs.OverlapOrder
     proofs.OverlapStreamFacts proofs.OverlapAlleleTop.

Section Report.
  Context {R C : Type}.
  Variable truthy : R -> bool.
  Variable cls_cmp : C -> C -> comparison.
  Variable cls_eqb : C -> C -> bool.
  Variable keyf : R -> res (key C).
  Hypothesis HO : cls_order cls_cmp cls_eqb.
  Variable K : R -> key C.
  Variable U : list R.
  Hypothesis Htruthy : forall r, In r U -> truthy r = true.
  Hypothesis HK : forall r, In r U -> keyf r = Ok (K r).

  Notation enf_next := (enf_next truthy cls_cmp keyf).
  Notation update_peek := (update_peek truthy cls_cmp keyf).
  Notation peek_next := (peek_next truthy cls_cmp keyf).
  Notation sweep := (sweep truthy cls_cmp cls_eqb keyf).
  Notation group_loop := (group_loop truthy cls_cmp cls_eqb keyf).
  Notation next_group := (next_group truthy cls_cmp cls_eqb keyf).
  Notation init_inputs := (init_inputs truthy cls_cmp keyf).
  Notation head_keys := (head_keys truthy keyf).
  Notation run_all := (run_all truthy cls_cmp cls_eqb keyf).
  Notation run_ok := (run_ok truthy cls_cmp cls_eqb keyf).
  Notation adj_sorted := (adj_sorted cls_cmp K).
  Notation key_lt := (key_lt cls_cmp).

  (* ---------------- the longest sorted prefix and what follows it ---------- *)
  Fixpoint sprefix (l : list R) : list R :=
    match l with
    | [] => []
    | a :: r => a :: match r with
                     | [] => []
                     | b :: _ => if key_lt (K b) (K a) then [] else sprefix r
                     end
    end.
  Fixpoint stail (l : list R) : list R :=
    match l with
    | [] => []
    | a :: r => match r with
                | [] => []
                | b :: _ => if key_lt (K b) (K a) then r else stail r
                end
    end.

  Lemma sprefix_cons2 a b r :
    sprefix (a :: b :: r) = a :: (if key_lt (K b) (K a) then [] else sprefix (b :: r)).
  Proof. reflexivity. Qed.
  Lemma stail_cons2 a b r :
    stail (a :: b :: r) = if key_lt (K b) (K a) then b :: r else stail (b :: r).
  Proof. reflexivity. Qed.

  Lemma sprefix_stail : forall l, l = sprefix l ++ stail l.
  Proof.
    induction l as [|a r IH]; [reflexivity|]. destruct r as [|b r']; [reflexivity|].
    rewrite sprefix_cons2, stail_cons2. destruct (key_lt (K b) (K a)); [reflexivity|].
    simpl. f_equal. exact IH.
  Qed.

  Lemma sprefix_sorted : forall l, adj_sorted (sprefix l).
  Proof.
    induction l as [|a r IH]; [exact I|]. destruct r as [|b r']; [simpl; auto|].
    rewrite sprefix_cons2. destruct (key_lt (K b) (K a)) eqn:E; [simpl; auto|].
    change (sprefix (b :: r')) with (b :: match r' with [] => [] | c :: _ => if key_lt (K c) (K b) then [] else sprefix r' end) in *.
    split; [now apply (key_lt_false_iff cls_cmp cls_eqb HO)|exact IH].
  Qed.

  Lemma last_opt_cons (a b : R) l : last_opt (a :: b :: l) = last_opt (b :: l).
  Proof. reflexivity. Qed.

  (* the record after the sorted prefix comes before the prefix's last record *)
  Lemma stail_bad : forall l bad more,
      stail l = bad :: more ->
      exists last, last_opt (sprefix l) = Some last /\ key_lt (K bad) (K last) = true.
  Proof.
    induction l as [|a r IH]; intros bad more E; [discriminate|].
    destruct r as [|b r']; [discriminate|].
    rewrite stail_cons2 in E. rewrite sprefix_cons2. destruct (key_lt (K b) (K a)) eqn:Ek.
    - injection E as <- <-. exists a. split; [reflexivity|assumption].
    - destruct (IH _ _ E) as (last & Hl & Hk). exists last. split; [|assumption].
      destruct (sprefix (b :: r')) as [|c p] eqn:Ep; [discriminate|]. rewrite last_opt_cons. exact Hl.
  Qed.

  Lemma stail_nil_sorted : forall l, stail l = [] -> adj_sorted l.
  Proof.
    intros l H. rewrite (sprefix_stail l), H, app_nil_r. apply sprefix_sorted.
  Qed.

  Lemma sprefix_nil l : sprefix l = [] -> l = [].
  Proof. destruct l; [reflexivity|discriminate]. Qed.

  Definition sub (xs : list R) : Prop := forall r, In r xs -> In r U.

  (* ---------------- simulation: wrapped inputs ---------------- *)
  (* `it` runs over the sorted prefix of xs, `i` over xs itself *)
  Definition Rel (xs : list R) (it i : input R) : Prop :=
    peek i = peek it /\ last_rec i = last_rec it /\ rest i = rest it ++ stail xs /\
    exists pre, sprefix xs = pre ++ rest it /\ last_rec it = last_opt pre.

  Lemma enf_next_sim xs it i it' ot :
    sub xs -> Rel xs it i -> enf_next it = (it', ot) ->
    match ot with
    | Ok r => exists i', enf_next i = (i', Ok r) /\ Rel xs it' i'
    | Raise StopIteration =>
      (stail xs = [] /\ enf_next i = (i, Raise StopIteration) /\ it' = it /\ rest it = []) \/
      (stail xs <> [] /\ rest it = [] /\ exists i', enf_next i = (i', Raise PlainException))
    | Raise _ => True
    end.
  Proof.
    intros Hsub (Hp & Hl & Hr & pre & Hpre & Hlp) E. unfold Overlap.enf_next in *.
    assert (Hin : forall r, In r (sprefix xs) -> In r U).
    { intros r Hr'. apply Hsub. rewrite (sprefix_stail xs). apply in_or_app. now left. }
    destruct (rest it) as [|rec tl] eqn:Ert.
    - injection E as <- <-. simpl in Hr. rewrite Hr. destruct (stail xs) as [|bad more] eqn:Est.
      + left. auto.
      + right. split; [discriminate|]. split; [reflexivity|].
        destruct (stail_bad _ _ _ Est) as (last & Hlast & Hk).
        rewrite app_nil_r in Hpre. rewrite <- Hpre in Hlp. rewrite Hl, Hlp, Hlast.
        assert (HlU : In last U) by (apply Hin; now apply last_opt_in).
        assert (HbU : In bad U).
        { apply Hsub. rewrite (sprefix_stail xs), Est. apply in_or_app. right. now left. }
        rewrite (Htruthy _ HlU), (HK _ HbU), (HK _ HlU), Hk. eauto.
    - rewrite Hr. simpl app. rewrite Hl.
      assert (HrecU : In rec U) by (apply Hin; rewrite Hpre; apply in_or_app; right; now left).
      assert (Hacc : forall it1 i1,
                 it1 = {| consumed := S (consumed it); rest := tl; last_rec := Some rec; peek := peek it |} ->
                 i1 = {| consumed := S (consumed i); rest := tl ++ stail xs; last_rec := Some rec; peek := peek i |} ->
                 Rel xs it1 i1).
      { intros it1 i1 -> ->. unfold Rel. simpl. repeat split; try assumption.
        exists (pre ++ [rec]). split; [now rewrite <- app_assoc|now rewrite last_opt_snoc]. }
      destruct (last_rec it) as [l|] eqn:Elt.
      + assert (HlU : In l U).
        { apply Hin. rewrite Hpre. apply in_or_app. left. apply last_opt_in. now symmetry. }
        rewrite (Htruthy _ HlU), (HK _ HrecU), (HK _ HlU) in *.
        destruct (key_lt (K rec) (K l)); injection E as <- <-; [exact I|].
        eexists. split; [reflexivity|]. now apply Hacc.
      + injection E as <- <-. eexists. split; [reflexivity|]. now apply Hacc.
  Qed.

  Lemma update_peek_sim xs it i it' :
    sub xs -> Rel xs it i -> update_peek it = (it', Ok tt) ->
    (exists i', update_peek i = (i', Ok tt) /\ Rel xs it' i') \/
    (stail xs <> [] /\ rest it = [] /\ exists i', update_peek i = (i', Raise PlainException)).
  Proof.
    intros Hsub HR E. unfold Overlap.update_peek in *.
    destruct (enf_next it) as [it1 ot] eqn:En.
    pose proof (enf_next_sim xs it i it1 ot Hsub HR En) as Hs.
    destruct ot as [r|e].
    - injection E as <-. destruct Hs as (i' & -> & (A & B & D & F)). left.
      eexists. split; [reflexivity|]. unfold Rel, set_peek. simpl. auto.
    - destruct e; try discriminate. injection E as <-.
      destruct Hs as [(H1 & -> & -> & H2)|(H1 & H2 & i' & ->)].
      + left. eexists. split; [reflexivity|]. destruct HR as (A & B & D & F).
        unfold Rel, set_peek. simpl. auto.
      + right. eauto.
  Qed.

  Lemma peek_next_sim xs it i it' r :
    sub xs -> Rel xs it i -> peek_next it = (it', Ok r) ->
    (exists i', peek_next i = (i', Ok r) /\ Rel xs it' i') \/
    (exists i', peek_next i = (i', Raise PlainException)).
  Proof.
    intros Hsub HR E. unfold Overlap.peek_next in *. rewrite (proj1 HR).
    destruct (peek it) as [p|]; [|discriminate].
    destruct (update_peek it) as [it1 [[]|e]] eqn:Eu; [|discriminate]. injection E as <- <-.
    destruct (update_peek_sim xs it i it1 Hsub HR Eu) as [(i' & -> & HR')|(_ & _ & i' & ->)]; eauto.
  Qed.

  (* ---------------- simulation: cells, sweeps, groups ---------------- *)
  Definition RelI (it i : input R) : Prop := exists xs, sub xs /\ Rel xs it i.
  Definition RelC (ct c : cell R C) : Prop :=
    c_key c = c_key ct /\ c_slot c = c_slot ct /\ RelI (c_in ct) (c_in c).

  Lemma sweep_sim : forall cts cs mk added cts' mk' a',
      Forall2 RelC cts cs ->
      sweep mk added cts = (cts', mk', a', None) ->
      (exists cs', sweep mk added cs = (cs', mk', a', None) /\ Forall2 RelC cts' cs') \/
      (exists cs' mk2 a2, sweep mk added cs = (cs', mk2, a2, Some PlainException)).
  Proof.
    induction cts as [|ct ctl IH]; intros cs mk added cts' mk' a' HF E; inversion HF as [|? c ? cl Hc Ht]; subst.
    - simpl in E. injection E as <- <- <-. left. exists []. split; [reflexivity|constructor].
    - simpl in E. cbn [Overlap.sweep].
      destruct Hc as (Hkey & Hslot & xs & Hsub & HR).
      pose proof (proj1 HR) as Hpk. rewrite Hpk.
      assert (Hskip : forall mk0 added0 ct0 c0, RelC ct0 c0 ->
                 (let '(tl', mk1, added1, ex) := sweep mk0 added0 ctl in (ct0 :: tl', mk1, added1, ex))
                 = (cts', mk', a', None) ->
                 (exists cs', (let '(tl', mk1, added1, ex) := sweep mk0 added0 cl in (c0 :: tl', mk1, added1, ex))
                              = (cs', mk', a', None) /\ Forall2 RelC cts' cs') \/
                 (exists cs' mk2 a2, (let '(tl', mk1, added1, ex) := sweep mk0 added0 cl in (c0 :: tl', mk1, added1, ex))
                                     = (cs', mk2, a2, Some PlainException))).
      { intros mk0 added0 ct0 c0 Hc0 E0.
        destruct (sweep mk0 added0 ctl) as [[[tl' mk1] added1] ex] eqn:Es. injection E0 as <- <- <- ->.
        destruct (IH cl mk0 added0 tl' mk1 added1 Ht Es) as [(cs' & -> & HF')|(cs' & mk2 & a2 & ->)].
        - left. eexists. split; [reflexivity|]. constructor; assumption.
        - right. eauto. }
      assert (Hcc : RelC ct c) by (split; [assumption|split; [assumption|exists xs; auto]]).
      destruct (peek (c_in ct)) as [rec|] eqn:Ep; [|exact (Hskip mk added ct c Hcc E)].
      destruct (truthy rec); [|exact (Hskip mk added ct c Hcc E)].
      rewrite Hkey.
      destruct (match c_key ct with Some k => Ok k | None => keyf rec end) as [k|e]; [|discriminate].
      destruct (overlaps cls_eqb mk k).
      + destruct (peek_next (c_in ct)) as [it' [next_rec|e]] eqn:En; [|discriminate].
        destruct (peek_next_sim xs _ _ _ _ Hsub HR En) as [(i' & -> & HR')|(i' & ->)].
        * rewrite Hslot.
          refine (Hskip _ _ _ {| c_in := i'; c_key := None; c_slot := c_slot ct ++ [next_rec] |} _ E).
          split; [reflexivity|]. split; [reflexivity|]. exists xs. auto.
        * right. eauto.
      + rewrite Hslot.
        refine (Hskip _ _ _ {| c_in := c_in c; c_key := Some k; c_slot := c_slot ct |} _ E).
        split; [reflexivity|]. split; [reflexivity|]. exists xs. auto.
  Qed.

  Lemma group_loop_sim : forall ft cts cs mk cts' f,
      Forall2 RelC cts cs -> (ft <= f)%nat ->
      group_loop ft mk cts = (cts', Done tt) ->
      (exists cs', group_loop f mk cs = (cs', Done tt) /\ Forall2 RelC cts' cs') \/
      (exists cs', group_loop f mk cs = (cs', Exc PlainException)).
  Proof.
    induction ft as [|ft IH]; intros cts cs mk cts' f HF Hle E; simpl in E; [discriminate|].
    destruct f as [|f]; [lia|]. simpl.
    destruct (sweep mk false cts) as [[[c1 mk1] a1] ex] eqn:Es.
    destruct ex as [e|]; [discriminate|].
    destruct (sweep_sim _ _ _ _ _ _ _ HF Es) as [(cs1 & -> & HF1)|(cs1 & mk2 & a2 & ->)]; [|right; eauto].
    destruct a1.
    - apply (IH _ _ _ _ f HF1); [lia|exact E].
    - injection E as <-. left. eauto.
  Qed.

  Lemma head_keys_sim : forall its is, Forall2 RelI its is -> head_keys is = head_keys its.
  Proof.
    induction 1 as [|it i its is (xs & _ & HR) Hr IH]; simpl; [reflexivity|].
    rewrite (proj1 HR), IH. reflexivity.
  Qed.

  Lemma remaining_sim : forall its is, Forall2 RelI its is -> (remaining its <= remaining is)%nat.
  Proof.
    induction 1 as [|it i its is (xs & _ & (Hp & _ & Hr & _)) Hrr IH]; simpl; [lia|].
    unfold remaining1. rewrite Hp, Hr, app_length. lia.
  Qed.

  Lemma mk_cells_sim : forall its is ks,
      Forall2 RelI its is -> Forall2 RelC (mk_cells its ks) (mk_cells is ks).
  Proof.
    induction its as [|it its IH]; intros is ks HF; inversion HF; subst; simpl; [constructor|].
    destruct ks as [|k kr]; [constructor|]. constructor; [|now apply IH].
    split; [reflexivity|]. split; [reflexivity|assumption].
  Qed.

  Lemma cells_ins_sim : forall cts cs, Forall2 RelC cts cs ->
    Forall2 RelI (map c_in cts) (map c_in cs) /\ map c_slot cs = map c_slot cts.
  Proof.
    induction 1 as [|ct c cts cs (_ & Hs & HI) Hr (IH1 & IH2)]; simpl; [split; [constructor|reflexivity]|].
    split; [constructor; assumption|now rewrite Hs, IH2].
  Qed.

  Lemma next_group_sim its is its' g :
    Forall2 RelI its is -> next_group its = (its', Done g) ->
    (exists is', next_group is = (is', Done g) /\ Forall2 RelI its' is') \/
    (exists is', next_group is = (is', Exc PlainException)).
  Proof.
    intros HF E. unfold Overlap.next_group in *. rewrite (head_keys_sim _ _ HF).
    destruct (head_keys its) as [keys|e]; [|discriminate].
    destruct (present keys) as [|k0 ks]; [discriminate|].
    destruct (group_loop (S (remaining its)) _ (mk_cells its keys)) as [cts o] eqn:Eg.
    destruct o as [[]|e|]; try discriminate. injection E as <- <-.
    pose proof (remaining_sim _ _ HF) as Hrem.
    destruct (group_loop_sim _ _ _ _ _ (S (remaining is)) (mk_cells_sim _ _ keys HF) (le_n_S _ _ Hrem) Eg)
      as [(cs' & -> & HF')|(cs' & ->)].
    - left. destruct (cells_ins_sim _ _ HF') as (H1 & H2). rewrite H2. eauto.
    - right. eauto.
  Qed.

  Lemma next_group_stop_sim its is :
    Forall2 RelI its is -> Forall (fun i => peek i = None) its ->
    next_group is = (is, Exc StopIteration).
  Proof.
    intros HF Hn. unfold Overlap.next_group. rewrite (head_keys_sim _ _ HF).
    assert (Hk : exists ks, head_keys its = Ok ks /\ present ks = []).
    { clear HF. induction Hn as [|i r Hi Hr (ks & E & Hp)]; [exists []; auto|].
      exists (None :: ks). simpl. rewrite Hi, E. auto. }
    destruct Hk as (ks & -> & ->). reflexivity.
  Qed.

  (* ---------------- whole runs ---------------- *)
  (* a run over the sorted prefixes that ends with all inputs exhausted *)
  Inductive TRuns : list (input R) -> list (list (list R)) -> Prop :=
  | TR_stop its : Forall (fun i => peek i = None) its -> TRuns its []
  | TR_cons its its' g gs : next_group its = (its', Done g) -> TRuns its' gs -> TRuns its (g :: gs).

  Lemma truns_of_run_all : forall fuel its xss gs,
      Forall2 (SPIi cls_cmp K U) xss its -> run_all fuel its = Done gs -> TRuns its gs.
  Proof.
    induction fuel as [|f IH]; intros its xss gs HF E; simpl in E; [discriminate|].
    destruct (next_group its) as [its' o] eqn:En.
    pose proof (next_group_inv truthy cls_cmp cls_eqb keyf HO K U Htruthy HK _ _ _ _ HF En) as Hn.
    destruct o as [g|e|]; [|destruct e; try discriminate|discriminate].
    - destruct (run_all f its') as [gs'|e|] eqn:Er; try discriminate. injection E as <-.
      econstructor; [eassumption|]. eapply IH; eassumption.
    - injection E as <-. now constructor.
  Qed.

  Lemma run_sim : forall its gs,
      TRuns its gs -> forall is, Forall2 RelI its is ->
      (forall fuel, (length gs < fuel)%nat -> run_all fuel is = Done gs) \/
      (exists gs1 gs2 is_a is', gs = gs1 ++ gs2 /\ run_ok is gs1 is_a /\
                                next_group is_a = (is', Exc PlainException)).
  Proof.
    induction 1 as [its Hn|its its' g gs En Hr IH]; intros is HF.
    - left. intros fuel Hf. destruct fuel; [simpl in Hf; lia|]. simpl.
      rewrite (next_group_stop_sim _ _ HF Hn). reflexivity.
    - destruct (next_group_sim _ _ _ _ HF En) as [(is' & En' & HF')|(is' & En')].
      + destruct (IH is' HF') as [Hd|(gs1 & gs2 & is_a & is'' & -> & Hok & Hex)].
        * left. intros fuel Hf. destruct fuel; [simpl in Hf; lia|]. simpl. rewrite En'.
          rewrite Hd by (simpl in Hf; lia). reflexivity.
        * right. exists (g :: gs1), gs2, is_a, is''. split; [reflexivity|].
          split; [econstructor; eassumption|assumption].
      + right. exists [], (g :: gs), is, is'. split; [reflexivity|]. split; [constructor|assumption].
  Qed.

  Lemma report_run_all : forall is0 gs1 is_a,
      run_ok is0 gs1 is_a -> forall is' e fuel,
      next_group is_a = (is', Exc e) -> e <> StopIteration -> (length gs1 < fuel)%nat ->
      run_all fuel is0 = Exc e.
  Proof.
    induction 1 as [is0|is0 g is1 gs is_a En Hr IH]; intros is' e fuel Hex Hne Hf;
      (destruct fuel; [simpl in Hf; lia|]); simpl.
    - rewrite Hex. destruct e; try reflexivity. congruence.
    - rewrite En. rewrite (IH is' e fuel Hex Hne) by (simpl in Hf; lia). reflexivity.
  Qed.

  Lemma fresh_rel xs : Rel xs (fresh (sprefix xs)) (fresh xs).
  Proof.
    unfold Rel, fresh. simpl. repeat split; [apply sprefix_stail|]. exists []. auto.
  Qed.

  Lemma init_sim : forall xss,
      (forall r, In r (concat xss) -> In r U) ->
      exists its is, init_inputs (map sprefix xss) = Ok its /\ init_inputs xss = Ok is /\
                     Forall2 RelI its is.
  Proof.
    induction xss as [|xs r IH]; intros HU.
    - exists [], []. repeat split; constructor.
    - destruct IH as (its & is & Et & Ei & HF); [intros x Hx; apply HU; simpl; apply in_or_app; now right|].
      assert (Hsub : sub xs) by (intros x Hx; apply HU; simpl; apply in_or_app; now left).
      assert (Hup : exists it, update_peek (fresh (sprefix xs)) = (it, Ok tt)).
      { unfold Overlap.update_peek, Overlap.enf_next, fresh. simpl. destruct (sprefix xs); eauto. }
      destruct Hup as (it & Hup).
      destruct (update_peek_sim xs _ _ _ Hsub (fresh_rel xs) Hup) as [(i & Hi & HR)|(Hne & Hnil & _)].
      + exists (it :: its), (i :: is). simpl. rewrite Hup, Et, Hi, Ei.
        repeat split. constructor; [exists xs; auto|assumption].
      + exfalso. simpl in Hnil. apply sprefix_nil in Hnil. subst xs. now apply Hne.
  Qed.

  Lemma sprefix_total : forall xss, (total (map sprefix xss) <= total xss)%nat.
  Proof.
    unfold total. induction xss as [|xs r IH]; simpl; [lia|]. rewrite !app_length.
    rewrite (sprefix_stail xs) at 2. rewrite app_length. lia.
  Qed.
End Report.

(* ---------------- the report theorem, generically ---------------- *)
Section ReportTop.
  Context {R C : Type}.
  Variable truthy : R -> bool.
  Variable cls_cmp : C -> C -> comparison.
  Variable cls_eqb : C -> C -> bool.
  Variable keyf : R -> res (key C).
  Hypothesis HO : cls_order cls_cmp cls_eqb.
  Hypothesis keyf_no_stop : forall r, keyf r <> Raise StopIteration.
  Variable K : R -> key C.

  Notation sprefix := (sprefix cls_cmp K).

  Lemma in_sprefix_concat xss r : In r (concat (map sprefix xss)) -> In r (concat xss).
  Proof.
    intros H. apply in_concat in H as (p & Hp & Hr). apply in_map_iff in Hp as (xs & <- & Hxs).
    apply in_concat. exists xs. split; [assumption|].
    rewrite (sprefix_stail cls_cmp K xs). apply in_or_app. now left.
  Qed.

  (* the sorted prefix is the part of the input before its first descent *)
  Lemma sprefix_spec xs :
    exists tail, xs = sprefix xs ++ tail /\
                 sorted_input (cls K) (st K) (en K) (clt cls_cmp) (sprefix xs) /\
                 (tail = [] \/
                  exists bad more last, tail = bad :: more /\ last_opt (sprefix xs) = Some last /\
                                        key_before (cls K) (st K) (en K) (clt cls_cmp) bad last).
  Proof.
    exists (stail cls_cmp K xs). split; [apply sprefix_stail|]. split.
    - apply (sorted_input_adj truthy cls_cmp keyf K). apply (sprefix_sorted cls_cmp cls_eqb HO K).
    - destruct (stail cls_cmp K xs) as [|bad more] eqn:E; [now left|right].
      destruct (stail_bad cls_cmp K _ _ _ E) as (last & Hl & Hk).
      exists bad, more, last. repeat split; try assumption.
      apply (key_lt_iff cls_cmp cls_eqb HO) in Hk. exact Hk.
  Qed.

  Theorem unsorted_reported xss :
    (forall r, In r (concat xss) -> truthy r = true) ->
    (forall r, In r (concat xss) -> keyf r = Ok (K r)) ->
    (forall r, In r (concat xss) -> wf_interval (st K) (en K) r) ->
    ~ Forall (sorted_input (cls K) (st K) (en K) (clt cls_cmp)) xss ->
    exists gs_t gs1 gs2 is0 is_a is',
      exact_grouping (cls K) (st K) (en K) (clt cls_cmp) (map sprefix xss) gs_t /\
      gs_t = gs1 ++ gs2 /\
      init_inputs truthy cls_cmp keyf xss = Ok is0 /\
      run_ok truthy cls_cmp cls_eqb keyf is0 gs1 is_a /\
      next_group truthy cls_cmp cls_eqb keyf is_a = (is', Exc PlainException) /\
      overlap_iter truthy cls_cmp cls_eqb keyf xss = Exc PlainException.
  Proof.
    intros Ht Hk Hw Hns. set (U := concat xss).
    assert (Hst : Forall (sorted_input (cls K) (st K) (en K) (clt cls_cmp)) (map sprefix xss)).
    { apply Forall_forall. intros p Hp. apply in_map_iff in Hp as (xs & <- & _).
      apply (sorted_input_adj truthy cls_cmp keyf K). apply (sprefix_sorted cls_cmp cls_eqb HO K). }
    destruct (overlap_iter_exact truthy cls_cmp cls_eqb keyf HO K (map sprefix xss)
                (fun r H => Ht r (in_sprefix_concat xss r H)) (fun r H => Hk r (in_sprefix_concat xss r H))
                (fun r H => Hw r (in_sprefix_concat xss r H)) Hst) as (gs_t & Et & HX).
    destruct (init_sim truthy cls_cmp keyf K U Ht Hk xss (fun r H => H)) as (its & is0 & Eit & Ei & HF).
    unfold Overlap.overlap_iter in Et. rewrite Eit in Et.
    pose proof (init_inv truthy cls_cmp cls_eqb keyf HO K U Ht Hk (map sprefix xss) its
                         (in_sprefix_concat xss) Eit) as HS.
    pose proof (truns_of_run_all truthy cls_cmp cls_eqb keyf HO K U Ht Hk _ _ _ _ HS Et) as HT.
    (* the number of groups is bounded by the number of records *)
    assert (Hlen : (length gs_t <= total xss)%nat).
    { pose proof (run_all_runsto truthy cls_cmp cls_eqb keyf _ _ _ Et) as Hr.
      destruct HX as (_ & _ & Hne & _).
      destruct (runsto_bound truthy cls_cmp cls_eqb keyf keyf_no_stop _ _ Hr Hne) as (_ & Hb & _).
      rewrite (init_remaining truthy cls_cmp keyf keyf_no_stop _ _ Eit) in Hb.
      pose proof (sprefix_total cls_cmp K xss). lia. }
    destruct (run_sim truthy cls_cmp cls_eqb keyf K U Ht Hk _ _ HT _ HF)
      as [Hd|(gs1 & gs2 & is_a & is' & Egs & Hok & Hex)].
    - exfalso. apply Hns.
      apply (done_implies_sorted truthy cls_cmp cls_eqb keyf HO K xss gs_t Ht Hk).
      unfold Overlap.overlap_iter. rewrite Ei. apply Hd. lia.
    - exists gs_t, gs1, gs2, is0, is_a, is'.
      split; [exact HX|]. split; [exact Egs|]. split; [exact Ei|]. split; [exact Hok|]. split; [exact Hex|].
      unfold Overlap.overlap_iter. rewrite Ei.
      eapply (report_run_all truthy cls_cmp cls_eqb keyf); [eassumption|eassumption|discriminate|].
      rewrite Egs, app_length in Hlen. lia.
  Qed.
End ReportTop.
