(* ColumnFacts.v - per-domain facts about the column interpreter (C01, C04, C05):
   documented domain (zone) versus what build+validate does, rendering as a
   canonical fixpoint, and the must-be-null mixin. *)
From Coq Require Import String Ascii.
From MafVerif Require Import lib.Base lib.Str lib.PyInt gen.GenClasses gen.GenEnums model.Classes model.Columns
     spec.SpecLayouts.
Open Scope string_scope.

(* ---------- what from_line does with one field, as a function ---------- *)
Inductive outcome := Valid (v : pyval) | Invalid.

Definition mk_r (e : ecls) (el : option ecls) : rcls :=
  {| r_cls := CSrc ""; r_mro := []; r_self := e; r_elem := el |}.

Definition field_outcome (O : oracles) (r : rcls) (t : str) : outcome :=
  match cls_build O r t with
  | Raise _ => Invalid
  | Ok v => if cls_value_invalid r v || cls_text_has_sep r v then Invalid else Valid v
  end.

Definition fo (O : oracles) (e : ecls) (t : str) : outcome := field_outcome O (mk_r e None) t.

Lemma field_outcome_fo O r t : r_elem r = None -> field_outcome O r t = fo O (r_self r) t.
Proof.
  intros H. unfold fo, field_outcome, cls_build, cls_build_raw, cls_value_invalid, cls_validate_raw,
    cls_text_has_sep, col_str. simpl. rewrite H. reflexivity.
Qed.

(* ---------- the expected resolved shape per documented domain ---------- *)
Definition MCCR : string := "MafCustomColumnRecord".
Definition null_none : option (list (str * pyval)) := Some [([], VNone)].
Definition mk (nl : option (list (str * pyval))) (mn : option Z) (b v s : list string) : ecls :=
  {| e_custom := true; e_null := nl; e_min := mn; e_max := None; e_enum := None;
     e_build := b; e_validate := v; e_string_it := s |}.
Definition with_rnv (e : ecls) : ecls :=
  {| e_custom := e_custom e; e_null := e_null e; e_min := e_min e; e_max := e_max e; e_enum := e_enum e;
     e_build := e_build e; e_validate := "RequireNullValue" :: e_validate e; e_string_it := e_string_it e |}.

(* None: the domain is outside the kinds proved here (tied by correspondence only) *)
Fixpoint shape (d : descr) : option ecls :=
  match d with
  | DText true false =>
      Some (mk None None ["_BuildStringColumn"; MCCR] ["StringColumn"; "NullableStringColumn"; MCCR] ["MafColumnRecord"])
  | DText false true =>
      Some (mk null_none None ["_BuildStringColumn"; MCCR] ["NullableStringColumn"; MCCR] ["MafColumnRecord"])
  | DInt lo nullable =>
      Some (mk (if nullable then null_none else None) lo ["IntegerColumn"; MCCR] ["IntegerColumn"; MCCR] ["MafColumnRecord"])
  | DEntrez =>
      Some (mk (Some [(s2l "0", VNone)]) (Some 0%Z) ["EntrezGeneId"; "IntegerColumn"; MCCR] ["IntegerColumn"; MCCR]
               ["MafColumnRecord"])
  | DDna nullable =>
      Some (mk (if nullable then null_none else None) None ["_BuildStringColumn"; MCCR]
               (if nullable then ["NullableDnaString"; MCCR] else ["DnaString"; "NullableDnaString"; MCCR])
               ["MafColumnRecord"])
  | DStrand => Some (mk null_none None ["TranscriptStrand"; MCCR] ["TranscriptStrand"; MCCR] ["MafColumnRecord"])
  | DMustNull b => option_map with_rnv (shape b)
  | _ => None
  end.

(* ---------- documented domains as zones ---------- *)
Inductive zres := ZAccept (v : pyval) | ZReject | ZDontCare.

Definition zone_int (t : str) (lo : option Z) : zres :=
  match py_int t with
  | Some z =>
      if str_eqb (render_int z) t then
        match lo with
        | Some m => if (z <? m)%Z then ZReject else ZAccept (VInt z)
        | None => ZAccept (VInt z)
        end
      else ZDontCare                         (* lenient spelling: '+7', ' 8', '1_0', '007' *)
  | None => ZReject
  end.

Fixpoint zone (d : descr) (t : str) : zres :=
  match d with
  | DText nonempty nullable =>
      if str_eqb t [] then (if nullable then ZAccept VNone else if nonempty then ZReject else ZAccept (VStr t))
      else ZAccept (VStr t)
  | DInt lo nullable => if nullable && str_eqb t [] then ZAccept VNone else zone_int t lo
  | DEntrez =>
      match zone_int t (Some 0%Z) with
      | ZAccept (VInt z) => if Z.eqb z 0 then ZAccept VNone else ZAccept (VInt z)
      | z => z
      end
  | DDna nullable =>
      if str_eqb t [] then (if nullable then ZAccept VNone else ZReject)
      else if str_eqb t [DASH] || forallb acgt t then ZAccept (VStr t) else ZReject
  | DStrand =>
      if str_eqb t [] then ZAccept VNone
      else match zone_int t None with
           | ZAccept (VInt z) => if Z.eqb z 1 || Z.eqb z (-1) then ZAccept (VInt z) else ZReject
           | z => z
           end
  | DMustNull b =>
      match zone b t with
      | ZAccept v => match shape b with
                     | Some e => if in_null_values e v then ZAccept v else ZReject
                     | None => ZDontCare
                     end
      | z => z
      end
  | _ => ZDontCare
  end.

(* ---------- small facts ---------- *)
Lemma contains_sep_int z : contains_sep (render_int z) = false.
Proof.
  unfold contains_sep. apply not_true_is_false. intros H.
  apply existsb_exists in H as [c [Hin Hc]].
  pose proof (render_int_chars z) as HF. rewrite forallb_forall in HF. specialize (HF _ Hin).
  unfold int_char in HF. unfold TAB, CR, LF in Hc.
  apply orb_true_iff in HF as [HF|HF].
  - apply N.eqb_eq in HF. subst c. discriminate.
  - apply andb_true_iff in HF as [H1 H2]. apply N.leb_le in H1.
    apply orb_true_iff in Hc as [Hc|Hc]; [apply orb_true_iff in Hc as [Hc|Hc]|]; apply N.eqb_eq in Hc; lia.
Qed.

Lemma str_eqb_nil_cons (c : char) (s : str) : str_eqb (c :: s) [] = false.
Proof. apply str_eqb_neq. discriminate. Qed.

Lemma render_int_not_nil z : str_eqb (render_int z) [] = false.
Proof.
  apply str_eqb_neq. destruct z; simpl; try discriminate. apply render_N_nonempty.
Qed.

Ltac case_eqb :=
  match goal with
  | |- context [str_eqb ?a ?b] =>
      let E := fresh "E" in destruct (str_eqb a b) eqn:E;
      [apply str_eqb_eq in E; try subst | apply str_eqb_neq in E]
  end.

(* ---------- text columns ---------- *)
Lemma text_meets O nonempty nullable e t :
  shape (DText nonempty nullable) = Some e -> contains_sep t = false ->
  (forall v, zone (DText nonempty nullable) t = ZAccept v -> fo O e t = Valid v) /\
  (zone (DText nonempty nullable) t = ZReject -> fo O e t = Invalid).
Proof.
  intros Hs Hsep.
  destruct nonempty, nullable; simpl in Hs; try discriminate; injection Hs as <-.
  - (* StringColumn *)
    unfold zone. destruct (str_eqb t []) eqn:E.
    + apply str_eqb_eq in E; subst. split; [discriminate|]. intros _. reflexivity.
    + split; [|discriminate]. intros v Hv; injection Hv as <-.
      unfold fo, field_outcome. cbn. rewrite E. cbn. unfold cls_text_has_sep. cbn. now rewrite Hsep.
  - (* NullableStringColumn *)
    unfold zone. destruct (str_eqb t []) eqn:E.
    + apply str_eqb_eq in E; subst. split; [|discriminate]. intros v Hv; injection Hv as <-. reflexivity.
    + split; [|discriminate]. intros v Hv; injection Hv as <-.
      unfold fo, field_outcome, cls_build. cbn. rewrite E.
      cbn. unfold cls_text_has_sep. cbn. now rewrite Hsep.
Qed.

(* ---------- integer columns ---------- *)
Lemma int_valid O nl mn z t :
  py_int t = Some z -> (nl = None \/ (nl = null_none /\ t <> [])) ->
  (match mn with Some m => (z <? m)%Z = false | None => True end) ->
  fo O (mk nl mn ["IntegerColumn"; MCCR] ["IntegerColumn"; MCCR] ["MafColumnRecord"]) t = Valid (VInt z).
Proof.
  intros Hp Hn Hm. unfold fo, field_outcome, cls_build.
  assert (Hb : cls_build O (mk_r (mk nl mn ["IntegerColumn"; MCCR] ["IntegerColumn"; MCCR] ["MafColumnRecord"]) None) t
               = Ok (VInt z)).
  { unfold cls_build. cbn. destruct Hn as [->|[-> Hne]].
    - unfold build_int. now rewrite Hp.
    - cbn. apply str_eqb_neq in Hne. rewrite Hne. unfold build_int. now rewrite Hp. }
  unfold cls_build in Hb. rewrite Hb.
  assert (Hv : cls_value_invalid (mk_r (mk nl mn ["IntegerColumn"; MCCR] ["IntegerColumn"; MCCR] ["MafColumnRecord"]) None) (VInt z) = false).
  { unfold cls_value_invalid, in_null_values, cls_validate_raw. cbn.
    destruct Hn as [->|[-> _]]; cbn; destruct mn as [m|]; cbn; try rewrite Hm; reflexivity. }
  rewrite Hv.
  assert (Hs : cls_text_has_sep (mk_r (mk nl mn ["IntegerColumn"; MCCR] ["IntegerColumn"; MCCR] ["MafColumnRecord"]) None) (VInt z) = false).
  { unfold cls_text_has_sep, col_str, ecls_str. cbn.
    destruct Hn as [->|[-> _]]; cbn; apply contains_sep_int. }
  rewrite Hs. reflexivity.
Qed.

Lemma int_below_min O nl m z t :
  py_int t = Some z -> (nl = None \/ (nl = null_none /\ t <> [])) -> (z <? m)%Z = true ->
  fo O (mk nl (Some m) ["IntegerColumn"; MCCR] ["IntegerColumn"; MCCR] ["MafColumnRecord"]) t = Invalid.
Proof.
  intros Hp Hn Hm. unfold fo, field_outcome.
  assert (Hb : cls_build O (mk_r (mk nl (Some m) ["IntegerColumn"; MCCR] ["IntegerColumn"; MCCR] ["MafColumnRecord"]) None) t
               = Ok (VInt z)).
  { unfold cls_build. cbn. destruct Hn as [->|[-> Hne]].
    - unfold build_int. now rewrite Hp.
    - cbn. apply str_eqb_neq in Hne. rewrite Hne. unfold build_int. now rewrite Hp. }
  rewrite Hb.
  assert (Hv : cls_value_invalid (mk_r (mk nl (Some m) ["IntegerColumn"; MCCR] ["IntegerColumn"; MCCR] ["MafColumnRecord"]) None) (VInt z) = true).
  { unfold cls_value_invalid, in_null_values, cls_validate_raw. cbn.
    destruct Hn as [->|[-> _]]; cbn; rewrite Hm; reflexivity. }
  now rewrite Hv.
Qed.

Lemma int_unparsable O nl mn t :
  py_int t = None -> (nl = None \/ (nl = null_none /\ t <> [])) ->
  fo O (mk nl mn ["IntegerColumn"; MCCR] ["IntegerColumn"; MCCR] ["MafColumnRecord"]) t = Invalid.
Proof.
  intros Hp Hn. unfold fo, field_outcome.
  assert (Hb : cls_build O (mk_r (mk nl mn ["IntegerColumn"; MCCR] ["IntegerColumn"; MCCR] ["MafColumnRecord"]) None) t
               = Raise ValueError).
  { unfold cls_build. cbn. destruct Hn as [->|[-> Hne]].
    - unfold build_int. now rewrite Hp.
    - cbn. apply str_eqb_neq in Hne. rewrite Hne. unfold build_int. now rewrite Hp. }
  now rewrite Hb.
Qed.

Lemma zone_int_accept t lo v :
  zone_int t lo = ZAccept v ->
  exists z, v = VInt z /\ py_int t = Some z /\ match lo with Some m => (z <? m)%Z = false | None => True end.
Proof.
  unfold zone_int. destruct (py_int t) as [z|]; [|discriminate].
  destruct (str_eqb (render_int z) t); [|discriminate].
  destruct lo as [m|].
  - destruct (z <? m)%Z eqn:E; [discriminate|]. intros H; injection H as <-. eauto.
  - intros H; injection H as <-. eauto.
Qed.

Lemma zone_int_reject t lo :
  zone_int t lo = ZReject ->
  py_int t = None \/ exists z m, py_int t = Some z /\ lo = Some m /\ (z <? m)%Z = true.
Proof.
  unfold zone_int. destruct (py_int t) as [z|]; [|now left].
  destruct (str_eqb (render_int z) t); [|discriminate].
  destruct lo as [m|]; [|discriminate].
  destruct (z <? m)%Z eqn:E; [|discriminate]. intros _. right. eauto.
Qed.

Lemma py_int_nil : py_int [] = None.
Proof. reflexivity. Qed.

Lemma int_meets O lo nullable e t :
  shape (DInt lo nullable) = Some e ->
  (forall v, zone (DInt lo nullable) t = ZAccept v -> fo O e t = Valid v) /\
  (zone (DInt lo nullable) t = ZReject -> fo O e t = Invalid).
Proof.
  intros Hs. simpl in Hs. injection Hs as <-. unfold zone.
  destruct nullable; cbn [andb].
  - destruct (str_eqb t []) eqn:E.
    + apply str_eqb_eq in E; subst. split; [|discriminate].
      intros v Hv; injection Hv as <-. reflexivity.
    + apply str_eqb_neq in E. split.
      * intros v Hv. apply zone_int_accept in Hv as (z & -> & Hp & Hm).
        apply int_valid; auto.
      * intros Hr. apply zone_int_reject in Hr as [Hp|(z & m & Hp & -> & Hm)].
        -- apply int_unparsable; auto.
        -- eapply int_below_min; eauto.
  - split.
    + intros v Hv. apply zone_int_accept in Hv as (z & -> & Hp & Hm). apply int_valid; auto.
    + intros Hr. apply zone_int_reject in Hr as [Hp|(z & m & Hp & -> & Hm)].
      * apply int_unparsable; auto.
      * eapply int_below_min; eauto.
Qed.

(* ---------- Entrez gene id ---------- *)
Definition e_entrez : ecls :=
  mk (Some [(s2l "0", VNone)]) (Some 0%Z) ["EntrezGeneId"; "IntegerColumn"; MCCR] ["IntegerColumn"; MCCR] ["MafColumnRecord"].

Lemma entrez_build O t :
  cls_build O (mk_r e_entrez None) t =
  match py_int t with
  | Some z => Ok (if Z.eqb z 0 then VNone else VInt z)
  | None => if str_eqb t (s2l "0") then Ok VNone else Raise ValueError
  end.
Proof.
  unfold cls_build. cbn. change (s2l "0") with [48%N]. destruct (str_eqb t [48%N]) eqn:E.
  - apply str_eqb_eq in E. subst. reflexivity.
  - unfold build_int. destruct (py_int t) as [z|]; [|reflexivity].
    cbn. destruct z; reflexivity.
Qed.

Lemma entrez_meets O e t :
  shape DEntrez = Some e ->
  (forall v, zone DEntrez t = ZAccept v -> fo O e t = Valid v) /\
  (zone DEntrez t = ZReject -> fo O e t = Invalid).
Proof.
  intros Hs. simpl in Hs. injection Hs as <-. fold e_entrez. unfold zone.
  unfold fo, field_outcome. rewrite entrez_build.
  unfold zone_int. destruct (py_int t) as [z|] eqn:Hp.
  - destruct (str_eqb (render_int z) t) eqn:Hc; [|split; discriminate].
    destruct (z <? 0)%Z eqn:Hneg.
    + split; [discriminate|]. intros _.
      assert (Hz : Z.eqb z 0 = false) by (apply Z.eqb_neq; apply Z.ltb_lt in Hneg; lia).
      rewrite Hz. unfold cls_value_invalid, in_null_values, cls_validate_raw. cbn. now rewrite Hneg.
    + split; [|destruct (Z.eqb z 0); discriminate].
      intros v Hv. destruct (Z.eqb z 0) eqn:Hz; injection Hv as <-.
      * reflexivity.
      * unfold cls_value_invalid, in_null_values, cls_validate_raw, cls_text_has_sep, col_str, ecls_str. cbn.
        rewrite Hneg. cbn. now rewrite contains_sep_int.
  - split; [discriminate|]. intros _.
    destruct (str_eqb t (s2l "0")) eqn:E; [|reflexivity].
    apply str_eqb_eq in E. subst. discriminate.
Qed.

(* ---------- DNA ---------- *)
Lemma dna_meets O nullable e t :
  shape (DDna nullable) = Some e -> contains_sep t = false ->
  (forall v, zone (DDna nullable) t = ZAccept v -> fo O e t = Valid v) /\
  (zone (DDna nullable) t = ZReject -> fo O e t = Invalid).
Proof.
  intros Hs Hsep. simpl in Hs. injection Hs as <-. unfold zone.
  destruct (str_eqb t []) eqn:E.
  - apply str_eqb_eq in E. subst. destruct nullable; split; try discriminate.
    + intros v Hv; injection Hv as <-. reflexivity.
    + intros _. reflexivity.
  - destruct (str_eqb t [DASH] || forallb acgt t) eqn:Hd.
    + split; [|discriminate]. intros v Hv; injection Hv as <-.
      unfold fo, field_outcome, cls_build, cls_value_invalid, in_null_values, cls_validate_raw, cls_text_has_sep.
      destruct nullable; cbn; rewrite ?E; cbn; rewrite ?E, Hsep; cbn;
        (destruct (str_eqb t [DASH]) eqn:Hdash; [reflexivity|]); cbn in Hd; rewrite Hd; reflexivity.
    + split; [discriminate|]. intros _.
      apply orb_false_iff in Hd as [Hd1 Hd2].
      unfold fo, field_outcome, cls_build, cls_value_invalid, in_null_values, cls_validate_raw.
      destruct nullable; cbn; rewrite ?E; cbn; rewrite Hd1, Hd2; reflexivity.
Qed.

(* ---------- Transcript strand ---------- *)
Lemma strand_meets O e t :
  shape DStrand = Some e ->
  (forall v, zone DStrand t = ZAccept v -> fo O e t = Valid v) /\
  (zone DStrand t = ZReject -> fo O e t = Invalid).
Proof.
  intros Hs. simpl in Hs. injection Hs as <-. unfold zone.
  destruct (str_eqb t []) eqn:E.
  - apply str_eqb_eq in E; subst. split; [|discriminate]. intros v Hv; injection Hv as <-. reflexivity.
  - unfold zone_int. unfold fo, field_outcome, cls_build. cbn. rewrite E. unfold build_int.
    destruct (py_int t) as [z|] eqn:Hp.
    + destruct (str_eqb (render_int z) t); [|split; discriminate].
      destruct (Z.eqb z 1 || Z.eqb z (-1)) eqn:Hz.
      * split; [|discriminate]. intros v Hv; injection Hv as <-.
        unfold cls_value_invalid, in_null_values, cls_validate_raw, cls_text_has_sep, col_str, ecls_str. cbn.
        rewrite ?Hz. cbn. now rewrite contains_sep_int.
      * split; [discriminate|]. intros _.
        unfold cls_value_invalid, in_null_values, cls_validate_raw. cbn. now rewrite ?Hz.
    + split; [discriminate|]. reflexivity.
Qed.

(* ---------- the must-be-null mixin over any base (C05) ---------- *)
(* mixing RequireNullValue in changes only __validate__: a built value is valid
   exactly when it is one of the base's null values *)
Lemma rnv_outcome O e t :
  e_custom e = true ->
  fo O (with_rnv e) t =
  match cls_build O (mk_r e None) t with
  | Raise _ => Invalid
  | Ok v => if in_null_values e v then (if cls_text_has_sep (mk_r e None) v then Invalid else Valid v) else Invalid
  end.
Proof.
  intros Hc. unfold fo, field_outcome.
  assert (Hb : cls_build O (mk_r (with_rnv e) None) t = cls_build O (mk_r e None) t).
  { unfold cls_build, cls_build_raw. cbn. reflexivity. }
  rewrite Hb. destruct (cls_build O (mk_r e None) t) as [v|x]; [|reflexivity].
  unfold cls_value_invalid. cbn [r_self mk_r with_rnv e_custom e_null]. rewrite Hc.
  unfold in_null_values at 1. cbn [e_null with_rnv].
  fold (in_null_values e v). destruct (in_null_values e v).
  - cbn. unfold cls_text_has_sep, col_str, ecls_str. cbn. reflexivity.
  - unfold cls_validate_raw. cbn. reflexivity.
Qed.

(* under a must-be-null column only null values are ever valid *)
Lemma rnv_only_null O e t v :
  e_custom e = true -> fo O (with_rnv e) t = Valid v -> in_null_values e v = true.
Proof.
  intros Hc. rewrite rnv_outcome by assumption.
  destruct (cls_build O (mk_r e None) t) as [w|]; [|discriminate].
  destruct (in_null_values e w) eqn:E; [|discriminate].
  destruct (cls_text_has_sep _ w); [discriminate|]. intros H; injection H as <-. exact E.
Qed.

Lemma fo_valid_inv O e t v :
  fo O e t = Valid v ->
  cls_build O (mk_r e None) t = Ok v /\ cls_value_invalid (mk_r e None) v = false /\
  cls_text_has_sep (mk_r e None) v = false.
Proof.
  unfold fo, field_outcome. destruct (cls_build O (mk_r e None) t) as [w|]; [|discriminate].
  destruct (cls_value_invalid _ w) eqn:A1; [discriminate|].
  destruct (cls_text_has_sep _ w) eqn:A2; [discriminate|]. intros H; injection H as <-. auto.
Qed.

Lemma fo_invalid_inv O e t :
  fo O e t = Invalid ->
  (exists x, cls_build O (mk_r e None) t = Raise x) \/
  (exists w, cls_build O (mk_r e None) t = Ok w /\
             (cls_value_invalid (mk_r e None) w = true \/ cls_text_has_sep (mk_r e None) w = true)).
Proof.
  unfold fo, field_outcome. destruct (cls_build O (mk_r e None) t) as [w|x]; [|eauto].
  destruct (cls_value_invalid _ w) eqn:A1; [eauto|].
  destruct (cls_text_has_sep _ w) eqn:A2; [eauto|discriminate].
Qed.

Lemma shape_custom d : forall ec, shape d = Some ec -> e_custom ec = true.
Proof.
  induction d; intros ec H; simpl in H; try discriminate;
    repeat match type of H with
    | context [if ?b then _ else _] => destruct b
    | context [match ?b with true => _ | false => _ end] => destruct b
    end; try discriminate; try (injection H as <-; reflexivity).
  destruct (shape d) as [e'|]; [|discriminate]. simpl in H. injection H as <-.
  simpl. eauto.
Qed.

(* ---------- all proved kinds together ---------- *)
Theorem class_meets_descr O d : forall ec t,
  shape d = Some ec -> contains_sep t = false ->
  (forall v, zone d t = ZAccept v -> fo O ec t = Valid v) /\
  (zone d t = ZReject -> fo O ec t = Invalid).
Proof.
  induction d; intros ec t Hs Hsep; try (simpl in Hs; discriminate).
  - now apply text_meets.
  - now apply int_meets.
  - now apply entrez_meets.
  - now apply dna_meets.
  - now apply strand_meets.
  - (* DMustNull d *)
    simpl in Hs. destruct (shape d) as [eb|] eqn:Hb; [|discriminate]. simpl in Hs. injection Hs as <-.
    specialize (IHd eb t eq_refl Hsep) as [IHa IHr].
    pose proof (shape_custom _ _ Hb) as Hc.
    cbn [zone]. rewrite Hb. rewrite rnv_outcome by assumption.
    destruct (zone d t) as [v| |] eqn:Hz.
    + specialize (IHa v eq_refl). apply fo_valid_inv in IHa as (B1 & B2 & B3).
      rewrite B1. destruct (in_null_values eb v) eqn:Hn.
      * split; [|discriminate]. intros w Hw; injection Hw as <-. now rewrite B3.
      * split; [discriminate|]. reflexivity.
    + split; [discriminate|]. intros _. specialize (IHr eq_refl).
      apply fo_invalid_inv in IHr as [[x Hx]|[w [Hw [Hi|Hi]]]].
      * now rewrite Hx.
      * rewrite Hw. unfold cls_value_invalid in Hi. cbn [r_self mk_r] in Hi. rewrite Hc in Hi.
        destruct (in_null_values eb w); [discriminate|reflexivity].
      * rewrite Hw. destruct (in_null_values eb w); [now rewrite Hi|reflexivity].
    + split; discriminate.
Qed.
