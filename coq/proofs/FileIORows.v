(* FileIORows.v - from a record the writer accepted to the row the reader
   will see (C02): the field texts are the renderings of the stored values;
   under the scheme's class each text parses back - to the same value for a
   typed class (hypothesis record_fixpoint, property C04), to the text itself
   for the untyped class; the re-read record is acceptable to a writer again
   and renders to the same line. *)
From MafVerif Require Import lib.Base lib.Str model.RecordOps model.Validation model.Header
  model.RecordParse model.Reader model.WriterMode model.FileIO
  proofs.RecordFacts proofs.HeaderSpec proofs.ReaderModes proofs.ReaderTotal
  proofs.FileIOText proofs.FileIORecord proofs.FileIOWrite proofs.FileIORead.

Definition somes {X} (l : list (option X)) : list X :=
  flat_map (fun o => match o with Some x => [x] | None => [] end) l.

Lemma somes_map_Some {X} (l : list X) : somes (map Some l) = l.
Proof. unfold somes. induction l as [|x l IH]; [reflexivity|]. cbn [map flat_map app]. now rewrite IH. Qed.

Lemma assoc_in_keys {V} (d : list (str * V)) k : In k (map fst d) -> exists v, assoc k d = Some v.
Proof.
  induction d as [|[k' v] d IH]; cbn [map fst In assoc]; [tauto|].
  destruct (str_eqb k k') eqn:E; [eauto|]. apply str_eqb_neq in E. intros [H|H]; [congruence|auto].
Qed.

Section Rows.
  Context {C W : Type}.
  Variable sem : colsem C W.
  Notation cls := (cls C).
  Notation scheme := (scheme cls).
  Notation mrec := (mrec C W).
  Notation payload := (payload C W).
  Notation pvalue := (pvalue C W).
  Notation column := (col payload).
  Notation cell := (@cell C W).

  (* isinstance(MafColumnRecord(...), MafColumnRecord) *)
  Hypothesis isinst_plain : cs_isinst sem CPlain CPlain = true.
  (* C04's side condition on a value (a one-element list whose element renders
     as the empty text), and C04 itself at field level: a value a class built
     and accepted, outside that side condition, is built again from its own
     rendering *)
  Variable value_hazard : C -> W -> bool.
  Hypothesis record_fixpoint : forall k t w t',
    cs_build sem k t = Some w -> cs_invalid sem k w = false ->
    cs_str sem k w = Some t' -> has_sep t' = false -> value_hazard k w = false ->
    cs_build sem k t' = Some w.

  (* ---------- what the reader makes of a stored value ---------- *)
  Definition text_of (p : pvalue) : str := match col_text sem p with Some t => t | None => [] end.

  Definition reread_pv (s : scheme) (name : str) (p : pvalue) : pvalue :=
    match s_class s name with Some (CTyped _) => p | _ => PPlain (text_of p) end.

  Definition reread_cells (s : scheme) (cells : list (str * pvalue)) : list (str * pvalue) :=
    map (fun np => (fst np, reread_pv s (fst np) (snd np))) cells.

  Definition cells_of_rec (r : rec payload) : list (str * pvalue) := map (@cell_of C W) (somes (rlist r)).

  (* the record the reader builds from the line a record was written as *)
  Definition reread_view (s : scheme) (r : rec payload) : rec payload :=
    canon_rec (reread_cells s (cells_of_rec r)).

  (* a value typed by the scheme: of exactly the scheme's class for its column,
     built by that class, outside C04's side condition *)
  Definition exact_cell (k : option cls) (p : pvalue) : Prop :=
    match k, p with
    | Some CPlain, PPlain _ => True
    | Some (CTyped c), PTyped c' w => c' = c /\ (exists t, cs_build sem c t = Some w) /\ value_hazard c w = false
    | _, _ => False
    end.
  (* weaker: typed columns are exact, untyped columns may hold anything *)
  Definition rereadable_cell (k : option cls) (p : pvalue) : Prop :=
    match k with
    | Some (CTyped c) => exact_cell k p
    | _ => True
    end.

  Definition typed_by (s : scheme) (r : mrec) : Prop :=
    Forall (fun np => exact_cell (s_class s (fst np)) (snd np)) (cells_of_rec (mcols r)).
  Definition rereadable (s : scheme) (r : mrec) : Prop :=
    Forall (fun np => rereadable_cell (s_class s (fst np)) (snd np)) (cells_of_rec (mcols r)).

  Lemma typed_by_rereadable s r : typed_by s r -> rereadable s r.
  Proof.
    apply Forall_impl. intros [n p]. cbn [fst snd]. unfold rereadable_cell.
    destruct (s_class s n) as [[|c]|]; auto.
  Qed.

  Lemma exact_reread_pv s n p : exact_cell (s_class s n) p -> reread_pv s n p = p.
  Proof.
    unfold exact_cell, reread_pv. destruct (s_class s n) as [[|c]|]; [|reflexivity|tauto].
    destruct p as [t|c' w]; [reflexivity|tauto].
  Qed.

  (* ---------- the row of a list of cells ---------- *)
  Definition row_of (s : scheme) (cells : list (str * pvalue)) : list cell :=
    map (fun np => {| c_name := fst np;
                      c_cls := match s_class s (fst np) with Some k => k | None => CPlain end;
                      c_text := text_of (snd np);
                      c_pv := reread_pv s (fst np) (snd np) |}) cells.

  Lemma row_of_cells s cells : cells_of (row_of s cells) = reread_cells s cells.
  Proof. unfold cells_of, row_of, reread_cells. rewrite map_map. reflexivity. Qed.

  Lemma row_of_names s cells : map (@c_name C W) (row_of s cells) = map fst cells.
  Proof. unfold row_of. rewrite map_map. reflexivity. Qed.

  Lemma row_of_texts s cells : map (@c_text C W) (row_of s cells) = map (fun np => text_of (snd np)) cells.
  Proof. unfold row_of. rewrite map_map. reflexivity. Qed.

  (* the value of every cell of the row renders as the cell's text *)
  Definition row_renders (row : list cell) : Prop :=
    Forall (fun c => col_text sem (c_pv c) = Some (c_text c)) row.

  Lemma s_index_class (s : scheme) n i : s_index s n = Some i -> exists k, s_class s n = Some k.
  Proof.
    unfold s_index, s_class, s_names. intros H. apply index_of_nth in H as (j & _ & Hj).
    apply assoc_in_keys. eapply nth_error_In; eauto.
  Qed.

  Theorem row_of_good (s : scheme) (cells : list (str * pvalue)) :
    s_truthy s = true -> map fst cells = s_names s ->
    cells_valid sem s 0 cells ->
    Forall (fun np => rereadable_cell (s_class s (fst np)) (snd np)) cells ->
    Forall (fun np => col_text sem (snd np) <> None) cells ->
    row_good sem s (row_of s cells) /\ row_renders (row_of s cells).
  Proof.
    intros Ht Hn Hv Hex Htx.
    assert (Hcell : forall j n p, nth_error cells j = Some (n, p) ->
              cell_valid sem s j n p /\ rereadable_cell (s_class s n) p /\ col_text sem p = Some (text_of p)).
    { intros j n p Hj. split; [exact (cells_valid_nth_inv sem s cells 0 Hv j n p Hj)|].
      rewrite Forall_forall in Hex, Htx. pose proof (nth_error_In _ _ Hj) as Hin. split.
      - exact (Hex _ Hin).
      - specialize (Htx _ Hin). cbn [snd] in Htx. unfold text_of. destruct (col_text sem p); [reflexivity|congruence]. }
    split; [split; [|split]|].
    - now rewrite row_of_names.
    - intros j c Hj. unfold row_of in Hj. rewrite nth_error_map in Hj.
      destruct (nth_error cells j) as [[n p]|] eqn:Ej; [|discriminate]. injection Hj as <-.
      cbn [c_name c_cls c_text c_pv fst snd Nat.add].
      destruct (Hcell j n p Ej) as ([Hval Htext Hidx Hcls] & Hexact & Hren).
      destruct (s_index_class s n _ (Hidx Ht)) as [k Hk]. rewrite Hk.
      unfold reread_pv. rewrite Hk. split; [reflexivity|].
      destruct k as [|c0].
      + (* untyped column: the text itself *)
        split; [reflexivity|]. constructor.
        * exact I.
        * cbn [col_text]. exact Htext.
        * exact Hidx.
        * intros _. rewrite Hk. exact isinst_plain.
      + (* typed column: the same value, by the fixpoint *)
        rewrite Hk in Hexact. cbn [rereadable_cell exact_cell] in Hexact.
        destruct p as [t|c' w]; [tauto|]. destruct Hexact as (-> & (t0 & Hb) & Hhz).
        cbn [col_text] in Hren. split.
        * exists w. split; [|reflexivity].
          apply (record_fixpoint c0 t0 w (text_of (PTyped c0 w)) Hb Hval Hren); [|exact Hhz].
          exact Htext.
        * constructor; assumption.
    - rewrite row_of_texts. apply Forall_forall. intros t Ht'. apply in_map_iff in Ht' as ([n p] & <- & Hin).
      apply In_nth_error in Hin as [j Hj]. destruct (Hcell j n p Hj) as ([_ Htext _ _] & _ & _).
      apply has_sep_false_iff. exact Htext.
    - unfold row_renders, row_of. apply Forall_forall. intros c Hc. apply in_map_iff in Hc as ([n p] & <- & Hin).
      cbn [c_pv c_text fst snd]. apply In_nth_error in Hin as [j Hj].
      destruct (Hcell j n p Hj) as (_ & Hexact & Hren). unfold reread_pv.
      destruct (s_class s n) as [[|c0]|]; [reflexivity|exact Hren|reflexivity].
  Qed.

  (* ---------- a re-read record is acceptable to a writer, with the same line ---------- *)
  Theorem reread_accepted (s : scheme) (m : mode) n (row : list cell) :
    s_truthy s = true -> NoDup (s_names s) -> row_good sem s row -> row_renders row ->
    accepted sem s m (reread m n row) (reread m n row) (row_line row).
  Proof.
    intros Ht ND (Hn & Hrow & Hsep) Hren. exists []. unfold reread.
    rewrite record_validate_unfold. cbn [mk_mrec mline mcols merrs mmode].
    rewrite rv_core_canon.
    - unfold finish. split; [destruct m; reflexivity|]. split; [reflexivity|].
      apply record_text_canon. unfold cells_of. clear - Hren.
      induction Hren as [|c row Hc _ IH]; cbn [map]; constructor; [exact Hc|exact IH].
    - rewrite cells_of_keys, <- Hn. exact ND.
    - intros n' p j Hj. unfold cells_of in Hj. rewrite nth_error_map in Hj.
      destruct (nth_error row j) as [c|] eqn:Ej; [|discriminate]. injection Hj as <- <-.
      destruct (Hrow j c Ej) as (_ & _ & Hv). cbn [Nat.add] in Hv. now apply column_validate_cell.
    - intros _. unfold cells_of. rewrite map_length. unfold s_names in Hn.
      rewrite <- (map_length fst), Hn, map_length. reflexivity.
  Qed.

  Lemma reread_names m n row : record_names (reread m n row) = map (@c_name C W) row.
  Proof.
    unfold record_names, reread, mk_mrec, canon_rec, rec_of. cbn [mcols rlist]. rewrite map_map.
    change (map (fun x : column => ckey x) (canon_cols 0 (cells_of row))) with (map ckey (canon_cols 0 (cells_of row))).
    now rewrite canon_cols_keys, cells_of_keys.
  Qed.

  (* ---------- from an accepted record to its row ---------- *)
  Lemma cell_of_canon i cells : map (@cell_of C W) (canon_cols i cells) = cells.
  Proof. revert i. induction cells as [|[n p] r IH]; intros i; [reflexivity|]. cbn [canon_cols map cell_of mkcol ckey cval pv]. now rewrite IH. Qed.

  Lemma slots_text_some (cs : list column) ts :
    slots_text sem (map Some cs) = Ok ts ->
    Forall (fun c => col_text sem (pv (cval c)) <> None) cs /\ ts = map (fun c => text_of (pv (cval c))) cs.
  Proof.
    revert ts. induction cs as [|c cs IH]; intros ts H; cbn [map slots_text] in H.
    - injection H as <-. split; [constructor|reflexivity].
    - destruct (col_text sem (pv (cval c))) as [t|] eqn:E; [|discriminate].
      destruct (slots_text sem (map Some cs)) as [ts'|e]; [|discriminate]. cbn [bind] in H. injection H as <-.
      destruct (IH ts' eq_refl) as [H1 ->]. split.
      + constructor; [congruence|exact H1].
      + cbn [map]. f_equal. unfold text_of. now rewrite E.
  Qed.

  (* the writer accepted r (leaving v, writing t): the line is the line of the
     row of v's cells, that row is good, and r and v hold the same cells *)
  Theorem accepted_row (s : scheme) (m : mode) (r v : mrec) (t : str) :
    s_truthy s = true -> NoDup (s_names s) ->
    accepted sem s m r v t -> rereadable s r ->
    let cells := cells_of_rec (mcols v) in
    cells_of_rec (mcols r) = cells /\ record_names r = map fst cells /\
    map (@slot_view C W) (rlist (mcols v)) = map (@slot_view C W) (rlist (canon_rec cells)) /\
    row_good sem s (row_of s cells) /\ row_renders (row_of s cells) /\ t = row_line (row_of s cells).
  Proof.
    intros Ht ND (lg & EV & EM & ET) Hex.
    destruct (accepted_facts sem s r v m LgWriter lg Ht ND EV EM) as (cols & Hr & Hk & Hval & Hv & Hview & _).
    assert (Hv' : rlist (mcols v) = map Some (map (fun c => with_perrs c []) cols)) by (now rewrite Hv, map_map).
    assert (Ecells : cells_of_rec (mcols v) = map (@cell_of C W) cols).
    { unfold cells_of_rec. rewrite Hv', somes_map_Some, map_map. reflexivity. }
    assert (Ercells : cells_of_rec (mcols r) = map (@cell_of C W) cols).
    { unfold cells_of_rec. now rewrite Hr, somes_map_Some. }
    cbv zeta. rewrite Ecells. split; [exact Ercells|]. split.
    { unfold record_names. rewrite Hr, !map_map. reflexivity. }
    split; [exact Hview|].
    unfold record_text in ET. rewrite Hv' in ET.
    destruct (slots_text sem (map Some (map (fun c => with_perrs c []) cols))) as [ts|e] eqn:ES; [|discriminate].
    cbn [bind] in ET. injection ET as <-.
    apply slots_text_some in ES as [Hsome ->].
    assert (Htx : Forall (fun np => col_text sem (snd np) <> None) (map (@cell_of C W) cols)).
    { apply Forall_forall. intros np Hin. apply in_map_iff in Hin as (c & <- & Hc).
      rewrite Forall_forall in Hsome. apply (Hsome (with_perrs c [])). apply in_map_iff. eauto. }
    unfold rereadable in Hex. rewrite Ercells in Hex.
    destruct (row_of_good s (map (@cell_of C W) cols) Ht) as [Hg Hrn]; try assumption.
    { rewrite map_map. exact Hk. }
    split; [exact Hg|]. split; [exact Hrn|].
    unfold row_line. rewrite row_of_texts. f_equal. rewrite !map_map. reflexivity.
  Qed.
End Rows.
