(* SorterWorldData.v - C18 (c): the data view inside the I/O world.  If
   MafWriter.close returns normally, the output holds every record written:
   the merge over the registered spill files loses nothing.  Needs the
   hypotheses of C07 (order, sorted()/heapq oracle, codec). *)
From Coq Require Import Permutation Sorted.
From MafVerif Require Import lib.Base lib.SorterLib model.Sorter model.SorterWorld
     proofs.SorterFacts proofs.SorterWorldFacts proofs.SorterWorldFaults.

Section Data.
  Variables A K D : Type.
  Variable keyf : A -> res K.
  Variable lt : K -> K -> bool.
  Variable enc : A -> D.
  Variable dec : D -> res A.
  Variable pick_min : forall X : Type, (X -> X -> bool) -> list X -> option (X * list X).
  Variable eof : bool.
  Hypothesis lt_swo : swo K lt.
  Hypothesis pick_ok : pick_contract pick_min.
  Hypothesis codec_ok : codec_contract A K D keyf lt enc dec.

  Notation world := (world D).
  Notation wsorter := (wsorter K D).
  Notation w_spill := (w_spill K D lt pick_min).
  Notation w_add := (w_add A K D keyf lt enc pick_min).
  Notation w_iter := (w_iter A K D keyf lt dec pick_min eof).
  Notation w_advance := (w_advance A K D keyf dec eof).
  Notation w_cursors := (w_cursors A K D keyf dec eof).
  Notation w_merge := (w_merge A K D keyf lt dec pick_min eof).
  Notation w_close := (w_close K D).
  Notation wpaths := (wpaths K D).
  Notation wfds := (wfds K D).
  Notation wstash := (wstash K D).
  Notation nx := (next_id D).
  Notation flt := (fault D).
  Notation lookup := (lookup_file D).
  Notation good_d := (good_d A K D keyf enc).
  Notation good_entry := (good_entry A K D keyf enc).

  (* ---------- files under the write calls ---------- *)
  Fixpoint append_all (id : nat) (ds : list D) (l : list (nat * list D)) : list (nat * list D) :=
    match ds with [] => l | d :: r => append_all id r (append_file D id d l) end.

  Lemma lookup_append_same id d l c : lookup id l = Some c -> lookup id (append_file D id d l) = Some (c ++ [d]).
  Proof.
    induction l as [| (m, c0) l IH]; simpl; [discriminate |].
    destruct (Nat.eqb m id) eqn:E; simpl; rewrite E; [intros X; inversion X; reflexivity | exact IH].
  Qed.

  Lemma lookup_append_other id d l p : p <> id -> lookup p (append_file D id d l) = lookup p l.
  Proof.
    intros N. induction l as [| (m, c0) l IH]; simpl; [reflexivity |].
    destruct (Nat.eqb m id) eqn:E; simpl.
    - apply Nat.eqb_eq in E. subst m. destruct (Nat.eqb id p) eqn:E2; [apply Nat.eqb_eq in E2; congruence | reflexivity].
    - destruct (Nat.eqb m p); [reflexivity | exact IH].
  Qed.

  Lemma lookup_append_all_same id ds : forall l c, lookup id l = Some c -> lookup id (append_all id ds l) = Some (c ++ ds).
  Proof.
    induction ds as [| d r IH]; intros l c H; simpl; [rewrite app_nil_r; exact H |].
    rewrite (IH _ _ (lookup_append_same _ _ _ _ H)). rewrite <- app_assoc. reflexivity.
  Qed.

  Lemma lookup_append_all_other id ds p : p <> id -> forall l, lookup p (append_all id ds l) = lookup p l.
  Proof.
    intros N. induction ds as [| d r IH]; intros l; simpl; [reflexivity |].
    rewrite IH. apply lookup_append_other. exact N.
  Qed.

  Lemma lookup_snoc_old p l id c : lookup p l = Some c -> lookup p (l ++ [(id, [])]) = Some c.
  Proof.
    induction l as [| (m, c0) l IH]; simpl; [discriminate |]. destruct (Nat.eqb m p); [auto | exact IH].
  Qed.

  Lemma lookup_snoc_new l id : ~ In id (map fst l) -> lookup id (l ++ [(id, [])]) = Some [].
  Proof.
    induction l as [| (m, c0) l IH]; simpl; intros N.
    - rewrite Nat.eqb_refl. reflexivity.
    - destruct (Nat.eqb m id) eqn:E; [apply Nat.eqb_eq in E; exfalso; apply N; left; exact E |].
      apply IH. intros X. apply N. right. exact X.
  Qed.

  Lemma lookup_in p l c : lookup p l = Some c -> In p (map fst l).
  Proof.
    induction l as [| (m, c0) l IH]; simpl; [discriminate |].
    destruct (Nat.eqb m p) eqn:E; [apply Nat.eqb_eq in E; left; exact E | intros X; right; exact (IH X)].
  Qed.

  (* ---------- what the successful calls do to the files ---------- *)
  Lemma tick_files c (w : world) o w1 : tick D c w = (o, w1) -> files D w1 = files D w.
  Proof. intros T. apply tick_same in T. tauto. Qed.

  Lemma mkstemp_files (w : world) id w1 : w_mkstemp D w = (Ok id, w1) -> files D w1 = files D w ++ [(id, [])].
  Proof.
    unfold w_mkstemp. destruct (tick D CMkstemp w) as [[e |] w0] eqn:T; intros H; inversion H; subst. simpl.
    rewrite (tick_files _ _ _ _ T). reflexivity.
  Qed.

  Lemma open_w_files id (w : world) r w1 : w_open_w D id w = (r, w1) -> files D w1 = files D w.
  Proof.
    unfold w_open_w. destruct (tick D COpenW w) as [[e |] w0] eqn:T; intros H; inversion H; subst; simpl;
      apply (tick_files _ _ _ _ T).
  Qed.

  Lemma close_w_files id (w : world) r w1 : w_close_w D id w = (r, w1) -> files D w1 = files D w.
  Proof.
    unfold w_close_w. destruct (tick D CCloseW w) as [[e |] w0] eqn:T; intros H; inversion H; subst; simpl;
      apply (tick_files _ _ _ _ T).
  Qed.

  Lemma write_all_files id ds : forall (w : world) w1, write_all D id ds w = (None, w1) ->
    files D w1 = append_all id ds (files D w).
  Proof.
    induction ds as [| d r IH]; intros w w1; simpl; [intros H; inversion H; reflexivity |].
    unfold w_write_len, w_write_data.
    destruct (tick D CWrite w) as [[e |] wa] eqn:T1; [intros H; inversion H |].
    destruct (tick D CWrite wa) as [[e |] wb] eqn:T2; [intros H; inversion H |].
    intros H. apply IH in H. rewrite H. simpl. rewrite (tick_files _ _ _ _ T2), (tick_files _ _ _ _ T1). reflexivity.
  Qed.

  Lemma open_r_files id (w : world) r w1 : w_open_r D id w = (r, w1) ->
    files D w1 = files D w /\ (forall h c, r = Ok (h, c) -> lookup id (files D w) = Some c).
  Proof.
    unfold w_open_r. destruct (tick D COpenR w) as [[e |] w0] eqn:T; pose proof (tick_files _ _ _ _ T) as Tf.
    - intros H; inversion H; subst. split; [exact Tf | intros; discriminate].
    - destruct (lookup id (files D w0)) eqn:L; intros H; inversion H; subst; simpl; (split; [exact Tf |]).
      + intros h c X. inversion X; subst. rewrite <- Tf. exact L.
      + intros; discriminate.
  Qed.

  Lemma read_files (w : world) r w1 : w_read D eof w = (r, w1) -> files D w1 = files D w.
  Proof.
    unfold w_read. destruct (tick D CRead w) as [[e |] w0] eqn:T; intros H; inversion H; subst; apply (tick_files _ _ _ _ T).
  Qed.

  Lemma close_r_files h (w : world) r w1 : w_close_r D h w = (r, w1) -> files D w1 = files D w.
  Proof.
    unfold w_close_r. destruct (tick D CCloseR w) as [[e |] w0] eqn:T; intros H; inversion H; subst; simpl;
      apply (tick_files _ _ _ _ T).
  Qed.

  (* ---------- a spill that returns normally ---------- *)
  Lemma spill_data (s : wsorter) (w : world) s' w' : w_spill s w = (None, s', w') ->
    (wstash s = [] /\ s' = s /\ w' = w) \/
    (wstash s <> [] /\ exists l, sort_entries K D lt pick_min (wstash s) = Some l /\
       wstash s' = [] /\ wpaths s' = wpaths s ++ [nx w] /\ tainted K D s' = tainted K D s /\
       wcap K D s' = wcap K D s /\ walways K D s' = walways K D s /\
       files D w' = append_all (nx w) (map snd l) (files D w ++ [(nx w, [])]) /\ (S (nx w) <= nx w')%nat).
  Proof.
    intros H. unfold SorterWorld.w_spill in H.
    destruct (wstash s) as [| e0 st] eqn:Es; [inversion H; subst; left; auto |].
    right. split; [discriminate |].
    destruct (w_mkstemp D w) as [[id | x] w1] eqn:E1; [| inversion H].
    pose proof (mkstemp_files _ _ _ E1) as Fl1. apply mkstemp_f in E1. destruct E1 as (_ & _ & I1).
    destruct (I1 id eq_refl) as (-> & N1).
    destruct (w_open_w D (nx w) w1) as [[u | x] w2] eqn:E2; [| inversion H].
    pose proof (open_w_f D _ _ _ _ E2) as ((N2 & _) & _).
    apply open_w_files in E2. simpl in H. rewrite Es in H.
    destruct (sort_entries K D lt pick_min (e0 :: st)) as [l |] eqn:Esrt.
    2: { destruct (w_close_w D (nx w) w2) as [[u3 | x3] w3]; inversion H. }
    exists l. split; [reflexivity |].
    destruct (write_all D (nx w) (map snd l) w2) as [[x |] w3] eqn:E3.
    { destruct (w_close_w D (nx w) w3) as [[u4 | x4] w4]; inversion H. }
    pose proof (write_all_f D _ _ _ _ _ E3) as ((N3 & _) & _).
    apply write_all_files in E3.
    destruct (w_close_w D (nx w) w3) as [[u4 | x4] w4] eqn:E4; [| inversion H].
    pose proof (close_w_f D _ _ _ _ E4) as ((N4 & _) & _).
    apply close_w_files in E4. inversion H; subst. simpl. repeat split; try reflexivity; [| lia].
    rewrite E4, E3, E2, Fl1. reflexivity.
  Qed.

  (* ---------- reading back ---------- *)
  Notation wcursor := (wcursor A K D).
  Definition wdata (c : wcursor) : list D := enc (wval A K D c) :: wrest A K D c.
  Definition wcur_ok (c : wcursor) : Prop :=
    dec (enc (wval A K D c)) = Ok (wval A K D c) /\ Forall good_d (wrest A K D c).
  Definition wsize (h : list wcursor) : nat := fold_right (fun c n => (S (length (wrest A K D c)) + n)%nat) O h.

  Lemma advance_files h ds (w : world) r w1 : w_advance h ds w = (r, w1) -> files D w1 = files D w.
  Proof.
    unfold SorterWorld.w_advance. destruct (w_read D eof w) as [[u | x] wa] eqn:E1; apply read_files in E1.
    2: { intros H; inversion H; subst; exact E1. }
    destruct ds as [| d r0].
    - destruct (w_close_r D h wa) as [[u2 | x2] wb] eqn:E2; apply close_r_files in E2; intros H; inversion H; subst; congruence.
    - destruct (w_read D eof wa) as [[u2 | x2] wb] eqn:E2; apply read_files in E2.
      2: { intros H; inversion H; subst; congruence. }
      destruct (dec d) as [a | x3]; [| intros H; inversion H; subst; congruence].
      destruct (keyf a) as [k | x4]; intros H; inversion H; subst; congruence.
  Qed.

  Lemma advance_data h ds (w : world) oc w1 : w_advance h ds w = (Ok oc, w1) -> Forall good_d ds ->
    match ds with
    | [] => oc = None
    | d :: r => exists c, oc = Some c /\ wdata c = d :: r /\ wcur_ok c
    end.
  Proof.
    unfold SorterWorld.w_advance. destruct (w_read D eof w) as [[u | x] wa]; [| intros H; inversion H].
    destruct ds as [| d r].
    - destruct (w_close_r D h wa) as [[u2 | x2] wb]; intros H; inversion H; reflexivity.
    - destruct (w_read D eof wa) as [[u2 | x2] wb]; [| intros H; inversion H].
      intros H G. inversion G as [| ? ? Gd Gr]; subst.
      destruct (good_d_dec A K D keyf lt enc dec codec_ok d Gd) as (a & k & Hd & He & Hk & Hde).
      rewrite Hd, Hk in H. inversion H; subst. eexists. split; [reflexivity |]. split.
      + unfold wdata. simpl. reflexivity.
      + split; simpl; assumption.
  Qed.

  Lemma cursors_data paths : forall (w : world) heap w1 cs,
    w_cursors paths w = (Ok heap, w1) ->
    Forall2 (fun p c => lookup p (files D w) = Some c) paths cs -> Forall (Forall good_d) cs ->
    map wdata heap = cs /\ Forall wcur_ok heap /\ files D w1 = files D w.
  Proof.
    induction paths as [| p ps IH]; intros w heap w1 cs H F2 G; simpl in H.
    - inversion H; subst. inversion F2; subst. repeat split; constructor.
    - inversion F2 as [| ? c ? cs' Lp F2']; subst. inversion G as [| ? ? Gc Gcs]; subst.
      destruct (w_open_r D p w) as [[[h c0] | x] wa] eqn:E1; [| inversion H].
      apply open_r_files in E1. destruct E1 as (Fa & Lk). specialize (Lk h c0 eq_refl).
      rewrite Lp in Lk. inversion Lk; subst c0.
      destruct (w_advance h c wa) as [[[cu |] | x] wb] eqn:E2; try (inversion H; fail).
      pose proof (advance_files _ _ _ _ _ E2) as Fb. apply advance_data in E2; [| exact Gc].
      destruct c as [| d r]; [discriminate |]. destruct E2 as (cu' & Ecu & Hd & Hok). inversion Ecu; subst cu'.
      destruct (w_cursors ps wb) as [[l | x] wc] eqn:E3; [| inversion H]. inversion H; subst.
      assert (F2b : Forall2 (fun p c => lookup p (files D wb) = Some c) ps cs') by (rewrite Fb, Fa; exact F2').
      destruct (IH _ _ _ _ E3 F2b Gcs) as (Md & Ok' & Fc).
      repeat split; [simpl; congruence | constructor; assumption | congruence].
  Qed.

  Lemma wsize_perm (h h' : list wcursor) : Permutation h h' -> wsize h = wsize h'.
  Proof. induction 1; simpl; lia. Qed.

  Lemma merge_data pulls : forall heap opn (w : world) ys st hs w1,
    w_merge pulls heap opn w = ((ys, st, hs), w1) -> (forall e, st <> MRaised e) ->
    Forall wcur_ok heap -> (wsize heap < pulls)%nat ->
    Permutation (map enc ys) (concat (map wdata heap)) /\ Forall (fun y => dec (enc y) = Ok y) ys /\ st = MExhausted.
  Proof.
    induction pulls as [| p IH]; intros heap opn w ys st hs w1 H Hst Hok Hsz; [lia |]. simpl in H.
    destruct heap as [| c0 h0]. { inversion H; subst. simpl. split; [constructor | split; [constructor | reflexivity]]. }
    remember (c0 :: h0) as heap eqn:Eh.
    assert (Hne : heap <> []) by (subst; discriminate).
    destruct (pick_ok wcursor (lt_wcursor A K D lt) heap (swo_pullback _ K lt (wkey A K D) lt_swo) Hne)
      as (c & rest & Hp & Hperm & _).
    assert (H' : match w_advance (wh A K D c) (wrest A K D c) w with
                 | (Raise e, w1) => (([], MRaised e, opn), w1)
                 | (Ok None, w1) => let '((ys, st, hs), w2) := w_merge p rest (remove_nat (wh A K D c) opn) w1 in ((wval A K D c :: ys, st, hs), w2)
                 | (Ok (Some c'), w1) => let '((ys, st, hs), w2) := w_merge p (c' :: rest) opn w1 in ((wval A K D c :: ys, st, hs), w2)
                 end = ((ys, st, hs), w1)).
    { subst heap. simpl in Hp. rewrite Hp in H. exact H. }
    clear H.
    assert (Hokp : Forall wcur_ok (c :: rest)) by (eapply Permutation_Forall; [apply Permutation_sym; exact Hperm | exact Hok]).
    inversion Hokp as [| ? ? (Hde & Gr) Hrest]; subst.
    assert (Hszp : (S (length (wrest A K D c)) + wsize rest < S p)%nat).
    { rewrite (wsize_perm _ _ (Permutation_sym Hperm)) in Hsz. simpl in Hsz. exact Hsz. }
    assert (Hdata : Permutation (concat (map wdata (c0 :: h0))) (wdata c ++ concat (map wdata rest))).
    { change (wdata c ++ concat (map wdata rest)) with (concat (map wdata (c :: rest))).
      apply Permutation_concat. apply Permutation_map. apply Permutation_sym. exact Hperm. }
    destruct (w_advance (wh A K D c) (wrest A K D c) w) as [[oc | x] wa] eqn:Ea.
    2: { inversion H'; subst. exfalso. exact (Hst x eq_refl). }
    apply advance_data in Ea; [| exact Gr].
    destruct (wrest A K D c) as [| d r] eqn:Ecr.
    - subst oc. destruct (w_merge p rest (remove_nat (wh A K D c) opn) wa) as [[[ys0 st0] hs0] wb] eqn:Em. inversion H'; subst.
      destruct (IH _ _ _ _ _ _ _ Em Hst Hrest ltac:(simpl in Hszp; lia)) as (Pm & Fd & Est).
      split; [| split; [constructor; assumption | exact Est]]. simpl.
      eapply Permutation_trans; [| apply Permutation_sym; exact Hdata]. unfold wdata at 1. rewrite Ecr. simpl.
      constructor. exact Pm.
    - destruct Ea as (c' & -> & Hd & Hok'). destruct (w_merge p (c' :: rest) opn wa) as [[[ys0 st0] hs0] wb] eqn:Em. inversion H'; subst.
      assert (Hsz' : (wsize (c' :: rest) < p)%nat).
      { simpl. assert (L : length (wdata c') = length (d :: r)) by (rewrite Hd; reflexivity).
        unfold wdata in L. simpl in L. simpl in Hszp. lia. }
      destruct (IH _ _ _ _ _ _ _ Em Hst (Forall_cons _ Hok' Hrest) Hsz') as (Pm & Fd & Est).
      split; [| split; [constructor; assumption | exact Est]]. simpl.
      eapply Permutation_trans; [| apply Permutation_sym; exact Hdata]. unfold wdata at 1. rewrite Ecr. simpl.
      constructor. eapply Permutation_trans; [exact Pm |].
      change (concat (map wdata (c' :: rest))) with (wdata c' ++ concat (map wdata rest)). rewrite Hd. apply Permutation_refl.
  Qed.

  (* ---------- sizes ---------- *)
  Definition ftotal (l : list (nat * list D)) : nat := fold_right (fun p n => (length (snd p) + n)%nat) O l.

  Lemma ftotal_snoc l id : ftotal (l ++ [(id, [])]) = ftotal l.
  Proof. induction l as [| (m, c) l IH]; simpl; [reflexivity | rewrite IH; reflexivity]. Qed.

  Lemma ftotal_append id d l c : lookup id l = Some c -> ftotal (append_file D id d l) = S (ftotal l).
  Proof.
    induction l as [| (m, c0) l IH]; simpl; [discriminate |].
    destruct (Nat.eqb m id); simpl; [intros _; rewrite app_length; simpl; lia | intros H; rewrite (IH H); lia].
  Qed.

  Lemma ftotal_append_all id ds : forall l c, lookup id l = Some c -> ftotal (append_all id ds l) = (ftotal l + length ds)%nat.
  Proof.
    induction ds as [| d r IH]; intros l c H; simpl; [lia |].
    rewrite (IH _ _ (lookup_append_same _ _ _ _ H)), (ftotal_append _ _ _ _ H). lia.
  Qed.

  Lemma lookup_remove_other p q l : q <> p -> lookup q (remove_file D p l) = lookup q l.
  Proof.
    intros N. unfold remove_file. induction l as [| (m, c) l IH]; simpl; [reflexivity |].
    destruct (Nat.eqb m p) eqn:E; simpl.
    - apply Nat.eqb_eq in E. subst m. destruct (Nat.eqb p q) eqn:E2; [apply Nat.eqb_eq in E2; congruence | exact IH].
    - destruct (Nat.eqb m q); [reflexivity | exact IH].
  Qed.

  Lemma ftotal_remove p l c : lookup p l = Some c -> (length c + ftotal (remove_file D p l) <= ftotal l)%nat.
  Proof.
    unfold remove_file. induction l as [| (m, c0) l IH]; simpl; [discriminate |].
    destruct (Nat.eqb m p) eqn:E; simpl.
    - intros H. inversion H; subst. assert (X : (ftotal (filter (fun q => negb (Nat.eqb (fst q) p)) l) <= ftotal l)%nat).
      { clear. induction l as [| (m, c) l IH]; simpl; [lia |]. destruct (Nat.eqb m p); simpl; lia. }
      lia.
    - intros H. specialize (IH H). lia.
  Qed.

  Lemma regs_total paths : forall cs l, NoDup paths ->
    Forall2 (fun p c => lookup p l = Some c) paths cs -> (length (concat cs) <= ftotal l)%nat.
  Proof.
    induction paths as [| p ps IH]; intros cs l Nd F2; inversion F2 as [| ? c ? cs' Lp F2']; subst; simpl; [lia |].
    inversion Nd as [| ? ? Nin Nd']; subst.
    assert (F2r : Forall2 (fun q c => lookup q (remove_file D p l) = Some c) ps cs').
    { clear - F2' Nin. induction F2' as [| q c qs cs Hq F IHF]; constructor.
      - rewrite lookup_remove_other; [exact Hq | intros ->; apply Nin; left; reflexivity].
      - apply IHF. intros X. apply Nin. right. exact X. }
    specialize (IH _ _ Nd' F2r). pose proof (ftotal_remove _ _ _ Lp). rewrite app_length. lia.
  Qed.

  Lemma wsize_data (h : list wcursor) : wsize h = length (concat (map wdata h)).
  Proof.
    induction h as [| c h IH]; [reflexivity |].
    change (concat (map wdata (c :: h))) with (wdata c ++ concat (map wdata h)).
    rewrite app_length, <- IH. unfold wdata. simpl. reflexivity.
  Qed.

  (* ---------- the data invariant of an untainted sorter ---------- *)
  Definition regs (s : wsorter) (w : world) (cs : list (list D)) : Prop :=
    Forall2 (fun p c => lookup p (files D w) = Some c) (wpaths s) cs.

  Definition DI (s : wsorter) (w : world) (ds : list D) : Prop :=
    tainted K D s = false /\ NoDup (wpaths s) /\ (forall p, In p (wpaths s) -> (p < nx w)%nat) /\
    Forall good_entry (wstash s) /\ Forall good_d ds /\
    exists cs, regs s w cs /\ Permutation (concat cs ++ map snd (wstash s)) ds.

  Lemma DI_new c al f : DI (wnew K D c al) (world0 D f) [].
  Proof.
    unfold DI, regs. simpl. repeat split; try constructor; try (intros p []).
    exists []. split; constructor.
  Qed.

  Notation WI2 := (WI2 K D).

  Lemma sort_perm (l l' : list (K * D)) : sort_entries K D lt pick_min l = Some l' -> Permutation l' l.
  Proof.
    intros H. destruct (sort_entries_ok K D lt pick_min lt_swo pick_ok l) as (l2 & Hs & Hp & _).
    rewrite H in Hs. inversion Hs; subst. exact Hp.
  Qed.

  (* a spill that returns normally keeps the data: it moves the stash into a new registered file *)
  Lemma spill_DI (s : wsorter) (w : world) ds s' w' : WI2 s w -> DI s w ds -> w_spill s w = (None, s', w') ->
    DI s' w' ds /\ wstash s' = [] /\ walways K D s' = walways K D s /\
    ftotal (files D w') = (ftotal (files D w) + length (wstash s))%nat.
  Proof.
    intros I2 (Ht & Nd & Pn & Gs & Gd & cs & Rg & Pm) H.
    pose proof (spill_f K D lt pick_min s w None s' w' H) as ((Nx & _) & _).
    destruct (spill_data _ _ _ _ H) as [(Es & -> & ->) | (Ne & l & Hs & Es' & Ep & Et & _ & Eal & Ef & Nx')].
    - split; [| split; [exact Es | split; [reflexivity | rewrite Es; simpl; lia]]].
      unfold DI. repeat split; try assumption. exists cs. split; assumption.
    - pose proof (sort_perm _ _ Hs) as Pl.
      destruct I2 as ((Hi & _) & _).
      assert (Fresh : ~ In (nx w) (map fst (files D w))).
      { intros X. apply Hi in X. apply Pn in X. lia. }
      assert (Lnew : lookup (nx w) (files D w') = Some (map snd l)).
      { rewrite Ef. rewrite (lookup_append_all_same _ _ _ [] (lookup_snoc_new _ _ Fresh)). reflexivity. }
      split; [| split; [exact Es' | split; [exact Eal |]]].
      + unfold DI. rewrite Es', Ep, Et. split; [exact Ht |]. split.
        { eapply Permutation_NoDup; [apply Permutation_cons_append |]. constructor; [| exact Nd].
          intros X. apply Pn in X. lia. }
        split.
        { intros p Hp. apply in_app_or in Hp. destruct Hp as [Hp | [<- | []]]; [apply Pn in Hp |]; lia. }
        split; [constructor |]. split; [exact Gd |].
        exists (cs ++ [map snd l]). split.
        * unfold regs. rewrite Ep. apply Forall2_app; [| constructor; [exact Lnew | constructor]].
          clear - Rg Pn Ef. unfold regs in Rg. revert Pn. induction Rg as [| p c ps cs0 Hp F IH]; intros Pn; constructor.
          -- rewrite Ef. rewrite lookup_append_all_other; [apply lookup_snoc_old; exact Hp |].
             specialize (Pn p (or_introl eq_refl)). lia.
          -- apply IH. intros q Hq. apply Pn. right. exact Hq.
        * simpl. rewrite app_nil_r, concat_app. simpl. rewrite app_nil_r.
          eapply Permutation_trans; [| exact Pm]. apply Permutation_app_head. apply Permutation_map. exact Pl.
      + rewrite Ef. rewrite (ftotal_append_all _ _ _ [] (lookup_snoc_new _ _ Fresh)), ftotal_snoc, map_length.
        apply Permutation_length in Pl. rewrite Pl. reflexivity.
  Qed.

  Lemma add_DI (s : wsorter) x (w : world) ds s' w' : WI2 s w -> DI s w ds -> w_add s x w = (None, s', w') ->
    DI s' w' (ds ++ [enc x]) /\ walways K D s' = walways K D s.
  Proof.
    intros I2 DIs H. unfold SorterWorld.w_add in H.
    destruct (keyf x) as [k | ex] eqn:Hk; [| inversion H].
    destruct (wcap K D s <=? length (wstash s))%nat; [inversion H |].
    set (s1 := ws_stash K D s (wstash s ++ [(k, enc x)])) in *.
    assert (D1 : DI s1 w (ds ++ [enc x])).
    { destruct DIs as (Ht & Nd & Pn & Gs & Gd & cs & Rg & Pm). unfold DI. simpl.
      repeat split; try assumption.
      - apply Forall_app. split; [exact Gs |]. constructor; [| constructor]. exists x. split; [exact Hk | reflexivity].
      - apply Forall_app. split; [exact Gd |]. constructor; [| constructor]. exists x, k. split; [exact Hk | reflexivity].
      - exists cs. split; [exact Rg |]. rewrite map_app. simpl. rewrite app_assoc. apply Permutation_app_tail. exact Pm. }
    assert (I1 : WI2 s1 w) by exact I2.
    destruct (length (wstash s1) =? wcap K D s)%nat.
    - destruct (spill_DI _ _ _ _ _ I1 D1 H) as (D' & _ & Eal & _). split; [exact D' | exact Eal].
    - inversion H; subst. split; [exact D1 | reflexivity].
  Qed.

  Lemma merge_files pulls : forall heap opn (w : world) r w1, w_merge pulls heap opn w = (r, w1) -> files D w1 = files D w.
  Proof.
    induction pulls as [| p IH]; intros heap opn w r w1 H; simpl in H.
    - inversion H; subst. reflexivity.
    - destruct heap as [| c0 h0]; [inversion H; subst; reflexivity |].
      destruct (pick_min _ _ (c0 :: h0)) as [[c rest] |]; [| inversion H; subst; reflexivity].
      destruct (w_advance (wh A K D c) (wrest A K D c) w) as [[[c' |] | x] wa] eqn:Ea;
        pose proof (advance_files _ _ _ _ _ Ea) as Fa.
      + destruct (w_merge p (c' :: rest) opn wa) as [[[ys0 st0] hs0] wb] eqn:Em. inversion H; subst.
        rewrite (IH _ _ _ _ _ Em). exact Fa.
      + destruct (w_merge p rest (remove_nat (wh A K D c) opn) wa) as [[[ys0 st0] hs0] wb] eqn:Em. inversion H; subst.
        rewrite (IH _ _ _ _ _ Em). exact Fa.
      + inversion H; subst. exact Fa.
  Qed.

  Lemma mclose_files hs : forall (w : world) err err' w1, w_mclose D hs w err = (err', w1) -> files D w1 = files D w.
  Proof.
    induction hs as [| h r IH]; intros w err err' w1 H; simpl in H; [inversion H; reflexivity |].
    destruct (w_close_r D h w) as [[u | e] wa] eqn:E; apply close_r_files in E; apply IH in H; congruence.
  Qed.

  (* the finally clause of the iteration touches no file and never swallows the pending exception *)
  Lemma finally_data (s : wsorter) ys e hs (w : world) ys' e' s' w' :
    w_finally A K D s ys e hs w = ((ys', e'), s', w') ->
    ys' = ys /\ s' = s /\ files D w' = files D w /\ (nx w <= nx w')%nat /\ (e' = None -> e = None).
  Proof.
    unfold SorterWorld.w_finally. destruct (w_mclose D hs w None) as [eo w1] eqn:E.
    pose proof (mclose_files _ _ _ _ _ E) as Fl. apply mclose_f in E. destruct E as (N & _).
    destruct eo; intros H; inversion H; subst; repeat split; auto; discriminate.
  Qed.

  (* a complete iteration that ends normally returns everything the sorter holds *)
  Lemma iter_all (s : wsorter) (w : world) ds ys s' w' :
    WI2 s w -> DI s w ds -> walways K D s = true ->
    w_iter s (S (total_items K D s w)) false w = ((ys, None), s', w') ->
    Permutation (map enc ys) ds /\ Forall (fun y => dec (enc y) = Ok y) ys /\ DI s' w' ds.
  Proof.
    intros I2 DIs Hal H. unfold SorterWorld.w_iter in H. rewrite Hal, Bool.orb_true_r in H.
    destruct (w_spill s w) as [[e1 s1] w1] eqn:E1. destruct e1 as [x |]; [inversion H |].
    destruct (spill_DI _ _ _ _ _ I2 DIs E1) as (D1 & Es1 & _ & Tot).
    destruct D1 as (Ht & Nd & Pn & Gs & Gd & cs & Rg & Pm).
    assert (Gcs : Forall (Forall good_d) cs).
    { apply Forall_forall. intros c Hc. apply Forall_forall. intros d Hd.
      rewrite Forall_forall in Gd. apply Gd. eapply Permutation_in; [exact Pm |].
      apply in_or_app. left. apply in_concat. exists c. split; assumption. }
    destruct (w_cursors (wpaths s1) w1) as [[heap | x] w2] eqn:E2; [| inversion H].
    pose proof (cursors_f A K D keyf dec eof _ _ _ _ E2) as (N2 & _).
    destruct (cursors_data _ _ _ _ _ E2 Rg Gcs) as (Md & Hok & Fl2).
    destruct (w_merge (S (total_items K D s w)) heap (map (wh A K D) heap) w2) as [[[ys3 st] hs] w3] eqn:E3.
    pose proof (merge_f A K D keyf lt dec pick_min eof _ _ _ _ _ _ _ _ E3) as (N3 & _).
    pose proof (merge_files _ _ _ _ _ _ E3) as Fl3.
    assert (Sz : (wsize heap < S (total_items K D s w))%nat).
    { rewrite wsize_data, Md. pose proof (regs_total _ _ _ Nd Rg) as X.
      unfold total_items. change (fold_right (fun p n => (length (snd p) + n)%nat) 0%nat (files D w)) with (ftotal (files D w)).
      lia. }
    assert (HF : exists e0, w_finally A K D s1 ys3 e0 hs w3 = ((ys, None), s', w') /\ (forall e, st <> MRaised e)).
    { destruct st as [| | e0].
      - exists None. split; [exact H | discriminate].
      - exists None. split; [exact H | discriminate].
      - exfalso. apply finally_data in H. destruct H as (_ & _ & _ & _ & X). specialize (X eq_refl). discriminate. }
    destruct HF as (e0 & HF & Hst). apply finally_data in HF. destruct HF as (-> & -> & Fl4 & N4 & _).
    destruct (merge_data _ _ _ _ _ _ _ _ E3 Hst Hok Sz) as (Pm3 & Fd & _). split; [| split; [exact Fd |]].
    - eapply Permutation_trans; [exact Pm3 |]. rewrite Md. rewrite Es1 in Pm. simpl in Pm. rewrite app_nil_r in Pm. exact Pm.
    - unfold DI. repeat split; try assumption.
      + intros p Hp. apply Pn in Hp. lia.
      + exists cs. split; [| exact Pm]. unfold regs in *. rewrite Fl4, Fl3, Fl2. exact Rg.
  Qed.

  (* ---------- failures that leave the data alone, or taint ---------- *)
  Lemma DI_frame (s : wsorter) (w w' : world) ds :
    DI s w ds -> files D w' = files D w -> (nx w <= nx w')%nat -> DI s w' ds.
  Proof.
    intros (Ht & Nd & Pn & Gs & Gd & cs & Rg & Pm) Fl N. unfold DI, regs in *. rewrite Fl.
    repeat split; try assumption. - intros p Hp. apply Pn in Hp. lia. - exists cs. split; assumption.
  Qed.

  Lemma spill_fail (s : wsorter) (w : world) e s' w' : w_spill s w = (Some e, s', w') ->
    tainted K D s' = true \/ (s' = s /\ files D w' = files D w /\ (nx w <= nx w')%nat).
  Proof.
    intros H. pose proof (spill_f K D lt pick_min _ _ _ _ _ H) as ((Nx & _) & _).
    unfold SorterWorld.w_spill in H.
    destruct (wstash s) as [| e0 st]; [inversion H |].
    destruct (w_mkstemp D w) as [[id | x] w1] eqn:E1.
    2: { inversion H; subst. right. split; [reflexivity |]. split; [| exact Nx].
         unfold w_mkstemp in E1. destruct (tick D CMkstemp w) as [[b |] w0] eqn:T; inversion E1; subst.
         apply (tick_files _ _ _ _ T). }
    left.
    destruct (w_open_w D id w1) as [[u | x] w2]; [| inversion H; subst; reflexivity].
    destruct (sort_entries K D lt pick_min (wstash (ws_register K D s id))) as [l |].
    2: { destruct (w_close_w D id w2) as [[u3 | x3] w3]; inversion H; subst; reflexivity. }
    destruct (write_all D id (map snd l) w2) as [[x |] w3].
    - destruct (w_close_w D id w3) as [[u4 | x4] w4]; inversion H; subst; reflexivity.
    - destruct (w_close_w D id w3) as [[u4 | x4] w4]; inversion H; subst; reflexivity.
  Qed.

  Lemma cursors_files paths : forall (w : world) r w1, w_cursors paths w = (r, w1) -> files D w1 = files D w.
  Proof.
    induction paths as [| p ps IH]; intros w r w1 H; simpl in H.
    - inversion H; subst. reflexivity.
    - destruct (w_open_r D p w) as [[[h c] | x] wa] eqn:E1; apply open_r_files in E1; destruct E1 as (Fa & _).
      2: { inversion H; subst. exact Fa. }
      destruct (w_advance h c wa) as [[[cu |] | x] wb] eqn:E2; apply advance_files in E2.
      + destruct (w_cursors ps wb) as [[l | x] wc] eqn:E3; apply IH in E3; inversion H; subst; congruence.
      + inversion H; subst. congruence.
      + inversion H; subst. congruence.
  Qed.

  (* an iteration that ends with an exception leaves the data where it was, unless the sorter is tainted *)
  Lemma iter_fail (s : wsorter) p keep (w : world) ds ys e s' w' :
    WI2 s w -> DI s w ds -> walways K D s = true -> w_iter s p keep w = ((ys, Some e), s', w') ->
    tainted K D s' = true \/ (DI s' w' ds /\ walways K D s' = true).
  Proof.
    intros I2 DIs Hal H. unfold SorterWorld.w_iter in H. destruct p as [| p]; [inversion H |].
    rewrite Hal, Bool.orb_true_r in H.
    destruct (w_spill s w) as [[e1 s1] w1] eqn:E1. destruct e1 as [x |].
    - inversion H; subst. destruct (spill_fail _ _ _ _ _ E1) as [T | (-> & Fl & N)]; [left; exact T | right].
      split; [eapply DI_frame; eauto | exact Hal].
    - destruct (spill_DI _ _ _ _ _ I2 DIs E1) as (D1 & _ & Eal & _). right.
      assert (Fin : forall w2, files D w2 = files D w1 -> (nx w1 <= nx w2)%nat -> DI s1 w2 ds /\ walways K D s1 = true).
      { intros w2 Fl N. split; [| congruence]. eapply DI_frame; [exact D1 | exact Fl | exact N]. }
      destruct (w_cursors (wpaths s1) w1) as [[heap | x] w2] eqn:E2;
        pose proof (cursors_files _ _ _ _ E2) as Fl2; pose proof (cursors_f A K D keyf dec eof _ _ _ _ E2) as (N2 & _).
      2: { inversion H; subst. apply Fin; [exact Fl2 | exact N2]. }
      destruct (w_merge (S p) heap (map (wh A K D) heap) w2) as [[[ys3 st] hs] w3] eqn:E3.
      pose proof (merge_files _ _ _ _ _ _ E3) as Fl3. pose proof (merge_f A K D keyf lt dec pick_min eof _ _ _ _ _ _ _ _ E3) as (N3 & _).
      assert (FinF : forall e0, w_finally A K D s1 ys3 e0 hs w3 = ((ys, Some e), s', w') -> DI s' w' ds /\ walways K D s' = true).
      { intros e0 HF. apply finally_data in HF. destruct HF as (_ & -> & Fl4 & N4 & _). apply Fin; [congruence | lia]. }
      destruct st as [| | e0]; [eapply FinF; exact H | | eapply FinF; exact H].
      destruct keep; [inversion H | eapply FinF; exact H].
  Qed.

  (* ---------- MafWriter ---------- *)
  Notation wwriter := (wwriter A K D).
  Notation wr_add := (wr_add A K D keyf lt enc pick_min).
  Notation wr_adds := (wr_adds A K D keyf lt enc pick_min).
  Notation wr_close := (wr_close A K D keyf lt dec pick_min eof).
  Notation wsr := (ws A K D).
  Notation wout := (wout A K D).

  Definition is_ok (o : outcome) : bool := match o with OOk => true | _ => false end.
  (* the records whose `writer += record` returned normally *)
  Fixpoint oks (xs : list A) (ao : list outcome) : list A :=
    match xs, ao with
    | x :: xr, o :: ar => (if is_ok o then [x] else []) ++ oks xr ar
    | _, _ => []
    end.

  (* while records are being written: nothing is in the output yet; every record written so far is
     in the sorter (stash or registered files), unless a spill failed half way (tainted) *)
  Definition adds_inv (wr : wwriter) (w : world) (W : list A) : Prop :=
    WI2 (wsr wr) w /\ wout wr = [] /\
    (tainted K D (wsr wr) = true \/
     (walways K D (wsr wr) = true /\ exists ds, DI (wsr wr) w ds /\ incl (map enc W) ds)).

  Lemma adds_inv_new c f : adds_inv (wr_new A K D c) (world0 D f) [].
  Proof.
    split; [apply WI2_new |]. split; [reflexivity |]. right. split; [reflexivity |].
    exists []. split; [apply DI_new | intros x []].
  Qed.

  Lemma wr_add_inv (wr : wwriter) x (w : world) W o wr' w' :
    adds_inv wr w W -> wr_add wr x w = (o, wr', w') ->
    adds_inv wr' w' (W ++ (if is_ok o then [x] else [])).
  Proof.
    intros (I2 & Ho & St) H. unfold SorterWorld.wr_add in H.
    destruct (tainted K D (wsr wr)) eqn:Ht.
    { inversion H; subst. simpl. rewrite app_nil_r. split; [exact I2 |]. split; [exact Ho |]. left. exact Ht. }
    destruct St as [T | (Hal & ds & DIs & Inc)]; [congruence |].
    destruct (w_add (wsr wr) x w) as [[e s1] w1] eqn:E. inversion H; subst. simpl.
    pose proof (add_WI2 A K D keyf lt enc pick_min _ _ _ _ _ _ I2 E) as I1.
    split; [exact I1 |]. split; [exact Ho |].
    destruct e as [ex |]; simpl.
    - (* the add raised *)
      rewrite app_nil_r. unfold SorterWorld.w_add in E.
      destruct (keyf x) as [k | e0] eqn:Hk.
      2: { inversion E; subst. right. split; [exact Hal |]. exists ds. split; assumption. }
      destruct (wcap K D (wsr wr) <=? length (wstash (wsr wr)))%nat.
      { inversion E; subst. right. split; [exact Hal |]. exists ds. split; assumption. }
      set (s0 := ws_stash K D (wsr wr) (wstash (wsr wr) ++ [(k, enc x)])) in *.
      assert (D0 : DI s0 w (ds ++ [enc x])).
      { destruct DIs as (Ht0 & Nd & Pn & Gs & Gd & cs & Rg & Pm). unfold DI. simpl.
        repeat split; try assumption.
        - apply Forall_app. split; [exact Gs |]. constructor; [| constructor]. exists x. split; [exact Hk | reflexivity].
        - apply Forall_app. split; [exact Gd |]. constructor; [| constructor]. exists x, k. split; [exact Hk | reflexivity].
        - exists cs. split; [exact Rg |]. rewrite map_app. simpl. rewrite app_assoc. apply Permutation_app_tail. exact Pm. }
      destruct (length (wstash s0) =? wcap K D (wsr wr))%nat; [| inversion E].
      destruct (spill_fail _ _ _ _ _ E) as [T | (-> & Fl & N)]; [left; exact T | right].
      split; [exact Hal |]. exists (ds ++ [enc x]). split; [eapply DI_frame; eauto |].
      intros y Hy. apply in_or_app. left. apply Inc. exact Hy.
    - right. destruct (add_DI _ _ _ _ _ _ I2 DIs E) as (D1 & Eal). split; [congruence |].
      exists (ds ++ [enc x]). split; [exact D1 |]. rewrite map_app. simpl.
      intros y Hy. apply in_app_or in Hy. apply in_or_app. destruct Hy as [Hy | Hy]; [left; apply Inc; exact Hy | right; exact Hy].
  Qed.

  Lemma wr_adds_inv xs : forall (wr : wwriter) (w : world) W ao wr' w',
    adds_inv wr w W -> wr_adds wr xs w = (ao, wr', w') -> adds_inv wr' w' (W ++ oks xs ao).
  Proof.
    induction xs as [| x r IH]; intros wr w W ao wr' w' Inv H; simpl in H.
    - inversion H; subst. simpl. rewrite app_nil_r. exact Inv.
    - destruct (wr_add wr x w) as [[o wr1] w1] eqn:E. pose proof (wr_add_inv _ _ _ _ _ _ _ Inv E) as Inv1.
      destruct (is_raise o) eqn:R.
      + inversion H; subst. simpl. destruct o; simpl in *; try discriminate.
        replace (oks r []) with (@nil A) by (destruct r; reflexivity). rewrite !app_nil_r in *. exact Inv1.
      + destruct (wr_adds wr1 r w1) as [[l wr2] w2] eqn:E2. inversion H; subst. simpl.
        rewrite app_assoc. eapply IH; eauto.
  Qed.

  (* while the writer is being closed (possibly several times) *)
  Definition close_inv (wr : wwriter) (w : world) (W : list A) : Prop :=
    WI2 (wsr wr) w /\
    (tainted K D (wsr wr) = true \/ incl (map enc W) (map enc (wout wr)) \/
     (walways K D (wsr wr) = true /\ exists ds, DI (wsr wr) w ds /\ incl (map enc W) ds)).

  Lemma adds_close_inv wr w W : adds_inv wr w W -> close_inv wr w W.
  Proof. intros (I2 & _ & [T | X]); (split; [exact I2 |]); [left; exact T | right; right; exact X]. Qed.

  Lemma wr_close_inv (wr : wwriter) (w : world) W o wr' w' :
    close_inv wr w W -> wr_close wr w = (o, wr', w') ->
    close_inv wr' w' W /\ (o = OOk -> incl (map enc W) (map enc (wout wr'))).
  Proof.
    intros (I2 & St) H. pose proof (wr_close_WI2 A K D keyf lt dec pick_min eof _ _ _ _ _ I2 H) as I2'.
    unfold SorterWorld.wr_close in H. destruct (tainted K D (wsr wr)) eqn:Ht.
    { inversion H; subst. split; [split; [exact I2 | left; exact Ht] | discriminate]. }
    destruct (w_iter (wsr wr) (S (total_items K D (wsr wr) w)) false w) as [[[ys e] s1] w1] eqn:E.
    assert (Grow : incl (map enc W) (map enc (wout wr)) -> incl (map enc W) (map enc (wout wr ++ ys))).
    { intros Inc y Hy. rewrite map_app. apply in_or_app. left. apply Inc. exact Hy. }
    destruct St as [T | [Inc | (Hal & ds & DIs & Inc)]]; [congruence | |].
    - (* everything is in the output already *)
      destruct e as [x |].
      + inversion H; subst. split; [split; [exact I2' | right; left; simpl; apply Grow; exact Inc] | discriminate].
      + destruct (w_close s1 w1) as [[e2 s2] w2] eqn:E2.
        destruct e2; inversion H; subst; (split; [split; [exact I2' | right; left; simpl; apply Grow; exact Inc] |]);
          [discriminate | intros _; simpl; apply Grow; exact Inc].
    - destruct e as [x |].
      + inversion H; subst. split; [| discriminate]. split; [exact I2' |]. simpl.
        destruct (iter_fail _ _ _ _ _ _ _ _ _ I2 DIs Hal E) as [T | (D1 & Hal1)]; [left; exact T | right; right].
        split; [exact Hal1 |]. exists ds. split; assumption.
      + destruct (iter_all _ _ _ _ _ _ I2 DIs Hal E) as (Pm & _ & _).
        assert (All : incl (map enc W) (map enc (wout wr ++ ys))).
        { intros y Hy. rewrite map_app. apply in_or_app. right. apply Inc in Hy.
          eapply Permutation_in; [apply Permutation_sym; exact Pm | exact Hy]. }
        destruct (w_close s1 w1) as [[e2 s2] w2] eqn:E2.
        destruct e2; inversion H; subst; (split; [split; [exact I2' | right; left; exact All] |]);
          [discriminate | intros _; exact All].
  Qed.

  (* any number of calls of MafWriter.close *)
  Inductive closes : wwriter -> world -> wwriter -> world -> Prop :=
  | closes_nil wr w : closes wr w wr w
  | closes_step wr w o wr1 w1 wr2 w2 : wr_close wr w = (o, wr1, w1) -> closes wr1 w1 wr2 w2 -> closes wr w wr2 w2.

  Lemma closes_inv wr w wr' w' W : closes wr w wr' w' -> close_inv wr w W -> close_inv wr' w' W.
  Proof.
    induction 1 as [| wr w o wr1 w1 wr2 w2 Hc _ IH]; intros Inv; [exact Inv |].
    apply IH. destruct (wr_close_inv _ _ _ _ _ _ Inv Hc) as (X & _). exact X.
  Qed.

  (* (c) whenever MafWriter.close returns normally - at the first call or after any number of failed
     calls - the output holds every record that was written *)
  Theorem writer_complete c f xs ao wr w wra wa wr' w' :
    wr_adds (wr_new A K D c) xs (world0 D f) = (ao, wr, w) ->
    closes wr w wra wa -> wr_close wra wa = (OOk, wr', w') ->
    incl (map enc (oks xs ao)) (map enc (wout wr')).
  Proof.
    intros Ha Hcs Hc.
    pose proof (wr_adds_inv xs _ _ [] _ _ _ (adds_inv_new c f) Ha) as Inv. simpl in Inv.
    pose proof (closes_inv _ _ _ _ _ Hcs (adds_close_inv _ _ _ Inv)) as Inv'.
    destruct (wr_close_inv _ _ _ _ _ _ Inv' Hc) as (_ & X). exact (X eq_refl).
  Qed.

  Lemma adds_all_ok xs : forall (wr0 : wwriter) (w0 : world) ds ao wr w,
      WI2 (wsr wr0) w0 -> DI (wsr wr0) w0 ds -> walways K D (wsr wr0) = true ->
      wr_adds wr0 xs w0 = (ao, wr, w) -> Forall (fun o => o = OOk) ao ->
      WI2 (wsr wr) w /\ DI (wsr wr) w (ds ++ map enc xs) /\ walways K D (wsr wr) = true /\ wout wr = wout wr0.
  Proof.
    induction xs as [| x r IH]; intros wr0 w0 ds ao wr w I2 DIs Hal H Hok; simpl in H.
    - inversion H; subst. rewrite app_nil_r. auto.
    - destruct (wr_add wr0 x w0) as [[o wr1] w1] eqn:E.
      assert (Ho : o = OOk).
      { destruct (is_raise o); [inversion H; subst; inversion Hok; assumption |].
        destruct (wr_adds wr1 r w1) as [[l wr2] w2]. inversion H; subst. inversion Hok; assumption. }
      subst o. simpl in H. destruct (wr_adds wr1 r w1) as [[l wr2] w2] eqn:E2. inversion H; subst.
      inversion Hok; subst.
      unfold SorterWorld.wr_add in E. destruct DIs as (Ht & Rest). rewrite Ht in E.
      destruct (w_add (wsr wr0) x w0) as [[e s1] w1'] eqn:Ea. inversion E; subst.
      destruct e; [discriminate |].
      pose proof (add_WI2 A K D keyf lt enc pick_min _ _ _ _ _ _ I2 Ea) as I1.
      destruct (add_DI _ _ _ _ _ _ I2 (conj Ht Rest) Ea) as (D1 & Eal).
      destruct (IH (mkWWriter A K D s1 (wout wr0) (whclosed A K D wr0)) _ _ _ _ _ I1 D1 ltac:(simpl; congruence) E2 H3) as (A1 & A2 & A3 & A4).
      simpl in *. rewrite <- app_assoc in A2. auto.
  Qed.

  (* when every add and the first close return normally, the output is exactly the records written *)
  Theorem writer_complete_first c f xs ao wr w wr' w' :
    wr_adds (wr_new A K D c) xs (world0 D f) = (ao, wr, w) -> Forall (fun o => o = OOk) ao ->
    wr_close wr w = (OOk, wr', w') ->
    Permutation (map enc (wout wr')) (map enc xs) /\ Forall (fun y => dec (enc y) = Ok y) (wout wr').
  Proof.
    intros Ha Hok Hc.
    destruct (adds_all_ok xs (wr_new A K D c) _ [] _ _ _ (WI2_new K D c true f) (DI_new c true f) eq_refl Ha Hok) as (I2 & DIs & Hal & Ho).
    simpl in DIs, Ho.
    unfold SorterWorld.wr_close in Hc. destruct DIs as (Ht & Rest). rewrite Ht in Hc.
    destruct (w_iter (wsr wr) (S (total_items K D (wsr wr) w)) false w) as [[[ys e] s1] w1] eqn:E.
    destruct e as [x |]; [inversion Hc |].
    destruct (iter_all _ _ _ _ _ _ I2 (conj Ht Rest) Hal E) as (Pm & Fd & _).
    destruct (w_close s1 w1) as [[e2 s2] w2]. destruct e2; inversion Hc; subst. simpl. rewrite Ho. simpl.
    split; assumption.
  Qed.

End Data.
