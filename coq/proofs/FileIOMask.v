(* FileIOMask.v - C05 at reader level: under a scheme one of whose columns
   only admits its null value (a germline column of a public / masked layout:
   RequireNullValue mixed over the base class), every record MafReader yields -
   whatever the stringency, whether the scheme was selected by the pragmas or
   forced - holds in that column nothing or the null value, rendering as the
   empty text; and a Strict reader stops with the format exception at the
   first data line carrying a non-empty text there.
   Part 1 is generic over the column semantics (the three facts about the
   column's class are hypotheses); part 2 instantiates it with the concrete
   columns (model/ColsemColumns.v) for the masked layouts, tables abstract;
   the concrete instance is made once at the end. *)
From Coq Require Import String.
From MafVerif Require Import lib.Base lib.Str lib.PyInt gen.GenClasses
  model.Classes model.Columns model.Layouts model.RecordOps model.Validation model.Header
  model.RecordParse model.Reader model.ColsemColumns spec.SpecModes spec.SpecLayouts
  proofs.RecordFacts proofs.HeaderSpec proofs.ReaderModes proofs.ReaderTotal
  proofs.LayoutFacts proofs.ColumnFacts proofs.MaskFacts proofs.RenderFacts2
  proofs.FileIOText proofs.FileIORecord proofs.FileIOParsed.

(* ---------- what a successful __setitem__ stores ---------- *)
Ltac setitem_shape_fin :=
  eexists; eexists; split; [|split; [|split]]; [ | | reflexivity | reflexivity]; reflexivity.

Lemma setitem_ok_shape {V} (r r' : rec V) k (c : col V) :
  setitem r k c = (r', Ok tt) ->
  exists c2 n, ckey c2 = ckey c /\ cval c2 = cval c /\
    rdict r' = dset (ckey c) c2 (rdict r) /\ rlist r' = lset n (Some c2) (pad (rlist r) (S n)).
Proof.
  unfold setitem. intros H.
  repeat match type of H with
         | (let '(_, _) := ?x in _) = _ => destruct x
         | context [match ?x with _ => _ end] =>
             match x with
             | context [match _ with _ => _ end] => fail 1
             | _ => destruct x eqn:?
             end
         end; try discriminate;
  injection H as <-;
  setitem_shape_fin.
Qed.

Lemma in_dset_weak {V} (d : list (str * V)) name v k x : In (k, x) (dset name v d) -> (k, x) = (name, v) \/ In (k, x) d.
Proof.
  induction d as [|[k' v'] d IH]; cbn [dset In].
  - intros [H|[]]. left. now symmetry.
  - destruct (str_eqb name k').
    + intros [H|H]; [left; now symmetry|right; now right].
    + intros [H|H]; [right; now left|]. destruct (IH H); [now left|right; now right].
Qed.

Lemma in_lset {X} (l0 : list (option X)) (x y : X) : forall n0,
  In (Some y) (lset n0 (Some x) l0) -> y = x \/ In (Some y) l0.
Proof.
  induction l0 as [|z l0 IH]; intros n0 H; [destruct n0; destruct H|].
  destruct n0; cbn [lset In] in H.
  - destruct H as [H|H]; [left; congruence|right; now right].
  - destruct H as [H|H]; [right; now left|]. destruct (IH _ H); [now left|right; now right].
Qed.

Lemma in_lset_pad {X} (l : list (option (col X))) n m (x y : col X) :
  In (Some y) (lset n (Some x) (pad l m)) -> y = x \/ In (Some y) l.
Proof.
  intros H. apply in_lset in H as [H|H]; [now left|]. unfold pad in H.
  apply in_app_or in H as [H|H]; [now right|]. apply repeat_spec in H. discriminate.
Qed.

(* ====================================================================== *)
(* part 1: any column semantics                                            *)
(* ====================================================================== *)
Section MustBeNull.
  Context {C W : Type}.
  Variable sem : colsem C W.
  Notation cls := (cls C).
  Notation scheme := (scheme cls).
  Notation mrec := (mrec C W).
  Notation payload := (payload C W).
  Notation pvalue := (pvalue C W).
  Notation column := (col payload).
  Variable registry : list scheme.
  Context {K : Type}.
  Variable key_of : sorder -> list str -> rec payload -> res K.
  Variable key_lt : K -> K -> bool.

  (* the scheme, the guarded column, its class and the class's null value *)
  Variable s : scheme.
  Variable g : str.
  Variable k0 : C.
  Variable vnull : W.
  Hypothesis s_true : s_truthy s = true.
  Hypothesis g_class : s_class s g = Some (CTyped k0).
  (* the class only validates its null value, which renders as the empty
     text and is built from the empty text only *)
  Hypothesis only_null : forall t v, cs_build sem k0 t = Some v -> cs_invalid sem k0 v = false -> v = vnull.
  Hypothesis null_text : cs_str sem k0 vnull = Some [].
  Hypothesis null_from_empty : forall t, cs_build sem k0 t = Some vnull -> cs_invalid sem k0 vnull = false -> t = [].

  (* a stored column named g holds the null value *)
  Definition guarded (np : str * pvalue) : Prop := fst np = g -> snd np = PTyped k0 vnull.
  Definition rec_guarded (r : rec payload) : Prop :=
    (forall c, In (Some c) (rlist r) -> guarded (cell_of c)) /\
    (forall k c, In (k, c) (rdict r) -> guarded (cell_of c)).

  Lemma from_line_loop_guarded ln : forall nvs i (r : rec payload) errs r' errs',
    rec_guarded r ->
    from_line_loop sem i nvs (Some s) ln r errs = Ok (r', errs') -> rec_guarded r'.
  Proof.
    induction nvs as [|[name text] rest IH]; intros i r errs r' errs' Hg H; cbn [from_line_loop] in H.
    - now injection H as <- _.
    - rewrite s_true in H.
      set (built := match s_class s name with
                    | None | Some CPlain => Some (PPlain text)
                    | Some (CTyped k) => option_map (PTyped k) (cs_build sem k text)
                    end) in H.
      destruct built as [p|] eqn:Eb; [|eapply IH; eauto].
      match type of H with context [column_validate sem ?c true (Some s) ln] =>
        set (c0 := c) in H; destruct (column_validate sem c0 true (Some s) ln) as [|ce0 ce] eqn:ECV end;
        [|eapply IH; eauto].
      destruct (setitem r (KStr name) (with_perrs c0 [])) as [r1 [[]|e]] eqn:ES; [|discriminate].
      apply (IH _ r1 _ _ _) in H; [exact H|].
      destruct (setitem_ok_shape _ _ _ _ ES) as (c2 & n & Hk & Hv & Hd & Hl).
      assert (Hc2 : guarded (cell_of c2)).
      { unfold guarded, cell_of. rewrite Hk, Hv. cbn [with_perrs ckey cval pv fst snd]. subst c0. cbn [ckey cval pv].
        intros ->. subst built. rewrite g_class in Eb.
        destruct (cs_build sem k0 text) as [w|] eqn:Ew; [|discriminate]. injection Eb as <-.
        apply column_validate_nil_clean in ECV. destruct ECV as (_ & Hinv & _). cbn [with_perrs cval pv] in Hinv.
        now rewrite (only_null text w Ew Hinv). }
      destruct Hg as [Hg1 Hg2]. split.
      + intros c Hin. rewrite Hl in Hin. apply in_lset_pad in Hin as [->|Hin]; [exact Hc2|auto].
      + intros k c Hin. rewrite Hd in Hin. apply in_dset_weak in Hin as [E|Hin]; [injection E as _ ->; exact Hc2|eauto].
  Qed.

  Lemma rv_core_guarded ln (cols cols' : rec payload) errs errs' reset sch :
    rec_guarded cols -> rv_core sem ln cols errs reset sch = Ok (cols', errs') -> rec_guarded cols'.
  Proof.
    intros [Hg1 Hg2] H. unfold rv_core in H.
    destruct (validate_slots sem (rlist cols) 0 reset sch ln) as [[es fn] sl'] eqn:EV.
    injection H as <- _. pose proof (validate_slots_cells sem sch reset ln _ _ _ _ _ EV) as Ecells. split.
    - cbn [rlist]. intros c Hin.
      assert (Hin' : In (Some (cell_of c)) (map (option_map (@cell_of C W)) sl'))
        by (apply in_map_iff; exists (Some c); auto).
      rewrite Ecells in Hin'. apply in_map_iff in Hin' as ([c'|] & E & Hc'); [|discriminate].
      cbn [option_map] in E. assert (E' : cell_of c' = cell_of c) by congruence.
      rewrite <- E'. exact (Hg1 c' Hc').
    - cbn [rdict]. intros k c Hin. apply in_map_iff in Hin as ([k' c'] & E & Hc'). cbn [fst snd] in E.
      injection E as _ <-. rewrite cell_of_with_perrs. eauto.
  Qed.

  Lemma empty_guarded : rec_guarded (@empty_rec payload).
  Proof. split; cbn; tauto. Qed.

  (* MafRecord.from_line under s, any stringency, any line *)
  Theorem from_line_guarded line ln m lg l (r : mrec) :
    from_line sem line None (Some s) ln (Some m) lg = (l, Ok r) -> rec_guarded (mcols r).
  Proof.
    intros H. rewrite from_line_unfold in H. unfold finish in H.
    destruct (fl_core sem line None (Some s) ln) as [[cols errs]|e] eqn:EF; [|discriminate].
    apply obind_process_ok in H. subst r. cbn [mk_mrec mcols].
    unfold fl_core in EF.
    destruct (negb (Nat.eqb (length (s_names s)) (length (split TAB (rstrip_crlf line))))).
    { eapply rv_core_guarded; [apply empty_guarded|exact EF]. }
    destruct (from_line_loop sem 0 (zip (s_names s) (split TAB (rstrip_crlf line))) (Some s) ln empty_rec [])
      as [[cols0 errs0]|e] eqn:EL; [|discriminate].
    eapply rv_core_guarded; [|exact EF]. eapply from_line_loop_guarded; [apply empty_guarded|exact EL].
  Qed.

  (* what the guard means for an accessor: the column renders as the empty text *)
  Lemma guarded_text (c : column) :
    guarded (cell_of c) -> ckey c = g -> pv (cval c) = PTyped k0 vnull /\ col_text sem (pv (cval c)) = Some [].
  Proof. intros H Hk. specialize (H Hk). cbn [cell_of snd] in H. rewrite H. split; [reflexivity|exact null_text]. Qed.

  (* ---------- every record a reader yields ---------- *)
  Notation iterate := (iterate sem key_of key_lt).

  Lemma iterate_recs_from_line (sch : option scheme) m o cs : forall pending cur n last r,
    In r (tr_recs (iterate cur n pending sch m o cs last)) ->
    exists line ln lg, from_line sem line None sch ln (Some m) LgRoot = (lg, Ok r).
  Proof.
    induction pending as [|l pending IH]; intros cur n last r Hin; rewrite iterate_eq in Hin;
      destruct (from_line sem cur None sch (Some n) (Some m) LgRoot) as [lg [r0|e]] eqn:EF;
      try (cbn in Hin; contradiction);
      destruct (check_order key_of key_lt o cs last r0); try (cbn in Hin; contradiction).
    - cbn in Hin. destruct Hin as [<-|[]]. eauto.
    - unfold tr_recs in Hin. cbn [fst snd] in Hin. destruct Hin as [<-|Hin]; [eauto|].
      eapply IH. exact Hin.
  Qed.

  Theorem reader_records_guarded lines m override rd r :
    let rn := read_run sem registry key_of key_lt lines m override in
    run_init rn = Ok rd -> rd_scheme rd = Some s -> In r (run_recs rn) -> rec_guarded (mcols r).
  Proof.
    cbv zeta. unfold read_run.
    destruct (reader_init registry lines m override) as [lg [rd0|e]]; [|discriminate].
    destruct (reader_iterate sem key_of key_lt rd0) as [[[lg' rs] e] es] eqn:EI. cbn [run_init run_recs].
    intros H Hs Hin. injection H as ->.
    unfold reader_iterate in EI. destruct (rd_next rd) as [cur|]; [|injection EI as _ <- _ _; destruct Hin].
    destruct (h_sort_order (hrecs (rd_header rd))) as [o cs].
    assert (Hin' : In r (tr_recs (iterate cur (rd_lineno rd) (rd_pending rd) (rd_scheme rd) (rd_mode rd) o cs None)))
      by (rewrite EI; exact Hin).
    apply iterate_recs_from_line in Hin' as (line & ln & lg0 & HF). rewrite Hs in HF.
    eapply from_line_guarded; eauto.
  Qed.

  (* ---------- Strict: an offending line stops the run ---------- *)
  (* the line has a non-empty text at a position named g *)
  Definition offending (line : str) : Prop :=
    exists t, In (g, t) (zip (s_names s) (split TAB (rstrip_crlf line))) /\ t <> [].

  Lemma offending_rstrip line : offending line -> offending (rstrip_crlf line).
  Proof. unfold offending, rstrip_crlf. now rewrite rstrip_idem. Qed.

  Lemma from_line_loop_offending ln : forall nvs i (r : rec payload) errs r' errs' t,
    In (g, t) nvs -> t <> [] ->
    from_line_loop sem i nvs (Some s) ln r errs = Ok (r', errs') -> errs' <> [].
  Proof.
    assert (Mono : forall nvs i (r : rec payload) errs r' errs',
              from_line_loop sem i nvs (Some s) ln r errs = Ok (r', errs') -> errs <> [] -> errs' <> []).
    { induction nvs as [|[name text] rest IH]; intros i r errs r' errs' H Hne; cbn [from_line_loop] in H.
      - now injection H as _ <-.
      - destruct (match (if s_truthy s then s_class s name else None) with
                  | None | Some CPlain => Some (PPlain text)
                  | Some (CTyped k) => option_map (PTyped k) (cs_build sem k text)
                  end) as [p|].
        + match type of H with context [column_validate sem ?c true (Some s) ln] =>
            destruct (column_validate sem c true (Some s) ln) as [|ce0 ce] end.
          * destruct (setitem r (KStr name) _) as [r1 [[]|e]]; [|discriminate].
            eapply IH; [exact H|]. now rewrite app_nil_r.
          * eapply IH; [exact H|]. destruct errs; [congruence|discriminate].
        + eapply IH; [exact H|]. destruct errs; [congruence|discriminate]. }
    induction nvs as [|[name text] rest IH]; intros i r errs r' errs' t Hin Hne H; [destruct Hin|].
    cbn [from_line_loop] in H. rewrite s_true in H. destruct Hin as [E|Hin].
    - injection E as -> ->. rewrite g_class in H.
      destruct (cs_build sem k0 t) as [w|] eqn:Ew; cbn [option_map] in H.
      + match type of H with context [column_validate sem ?c true (Some s) ln] =>
          destruct (column_validate sem c true (Some s) ln) as [|ce0 ce] eqn:ECV end.
        * exfalso. apply column_validate_nil_clean in ECV. destruct ECV as (_ & Hinv & _).
          cbn [with_perrs cval pv] in Hinv. pose proof (only_null t w Ew Hinv) as ->.
          apply Hne. exact (null_from_empty t Ew Hinv).
        * eapply Mono; [exact H|]. destruct errs; discriminate.
      + eapply Mono; [exact H|]. destruct errs; discriminate.
    - destruct (match s_class s name with
                | None | Some CPlain => Some (PPlain text)
                | Some (CTyped k) => option_map (PTyped k) (cs_build sem k text)
                end) as [p|].
      + match type of H with context [column_validate sem ?c true (Some s) ln] =>
          destruct (column_validate sem c true (Some s) ln) as [|ce0 ce] end.
        * destruct (setitem r (KStr name) _) as [r1 [[]|e]]; [|discriminate]. eapply IH; eauto.
        * eapply IH; eauto.
      + eapply IH; eauto.
  Qed.

  Hypothesis s_nodup : NoDup (s_names s).

  (* a Strict from_line raises the format exception carrying the line's number *)
  Theorem strict_from_line_offending line ln lg :
    offending line ->
    exists tp lg', from_line sem line None (Some s) ln (Some Strict) lg = (lg', Raise (MafFormat tp ln)).
  Proof.
    intros (t & Hin & Hne). rewrite from_line_unfold. unfold finish.
    destruct (fl_core_total sem s line ln s_nodup) as (cols & errs & EF & Hat). rewrite EF.
    assert (Herrs : errs <> []).
    { unfold fl_core in EF.
      destruct (negb (Nat.eqb (length (s_names s)) (length (split TAB (rstrip_crlf line))))).
      - unfold rv_core in EF. destruct (validate_slots sem (rlist empty_rec) 0 false None ln) as [[es fn] sl'].
        injection EF as _ <-. discriminate.
      - destruct (from_line_loop sem 0 (zip (s_names s) (split TAB (rstrip_crlf line))) (Some s) ln empty_rec [])
          as [[cols0 errs0]|e] eqn:EL; [|discriminate].
        pose proof (from_line_loop_offending ln _ _ _ _ _ _ t Hin Hne EL) as H0.
        unfold rv_core in EF. destruct (validate_slots sem (rlist cols0) 0 false None ln) as [[es fn] sl'].
        injection EF as _ <-. destruct errs0; [congruence|discriminate]. }
    destruct errs as [|e0 errs]; [congruence|]. pose proof (Forall_inv Hat) as He0. cbv beta in He0.
    cbn [process obind]. rewrite He0. eexists _, _. reflexivity.
  Qed.

  (* the run: no record for the offending line or any later one; the run does
     not end normally; if every earlier line yielded a record, it ends with
     the format exception carrying the offending line's physical number *)
  Theorem iterate_strict_offending o cs : forall pending cur n last k line,
    nth_error (cur :: pending) k = Some line -> offending line ->
    let t := iterate cur n pending (Some s) Strict o cs last in
    (length (tr_recs t) <= k)%nat /\ tr_end t <> EndStop /\
    (length (tr_recs t) = k -> exists tp, tr_end t = EndRaise (MafFormat tp (Some (n + Z.of_nat k)))).
  Proof.
    induction pending as [|l pending IH]; intros cur n last k line Hk Hoff; cbv zeta; rewrite iterate_eq.
    - destruct k as [|k]; [|destruct k; discriminate]. cbn [nth_error] in Hk. injection Hk as ->.
      destruct (strict_from_line_offending line (Some n) LgRoot Hoff) as (tp & lg' & ->).
      unfold tr_recs, tr_end. cbn [fst snd length]. rewrite Z.add_0_r.
      split; [lia|]. split; [discriminate|]. eauto.
    - destruct k as [|k]; cbn [nth_error] in Hk.
      + injection Hk as ->.
        destruct (strict_from_line_offending line (Some n) LgRoot Hoff) as (tp & lg' & ->).
        unfold tr_recs, tr_end. cbn [fst snd length]. rewrite Z.add_0_r.
        split; [lia|]. split; [discriminate|]. eauto.
      + destruct (from_line sem cur None (Some s) (Some n) (Some Strict) LgRoot) as [lg [r0|e]].
        2:{ unfold tr_recs, tr_end. cbn [fst snd length]. split; [lia|]. split; [discriminate|]. intros E; discriminate. }
        destruct (check_order key_of key_lt o cs last r0).
        2:{ unfold tr_recs, tr_end. cbn [fst snd length]. split; [lia|]. split; [discriminate|]. intros E; discriminate. }
        assert (Hk' : exists line', nth_error (rstrip_crlf l :: pending) k = Some line' /\ offending line').
        { destruct k as [|k]; cbn [nth_error] in *.
          - injection Hk as ->. eexists. split; [reflexivity|now apply offending_rstrip].
          - eauto. }
        destruct Hk' as (line' & Hk' & Hoff').
        destruct (IH (rstrip_crlf l) (n + 1) (Some r0) k line' Hk' Hoff') as (I1 & I2 & I3).
        unfold tr_recs, tr_end in *. cbn [fst snd length]. split; [lia|]. split; [exact I2|].
        intros E. injection E as E. destruct (I3 E) as [tp Htp]. exists tp. rewrite Htp.
        replace (n + Z.of_nat (S k)) with (n + 1 + Z.of_nat k) by lia. reflexivity.
  Qed.

  Theorem reader_strict_offending lines override rd cur k line :
    let rn := read_run sem registry key_of key_lt lines (Some Strict) override in
    run_init rn = Ok rd -> rd_scheme rd = Some s -> rd_next rd = Some cur ->
    nth_error (cur :: rd_pending rd) k = Some line -> offending line ->
    (length (run_recs rn) <= k)%nat /\ run_end rn <> EndStop /\
    (length (run_recs rn) = k -> exists tp, run_end rn = EndRaise (MafFormat tp (Some (rd_lineno rd + Z.of_nat k)))).
  Proof.
    cbv zeta. unfold read_run.
    destruct (reader_init registry lines (Some Strict) override) as [lg [rd0|e]] eqn:ER; [|discriminate].
    destruct (reader_iterate sem key_of key_lt rd0) as [[[lg' rs] e] es] eqn:EI. cbn [run_init run_recs run_end].
    intros H Hs Hn Hk Hoff. injection H as ->.
    assert (Hmode : rd_mode rd = Strict).
    { rewrite reader_init_unfold in ER. cbv zeta in ER.
      destruct (process Strict LgRoot (ip_herrs (plan_of registry lines override))) as [l1 [[]|e1]]; [|discriminate].
      cbn [obind olog] in ER.
      destruct (process Strict LgReader (ip_errs (plan_of registry lines override))) as [l2 [[]|e2]]; [|discriminate].
      cbn in ER. injection ER as _ <-. reflexivity. }
    unfold reader_iterate in EI. rewrite Hn in EI.
    destruct (h_sort_order (hrecs (rd_header rd))) as [o cs]. rewrite Hs, Hmode in EI.
    pose proof (iterate_strict_offending o cs (rd_pending rd) cur (rd_lineno rd) None k line Hk Hoff) as T.
    cbv zeta in T. rewrite EI in T. unfold tr_recs, tr_end in T. cbn [fst snd] in T. exact T.
  Qed.
End MustBeNull.

(* ====================================================================== *)
(* part 2: the concrete columns and the masked layouts (tables abstract)   *)
(* ====================================================================== *)
Lemma assoc_map_typed (cols : list (str * cref)) n c :
  assoc n cols = Some c -> assoc n (map (fun nc => (fst nc, CTyped (snd nc))) cols) = Some (CTyped c).
Proof.
  induction cols as [|[k v] cols IH]; cbn [assoc map fst snd]; [discriminate|].
  destruct (str_eqb n k); [intros H; now injection H as ->|exact IH].
Qed.

Section Masked.
  Variable tbl : list class_info.
  Variable ls : list layout.
  Variable Or : oracles.
  Hypothesis Hmasked : forallb (germline_masked_in_g tbl ls) masked_layouts = true.
  Hypothesis Hnodup : forall l, In l ls -> NoDup (map fst (l_cols l)).
  Notation sem := (columns_sem tbl Or).
  Variable registry : list (scheme (cls cref)).
  Context {K : Type}.
  Variable key_of : sorder -> list str -> rec (payload cref pyval) -> res K.
  Variable key_lt : K -> K -> bool.

  (* the facts part 1 needs about a germline column of a masked layout *)
  Lemma germline_guard annot g l :
    In annot masked_layouts -> In g germline6 -> find_layout ls annot = Some l ->
    exists mix,
      s_truthy (scheme_of_layout l) = true /\
      s_class (scheme_of_layout l) (s2l g) = Some (CTyped mix) /\
      (forall t v, cs_build sem mix t = Some v -> cs_invalid sem mix v = false -> v = VNone) /\
      cs_str sem mix VNone = Some [] /\
      (forall t, cs_build sem mix t = Some VNone -> cs_invalid sem mix VNone = false -> t = []) /\
      NoDup (s_names (scheme_of_layout l)).
  Proof.
    intros Ha Hg Hl.
    destruct (germline_column_resolved_g tbl ls Hmasked annot g Ha Hg)
      as (l' & mix & base & rr & Hl' & Hassoc & _ & Hr & Hc & Hn & [rest Hv] & _ & He & Hb).
    rewrite Hl in Hl'. injection Hl' as <-. exists mix.
    assert (Hin : In l ls) by (unfold find_layout in Hl; apply find_some in Hl; tauto).
    split; [|split; [|split; [|split; [|split]]]].
    - unfold s_truthy, scheme_of_layout. cbn [s_cols]. destruct (l_cols l); [discriminate|reflexivity].
    - unfold s_class, scheme_of_layout. cbn [s_cols]. now apply assoc_map_typed.
    - cbn [cs_build cs_invalid columns_sem]. unfold cx_build, cx_invalid. rewrite Hr. intros t v Hbld Hinv.
      apply (null_none_only_none _ _ Hn). eapply rnv_valid_is_null; eauto.
    - cbn [cs_str columns_sem]. unfold cx_str. rewrite Hr. unfold col_str.
      now rewrite (empty_null_renders_empty _ Hn).
    - cbn [cs_build columns_sem]. unfold cx_build. rewrite Hr. intros t Hbld _.
      destruct (cls_build Or rr t) as [v|e] eqn:E; [|discriminate]. injection Hbld as ->.
      eapply only_empty_text_builds_none; eauto.
    - unfold s_names, scheme_of_layout. cbn [s_cols]. rewrite map_map. cbn [fst]. exact (Hnodup l Hin).
  Qed.

  (* (i) every stringency, scheme selected by the pragmas or forced: in every
     record the reader yields, a germline column is absent or holds the null
     value and renders as the empty text - in the slot list (iteration,
     str(record)) and in the name map (record[name], record.value(name)) *)
  Theorem masked_reader_exposes_only_null annot g l lines m override rd r :
    In annot masked_layouts -> In g germline6 -> find_layout ls annot = Some l ->
    let rn := read_run sem registry key_of key_lt lines m override in
    run_init rn = Ok rd -> rd_scheme rd = Some (scheme_of_layout l) -> In r (run_recs rn) ->
    (forall c, In (Some c) (rlist (mcols r)) -> ckey c = s2l g ->
       (exists mix, pv (cval c) = PTyped mix VNone) /\ col_text sem (pv (cval c)) = Some []) /\
    (forall k c, In (k, c) (rdict (mcols r)) -> ckey c = s2l g ->
       (exists mix, pv (cval c) = PTyped mix VNone) /\ col_text sem (pv (cval c)) = Some []).
  Proof.
    intros Ha Hg Hl rn Hinit Hs Hin.
    destruct (germline_guard annot g l Ha Hg Hl) as (mix & Ht & Hcls & Hnull & Hstr & _ & _).
    pose proof (reader_records_guarded sem registry key_of key_lt (scheme_of_layout l) (s2l g) mix VNone
                  Ht Hcls Hnull lines m override rd r Hinit Hs Hin) as [G1 G2].
    split.
    - intros c Hc Hk. destruct (guarded_text sem (s2l g) mix VNone Hstr c (G1 c Hc) Hk) as [E1 E2]. eauto.
    - intros k c Hc Hk. destruct (guarded_text sem (s2l g) mix VNone Hstr c (G2 k c Hc) Hk) as [E1 E2]. eauto.
  Qed.

  (* (ii) Strict: the data line k (0-based, after the column line) has a
     non-empty text in a germline field: no record is yielded for it or any
     later line, the run does not end normally, and when all earlier lines
     yielded records it ends with the format exception carrying that line's
     physical number *)
  Theorem masked_strict_reader_stops annot g l lines override rd cur k line :
    In annot masked_layouts -> In g germline6 -> find_layout ls annot = Some l ->
    let s := scheme_of_layout l in
    let rn := read_run sem registry key_of key_lt lines (Some Strict) override in
    run_init rn = Ok rd -> rd_scheme rd = Some s -> rd_next rd = Some cur ->
    nth_error (cur :: rd_pending rd) k = Some line ->
    (exists t, In (s2l g, t) (zip (s_names s) (split TAB (rstrip_crlf line))) /\ t <> []) ->
    (length (run_recs rn) <= k)%nat /\ run_end rn <> EndStop /\
    (length (run_recs rn) = k ->
     exists tp, run_end rn = EndRaise (MafFormat tp (Some (rd_lineno rd + Z.of_nat k)))).
  Proof.
    intros Ha Hg Hl s rn Hinit Hs Hn Hk Hoff.
    destruct (germline_guard annot g l Ha Hg Hl) as (mix & Ht & Hcls & Hnull & _ & Hempty & Hnd).
    exact (reader_strict_offending sem registry key_of key_lt s (s2l g) mix VNone Ht Hcls Hnull Hempty Hnd
             lines override rd cur k line Hinit Hs Hn Hk Hoff).
  Qed.
End Masked.

(* ---------- instantiation: the regenerated tables ---------- *)
Lemma layouts_nodup l : In l layouts_ok -> NoDup (map fst (l_cols l)).
Proof. intros H. exact (proj1 (layout_hyps l H)). Qed.

Definition reader_never_exposes_germline (Or : oracles) :=
  masked_reader_exposes_only_null class_table layouts_ok Or all_masked layouts_nodup.
Definition strict_reader_stops_at_germline (Or : oracles) :=
  masked_strict_reader_stops class_table layouts_ok Or all_masked layouts_nodup.
