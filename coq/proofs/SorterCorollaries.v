(* SorterCorollaries.v - consequences of C07_sorted_permutation that users of
   the sorter rely on directly: nothing is lost or duplicated (same count; with
   an injective codec the output is a permutation of the items themselves), and
   the first item returned has a minimal key.  Same hypotheses as
   proofs/SorterFacts.v; nothing here is used by the property files. *)
From Coq Require Import Permutation Sorted.
From MafVerif Require Import lib.Base lib.SorterLib model.Sorter proofs.SorterFacts.

Section Corollaries.
  Variables A K D : Type.
  Variable keyf : A -> res K.
  Variable lt : K -> K -> bool.
  Variable enc : A -> D.
  Variable dec : D -> res A.
  Variable pick_min : forall X : Type, (X -> X -> bool) -> list X -> option (X * list X).
  Hypothesis lt_swo : swo K lt.
  Hypothesis pick_ok : pick_contract pick_min.
  Hypothesis codec_ok : codec_contract A K D keyf lt enc dec.

  Notation adds := (adds A K D keyf lt enc pick_min).
  Notation iter := (iter A K D keyf lt dec pick_min).
  Notation keys_of := (keys_of A K keyf).

  (* as many items come back as were added, whatever the capacity *)
  Theorem sorted_count :
    forall (c : nat) (al : bool) (xs : list A) s ys s',
      (1 <= c)%nat -> adds (new K D c al) xs = Ok s -> iter s = ((ys, None), s') ->
      length ys = length xs.
  Proof.
    intros c al xs s ys s' Hc Ha Hi.
    destruct (sorted_permutation A K D keyf lt enc dec pick_min lt_swo pick_ok codec_ok
                c al xs s Hc Ha) as (ys0 & s0 & Hi0 & Hp & _).
    rewrite Hi in Hi0. injection Hi0 as Hys _. subst ys0.
    apply Permutation_length in Hp. rewrite !map_length in Hp. exact Hp.
  Qed.

  Lemma map_inj_eq (f : A -> D) :
    (forall a b, f a = f b -> a = b) -> forall l1 l2, map f l1 = map f l2 -> l1 = l2.
  Proof.
    intros Hinj l1. induction l1 as [| a l1 IH]; intros [| b l2] Hm; simpl in Hm;
      try discriminate; [reflexivity |].
    injection Hm as Hab Hrest. f_equal; [apply Hinj; exact Hab | apply IH; exact Hrest].
  Qed.

  (* with an injective codec (distinct items have distinct texts) the output is
     a permutation of the items themselves, not only of their texts *)
  Theorem sorted_permutation_of_items :
    (forall a b, enc a = enc b -> a = b) ->
    forall (c : nat) (al : bool) (xs : list A) s ys s',
      (1 <= c)%nat -> adds (new K D c al) xs = Ok s -> iter s = ((ys, None), s') ->
      Permutation ys xs.
  Proof.
    intros Hinj c al xs s ys s' Hc Ha Hi.
    destruct (sorted_permutation A K D keyf lt enc dec pick_min lt_swo pick_ok codec_ok
                c al xs s Hc Ha) as (ys0 & s0 & Hi0 & Hp & _).
    rewrite Hi in Hi0. injection Hi0 as Hys _. subst ys0.
    destruct (Permutation_map_inv enc xs Hp) as (l3 & Heq & Hp3).
    apply (map_inj_eq enc Hinj) in Heq. subst l3. symmetry. exact Hp3.
  Qed.

  (* the first item returned has a key no larger than any other returned key *)
  Theorem first_is_minimal :
    forall (c : nat) (al : bool) (xs : list A) s y ys s',
      (1 <= c)%nat -> adds (new K D c al) xs = Ok s -> iter s = ((y :: ys, None), s') ->
      exists k ks, keyf y = Ok k /\ keys_of ys ks /\ Forall (le K lt k) ks.
  Proof.
    intros c al xs s y ys s' Hc Ha Hi.
    destruct (sorted_permutation A K D keyf lt enc dec pick_min lt_swo pick_ok codec_ok
                c al xs s Hc Ha) as (ys0 & s0 & Hi0 & _ & _ & ks & Hk & Hs).
    rewrite Hi in Hi0. injection Hi0 as Hys _. subst ys0.
    inversion Hk as [| y0 k0 ys1 ks1 Hy Hrest]; subst.
    exists k0, ks1. split; [exact Hy | split; [exact Hrest |]].
    inversion Hs; subst; assumption.
  Qed.
End Corollaries.
Print Assumptions sorted_count.
Print Assumptions sorted_permutation_of_items.
Print Assumptions first_is_minimal.
