(* WriterFacts.v - C06: what a Strict writer emits is accepted by a Strict reader. *)
From Coq Require Import String Ascii.
From MafVerif Require Import lib.Base lib.Str lib.PyInt gen.GenClasses model.Classes model.Columns model.Layouts
     model.RecordOps model.ColRecord proofs.RecordFacts proofs.ColumnFacts proofs.ParseFacts proofs.MaskFacts
     proofs.LineFacts.
Open Scope string_scope.

Section Writer.
  Variable tbl : list class_info.
  Variable O : oracles.
  Variable s : scheme.
  Hypothesis Hnd : NoDup (map fst s).
  Hypothesis Hcols : forallb (fun c => col_ok tbl (snd c)) s = true.
  Hypothesis Hne : s <> [].

  (* the per-class fact C04 is about, in the form the writer needs: the
     rendering of any value that validates is itself a valid field text *)
  Definition renders_back : Prop :=
    forall j n sc r v, nth_error s j = Some (n, sc) -> resolve tbl sc = Some r ->
      cls_value_invalid r v = false -> cls_text_has_sep r v = false ->
      exists t v', col_str r v = Ok t /\ field_outcome O r t = Valid v'.

  (* the writer refuses only with the format exception *)
  Lemma strict_validate_raises_format sch ln old (r : crec) e :
    rec_validate tbl Strict sch ln old r = Raise e -> exists t l, e = MafFormat t l.
  Proof.
    unfold rec_validate, process_errors.
    destruct (old ++ rec_validate_errors tbl sch ln r ++ rec_sync_errors ln r)%list; [discriminate|].
    intros H. injection H as <-. eauto.
  Qed.

  (* what a record that passed the writer's validation looks like *)
  Lemma emitted_record_shape (r : crec) line :
    writer_emits_g tbl s r = Some line ->
    length (rlist r) = length s /\
    forall j n sc, nth_error s j = Some (n, sc) ->
      exists c, nth_error (rlist r) j = Some (Some c) /\ ckey c = n /\
                isinstance tbl (v_cls (cval c)) sc = true /\
                cls_value_invalid (resolve_or_plain tbl (v_cls (cval c))) (v_val (cval c)) = false /\
                cls_text_has_sep (resolve_or_plain tbl (v_cls (cval c))) (v_val (cval c)) = false.
  Proof.
    intros Hemit. unfold writer_emits_g in Hemit.
    destruct (rec_validate tbl Strict (Some s) None [] r) as [es|] eqn:Hval; [|discriminate].
    destruct (strict_validate_ok tbl _ _ _ Hval) as [Hsync Herr].
    unfold rec_validate_errors in Herr. apply app_nil_both in Herr as [Hcount Hslots].
    assert (Htr : scheme_truthy s = true) by (destruct s; [congruence|reflexivity]).
    rewrite Htr in Hcount. simpl in Hcount.
    destruct (Nat.eqb (length s) (length (rlist r))) eqn:Hlen; [|discriminate].
    apply Nat.eqb_eq in Hlen. split; [congruence|].
    assert (Hnone : existsb is_none (rlist r) = false).
    { apply not_true_is_false. intros Hex. apply existsb_exists in Hex as [o [Hin Ho]].
      destruct o; [discriminate|]. pose proof (flat_map_nil _ _ _ Hslots Hin) as F. discriminate. }
    intros j n sc Hs.
    assert (Hjlt : (j < length (rlist r))%nat) by (rewrite <- Hlen; apply nth_error_Some; congruence).
    destruct (nth_error (rlist r) j) as [[c|]|] eqn:Hslot.
    2:{ exfalso. apply nth_error_In in Hslot. pose proof (flat_map_nil _ _ _ Hslots Hslot) as F. discriminate. }
    2:{ apply nth_error_None in Hslot. lia. }
    pose proof (asserts_positions _ _ _ Hsync Hnone Hslot) as Hidx.
    pose proof (flat_map_nil _ _ _ Hslots (nth_error_In _ _ Hslot)) as Hcv. simpl in Hcv.
    unfold col_validate in Hcv.
    apply app_nil_both in Hcv as [Hinv Hcv]. apply app_nil_both in Hcv as [Hsep Hsch].
    rewrite Htr in Hsch.
    destruct (scheme_index s (ckey c) 0) as [si|] eqn:Hsi; [|discriminate].
    rewrite Hidx in Hsch.
    destruct (negb (Z.eqb (Z.of_nat j) (Z.of_nat si))) eqn:Hord; [discriminate|].
    apply negb_false_iff, Z.eqb_eq, Nat2Z.inj in Hord. subst si.
    assert (Hn' : nth_error (map fst s) j = Some n) by (rewrite nth_error_map, Hs; reflexivity).
    assert (Hkey : ckey c = n).
    { apply (scheme_index_name s 0 j (ckey c) n); [|exact Hn']. rewrite Hsi. f_equal. lia. }
    rewrite Hkey in Hsch. rewrite (scheme_class_nth s j n sc Hnd Hs) in Hsch.
    exists c. repeat split; auto.
    - destruct (isinstance tbl (v_cls (cval c)) sc); [reflexivity|discriminate].
    - destruct (cls_value_invalid _ _); [discriminate|reflexivity].
    - destruct (cls_text_has_sep _ _); [discriminate|reflexivity].
  Qed.

  Lemma map_res_ok_nth {X Y} (f : X -> res Y) l ys :
    map_res f l = Ok ys -> length ys = length l /\
    forall j x, nth_error l j = Some x -> exists y, nth_error ys j = Some y /\ f x = Ok y.
  Proof.
    revert ys; induction l as [|x l IH]; intros ys H; simpl in H.
    - injection H as <-. split; [reflexivity|]. intros [|j] ? ?; discriminate.
    - destruct (f x) as [y|] eqn:Fx; [|discriminate].
      destruct (map_res f l) as [ys'|] eqn:E; [|discriminate]. injection H as <-.
      destruct (IH ys' eq_refl) as [Hl Hn]. split; [simpl; congruence|].
      intros [|j] x0 Hx; simpl in *.
      + injection Hx as <-. eauto.
      + eauto.
  Qed.

  Lemma no_crlf_rstrip (t : str) : forallb (fun c => negb (is_crlf c)) t = true -> rstrip_crlf t = t.
  Proof. apply rstrip_no_match. Qed.

  Lemma contains_sep_false_chars t c : contains_sep t = false -> In c t -> c <> TAB /\ c <> CR /\ c <> LF.
  Proof.
    unfold contains_sep. intros H Hin.
    assert (Hc : (N.eqb c TAB || N.eqb c CR || N.eqb c LF) = false).
    { destruct (N.eqb c TAB || N.eqb c CR || N.eqb c LF) eqn:E; [|reflexivity].
      assert (existsb (fun c0 => N.eqb c0 TAB || N.eqb c0 CR || N.eqb c0 LF) t = true)
        by (apply existsb_exists; eauto). congruence. }
    apply orb_false_iff in Hc as [Hc H3]. apply orb_false_iff in Hc as [H1 H2].
    apply N.eqb_neq in H1, H2, H3. auto.
  Qed.

  (* C06 for one record: emitted => accepted by a Strict reader of the same scheme *)
  Theorem emitted_line_is_accepted (r : crec) line ln :
    renders_back ->
    (* every column object has exactly its scheme class (no proper subclass standing in) *)
    (forall j n sc c, nth_error s j = Some (n, sc) -> nth_error (rlist r) j = Some (Some c) -> v_cls (cval c) = sc) ->
    writer_emits_g tbl s r = Some line ->
    exists rec', from_line tbl O Strict None (Some s) ln line = Ok (rec', []).
  Proof.
    intros Hrb Hexact Hemit.
    destruct (emitted_record_shape r line Hemit) as [Hlen Hshape].
    unfold writer_emits_g in Hemit.
    destruct (rec_validate tbl Strict (Some s) None [] r); [|discriminate].
    unfold rec_str in Hemit.
    destruct (map_res (slot_str tbl) (rlist r)) as [ts|] eqn:Hts; [|discriminate].
    injection Hemit as <-.
    destruct (map_res_ok_nth _ _ _ Hts) as [Hlts Hnth].
    (* every rendered field is separator-free and re-parses *)
    assert (Hfield : forall j n sc, nth_error s j = Some (n, sc) ->
              exists t r0 v', nth_error ts j = Some t /\ resolve tbl sc = Some r0 /\
                              contains_sep t = false /\ field_outcome O r0 t = Valid v').
    { intros j n sc Hs.
      destruct (Hshape j n sc Hs) as (c & Hslot & Hk & Hinst & Hval & Hsep).
      pose proof (Hexact j n sc c Hs Hslot) as Hcls.
      destruct (col_resolved tbl s Hcols j n sc Hs) as [r0 [Hr0 _]].
      assert (Hrp : resolve_or_plain tbl (v_cls (cval c)) = r0)
        by (rewrite Hcls; unfold resolve_or_plain; now rewrite Hr0).
      rewrite Hrp in Hval, Hsep.
      destruct (Hrb j n sc r0 (v_val (cval c)) Hs Hr0 Hval Hsep) as (t & v' & Hstr & Hfo).
      destruct (Hnth j (Some c) Hslot) as [t' [Ht' Hst]].
      unfold slot_str in Hst. rewrite Hrp, Hstr in Hst. injection Hst as <-.
      exists t, r0, v'. repeat split; auto.
      unfold cls_text_has_sep in Hsep. now rewrite Hstr in Hsep. }
    assert (Hts_ne : ts <> []).
    { destruct s as [|[n sc] s']; [congruence|]. destruct (Hfield 0%nat n sc eq_refl) as (t & r0 & v' & Ht & _).
      destruct ts; [discriminate|discriminate]. }
    assert (Hall : forall t, In t ts -> contains_sep t = false).
    { intros t Hin. destruct (In_nth_error _ _ Hin) as [j Hj].
      assert (Hjt : (j < length ts)%nat) by (apply nth_error_Some; congruence).
      pose proof (eq_trans Hlts Hlen) as Hlen2.
      assert (Hjs : (j < length s)%nat) by lia.
      destruct (nth_error s j) as [[n sc]|] eqn:Hs; [|apply nth_error_None in Hs; lia].
      destruct (Hfield j n sc Hs) as (t' & r0 & v' & Ht' & _ & Hsep & _). congruence. }
    (* the emitted line splits back into exactly those fields *)
    assert (Hsplit : split TAB (rstrip_crlf (join [TAB] ts)) = ts).
    { rewrite no_crlf_rstrip.
      - apply split_join; [exact Hts_ne|]. apply Forall_forall. intros t Hin Htab.
        destruct (contains_sep_false_chars t TAB (Hall t Hin) Htab) as [H _]. congruence.
      - apply forallb_forall. intros c Hc. apply in_join_sep in Hc as [->|[p [Hp Hcp]]].
        + reflexivity.
        + destruct (contains_sep_false_chars p c (Hall p Hp) Hcp) as (_ & H2 & H3).
          unfold is_crlf. apply negb_true_iff. apply orb_false_iff. split; now apply N.eqb_neq. }
    destruct (from_line_accepts tbl O s ln (join [TAB] ts) Hnd) as (rec' & cs & Hfl & _).
    - rewrite Hsplit. exact (eq_trans Hlts Hlen).
    - rewrite Hsplit. intros j n t Hn Ht. rewrite nth_error_map in Hn.
      destruct (nth_error s j) as [[n' sc]|] eqn:Hs; [|discriminate]. simpl in Hn. injection Hn as ->.
      destruct (Hfield j n sc Hs) as (t' & r0 & v' & Ht' & Hr0 & _ & Hfo).
      rewrite Ht in Ht'. injection Ht' as <-.
      destruct (col_resolved tbl s Hcols j n sc Hs) as [r1 [Hr1 Hok]]. rewrite Hr0 in Hr1. injection Hr1 as <-.
      pose proof (parse_field_outcome tbl O s ln j n sc r0 t Hnd Hs Hr0 Hok) as Hpf. rewrite Hfo in Hpf. eauto.
    - eauto.
  Qed.
End Writer.

(* the same for every layout of a list of built layouts, tables abstract *)
Section WriterLayouts.
  Variable tbl : list class_info.
  Variable ls : list layout.
  Variable O : oracles.
  Definition nonempty_layout (l : layout) : bool := match l_cols l with [] => false | _ => true end.
  Hypothesis Hlay : forallb (layout_ok_g tbl) ls = true.
  Hypothesis Hnonempty : forallb nonempty_layout ls = true.

  Theorem emitted_line_is_accepted_in l (r : crec) line ln :
    In l ls ->
    renders_back tbl O (l_cols l) ->
    (forall j n sc c, nth_error (l_cols l) j = Some (n, sc) -> nth_error (rlist r) j = Some (Some c) ->
                      v_cls (cval c) = sc) ->
    writer_emits_g tbl (l_cols l) r = Some line ->
    exists rec', from_line tbl O Strict None (Some (l_cols l)) ln line = Ok (rec', []).
  Proof.
    intros Hin Hrb Hexact Hemit.
    pose proof (proj1 (forallb_forall _ _) Hlay _ Hin) as Hok.
    unfold layout_ok_g in Hok. apply andb_true_iff in Hok as [Hnd Hcols]. apply nodupb_sound in Hnd.
    pose proof (proj1 (forallb_forall _ _) Hnonempty _ Hin) as Hne. unfold nonempty_layout in Hne.
    assert (Hne' : l_cols l <> []) by (intros E; rewrite E in Hne; discriminate).
    exact (emitted_line_is_accepted tbl O (l_cols l) Hnd Hcols Hne' r line ln Hrb Hexact Hemit).
  Qed.
End WriterLayouts.
