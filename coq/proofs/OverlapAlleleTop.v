(* OverlapAlleleTop.v - C12, whole runs: list(LocatableByAlleleOverlapIterator)
   is, positional group by positional group of the underlying iteration, the
   greedy allele classes of the first slot with the filtered other slots;
   groups with an empty first slot contribute nothing. *)
From Coq Require Import Permutation.
From MafVerif Require Import lib.Base model.Overlap spec.SpecOverlap
     proofs.OverlapStreamFacts proofs.OverlapAllele.

Section AlleleTop.
  Context {R C : Type}.
  Variable truthy : R -> bool.
  Variable cls_cmp : C -> C -> comparison.
  Variable cls_eqb : C -> C -> bool.
  Variable keyf : R -> res (key C).
  Variable rref : R -> str.
  Variable ralts : R -> list str.
  Variable ot : otype.
  Hypothesis keyf_no_stop : forall r, keyf r <> Raise StopIteration.

  Notation enf_next := (enf_next truthy cls_cmp keyf).
  Notation update_peek := (update_peek truthy cls_cmp keyf).
  Notation peek_next := (peek_next truthy cls_cmp keyf).
  Notation sweep := (sweep truthy cls_cmp cls_eqb keyf).
  Notation group_loop := (group_loop truthy cls_cmp cls_eqb keyf).
  Notation next_group := (next_group truthy cls_cmp cls_eqb keyf).
  Notation init_inputs := (init_inputs truthy cls_cmp keyf).
  Notation head_keys := (head_keys truthy keyf).
  Notation run_all := (run_all truthy cls_cmp cls_eqb keyf).
  Notation first_nonempty := (first_nonempty truthy cls_cmp cls_eqb keyf).
  Notation allele_next := (allele_next truthy cls_cmp cls_eqb keyf rref ralts ot).
  Notation arun_all := (arun_all truthy cls_cmp cls_eqb keyf rref ralts ot).
  Notation partition_first := (partition_first truthy rref ralts ot).
  Notation expand := (expand rref ralts ot).
  Notation atake := (atake truthy cls_cmp cls_eqb keyf rref ralts ot).

  (* ---------------- records not yet handed out ---------------- *)
  Lemma enf_next_remaining i i' o :
    enf_next i = (i', o) ->
    peek i' = peek i /\
    match o with
    | Ok _ => length (rest i) = S (length (rest i'))
    | Raise e => e = StopIteration -> rest i = [] /\ rest i' = []
    end.
  Proof.
    unfold Overlap.enf_next. intros E. destruct (rest i) as [|rec tl] eqn:Er.
    - injection E as <- <-. rewrite Er. auto.
    - destruct (last_rec i) as [l|]; [|injection E as <- <-; auto].
      destruct (truthy l); [|injection E as <- <-; auto].
      destruct (keyf rec) as [rk|e] eqn:E1.
      2:{ injection E as <- <-. simpl. split; [reflexivity|]. intros ->. now apply keyf_no_stop in E1. }
      destruct (keyf l) as [lk|e] eqn:E2.
      2:{ injection E as <- <-. simpl. split; [reflexivity|]. intros ->. now apply keyf_no_stop in E2. }
      destruct (key_lt cls_cmp rk lk); injection E as <- <-; simpl; auto. split; [reflexivity|discriminate].
  Qed.

  Lemma peek_next_remaining i i' r :
    peek_next i = (i', Ok r) -> remaining1 i = S (remaining1 i').
  Proof.
    unfold Overlap.peek_next, Overlap.update_peek, remaining1. intros E.
    destruct (peek i) as [p|] eqn:Ep; [|discriminate].
    destruct (enf_next i) as [i1 o] eqn:En.
    destruct (enf_next_remaining _ _ _ En) as (Hp & Hr).
    destruct o as [r1|e].
    - injection E as <- <-. simpl. lia.
    - destruct e; try discriminate. injection E as <- <-. simpl.
      destruct (Hr eq_refl) as (-> & ->). reflexivity.
  Qed.

  Definition cmeasure (c : cell R C) : nat := (remaining1 (c_in c) + length (c_slot c))%nat.

  Lemma sweep_measure : forall cells mk added cells' mk' added',
      sweep mk added cells = (cells', mk', added', None) ->
      map cmeasure cells' = map cmeasure cells.
  Proof.
    induction cells as [|c tl IH]; intros mk added cells' mk' added' E; simpl in E.
    - injection E as <- _ _. reflexivity.
    - assert (Hskip : forall mk0 added0 c0, cmeasure c0 = cmeasure c ->
                 (let '(tl', mk1, added1, ex) := sweep mk0 added0 tl in (c0 :: tl', mk1, added1, ex))
                 = (cells', mk', added', None) -> map cmeasure cells' = map cmeasure (c :: tl)).
      { intros mk0 added0 c0 Hc0 E0. destruct (sweep mk0 added0 tl) as [[[tl' mk1] added1] ex] eqn:Es.
        injection E0 as <- <- <- ->. simpl. rewrite Hc0. f_equal. eapply IH; eassumption. }
      destruct (peek (c_in c)) as [rec|] eqn:Ep; [|eapply Hskip; [reflexivity|eassumption]].
      destruct (truthy rec); [|eapply Hskip; [reflexivity|eassumption]].
      destruct (match c_key c with Some k => Ok k | None => keyf rec end) as [k|e]; [|discriminate].
      destruct (overlaps cls_eqb mk k).
      + destruct (peek_next (c_in c)) as [i' [next_rec|e]] eqn:En; [|discriminate].
        eapply Hskip; [|exact E]. unfold cmeasure. simpl. rewrite app_length. simpl.
        rewrite (peek_next_remaining _ _ _ En). lia.
      + eapply Hskip; [|exact E]. reflexivity.
  Qed.

  Lemma group_loop_measure : forall fuel mk cells cells',
      group_loop fuel mk cells = (cells', Done tt) -> map cmeasure cells' = map cmeasure cells.
  Proof.
    induction fuel as [|f IH]; intros mk cells cells' E; simpl in E; [discriminate|].
    destruct (sweep mk false cells) as [[[c1 mk1] a1] ex] eqn:Es.
    destruct ex as [e|]; [discriminate|].
    pose proof (sweep_measure _ _ _ _ _ _ Es) as H1.
    destruct a1; [rewrite <- H1; eapply IH; eassumption|injection E as <-; assumption].
  Qed.

  Lemma sum_split (cells : list (cell R C)) :
    fold_right (fun c n => (cmeasure c + n)%nat) 0%nat cells
    = (remaining (map c_in cells) + length (concat (map c_slot cells)))%nat.
  Proof.
    induction cells as [|c r IH]; simpl; [reflexivity|]. rewrite IH, app_length. unfold cmeasure. lia.
  Qed.

  Lemma fold_map_measure (l : list (cell R C)) :
    fold_right (fun c n => (cmeasure c + n)%nat) 0%nat l = fold_right Nat.add 0%nat (map cmeasure l).
  Proof. induction l; simpl; auto. Qed.

  Lemma mk_cells_measure : forall ins ks,
      length ks = length ins ->
      fold_right (fun c n => (cmeasure c + n)%nat) 0%nat (mk_cells ins ks) = remaining ins.
  Proof.
    induction ins as [|i r IH]; intros ks Hl; [reflexivity|].
    destruct ks as [|k kr]; [discriminate|]. simpl. rewrite IH by (simpl in Hl; lia).
    unfold cmeasure. simpl. lia.
  Qed.

  (* a group takes exactly its records out of what remains *)
  Lemma next_group_remaining ins ins' g :
    next_group ins = (ins', Done g) -> remaining ins = (remaining ins' + length (concat g))%nat.
  Proof.
    unfold Overlap.next_group. intros E.
    destruct (head_keys ins) as [keys|e] eqn:Eh; [|discriminate].
    destruct (present keys) as [|k0 ks]; [discriminate|].
    destruct (group_loop _ _ _) as [cells o] eqn:Eg.
    destruct o as [[]|e|]; try discriminate. injection E as <- <-.
    pose proof (group_loop_measure _ _ _ _ Eg) as Hm.
    rewrite <- sum_split, fold_map_measure, Hm, <- fold_map_measure.
    symmetry. apply mk_cells_measure. eapply head_keys_length; eassumption.
  Qed.

  Lemma init_remaining : forall xss ins, init_inputs xss = Ok ins -> remaining ins = total xss.
  Proof.
    unfold total. induction xss as [|xs r IH]; intros ins E; simpl in E.
    - injection E as <-. reflexivity.
    - destruct (update_peek (fresh xs)) as [i [[]|e]] eqn:Eu; [|discriminate].
      destruct (init_inputs r) as [is|e]; [|discriminate]. injection E as <-.
      simpl. rewrite app_length, (IH is eq_refl). f_equal.
      unfold Overlap.update_peek in Eu. destruct (enf_next (fresh xs)) as [i1 o] eqn:En.
      destruct (enf_next_remaining _ _ _ En) as (Hp & Hr). unfold remaining1.
      destruct o as [r1|e].
      + injection Eu as <-. simpl in *. lia.
      + destruct e; try discriminate. injection Eu as <-. simpl in *.
        destruct (Hr eq_refl) as (H1 & ->). rewrite H1. reflexivity.
  Qed.

  (* ---------------- the underlying iteration as a relation ---------------- *)
  Inductive RunsTo : list (input R) -> list (list (list R)) -> Prop :=
  | RT_stop ins ins' : next_group ins = (ins', Exc StopIteration) -> RunsTo ins []
  | RT_cons ins ins' g gs : next_group ins = (ins', Done g) -> RunsTo ins' gs -> RunsTo ins (g :: gs).

  Lemma run_all_runsto : forall fuel ins gs, run_all fuel ins = Done gs -> RunsTo ins gs.
  Proof.
    induction fuel as [|f IH]; intros ins gs E; simpl in E; [discriminate|].
    destruct (next_group ins) as [ins' o] eqn:En. destruct o as [g|e|].
    - destruct (run_all f ins') as [gs'|e|] eqn:Er; try discriminate. injection E as <-.
      econstructor; [eassumption|]. now apply IH.
    - destruct e; try discriminate. injection E as <-. econstructor. eassumption.
    - discriminate.
  Qed.

  Lemma runsto_bound : forall ins gs,
      RunsTo ins gs -> Forall (fun g => concat g <> []) gs ->
      (length gs + length (concat (map (@concat R) gs)) <= remaining ins + length gs)%nat /\
      (length gs <= remaining ins)%nat /\ (length (concat (map (@concat R) gs)) <= remaining ins)%nat.
  Proof.
    induction 1 as [ins ins' En|ins ins' g gs En Hr IH]; intros HF; simpl; [lia|].
    inversion HF as [|? ? Hg HF']; subst. destruct (IH HF') as (_ & H1 & H2).
    pose proof (next_group_remaining _ _ _ En) as Hrem. rewrite app_length.
    assert (0 < length (concat g))%nat by (destruct (concat g); [congruence|simpl; lia]). lia.
  Qed.

  (* ---------------- the allele-aware run ---------------- *)
  Definition pallele1 (g : list (list R)) : list (list (list R)) :=
    map (expand (tl g)) (partition_first [] (hd [] g)).
  Definition pallele (gs : list (list (list R))) : list (list (list R)) := flat_map pallele1 gs.

  Fixpoint skipE (gs : list (list (list R))) : list (list (list R)) :=
    match gs with
    | [] => []
    | g :: r => match hd [] g with [] => skipE r | _ :: _ => gs end
    end.

  Lemma pallele_skip gs : pallele (skipE gs) = pallele gs.
  Proof.
    induction gs as [|g r IH]; [reflexivity|]. simpl. destruct (hd [] g) eqn:Eh; [|reflexivity].
    rewrite IH. unfold pallele1. rewrite Eh. reflexivity.
  Qed.

  Lemma skipE_length gs : (length (skipE gs) <= length gs)%nat.
  Proof. induction gs as [|g r IH]; simpl; [lia|]. destruct (hd [] g); simpl; lia. Qed.

  Lemma first_nonempty_runs : forall ins gs,
      RunsTo ins gs -> Forall (fun g => g <> []) gs ->
      forall fuel, (length gs < fuel)%nat ->
      match skipE gs with
      | [] => exists ins', first_nonempty fuel ins = (ins', Exc StopIteration)
      | g :: rest => hd [] g <> [] /\
                     exists ins', first_nonempty fuel ins = (ins', Done g) /\ RunsTo ins' rest
      end.
  Proof.
    induction 1 as [ins ins' En|ins ins' g gs En Hr IH]; intros HF fuel Hf.
    - destruct fuel; [simpl in Hf; lia|]. simpl. rewrite En. eauto.
    - inversion HF as [|? ? Hg HF']; subst. destruct fuel; [simpl in Hf; lia|].
      simpl. rewrite En. destruct g as [|s0 others]; [congruence|]. simpl.
      destruct s0 as [|x s0'].
      + apply IH; [assumption|simpl in Hf; lia].
      + split; [discriminate|]. eauto.
  Qed.

  Lemma arun_atake : forall n st outs st' f,
      atake n st = (map Done outs, st') -> length outs = n ->
      arun_all (n + f) st = match arun_all f st' with Done r => Done (outs ++ r) | o => o end.
  Proof.
    induction n as [|n IH]; intros st outs st' f E Hl.
    - destruct outs; [|discriminate]. simpl in E. injection E as <-. simpl. destruct (arun_all f st); reflexivity.
    - destruct outs as [|o outs]; [discriminate|]. simpl in E.
      destruct (allele_next st) as [st1 o1] eqn:En.
      destruct (atake n st1) as [os st2] eqn:Et. injection E as -> -> <-.
      simpl. rewrite En. rewrite (IH st1 outs st2 f Et) by (simpl in Hl; lia).
      destruct (arun_all f st2); reflexivity.
  Qed.

  Lemma classes_bound (s0 : list R) :
    Forall (fun x => truthy x = true) s0 -> (length (partition_first [] s0) <= length s0)%nat.
  Proof.
    intros HT. destruct (partition_first_spec truthy rref ralts ot s0 HT) as (_ & Hp & Hn & _).
    apply Permutation_length in Hp. rewrite <- Hp.
    clear -Hn. induction Hn as [|c cl (Hc & _) _ IH]; simpl; [lia|].
    rewrite app_length. destruct c; [congruence|simpl; lia].
  Qed.

  Lemma hd_length (g : list (list R)) : (length (hd [] g) <= length (concat g))%nat.
  Proof. destruct g; simpl; [lia|]. rewrite app_length. lia. Qed.

  Lemma pallele_bound gs :
    Forall (fun g => Forall (fun x => truthy x = true) (hd [] g)) gs ->
    (length (pallele gs) <= length (concat (map (@concat R) gs)))%nat.
  Proof.
    induction 1 as [|g r Hg _ IH]; simpl; [lia|]. unfold pallele in *. rewrite !app_length.
    unfold pallele1 at 1. rewrite map_length.
    pose proof (classes_bound _ Hg). pose proof (hd_length g). lia.
  Qed.

  (* the whole allele-aware run over an underlying iteration that yields gs *)
  Lemma arun_runs : forall n gs, length gs = n -> forall ins fa others items,
      RunsTo ins gs ->
      Forall (fun g => concat g <> []) gs ->
      Forall (fun g => Forall (fun x => truthy x = true) (hd [] g)) gs ->
      items_falsy items = true ->
      (length (pallele gs) < fa)%nat ->
      arun_all fa {| a_ins := ins; a_items := items; a_others := others |} = Done (pallele gs).
  Proof.
    induction n as [n IHn] using lt_wf_ind. intros gs Hlen ins fa others items Hr Hne Htr Hfalsy Hfa.
    assert (Hne' : Forall (fun g : list (list R) => g <> []) gs).
    { eapply Forall_impl; [|exact Hne]. intros g Hg ->. now apply Hg. }
    destruct (runsto_bound _ _ Hr Hne) as (_ & Hb & _).
    pose proof (first_nonempty_runs _ _ Hr Hne' (S (remaining ins)) (le_n_S _ _ Hb)) as Hfn.
    rewrite <- pallele_skip in *.
    destruct (skipE gs) as [|g rest] eqn:Esk.
    - destruct Hfn as (ins' & Efn). destruct fa; [simpl in Hfa; lia|].
      simpl. unfold Overlap.allele_next. cbn [a_items a_ins a_others]. rewrite Hfalsy, Efn. reflexivity.
    - destruct Hfn as (Hhd & ins' & Efn & Hr').
      (* facts about g and rest, inherited from gs *)
      assert (Hsuf : exists pre, gs = pre ++ g :: rest).
      { clear -Esk. revert Esk. induction gs as [|g0 r IH]; simpl; [discriminate|].
        destruct (hd [] g0); [|intros E; injection E as <- <-; exists []; reflexivity].
        intros E. destruct (IH E) as (pre & ->). exists (g0 :: pre). reflexivity. }
      destruct Hsuf as (pre & Egs).
      assert (Hne_r : Forall (fun g => concat g <> []) rest).
      { rewrite Egs in Hne. apply Forall_app in Hne as (_ & H). now inversion H. }
      assert (Htr_g : Forall (fun x => truthy x = true) (hd [] g) /\
                      Forall (fun g => Forall (fun x => truthy x = true) (hd [] g)) rest).
      { rewrite Egs in Htr. apply Forall_app in Htr as (_ & H). now inversion H. }
      destruct Htr_g as (Htr_g & Htr_r).
      set (st := {| a_ins := ins; a_items := items; a_others := others |}).
      pose proof (allele_group_emission truthy cls_cmp cls_eqb keyf rref ralts ot st ins' g Hfalsy Efn Htr_g) as Hem.
      cbv zeta in Hem.
      set (classes := partition_first [] (hd [] g)) in *.
      assert (Hmap : map (fun c => Done (expand (tl g) c)) classes
                     = map Done (map (expand (tl g)) classes)) by (now rewrite map_map).
      rewrite Hmap in Hem.
      simpl pallele in *. unfold pallele in Hfa. simpl in Hfa. rewrite app_length in Hfa.
      unfold pallele1 at 1 in Hfa. fold classes in Hfa. rewrite map_length in Hfa.
      replace fa with (length classes + (fa - length classes))%nat by lia.
      rewrite (arun_atake _ _ _ _ _ Hem) by (now rewrite map_length).
      assert (Hlen_r : (length rest < n)%nat).
      { rewrite <- Hlen, Egs, app_length. simpl. lia. }
      rewrite (IHn (length rest) Hlen_r rest eq_refl ins' (fa - length classes)%nat (tl g) (Some [])
                   Hr' Hne_r Htr_r eq_refl).
      + unfold pallele1 at 1. fold classes. reflexivity.
      + fold (pallele rest) in Hfa. lia.
  Qed.

  (* list(LocatableByAlleleOverlapIterator(xss)) in terms of list(LocatableOverlapIterator(xss)) *)
  Theorem allele_iter_spec xss gs :
    overlap_iter truthy cls_cmp cls_eqb keyf xss = Done gs ->
    Forall (fun g => concat g <> []) gs ->
    Forall (fun g => Forall (fun x => truthy x = true) (hd [] g)) gs ->
    allele_iter truthy cls_cmp cls_eqb keyf rref ralts ot xss = Done (pallele gs).
  Proof.
    unfold Overlap.overlap_iter, Overlap.allele_iter. intros E Hne Htr.
    destruct (init_inputs xss) as [ins|e] eqn:Ei; [|discriminate].
    pose proof (run_all_runsto _ _ _ E) as Hr.
    eapply (arun_runs (length gs) gs eq_refl); try eassumption; [reflexivity|].
    destruct (runsto_bound _ _ Hr Hne) as (_ & _ & Hb).
    pose proof (pallele_bound gs Htr). rewrite (init_remaining _ _ Ei) in Hb. lia.
  Qed.
End AlleleTop.

(* ---------------- the concrete statement ---------------- *)
From MafVerif Require Import lib.OverlapLib proofs.OverlapFacts proofs.OverlapGroups
     proofs.OverlapRefine proofs.OverlapOrder.

Lemma in_slot_concat {R : Type} (gs : list (list (list R))) g i x :
  In g gs -> In x (nth i g []) -> In x (slot_concat i gs).
Proof.
  unfold slot_concat. intros Hg Hx. apply in_concat. exists (nth i g []). split; [|assumption].
  apply in_map_iff. exists g. auto.
Qed.

Lemma in_nth_concat {R : Type} (xss : list (list R)) i x : In x (nth i xss []) -> In x (concat xss).
Proof.
  intros Hx. destruct (nth_in_or_default i xss []) as [Hin|E]; [|rewrite E in Hx; destruct Hx].
  apply in_concat. eauto.
Qed.

Lemma allele_iter_concrete (c : cfg) (t : otype) (xss : list (list orec)) :
  (forall r, In r (concat xss) -> rtruthy r = true) ->
  (forall r, In r (concat xss) -> known_contig c r) ->
  (forall r, In r (concat xss) -> wf_interval rstart rend r) ->
  Forall (sorted_input (fun r => kcls (okeyK c r)) rstart rend (clt ccls_cmp)) xss ->
  exists gs, o_overlap_iter c xss = Done gs /\
             exact_grouping (fun r => kcls (okeyK c r)) rstart rend (clt ccls_cmp) xss gs /\
             o_allele_iter c t xss = Done (pallele rtruthy oref oalts t gs).
Proof.
  intros Ht Hc Hw Hs.
  destruct (overlap_iter_exact rtruthy ccls_cmp ccls_eqb (okey c) ccls_order (okeyK c) xss
              Ht (fun r H => okey_K c r (Hc r H)) Hw Hs) as (gs & E & HX).
  exists gs. split; [exact E|]. split; [exact HX|].
  destruct HX as (_ & Hslots & Hne & _).
  apply (allele_iter_spec rtruthy ccls_cmp ccls_eqb (okey c) oref oalts t (okey_no_stop c) xss gs E Hne).
  apply Forall_forall. intros g Hg. apply Forall_forall. intros x Hx. apply Ht.
  apply (in_nth_concat xss 0). rewrite <- Hslots. apply (in_slot_concat gs g 0 x Hg).
  destruct g; exact Hx.
Qed.
