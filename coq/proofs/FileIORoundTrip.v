(* FileIORoundTrip.v - C02 assembled: write, read back, write again. *)
From MafVerif Require Import lib.Base lib.Str model.RecordOps model.Validation model.Header
  model.RecordParse model.Reader model.WriterMode model.FileIO
  proofs.RecordFacts proofs.HeaderSpec proofs.HeaderRoundTrip proofs.ReaderModes proofs.ReaderTotal
  proofs.FileIOText proofs.FileIORecord proofs.FileIOWrite proofs.FileIORead proofs.FileIORows.

(* adjacent elements related *)
Fixpoint chain {X} (R : X -> X -> Prop) (l : list X) : Prop :=
  match l with
  | a :: rest => match rest with b :: _ => R a b /\ chain R rest | [] => True end
  | [] => True
  end.

Section RoundTrip.
  Context {C W : Type}.
  Variable sem : colsem C W.
  Notation cls := (cls C).
  Notation scheme := (scheme cls).
  Notation mrec := (mrec C W).
  Notation payload := (payload C W).
  Notation pvalue := (pvalue C W).
  Notation writer := (writer C).
  Notation cell := (@cell C W).
  Variable registry : list scheme.
  Context {K : Type}.
  Variable key_of : sorder -> list str -> rec payload -> res K.
  Variable key_lt : K -> K -> bool.

  Hypothesis isinst_plain : cs_isinst sem CPlain CPlain = true.
  Variable value_hazard : C -> W -> bool.
  Hypothesis record_fixpoint : forall k t w t',
    cs_build sem k t = Some w -> cs_invalid sem k w = false ->
    cs_str sem k w = Some t' -> has_sep t' = false -> value_hazard k w = false ->
    cs_build sem k t' = Some w.

  Notation write_file := (write_file sem registry).
  Notation accepted := (accepted sem).
  Notation reread_view := (reread_view sem).
  Notation rereadable := (rereadable sem value_hazard).

  (* ---------- the declared order ---------- *)
  (* SortOrderChecker accepts b after a *)
  Definition keys_ordered (o : sorder) (cs : list str) (a b : rec payload) : Prop :=
    nonempty (rlist a) && sortable o = true ->
    exists ka kb, key_of o cs b = Ok kb /\ key_of o cs a = Ok ka /\ key_lt kb ka = false.

  Definition in_declared_order (recs : list (str * hrec)) (views : list (rec payload)) : Prop :=
    chain (keys_ordered (fst (h_sort_order recs)) (snd (h_sort_order recs))) views.

  Lemma check_order_of_keys o cs (lr r : mrec) :
    keys_ordered o cs (mcols lr) (mcols r) -> check_order key_of key_lt o cs (Some lr) r = Ok tt.
  Proof.
    unfold keys_ordered, check_order, mrec_truthy. intros H.
    destruct (nonempty (rlist (mcols lr)) && sortable o); [|reflexivity].
    destruct (H eq_refl) as (ka & kb & -> & -> & ->). reflexivity.
  Qed.

  Lemma order_passes_of_chain o cs : forall (rrs : list mrec) last,
    match last, rrs with
    | Some lr, r :: _ => keys_ordered o cs (mcols lr) (mcols r)
    | _, _ => True
    end ->
    chain (keys_ordered o cs) (map (@mcols C W) rrs) ->
    order_passes key_of key_lt o cs last rrs.
  Proof.
    induction rrs as [|r rrs IH]; intros last Hl Hc; [exact I|]. cbn [order_passes]. split.
    - destruct last as [lr|]; [now apply check_order_of_keys|reflexivity].
    - apply IH.
      + destruct rrs as [|r2 rrs]; [exact I|]. cbn [map chain] in Hc. tauto.
      + destruct rrs as [|r2 rrs]; [exact I|]. cbn [map chain] in Hc. tauto.
  Qed.

  (* ---------- a writer session under the scheme it ends up with ---------- *)
  (* the scheme is the header's, or (no scheme in the header) the one the
     first record fixes *)
  Definition fixes_scheme (sch : option scheme) (s : scheme) (m : mode) (rs : list mrec) : Prop :=
    sch = Some s \/
    (sch = None /\ exists r1 rest, rs = r1 :: rest /\ s = no_restrictions (record_names r1) /\
                                   names_writable (record_names r1) = true /\
                                   exists lg v, record_validate sem r1 (Some m) LgWriter true (Some s) = (lg, Ok v)).

  Definition start_writer (h : header) (sch : option scheme) (m : mode) (s : scheme) : writer :=
    with_out (mk_writer h sch m tt (validate_errs registry (hrecs h) sch)) s
             (header_entries (hrecs h) ++ [join [TAB] (s_names s)]).

  Lemma write_file_under (h : header) m sch s rs l :
    h_scheme registry (hrecs h) = Ok sch ->
    process m LgWriter (validate_errs registry (hrecs h) sch) = (l, Ok tt) ->
    fixes_scheme sch s m rs -> s_truthy s = true ->
    write_file h (Some m) rs =
    (let '(os, w') := writer_adds sem (start_writer h sch m s) rs in
     {| wr_log := l ++ []; wr_init := Ok (validate_errs registry (hrecs h) sch); wr_adds := os;
        wr_entries := w_out w'; wr_scheme := w_scheme w' |}).
  Proof.
    intros Hs Hp Hfix Ht. unfold FileIO.write_file. rewrite (writer_init_fwd registry h m sch l Hs Hp).
    destruct Hfix as [->|(-> & r1 & rest & -> & -> & Hw & lgv & v & Hv)].
    - assert (E : mk_writer h (Some s) m tt (validate_errs registry (hrecs h) (Some s)) = start_writer h (Some s) m s).
      { unfold start_writer, with_out, mk_writer. cbn [w_header w_scheme w_mode w_out]. now rewrite Ht. }
      rewrite E. destruct (writer_adds sem (start_writer h (Some s) m s) rs) as [os w']. reflexivity.
    - set (s := no_restrictions (record_names r1)) in *.
      set (w0 := mk_writer h None m tt (validate_errs registry (hrecs h) None)).
      assert (E : writer_adds sem w0 (r1 :: rest) = writer_adds sem (start_writer h None m s) (r1 :: rest)).
      { cbn [writer_adds]. rewrite (iadd_no_scheme sem w0 r1 lgv v eq_refl Hw Ht Hv). fold s.
        assert (Ew : with_out w0 s (w_out w0 ++ [join [TAB] (s_names s)]) = start_writer h None m s).
        { unfold start_writer, w0. rewrite mk_writer_out. cbn [column_entries]. now rewrite app_nil_r. }
        now rewrite Ew. }
      rewrite E. destruct (writer_adds sem (start_writer h None m s) (r1 :: rest)) as [os w']. reflexivity.
  Qed.

  (* the records the writer validated and wrote *)
  Definition accepted_records (x : written C W) : list mrec :=
    flat_map (fun o => match snd o with Ok r => [r] | Raise _ => [] end) (wr_adds x).

  Lemma accepted_records_of (os : list (log * res mrec)) (vts : list (mrec * str)) :
    map snd os = map (fun vt => Ok (fst vt)) vts ->
    flat_map (fun o => match snd o with Ok r => [r] | Raise _ => [] end) os = map fst vts.
  Proof.
    revert vts. induction os as [|o os IH]; intros [|vt vts] H; try discriminate; [reflexivity|].
    cbn [map] in H. injection H as H0 H. cbn [flat_map map]. rewrite H0. cbn [app]. now rewrite (IH vts H).
  Qed.

  (* a scheme-less writer that accepted its first record found its column
     names writable (otherwise `writer += record` raises ValueError) *)
  Lemma clean_first_writable (h : header) m r1 rest :
    h_scheme registry (hrecs h) = Ok None ->
    wr_clean (write_file h (Some m) (r1 :: rest)) = true ->
    names_writable (record_names r1) = true.
  Proof.
    intros Hs Hclean. unfold wr_clean, FileIO.write_file in Hclean.
    destruct (writer_init registry h (Some m)) as [lg [w|e]] eqn:EI; [|discriminate].
    destruct (writer_init_ok registry h m lg w EI) as (sch' & Hs' & _ & ->).
    rewrite Hs in Hs'. injection Hs' as <-.
    destruct (names_writable (record_names r1)) eqn:Hw; [reflexivity|].
    cbn [writer_adds] in Hclean.
    rewrite (iadd_refused sem (mk_writer h None m tt (validate_errs registry (hrecs h) None)) r1 eq_refl Hw) in Hclean.
    destruct (writer_adds sem _ rest) as [os w']. cbn in Hclean. discriminate.
  Qed.

  (* ... and validated the record under the scheme of its names *)
  Lemma clean_first_validates (h : header) m r1 rest :
    h_scheme registry (hrecs h) = Ok None ->
    wr_clean (write_file h (Some m) (r1 :: rest)) = true ->
    exists lg v, record_validate sem r1 (Some m) LgWriter true (Some (no_restrictions (record_names r1))) = (lg, Ok v).
  Proof.
    intros Hs Hclean. pose proof (clean_first_writable h m r1 rest Hs Hclean) as Hw.
    unfold wr_clean, FileIO.write_file in Hclean.
    destruct (writer_init registry h (Some m)) as [lg [w|e]] eqn:EI; [|discriminate].
    destruct (writer_init_ok registry h m lg w EI) as (sch' & Hs' & _ & ->).
    rewrite Hs in Hs'. injection Hs' as <-.
    set (w0 := mk_writer h None m tt (validate_errs registry (hrecs h) None)) in *.
    destruct (record_validate sem r1 (Some m) LgWriter true (Some (no_restrictions (record_names r1)))) as [lgv [v|e]] eqn:EV;
      [eauto|].
    cbn [writer_adds] in Hclean.
    rewrite (iadd_no_scheme_invalid sem w0 r1 lgv e eq_refl Hw EV) in Hclean.
    destruct (writer_adds sem w0 rest) as [os w']. cbn in Hclean. discriminate.
  Qed.

  (* ----- first write: from "clean" to the entries ----- *)
  Lemma first_write (h : header) m sch s rs :
    h_scheme registry (hrecs h) = Ok sch -> fixes_scheme sch s m rs -> s_truthy s = true ->
    wr_clean (write_file h (Some m) rs) = true ->
    exists l (vts : list (mrec * str)),
      process m LgWriter (validate_errs registry (hrecs h) sch) = (l, Ok tt) /\
      Forall2 (fun r vt => accepted s m r (fst vt) (snd vt)) rs vts /\
      accepted_records (write_file h (Some m) rs) = map fst vts /\
      wr_entries (write_file h (Some m) rs)
      = header_entries (hrecs h) ++ join [TAB] (s_names s) :: map snd vts.
  Proof.
    intros Hs Hfix Ht Hclean.
    assert (Hp : exists l, process m LgWriter (validate_errs registry (hrecs h) sch) = (l, Ok tt)).
    { unfold wr_clean, FileIO.write_file in Hclean.
      destruct (writer_init registry h (Some m)) as [lg [w|e]] eqn:EI; [|discriminate].
      destruct (writer_init_ok registry h m lg w EI) as (sch' & Hs' & Hp & _).
      rewrite Hs in Hs'. now injection Hs' as <-. }
    destruct Hp as [l Hp]. exists l.
    rewrite (write_file_under h m sch s rs l Hs Hp Hfix Ht) in *.
    destruct (writer_adds sem (start_writer h sch m s) rs) as [os w'] eqn:EA.
    unfold wr_clean in Hclean. cbn [wr_init wr_adds] in Hclean.
    destruct (adds_inv sem s m rs (start_writer h sch m s) os w' eq_refl Ht eq_refl EA Hclean)
      as (vts & HF & Hos & Hout & _ & _).
    exists vts. split; [exact Hp|]. split; [exact HF|]. split.
    - unfold accepted_records. cbn [wr_adds]. now apply accepted_records_of.
    - cbn [wr_entries]. rewrite Hout. unfold start_writer, with_out. cbn [w_out]. now rewrite <- app_assoc.
  Qed.

  (* ----- second write: acceptable records give a clean session with known entries ----- *)
  Lemma clean_write (h : header) m sch s rs l (vts : list (mrec * str)) :
    h_scheme registry (hrecs h) = Ok sch ->
    process m LgWriter (validate_errs registry (hrecs h) sch) = (l, Ok tt) ->
    fixes_scheme sch s m rs -> s_truthy s = true ->
    Forall2 (fun r vt => accepted s m r (fst vt) (snd vt)) rs vts ->
    wr_clean (write_file h (Some m) rs) = true /\
    accepted_records (write_file h (Some m) rs) = map fst vts /\
    wr_entries (write_file h (Some m) rs)
    = header_entries (hrecs h) ++ join [TAB] (s_names s) :: map snd vts.
  Proof.
    intros Hs Hp Hfix Ht HF. rewrite (write_file_under h m sch s rs l Hs Hp Hfix Ht).
    destruct (adds_fwd sem s m rs vts (start_writer h sch m s) eq_refl Ht eq_refl HF)
      as (os & w' & EA & Hc & Hos & Hout & _).
    rewrite EA. unfold wr_clean, accepted_records. cbn [wr_init wr_adds wr_entries]. split; [exact Hc|]. split.
    - now apply accepted_records_of.
    - rewrite Hout. unfold start_writer, with_out. cbn [w_out]. now rewrite <- app_assoc.
  Qed.

  (* ---------- the lines of the written file ---------- *)
  Lemma file_text_header_entries (recs : list (str * hrec)) rest :
    file_text (header_entries recs ++ rest) = file_text (header_print_lines recs ++ rest).
  Proof.
    unfold header_entries. destruct recs as [|kr recs]; [reflexivity|].
    cbn [nonempty app]. unfold header_print. apply file_text_join. discriminate.
  Qed.

  Lemma written_lines (recs : list (str * hrec)) (rest : list str) (translate : bool) :
    Forall no_crlf (header_print_lines recs) -> Forall no_crlf rest ->
    (if translate then file_lines (file_text (header_entries recs ++ rest))
     else lines_of (file_text (header_entries recs ++ rest)))
    = header_print_lines recs ++ rest.
  Proof.
    intros H1 H2. rewrite file_text_header_entries.
    assert (H : Forall no_crlf (header_print_lines recs ++ rest)) by (apply Forall_app; auto).
    destruct translate; [now apply file_lines_file_text|].
    apply lines_of_file_text. eapply Forall_impl; [|exact H]. unfold no_crlf. tauto.
  Qed.

  (* ---------- reading the written lines ---------- *)
  Notation rereads := (@rereads C W).
  Notation reread := (@reread C W).
  Notation row_line := (@row_line C W).

  Lemma rereads_mcols m rows : forall n,
    map (@mcols C W) (rereads m n rows) = map (fun row => canon_rec (cells_of row)) rows.
  Proof. induction rows as [|row rows IH]; intros n; [reflexivity|]. cbn [rereads map]. now rewrite IH. Qed.

  Lemma read_written (recs : list (str * hrec)) verrs sch (s : scheme) m (rows : list (list cell)) l1 l2 :
    Forall (fun pl => no_crlf pl /\ startswith pl [HASH] = true) (header_print_lines recs) ->
    hfl_core registry (header_print_lines recs) = (recs, verrs) ->
    h_scheme registry recs = Ok sch ->
    carriable (s_names s) -> reader_scheme sch (s_names s) = s ->
    s_truthy s = true -> NoDup (s_names s) ->
    Forall (row_good sem s) rows ->
    process m LgRoot verrs = (l1, Ok tt) -> process m LgReader (verrs ++ []) = (l2, Ok tt) ->
    let n0 := Z.of_nat (length (header_print_lines recs)) + 2 in
    order_passes key_of key_lt (fst (h_sort_order recs)) (snd (h_sort_order recs)) None (rereads m n0 rows) ->
    let rn := read_lines sem registry key_of key_lt
                (header_print_lines recs ++ join [TAB] (s_names s) :: map row_line rows) (Some m) in
    exists rd, run_init rn = Ok rd /\ rd_header rd = mk_header m recs verrs /\ rd_scheme rd = Some s /\
               run_recs rn = rereads m n0 rows /\ run_end rn = EndStop.
  Proof.
    intros Hblock Hcore Hsch Hcar Hrs Ht ND Hgood Hp1 Hp2 n0 Hord rn.
    assert (Hdata : Forall no_crlf (map row_line rows)).
    { apply Forall_forall. intros x Hx. apply in_map_iff in Hx as (row & <- & Hrow).
      rewrite Forall_forall in Hgood. eapply row_line_no_crlf; eauto. }
    assert (Hnames : s_names (reader_scheme sch (s_names s)) = s_names s) by now rewrite Hrs.
    pose proof (plan_written registry recs verrs sch (s_names s) (map row_line rows)
                  Hblock Hcore Hsch Hcar Hnames Hdata) as P. cbv zeta in P.
    set (lines := header_print_lines recs ++ join [TAB] (s_names s) :: map row_line rows) in *.
    set (p := plan_of registry lines None) in *.
    destruct P as (P1 & P2 & P3 & P4 & P5 & P6 & P7).
    assert (Hinit : snd (reader_init registry lines (Some m) None) = Ok (mk_reader m p)).
    { apply (reader_init_ok registry lines m l1 l2); fold p; [now rewrite P2|now rewrite P3]. }
    subst rn. unfold read_lines, read_run.
    destruct (reader_init registry lines (Some m) None) as [lg r]. cbn [snd] in Hinit. subst r.
    rewrite reader_iterate_mk, P1, P4, P5, P6, P7, Hrs.
    destruct rows as [|row rows].
    - cbn [map hd_error]. eexists. cbn [run_init run_recs run_end]. split; [reflexivity|].
      unfold mk_reader. cbn [rd_header rd_scheme]. rewrite P1, P2, P4, Hrs. repeat split.
    - cbn [map hd_error tl].
      replace (Z.of_nat (length (header_print_lines recs)) + 1 + 1) with n0 by (subst n0; lia).
      rewrite (iterate_rows sem key_of key_lt s m _ _ rows row n0 None Ht ND Hgood Hord).
      eexists. cbn [run_init run_recs run_end]. split; [reflexivity|].
      unfold mk_reader. cbn [rd_header rd_scheme]. rewrite P1, P2, P4, Hrs. repeat split.
  Qed.

  (* ---------- rows of the accepted records ---------- *)
  Notation row_of := (row_of sem).
  Notation cells_of_rec := (@cells_of_rec C W).

  Definition rows_of (s : scheme) (vts : list (mrec * str)) : list (list cell) :=
    map (fun vt => row_of s (cells_of_rec (mcols (fst vt)))) vts.

  Lemma rows_of_accepted (s : scheme) m : forall rs (vts : list (mrec * str)),
    s_truthy s = true -> NoDup (s_names s) ->
    Forall2 (fun r vt => accepted s m r (fst vt) (snd vt)) rs vts -> Forall (rereadable s) rs ->
    Forall (row_good sem s) (rows_of s vts) /\ Forall (row_renders sem) (rows_of s vts) /\
    map snd vts = map row_line (rows_of s vts) /\
    Forall (fun vt => record_text sem (fst vt) = Ok (snd vt)) vts /\
    Forall2 (fun r v => cells_of_rec (mcols r) = cells_of_rec (mcols v) /\
                        map (@slot_view C W) (rlist (mcols v)) = map (@slot_view C W) (rlist (canon_rec (cells_of_rec (mcols v))))) rs (map fst vts) /\
    match rs with r1 :: _ => record_names r1 = s_names s | [] => True end.
  Proof.
    intros rs vts Ht ND HF. induction HF as [|r [v t] rs vts Ha HF IH]; intros Hex.
    - repeat split; constructor.
    - inversion Hex as [|? ? Hr Hrest]; subst. cbn [fst snd] in Ha.
      destruct (accepted_row sem isinst_plain value_hazard record_fixpoint s m r v t Ht ND Ha Hr)
        as (Hcells & Hnm & Hslots & Hg & Hrn & ->).
      destruct (IH Hrest) as (I1 & I2 & I3 & I4 & I5 & _).
      unfold rows_of in *. cbn [map fst snd]. repeat split.
      + constructor; assumption.
      + constructor; assumption.
      + now rewrite I3.
      + constructor; [|exact I4]. destruct Ha as (lg & _ & _ & ET). exact ET.
      + constructor; [split; assumption|exact I5].
      + rewrite Hnm. destruct Hg as (Hn & _ & _). rewrite Hn. now rewrite row_of_names.
  Qed.

  (* the re-read records, paired with their lines, are acceptable *)
  Fixpoint reread_vts (m : mode) (n : Z) (rows : list (list cell)) : list (mrec * str) :=
    match rows with
    | [] => []
    | row :: rest => (reread m n row, row_line row) :: reread_vts m (n + 1) rest
    end.

  Lemma reread_vts_spec m rows : forall n,
    map fst (reread_vts m n rows) = rereads m n rows /\ map snd (reread_vts m n rows) = map row_line rows.
  Proof.
    induction rows as [|row rows IH]; intros n; [split; reflexivity|].
    cbn [reread_vts rereads map fst snd]. destruct (IH (n + 1)) as [-> ->]. split; reflexivity.
  Qed.

  Lemma rereads_accepted (s : scheme) m rows : forall n,
    s_truthy s = true -> NoDup (s_names s) ->
    Forall (row_good sem s) rows -> Forall (row_renders sem) rows ->
    Forall2 (fun r vt => accepted s m r (fst vt) (snd vt)) (rereads m n rows) (reread_vts m n rows).
  Proof.
    induction rows as [|row rows IH]; intros n Ht ND Hg Hr; [constructor|].
    inversion Hg; inversion Hr; subst. cbn [rereads reread_vts]. constructor.
    - cbn [fst snd]. now apply reread_accepted.
    - now apply IH.
  Qed.

  Lemma reread_matches (s : scheme) m : forall (vts : list (mrec * str)) n,
    Forall (fun vt => record_text sem (fst vt) = Ok (snd vt)) vts ->
    map snd vts = map row_line (rows_of s vts) ->
    Forall (row_renders sem) (rows_of s vts) ->
    Forall2 (fun r' v => mcols r' = reread_view s (mcols v) /\ merrs r' = [] /\
                         record_text sem r' = record_text sem v)
            (rereads m n (rows_of s vts)) (map fst vts).
  Proof.
    induction vts as [|[v t] vts IH]; intros n Htx Hsnd Hren; [constructor|].
    unfold rows_of in *. cbn [map fst snd rereads] in *.
    inversion Htx as [|? ? Hv Htx']; subst. inversion Hren as [|? ? Hr Hren']; subst.
    injection Hsnd as Ht Hsnd. constructor; [|now apply IH].
    cbn [fst snd] in Hv. unfold FileIORead.reread. cbn [mk_mrec mcols merrs]. split.
    - unfold FileIORows.reread_view. now rewrite row_of_cells.
    - split; [reflexivity|]. rewrite Hv, Ht. apply record_text_canon.
      unfold cells_of. clear - Hr. induction Hr as [|c row Hc _ IHr]; cbn [map]; constructor; assumption.
  Qed.

  (* ---------- the round trip ---------- *)
  Theorem round_trip_core hl m0 lg0 l0 (h : header) sch (s : scheme) m rs (translate : bool) :
    header_from_lines registry hl m0 lg0 = (l0, Ok h) -> Forall no_crlf hl ->
    h_scheme registry (hrecs h) = Ok sch -> fixes_scheme sch s m rs ->
    s_truthy s = true -> carriable (s_names s) -> NoDup (s_names s) ->
    Forall (rereadable s) rs ->
    let w1 := write_file h (Some m) rs in
    wr_clean w1 = true ->
    in_declared_order (hrecs h) (map (fun v => reread_view s (mcols v)) (accepted_records w1)) ->
    let rt := round_trip_of sem registry key_of key_lt h (Some m) rs translate in
    exists rd w2,
      run_init (rt_read rt) = Ok rd /\ run_end (rt_read rt) = EndStop /\
      hrecs (rd_header rd) = hrecs h /\ rd_scheme rd = Some s /\
      Forall2 (fun r' v => mcols r' = reread_view s (mcols v) /\ merrs r' = [] /\
                           record_text sem r' = record_text sem v)
              (run_recs (rt_read rt)) (accepted_records w1) /\
      Forall2 (fun r v => cells_of_rec (mcols r) = cells_of_rec (mcols v) /\
                          map (@slot_view C W) (rlist (mcols v)) = map (@slot_view C W) (rlist (canon_rec (cells_of_rec (mcols v)))))
              rs (accepted_records w1) /\
      rt_second rt = Some w2 /\ wr_clean w2 = true /\ wr_entries w2 = wr_entries w1.
  Proof.
    intros Hh Hhl Hsch Hfix Ht Hcar ND Hex w1 Hclean Hord rt.
    destruct (first_write h m sch s rs Hsch Hfix Ht Hclean) as (l & vts & Hp & HF & Hacc & Hent).
    fold w1 in Hacc, Hent.
    destruct (rows_of_accepted s m rs vts Ht ND HF Hex) as (Hgood & Hren & Htexts & Htext & Hsame & Hfirst).
    set (rows := rows_of s vts) in *.
    pose proof (printed_lines_block registry hl m0 lg0 l0 h Hh Hhl) as Hblock.
    destruct (printed_lines_parse registry hl m0 lg0 l0 h Hh) as (sch' & Hsch' & Hcore).
    rewrite Hsch in Hsch'. injection Hsch' as <-.
    set (recs := hrecs h) in *. set (verrs := validate_errs registry recs sch) in *.
    (* the scheme the reader settles on is s *)
    assert (Hrs : reader_scheme sch (s_names s) = s).
    { destruct Hfix as [->|(-> & r1 & rest & -> & Es & _)].
      - unfold reader_scheme. now rewrite (h_scheme_not_norestr registry recs s Hsch).
      - unfold reader_scheme. rewrite <- Hfirst. now rewrite <- Es. }
    (* the lines of the file *)
    destruct (column_line_ok (s_names s) Hcar) as (Hc1 & _ & _).
    assert (Hdata : Forall no_crlf (map row_line rows)).
    { apply Forall_forall. intros x Hx. apply in_map_iff in Hx as (row & <- & Hrow).
      rewrite Forall_forall in Hgood. eapply row_line_no_crlf; eauto. }
    assert (Hlines : (if translate then file_lines (wr_text w1) else lines_of (wr_text w1))
                     = header_print_lines recs ++ join [TAB] (s_names s) :: map row_line rows).
    { unfold wr_text. rewrite Hent, Htexts. apply written_lines.
      - eapply Forall_impl; [|exact Hblock]. cbv beta. tauto.
      - constructor; assumption. }
    (* the reader's two error checks pass as the writer's did *)
    destruct (process_ok_logger m LgWriter LgRoot verrs l Hp) as [l1 Hp1].
    destruct (process_ok_logger m LgWriter LgReader verrs l Hp) as [l2 Hp2].
    rewrite <- (app_nil_r verrs) in Hp2.
    (* the order check passes *)
    set (n0 := Z.of_nat (length (header_print_lines recs)) + 2).
    assert (Hviews : map (@mcols C W) (rereads m n0 rows)
                     = map (fun v => reread_view s (mcols v)) (map fst vts)).
    { rewrite rereads_mcols. unfold rows, rows_of. rewrite !map_map. apply map_ext. intros vt.
      unfold FileIORows.reread_view. now rewrite row_of_cells. }
    assert (Hpass : order_passes key_of key_lt (fst (h_sort_order recs)) (snd (h_sort_order recs)) None
                                 (rereads m n0 rows)).
    { apply order_passes_of_chain; [exact I|]. rewrite Hviews, <- Hacc. exact Hord. }
    destruct (read_written recs verrs sch s m rows l1 l2 Hblock Hcore Hsch Hcar Hrs Ht ND Hgood Hp1 Hp2 Hpass)
      as (rd & Hinit & Hhdr & Hrsch & Hrecs & Hend).
    fold n0 in Hrecs.
    (* the read leg of the round trip is that run *)
    assert (Ert : rt_read rt = read_lines sem registry key_of key_lt
                                 (header_print_lines recs ++ join [TAB] (s_names s) :: map row_line rows) (Some m)).
    { subst rt. unfold round_trip_of. cbn [rt_read]. fold w1. unfold read_path, read_text. destruct translate; now rewrite <- Hlines. }
    (* second write *)
    assert (Hfix2 : fixes_scheme sch s m (rereads m n0 rows)).
    { destruct Hfix as [->|(-> & r1 & rest & -> & Es & Hw & _)]; [now left|right]. split; [reflexivity|].
      destruct vts as [|vt1 vts1]; [inversion HF|].
      subst rows. unfold rows_of in *. cbn [map] in Hgood, Hren |- *.
      pose proof (Forall_inv Hgood) as Hg1. pose proof (Forall_inv Hren) as Hr1.
      destruct (reread_accepted sem s m n0 _ Ht ND Hg1 Hr1) as (lg2 & Hv2 & _ & _).
      destruct Hg1 as (Hn1 & _ & _).
      cbn [rereads]. eexists _, _. split; [reflexivity|]. rewrite reread_names, <- Hn1, <- Hfirst.
      split; [exact Es|]. split; [exact Hw|]. eauto. }
    pose proof (rereads_accepted s m rows n0 Ht ND Hgood Hren) as HF2.
    destruct (reread_vts_spec m rows n0) as [Hv1 Hv2].
    destruct (clean_write (mk_header m recs verrs) m sch s (rereads m n0 rows) l (reread_vts m n0 rows)
                Hsch Hp Hfix2 Ht HF2) as (Hclean2 & _ & Hent2).
    exists rd, (write_file (mk_header m recs verrs) (Some m) (rereads m n0 rows)).
    rewrite Ert. split; [exact Hinit|]. split; [exact Hend|]. split; [now rewrite Hhdr|]. split; [exact Hrsch|].
    split; [|split; [|split; [|split]]].
    - rewrite Hrecs, Hacc. apply reread_matches; assumption.
    - rewrite Hacc. exact Hsame.
    - subst rt. unfold round_trip_of. cbn [rt_second]. fold w1. unfold rewrite.
      assert (Ert2 : (if translate then read_path sem registry key_of key_lt (wr_text w1) (Some m)
                      else read_text sem registry key_of key_lt (wr_text w1) (Some m))
                     = read_lines sem registry key_of key_lt
                         (header_print_lines recs ++ join [TAB] (s_names s) :: map row_line rows) (Some m)).
      { unfold read_path, read_text. destruct translate; now rewrite <- Hlines. }
      rewrite Ert2, Hinit, Hhdr, Hrecs. reflexivity.
    - exact Hclean2.
    - rewrite Hent2, Hent, Hv2, Htexts. reflexivity.
  Qed.
End RoundTrip.
