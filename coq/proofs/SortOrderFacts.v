(* SortOrderFacts.v - lemmas for C08: the comparison of sort keys is a total
   preorder, equals the documented order, the six operators follow it, key
   construction fails exactly for an unlisted chromosome, `<` on keys is a
   strict weak order. *)
From MafVerif Require Import lib.Base lib.Str lib.SortOrderLib model.SortOrder spec.SpecOrder.

(* ---------- generic lexicographic order over a total order ---------- *)
Section Lex.
  Context {X : Type} (c : X -> X -> comparison).
  Fixpoint lex_cmp (a b : list X) : comparison :=
    match a, b with
    | [], [] => Eq
    | [], _ :: _ => Lt
    | _ :: _, [] => Gt
    | x :: a', y :: b' => match c x y with Eq => lex_cmp a' b' | r => r end
    end.
  Hypothesis c_eq : forall x y, c x y = Eq <-> x = y.
  Hypothesis c_anti : forall x y, c y x = CompOpp (c x y).
  Hypothesis c_trans : forall r x y z, c x y = r -> c y z = r -> c x z = r.

  Lemma lex_eq a b : lex_cmp a b = Eq <-> a = b.
  Proof.
    revert b; induction a as [|x a IH]; intros [|y b]; simpl; split; try congruence; try discriminate.
    - destruct (c x y) eqn:E; try discriminate. intros H. apply c_eq in E. apply IH in H. congruence.
    - intros H. injection H as -> ->. replace (c y y) with Eq by (symmetry; now apply c_eq). now apply IH.
  Qed.
  Lemma lex_anti a b : lex_cmp b a = CompOpp (lex_cmp a b).
  Proof.
    revert b; induction a as [|x a IH]; intros [|y b]; simpl; try reflexivity.
    rewrite (c_anti x y). destruct (c x y); simpl; auto.
  Qed.
  Lemma lex_trans r a b d : lex_cmp a b = r -> lex_cmp b d = r -> lex_cmp a d = r.
  Proof.
    revert b d; induction a as [|x a IH]; intros [|y b] [|z d]; simpl; try congruence.
    destruct (c x y) eqn:Exy; destruct (c y z) eqn:Eyz;
      try (apply c_eq in Exy; subst x); try (apply c_eq in Eyz; subst z);
      try rewrite Exy; try rewrite Eyz; try congruence.
    - replace (c y y) with Eq by (symmetry; now apply c_eq). apply IH.
    - intros <- _. now rewrite (c_trans Lt x y z).
    - intros <- _. now rewrite (c_trans Gt x y z).
  Qed.
  Lemma lex_refl a : lex_cmp a a = Eq.
  Proof. now apply lex_eq. Qed.
  (* non-strict transitivity *)
  Lemma lex_le_trans a b d : lex_cmp a b <> Gt -> lex_cmp b d <> Gt -> lex_cmp a d <> Gt.
  Proof.
    intros H1 H2.
    destruct (lex_cmp a b) eqn:E1; [apply lex_eq in E1; now subst| |congruence].
    destruct (lex_cmp b d) eqn:E2; [apply lex_eq in E2; subst; congruence| |congruence].
    rewrite (lex_trans Lt a b d); congruence.
  Qed.
End Lex.

(* ---------- a total order on the values that reach a key ---------- *)
Definition pv_cmp (a b : pv) : comparison :=
  match a, b with
  | PNone, PNone => Eq
  | PNone, _ => Gt
  | _, PNone => Lt
  | PInt x, PInt y => Z.compare x y
  | PInt _, PStr _ => Lt
  | PStr _, PInt _ => Gt
  | PStr x, PStr y => str_cmp x y
  end.

Lemma pv_cmp_eq a b : pv_cmp a b = Eq <-> a = b.
Proof.
  destruct a, b; simpl; split; try congruence; try discriminate.
  - intros H. apply Z.compare_eq in H. congruence.
  - intros H. injection H as ->. apply Z.compare_refl.
  - intros H. apply str_cmp_eq in H. congruence.
  - intros H. injection H as ->. apply str_cmp_refl.
Qed.
Lemma pv_cmp_anti a b : pv_cmp b a = CompOpp (pv_cmp a b).
Proof. destruct a, b; simpl; auto using Z.compare_antisym, str_cmp_antisym. Qed.
Lemma pv_cmp_trans r a b d : pv_cmp a b = r -> pv_cmp b d = r -> pv_cmp a d = r.
Proof.
  destruct a, b, d; simpl; try congruence.
  - destruct r; intros H1 H2.
    + apply Z.compare_eq in H1, H2. subst. apply Z.compare_refl.
    + rewrite Z.compare_lt_iff in *. lia.
    + rewrite Z.compare_gt_iff in *. lia.
  - apply str_cmp_trans.
Qed.

(* the key as the sequence of its components *)
Definition ckey_list (k : ckey) : list pv := [k_chrom k; k_start k; k_end k].
Definition skey_list (k : skey) : list pv :=
  match k with KCoord c => ckey_list c | KBar t n c => t :: n :: ckey_list c end.
Definition key_tcmp (a b : skey) : comparison := lex_cmp pv_cmp (skey_list a) (skey_list b).
(* `<` on keys as a total boolean function *)
Definition key_ltb (a b : skey) : bool := match key_tcmp a b with Lt => true | _ => false end.

Lemma key_tcmp_refl a : key_tcmp a a = Eq.
Proof. apply lex_refl, pv_cmp_eq. Qed.
Lemma key_tcmp_anti a b : key_tcmp b a = CompOpp (key_tcmp a b).
Proof. apply lex_anti, pv_cmp_anti. Qed.
Lemma key_tcmp_trans r a b d : key_tcmp a b = r -> key_tcmp b d = r -> key_tcmp a d = r.
Proof. apply lex_trans; [apply pv_cmp_eq|apply pv_cmp_trans]. Qed.
Lemma key_tcmp_le_trans a b d : key_tcmp a b <> Gt -> key_tcmp b d <> Gt -> key_tcmp a d <> Gt.
Proof. apply lex_le_trans; [apply pv_cmp_eq|apply pv_cmp_trans]. Qed.
Lemma key_tcmp_eq_lists a b : key_tcmp a b = Eq <-> skey_list a = skey_list b.
Proof. apply lex_eq, pv_cmp_eq. Qed.

(* strict weak order, packaged *)
Record strict_weak_order {K : Type} (lt : K -> K -> bool) : Prop := {
  swo_irrefl : forall a, lt a a = false;
  swo_trans : forall a b c, lt a b = true -> lt b c = true -> lt a c = true;
  swo_incomp_trans : forall a b c,
      lt a b = false -> lt b a = false -> lt b c = false -> lt c b = false ->
      lt a c = false /\ lt c a = false }.

Lemma key_ltb_irrefl a : key_ltb a a = false.
Proof. unfold key_ltb. now rewrite key_tcmp_refl. Qed.
Lemma key_ltb_trans a b c : key_ltb a b = true -> key_ltb b c = true -> key_ltb a c = true.
Proof.
  unfold key_ltb. destruct (key_tcmp a b) eqn:E1; try discriminate.
  destruct (key_tcmp b c) eqn:E2; try discriminate.
  now rewrite (key_tcmp_trans Lt a b c).
Qed.
Lemma key_ltb_incomp a b : key_ltb a b = false -> key_ltb b a = false -> key_tcmp a b = Eq.
Proof.
  unfold key_ltb. rewrite (key_tcmp_anti a b). destruct (key_tcmp a b); simpl; congruence.
Qed.
Lemma key_ltb_incomp_trans a b c :
  key_ltb a b = false -> key_ltb b a = false -> key_ltb b c = false -> key_ltb c b = false ->
  key_ltb a c = false /\ key_ltb c a = false.
Proof.
  intros H1 H2 H3 H4. pose proof (key_ltb_incomp _ _ H1 H2) as E1. pose proof (key_ltb_incomp _ _ H3 H4) as E2.
  pose proof (key_tcmp_trans Eq _ _ _ E1 E2) as E. unfold key_ltb.
  rewrite (key_tcmp_anti a c), E. auto.
Qed.
Lemma key_ltb_strict_weak_order : strict_weak_order key_ltb.
Proof.
  constructor; [apply key_ltb_irrefl|apply key_ltb_trans|apply key_ltb_incomp_trans].
Qed.
(* a non-descending chain is sorted: every later element is not before an earlier one *)
Lemma key_ltb_false_trans a b c : key_ltb b a = false -> key_ltb c b = false -> key_ltb c a = false.
Proof.
  unfold key_ltb. intros H1 H2.
  assert (key_tcmp a b <> Gt) by (rewrite (key_tcmp_anti b a); destruct (key_tcmp b a); simpl; congruence).
  assert (key_tcmp b c <> Gt) by (rewrite (key_tcmp_anti c b); destruct (key_tcmp c b); simpl; congruence).
  pose proof (key_tcmp_le_trans a b c H H0) as H3.
  rewrite (key_tcmp_anti a c). destruct (key_tcmp a c); simpl; congruence.
Qed.

(* ---------- python's compare agrees with pv_cmp on comparable values ---------- *)
Definition compatb (a b : pv) : bool :=
  match a, b with PInt _, PStr _ | PStr _, PInt _ => false | _, _ => true end.

Lemma b2z_Z x y : b2z (y <? x) - b2z (x <? y) = zc (x ?= y).
Proof.
  destruct (Z.compare_spec x y) as [->|H|H]; simpl.
  - now rewrite Z.ltb_irrefl.
  - apply Z.ltb_lt in H as H'. rewrite H'. assert (E : (y <? x) = false) by (apply Z.ltb_ge; lia). now rewrite E.
  - apply Z.ltb_lt in H as H'. rewrite H'. assert (E : (x <? y) = false) by (apply Z.ltb_ge; lia). now rewrite E.
Qed.
Lemma b2z_str x y : b2z (str_ltb y x) - b2z (str_ltb x y) = zc (str_cmp x y).
Proof. unfold str_ltb. rewrite (str_cmp_antisym x y). destruct (str_cmp x y); reflexivity. Qed.

Lemma compare_compat a b : compatb a b = true -> compare a b = Ok (zc (pv_cmp a b)).
Proof.
  destruct a, b; simpl; try discriminate; try reflexivity; intros _.
  - now rewrite b2z_Z.
  - now rewrite b2z_str.
Qed.
Lemma compare_incompat a b : compatb a b = false -> compare a b = Raise TypeError.
Proof. destruct a, b; simpl; try discriminate; reflexivity. Qed.

Lemma zc_eq0 c : (zc c =? 0) = match c with Eq => true | _ => false end.
Proof. destruct c; reflexivity. Qed.

Lemma coord_cmp_tcmp x y :
  compatb (k_chrom x) (k_chrom y) = true -> compatb (k_start x) (k_start y) = true ->
  compatb (k_end x) (k_end y) = true ->
  coord_cmp x y = Ok (zc (lex_cmp pv_cmp (ckey_list x) (ckey_list y))).
Proof.
  intros H1 H2 H3. unfold coord_cmp, ckey_list. simpl.
  rewrite (compare_compat _ _ H1). simpl. rewrite zc_eq0.
  destruct (pv_cmp (k_chrom x) (k_chrom y)); simpl; try reflexivity.
  rewrite (compare_compat _ _ H2). simpl. rewrite zc_eq0.
  destruct (pv_cmp (k_start x) (k_start y)); simpl; try reflexivity.
  rewrite (compare_compat _ _ H3). destruct (pv_cmp (k_end x) (k_end y)); reflexivity.
Qed.

(* ---------- well-formed keys: what one key function produces ---------- *)
Definition int_or_none (v : pv) : bool := match v with PStr _ => false | _ => true end.
Definition str_or_none (v : pv) : bool := match v with PInt _ => false | _ => true end.
Definition wf_ckey (contigs : list pv) (k : ckey) : bool :=
  (match contigs with [] => str_or_none | _ :: _ => int_or_none end) (k_chrom k)
  && int_or_none (k_start k) && int_or_none (k_end k).
Definition wf_skey (kf : keyfn) (k : skey) : bool :=
  match k with
  | KCoord c => negb (kf_bar kf) && wf_ckey (kf_contigs kf) c
  | KBar t n c => kf_bar kf && str_or_none t && str_or_none n && wf_ckey (kf_contigs kf) c
  end.

Lemma int_or_none_compat a b : int_or_none a = true -> int_or_none b = true -> compatb a b = true.
Proof. destruct a, b; simpl; congruence. Qed.
Lemma str_or_none_compat a b : str_or_none a = true -> str_or_none b = true -> compatb a b = true.
Proof. destruct a, b; simpl; congruence. Qed.

Lemma wf_ckey_cmp cs x y : wf_ckey cs x = true -> wf_ckey cs y = true ->
  coord_cmp x y = Ok (zc (lex_cmp pv_cmp (ckey_list x) (ckey_list y))).
Proof.
  unfold wf_ckey. rewrite !andb_true_iff. intros [[A1 A2] A3] [[B1 B2] B3].
  apply coord_cmp_tcmp; auto using int_or_none_compat.
  destruct cs; auto using int_or_none_compat, str_or_none_compat.
Qed.

(* the model's __cmp__ is the total comparison on well-formed keys *)
Lemma key_cmp_tcmp kf a b : wf_skey kf a = true -> wf_skey kf b = true ->
  key_cmp a b = Ok (zc (key_tcmp a b)).
Proof.
  destruct a as [x|t n x], b as [y|t' n' y]; simpl; rewrite ?andb_true_iff.
  - intros [_ A] [_ B]. unfold key_tcmp. simpl skey_list. now apply (wf_ckey_cmp (kf_contigs kf)).
  - intros [A _] [[[B _] _] _]. rewrite B in A. discriminate.
  - intros [[[A _] _] _] [B _]. rewrite A in B. discriminate.
  - intros [[[_ T] N] A] [[[_ T'] N'] B]. unfold key_tcmp. simpl skey_list.
    rewrite (compare_compat t t') by now apply str_or_none_compat.
    cbn [bind lex_cmp]. rewrite zc_eq0. destruct (pv_cmp t t'); try reflexivity.
    rewrite (compare_compat n n') by now apply str_or_none_compat.
    cbn [bind]. rewrite zc_eq0. destruct (pv_cmp n n'); try reflexivity.
    now apply (wf_ckey_cmp (kf_contigs kf)).
Qed.

Lemma zc_lt c : (zc c <? 0) = match c with Lt => true | _ => false end.
Proof. destruct c; reflexivity. Qed.

Lemma key_lt_ltb kf a b : wf_skey kf a = true -> wf_skey kf b = true -> key_lt a b = Ok (key_ltb a b).
Proof.
  intros Ha Hb. unfold key_lt, key_ltb. rewrite (key_cmp_tcmp kf a b Ha Hb). simpl. now rewrite zc_lt.
Qed.

(* ---------- the six operators follow __cmp__ (no hypothesis) ---------- *)
Lemma operators_from_cmp a b d : key_cmp a b = Ok d ->
  key_lt a b = Ok (d <? 0) /\ key_le a b = Ok (d <=? 0) /\ key_gt a b = Ok (d >? 0) /\
  key_ge a b = Ok (d >=? 0) /\ key_eq a b = Ok (d =? 0) /\ key_ne a b = Ok (negb (d =? 0)).
Proof.
  intros H. unfold key_le, key_gt, key_ge, key_ne, key_eq, key_lt. rewrite H. simpl.
  repeat split; try reflexivity.
  - destruct (d <? 0) eqn:E; simpl; f_equal; symmetry.
    + apply Z.leb_le. apply Z.ltb_lt in E. lia.
    + apply Z.ltb_ge in E. destruct (Z.eqb_spec d 0); [apply Z.leb_le|apply Z.leb_gt]; lia.
  - destruct (d <? 0) eqn:E; simpl; f_equal; symmetry.
    + apply Z.ltb_lt in E. rewrite Z.gtb_ltb. apply Z.ltb_ge. lia.
    + apply Z.ltb_ge in E. rewrite Z.gtb_ltb.
      destruct (Z.eqb_spec d 0); simpl; [apply Z.ltb_ge|apply Z.ltb_lt]; lia.
  - f_equal. rewrite Z.geb_leb. destruct (d <? 0) eqn:E; simpl; symmetry.
    + apply Z.leb_gt. now apply Z.ltb_lt.
    + apply Z.leb_le. now apply Z.ltb_ge.
Qed.
(* an exception in __cmp__ is the outcome of every operator *)
Lemma operators_raise a b e : key_cmp a b = Raise e ->
  key_lt a b = Raise e /\ key_le a b = Raise e /\ key_gt a b = Raise e /\
  key_ge a b = Raise e /\ key_eq a b = Raise e /\ key_ne a b = Raise e.
Proof.
  intros H. unfold key_le, key_gt, key_ge, key_ne, key_eq, key_lt. rewrite H. simpl. tauto.
Qed.

(* ---------- total preorder of the model's comparison ---------- *)
Lemma zc_opp c : zc (CompOpp c) = - zc c.
Proof. destruct c; reflexivity. Qed.

Lemma key_cmp_preorder kf a b c :
  wf_skey kf a = true -> wf_skey kf b = true -> wf_skey kf c = true ->
  exists dab dba dbc dac,
    key_cmp a b = Ok dab /\ key_cmp b a = Ok dba /\ key_cmp b c = Ok dbc /\ key_cmp a c = Ok dac /\
    key_cmp a a = Ok 0 /\                       (* reflexive *)
    dba = - dab /\ (-1 <= dab <= 1) /\          (* total, results in {-1,0,1} *)
    (dab <= 0 -> dbc <= 0 -> dac <= 0) /\       (* transitive *)
    (dab <= 0 -> dba <= 0 -> dab = 0).          (* antisymmetric up to cmp = 0 *)
Proof.
  intros Ha Hb Hc.
  exists (zc (key_tcmp a b)), (zc (key_tcmp b a)), (zc (key_tcmp b c)), (zc (key_tcmp a c)).
  rewrite (key_cmp_tcmp kf a b), (key_cmp_tcmp kf b a), (key_cmp_tcmp kf b c), (key_cmp_tcmp kf a c),
          (key_cmp_tcmp kf a a) by assumption.
  rewrite key_tcmp_refl, (key_tcmp_anti a b), zc_opp.
  repeat split; try reflexivity.
  - destruct (key_tcmp a b); simpl; lia.
  - destruct (key_tcmp a b); simpl; lia.
  - intros H1 H2.
    assert (key_tcmp a b <> Gt) by (destruct (key_tcmp a b); simpl in *; try congruence; lia).
    assert (key_tcmp b c <> Gt) by (destruct (key_tcmp b c); simpl in *; try congruence; lia).
    pose proof (key_tcmp_le_trans a b c H H0). destruct (key_tcmp a c); simpl; try lia. congruence.
  - destruct (key_tcmp a b); simpl; lia.
Qed.

(* ---------- key construction ---------- *)
Definition contig_names (kf : keyfn) : list str := map py_str (kf_contigs kf).

(* barcode order asks the object for value(): it has to be a MafRecord *)
Definition keyable (kf : keyfn) (r : locatable) : Prop :=
  kf_bar kf = true -> exists cols, r = Maf cols.

Definition opv (o : option Z) : pv := match o with Some z => PInt z | None => PNone end.
Definition ostr (o : option str) : pv := match o with Some s => PStr s | None => PNone end.

Lemma component_chrom r : component (l_chromosome r) = Ok (field r n_Chromosome (match r with Plain c _ _ => c | _ => PNone end)).
Proof. destruct r as [c s e|cols]; simpl; [reflexivity|]. unfold maf_item_value. now destruct (assoc n_Chromosome cols). Qed.
Lemma component_start r : component (l_start r) = Ok (field r n_Start (match r with Plain _ s _ => s | _ => PNone end)).
Proof. destruct r as [c s e|cols]; simpl; [reflexivity|]. unfold maf_item_value. now destruct (assoc n_Start cols). Qed.
Lemma component_end r : component (l_end r) = Ok (field r n_End (match r with Plain _ _ e => e | _ => PNone end)).
Proof. destruct r as [c s e|cols]; simpl; [reflexivity|]. unfold maf_item_value. now destruct (assoc n_End cols). Qed.

Lemma position_doc v : position v = opv (doc_pos v).
Proof. destruct v; reflexivity. Qed.

Lemma doc_chrom r : s_chrom (doc r) = doc_name (field r n_Chromosome (match r with Plain c _ _ => c | _ => PNone end)).
Proof. now destruct r. Qed.
Lemma doc_start r : s_start (doc r) = doc_pos (field r n_Start (match r with Plain _ s _ => s | _ => PNone end)).
Proof. now destruct r. Qed.
Lemma doc_end r : s_end (doc r) = doc_pos (field r n_End (match r with Plain _ _ e => e | _ => PNone end)).
Proof. now destruct r. Qed.

(* the chromosome component of a key, from the documented name *)
Definition chrom_component (names : list str) (c : option str) : res pv :=
  match c with
  | None => Ok PNone
  | Some n =>
      match names with
      | [] => Ok (PStr n)
      | _ :: _ => match index_of n names with Some i => Ok (PInt i) | None => Raise ValueError end
      end
  end.

Lemma coord_key_doc r contigs :
  coord_key r contigs =
  bind (chrom_component (map py_str contigs) (s_chrom (doc r))) (fun c =>
  Ok {| k_chrom := c; k_start := opv (s_start (doc r)); k_end := opv (s_end (doc r)) |}).
Proof.
  unfold coord_key. rewrite component_chrom, component_start, component_end, doc_chrom, doc_start, doc_end.
  simpl bind. rewrite !position_doc.
  set (v := field r n_Chromosome _).
  destruct v as [|z|s]; simpl.
  - now destruct contigs.
  - destruct contigs as [|c0 cs]; simpl; [reflexivity|].
    destruct (index_of (render_int z) (py_str c0 :: map py_str cs)); reflexivity.
  - destruct contigs as [|c0 cs]; simpl; [reflexivity|].
    destruct (index_of s (py_str c0 :: map py_str cs)); reflexivity.
Qed.

Definition unlisted (names : list str) (r : locatable) : Prop :=
  names <> [] /\ exists n, s_chrom (doc r) = Some n /\ ~ In n names.

Lemma chrom_component_cases names c :
  (exists v, chrom_component names c = Ok v /\
             (match names with [] => str_or_none | _ :: _ => int_or_none end) v = true /\
             (names = [] \/ c = None \/ exists i, rank names c = Some i)) \/
  (chrom_component names c = Raise ValueError /\ names <> [] /\ exists n, c = Some n /\ ~ In n names).
Proof.
  destruct c as [n|]; simpl.
  - destruct names as [|a l]; [left; eexists; repeat split; auto|].
    destruct (index_of n (a :: l)) eqn:E.
    + left. eexists; repeat split; eauto.
    + right. repeat split; [discriminate|]. exists n. split; auto. now apply index_of_none.
  - left. exists PNone. repeat split; auto. now destruct names.
Qed.

Lemma maf_value_field cols name : l_value (Maf cols) name = Ok (field (Maf cols) name PNone).
Proof. simpl. unfold maf_item_value. now destruct (assoc name cols). Qed.

Lemma text_str_or_none v : text_or_none v -> str_or_none v = true.
Proof. destruct v; simpl; tauto. Qed.
Lemma int_or_none_opv o : int_or_none (opv o) = true.
Proof. now destruct o. Qed.

Lemma sel_map (cs : list pv) v :
  (match cs with [] => str_or_none | _ :: _ => int_or_none end) v
  = (match map py_str cs with [] => str_or_none | _ :: _ => int_or_none end) v.
Proof. now destruct cs. Qed.

(* construction succeeds with a well-formed key, or the chromosome is unlisted *)
Lemma build_key_cases kf r : keyable kf r -> (kf_bar kf = true -> barcodes_text r) ->
  (exists k, build_key kf r = Ok k /\ wf_skey kf k = true /\ listed (contig_names kf) (doc r)) \/
  (build_key kf r = Raise ValueError /\ unlisted (contig_names kf) r).
Proof.
  intros Hk Hb. unfold build_key, contig_names, unlisted, listed.
  destruct (chrom_component_cases (map py_str (kf_contigs kf)) (s_chrom (doc r)))
    as [[v [Hv [Hs Hl]]]|[Hv [Hn Hu]]].
  - left. destruct (kf_bar kf) eqn:Eb.
    + destruct (Hk Eb) as [cols ->]. destruct (Hb eq_refl) as [Ht Hn].
      unfold bar_key. rewrite !maf_value_field. simpl bind. rewrite coord_key_doc, Hv. simpl bind.
      eexists; split; [reflexivity|]. split; [|exact Hl]. simpl. rewrite Eb. simpl.
      unfold wf_ckey. simpl.
      pose proof (text_str_or_none _ Ht) as Et. pose proof (text_str_or_none _ Hn) as En.
      simpl in Et, En. rewrite sel_map, Hs, Et, En, !int_or_none_opv. reflexivity.
    + rewrite coord_key_doc, Hv. simpl bind. eexists; split; [reflexivity|]. split; [|exact Hl].
      simpl. rewrite Eb. simpl. unfold wf_ckey. simpl.
      rewrite sel_map, Hs, !int_or_none_opv. reflexivity.
  - right. split; [|split; assumption].
    destruct (kf_bar kf) eqn:Eb.
    + destruct (Hk Eb) as [cols ->]. unfold bar_key. rewrite !maf_value_field. simpl bind.
      rewrite coord_key_doc, Hv. reflexivity.
    + rewrite coord_key_doc, Hv. reflexivity.
Qed.

Lemma listed_not_unlisted names r : listed names (doc r) -> ~ unlisted names r.
Proof.
  intros [H|[H|[i H]]] [Hn [n [Hc Hu]]]; [congruence|congruence|].
  rewrite Hc in H. simpl in H. apply Hu. unfold index_of in H.
  apply index_from_some in H as [_ H]. eapply nth_error_In; eauto.
Qed.

(* ---------- the comparison of built keys is the documented order ---------- *)
Lemma compare_opv a b : compare (opv a) (opv b) = Ok (zc (opt_cmp Z.compare a b)).
Proof. destruct a, b; simpl; try reflexivity. now rewrite b2z_Z. Qed.
Lemma compare_ostr a b : compare (ostr a) (ostr b) = Ok (zc (opt_cmp str_cmp a b)).
Proof. destruct a, b; simpl; try reflexivity. now rewrite b2z_str. Qed.

Lemma text_ostr v : text_or_none v -> v = ostr (doc_text v).
Proof. destruct v; simpl; tauto. Qed.

Lemma chrom_component_cmp names a b va vb :
  chrom_component names a = Ok va -> chrom_component names b = Ok vb ->
  compare va vb = Ok (zc (chrom_cmp names a b)).
Proof.
  unfold chrom_component, chrom_cmp, rank.
  destruct names as [|n0 l].
  - destruct a, b; intros H1 H2; injection H1 as <-; injection H2 as <-; simpl; try reflexivity.
    now rewrite b2z_str.
  - destruct a as [x|], b as [y|]; simpl.
    + destruct (index_of x (n0 :: l)), (index_of y (n0 :: l)); try discriminate.
      intros H1 H2; injection H1 as <-; injection H2 as <-. simpl. now rewrite b2z_Z.
    + destruct (index_of x (n0 :: l)); try discriminate.
      intros H1 H2; injection H1 as <-; injection H2 as <-. reflexivity.
    + destruct (index_of y (n0 :: l)); try discriminate.
      intros H1 H2; injection H1 as <-; injection H2 as <-. reflexivity.
    + intros H1 H2; injection H1 as <-; injection H2 as <-. reflexivity.
Qed.

Lemma zc_then c1 c2 : zc (then_cmp c1 c2) = if zc c1 =? 0 then zc c2 else zc c1.
Proof. destruct c1; reflexivity. Qed.

Lemma coord_cmp_spec names ra rb ca cb :
  chrom_component names (s_chrom (doc ra)) = Ok ca -> chrom_component names (s_chrom (doc rb)) = Ok cb ->
  coord_cmp {| k_chrom := ca; k_start := opv (s_start (doc ra)); k_end := opv (s_end (doc ra)) |}
            {| k_chrom := cb; k_start := opv (s_start (doc rb)); k_end := opv (s_end (doc rb)) |}
  = Ok (zc (spec_cmp false names (doc ra) (doc rb))).
Proof.
  intros Ha Hb. unfold coord_cmp, spec_cmp. simpl.
  rewrite (chrom_component_cmp names _ _ _ _ Ha Hb). simpl bind.
  rewrite !compare_opv, !zc_then.
  destruct (zc (chrom_cmp names (s_chrom (doc ra)) (s_chrom (doc rb))) =? 0) eqn:E1; simpl; [|now rewrite E1].
  destruct (zc (opt_cmp Z.compare (s_start (doc ra)) (s_start (doc rb))) =? 0); reflexivity.
Qed.

Lemma doc_tumor c : s_tumor (doc (Maf c)) = doc_text (field (Maf c) n_Tumor PNone).
Proof. reflexivity. Qed.
Lemma doc_normal c : s_normal (doc (Maf c)) = doc_text (field (Maf c) n_Normal PNone).
Proof. reflexivity. Qed.
Opaque field doc.
Lemma key_cmp_spec kf ra rb ka kb :
  keyable kf ra -> keyable kf rb ->
  (kf_bar kf = true -> barcodes_text ra /\ barcodes_text rb) ->
  build_key kf ra = Ok ka -> build_key kf rb = Ok kb ->
  key_cmp ka kb = Ok (zc (spec_cmp (kf_bar kf) (contig_names kf) (doc ra) (doc rb))).
Proof.
  intros Ka Kb Hb. unfold build_key, contig_names.
  destruct (kf_bar kf) eqn:Eb.
  - destruct (Ka Eb) as [ca ->]. destruct (Kb Eb) as [cb ->].
    destruct (Hb eq_refl) as [[Ta Na] [Tb Nb]].
    unfold bar_key. rewrite !maf_value_field. cbn [bind]. rewrite !coord_key_doc.
    intros H1 H2.
    destruct (chrom_component (map py_str (kf_contigs kf)) (s_chrom (doc (Maf ca)))) as [va|] eqn:Ea;
      cbn [bind] in H1; [|discriminate H1].
    destruct (chrom_component (map py_str (kf_contigs kf)) (s_chrom (doc (Maf cb)))) as [vb|] eqn:Eb';
      cbn [bind] in H2; [|discriminate H2].
    injection H1 as <-. injection H2 as <-.
    unfold key_cmp.
    rewrite (text_ostr _ Ta), (text_ostr _ Tb), (text_ostr _ Na), (text_ostr _ Nb).
    rewrite !compare_ostr. cbn [bind].
    rewrite (coord_cmp_spec _ (Maf ca) (Maf cb) va vb Ea Eb').
    unfold spec_cmp. rewrite !doc_tumor, !doc_normal.
    rewrite !zc_then.
    destruct (zc (opt_cmp str_cmp (doc_text (field (Maf ca) n_Tumor PNone)) (doc_text (field (Maf cb) n_Tumor PNone))) =? 0) eqn:E1;
      simpl; rewrite ?E1; [|reflexivity].
    destruct (zc (opt_cmp str_cmp (doc_text (field (Maf ca) n_Normal PNone)) (doc_text (field (Maf cb) n_Normal PNone))) =? 0) eqn:E2;
      simpl; rewrite ?E2; reflexivity.
  - rewrite !coord_key_doc. intros H1 H2.
    destruct (chrom_component (map py_str (kf_contigs kf)) (s_chrom (doc ra))) as [va|] eqn:Ea;
      cbn [bind] in H1; [|discriminate H1].
    destruct (chrom_component (map py_str (kf_contigs kf)) (s_chrom (doc rb))) as [vb|] eqn:Eb';
      cbn [bind] in H2; [|discriminate H2].
    injection H1 as <-. injection H2 as <-. simpl.
    apply (coord_cmp_spec _ ra rb va vb Ea Eb').
Qed.

Transparent field doc.

(* ---------- typed and untyped records give the same key ---------- *)
Lemma position_text_of_int z : position (PStr (render_int z)) = position (PInt z).
Proof. simpl. now rewrite py_int_render. Qed.
Lemma typed_untyped_same_key z zs ze contigs :
  coord_key (Plain (PInt z) (PInt zs) (PInt ze)) contigs
  = coord_key (Plain (PStr (render_int z)) (PStr (render_int zs)) (PStr (render_int ze))) contigs.
Proof. unfold coord_key. simpl. now rewrite !py_int_render. Qed.

(* ---------- packaged statements ---------- *)
Lemma build_key_unlisted_iff kf r : keyable kf r -> (kf_bar kf = true -> barcodes_text r) ->
  (build_key kf r = Raise ValueError <-> unlisted (contig_names kf) r).
Proof.
  intros Hk Hb. destruct (build_key_cases kf r Hk Hb) as [[k [E [_ L]]]|[E U]].
  - split; [rewrite E; discriminate|]. intros U. exfalso. now apply (listed_not_unlisted _ _ L).
  - tauto.
Qed.

Lemma build_key_listed kf r : keyable kf r -> (kf_bar kf = true -> barcodes_text r) ->
  listed (contig_names kf) (doc r) -> exists k, build_key kf r = Ok k /\ wf_skey kf k = true.
Proof.
  intros Hk Hb L. destruct (build_key_cases kf r Hk Hb) as [[k [E [W _]]]|[_ U]]; [eauto|].
  exfalso. now apply (listed_not_unlisted _ _ L).
Qed.

(* building and comparing never fails on well-formed records *)
Lemma never_fails kf ra rb :
  keyable kf ra -> keyable kf rb ->
  (kf_bar kf = true -> barcodes_text ra /\ barcodes_text rb) ->
  listed (contig_names kf) (doc ra) -> listed (contig_names kf) (doc rb) ->
  exists ka kb,
    build_key kf ra = Ok ka /\ build_key kf rb = Ok kb /\
    let d := zc (spec_cmp (kf_bar kf) (contig_names kf) (doc ra) (doc rb)) in
    key_cmp ka kb = Ok d /\
    key_lt ka kb = Ok (d <? 0) /\ key_le ka kb = Ok (d <=? 0) /\ key_gt ka kb = Ok (d >? 0) /\
    key_ge ka kb = Ok (d >=? 0) /\ key_eq ka kb = Ok (d =? 0) /\ key_ne ka kb = Ok (negb (d =? 0)).
Proof.
  intros Ka Kb Hb La Lb.
  destruct (build_key_listed kf ra Ka (fun e => proj1 (Hb e)) La) as [ka [Ea _]].
  destruct (build_key_listed kf rb Kb (fun e => proj2 (Hb e)) Lb) as [kb [Eb _]].
  exists ka, kb. split; [assumption|]. split; [assumption|].
  pose proof (key_cmp_spec kf ra rb ka kb Ka Kb Hb Ea Eb) as Hc.
  cbv zeta. split; [exact Hc|]. exact (operators_from_cmp _ _ _ Hc).
Qed.

(* ---------- str(key) ---------- *)
Lemma key_str_cases k :
  match k with
  | KCoord c => key_str k = Ok (ckey_str c)
  | KBar t n c =>
      (exists a b, t = PStr a /\ n = PStr b /\ key_str k = Ok (join [TAB] [a; b; ckey_str c])) \/
      ((forall a, t <> PStr a) \/ (forall b, n <> PStr b)) /\ key_str k = Raise TypeError
  end.
Proof.
  destruct k as [c|t n c]; [reflexivity|].
  destruct t as [|z|a]; try (right; split; [left; intros a; discriminate|reflexivity]).
  destruct n as [|z|b]; try (right; split; [right; intros b; discriminate|reflexivity]).
  left. exists a, b. auto.
Qed.
