(* SortOrderReadFacts.v - C09 statements about reader_iter in terms of the
   declared order (glue of SortOrderCheckFacts and SortOrderHeaderFacts). *)
From MafVerif Require Import lib.Base lib.SortOrderLib model.SortOrder model.OrderCheck
  spec.SpecOrder proofs.SortOrderFacts proofs.SortOrderCheckFacts proofs.SortOrderHeaderFacts.
From Coq Require Import Sorted.

Lemma read_all_iff_sorted hl kf rs :
  sort_key (declared hl) = Ok kf -> Forall (good kf) rs ->
  (reader_iter hl rs = (rs, Ok tt) <-> StronglySorted (fun a b => rec_ltb kf b a = false) rs) /\
  (reader_iter hl rs = (rs, Ok tt) <-> chain_ok (rec_ltb kf) rs).
Proof.
  intros Hk Hg. rewrite <- header_sort_order_declared in Hk.
  rewrite (reader_iter_sortable hl rs kf Hk).
  exact (conj (enforce_sorted_iff kf rs Hg) (enforce_all_iff kf rs Hg)).
Qed.

Lemma read_prefix_before_descent hl kf pre a b post :
  sort_key (declared hl) = Ok kf -> Forall (good kf) (pre ++ a :: b :: post) ->
  chain_ok (rec_ltb kf) (pre ++ [a]) -> rec_ltb kf b a = true ->
  reader_iter hl (pre ++ a :: b :: post) = (pre ++ [a], Raise ValueError).
Proof.
  intros Hk Hg Hc Hd. rewrite <- header_sort_order_declared in Hk.
  rewrite (reader_iter_sortable hl _ kf Hk). exact (enforce_first_descent kf pre a b post Hg Hc Hd).
Qed.

Lemma read_dichotomy hl kf rs :
  sort_key (declared hl) = Ok kf -> Forall (good kf) rs ->
  reader_iter hl rs = (rs, Ok tt) \/
  exists pre a b post, rs = pre ++ a :: b :: post /\ chain_ok (rec_ltb kf) (pre ++ [a]) /\
    rec_ltb kf b a = true /\ reader_iter hl rs = (pre ++ [a], Raise ValueError).
Proof.
  intros Hk Hg. rewrite <- header_sort_order_declared in Hk.
  rewrite (reader_iter_sortable hl rs kf Hk). exact (enforce_dichotomy kf rs Hg).
Qed.

Lemma read_no_order_never_rejects hl rs :
  is_coordinate (so_cls (declared hl)) = false -> reader_iter hl rs = (rs, Ok tt).
Proof.
  intros H. rewrite <- header_sort_order_declared in H. exact (reader_iter_not_sortable hl rs H).
Qed.
