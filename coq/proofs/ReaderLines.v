(* ReaderLines.v - C16 and C17 assembled: what opening a reader reports about
   the pragma lines and the column-name line (with their physical numbers), and
   the whole run: one record per data line, each carrying the physical number
   of its line; which exceptions can escape. *)
From MafVerif Require Import lib.Base lib.Str model.RecordOps model.Validation model.Header
  model.RecordParse model.Reader spec.SpecModes spec.SpecHeader proofs.RecordFacts proofs.ReaderModes
  proofs.ReaderTotal.

(* ---------- pragma-line errors are about the line they number ---------- *)
(* e was produced for the k-th (0-based) of the lines, which is numbered n+k+1 *)
Definition about_header_line (n : Z) (ls : list str) (e : verr) : Prop :=
  exists k l, nth_error ls k = Some l /\ eline e = Some (n + Z.of_nat k + 1) /\
    (hrec_from_line l (Some (n + Z.of_nat k + 1)) = inr e \/
     (e = mkerr T_HEADER_DUPLICATE_KEYS (Some (n + Z.of_nat k + 1)) /\
      exists r, hrec_from_line l (Some (n + Z.of_nat k + 1)) = inl r)).

Lemma about_header_line_cons n l ls e : about_header_line (n + 1) ls e -> about_header_line n (l :: ls) e.
Proof.
  intros (k & l' & Hk & He & Hd). exists (S k), l'. simpl.
  replace (n + Z.pos (Pos.of_succ_nat k) + 1) with (n + 1 + Z.of_nat k + 1) by lia. auto.
Qed.

Lemma parse_header_lines_about (ls : list str) : forall n recs errs,
  exists added, snd (parse_header_lines n ls recs errs) = errs ++ added /\
                Forall (about_header_line n ls) added.
Proof.
  induction ls as [|l ls IH]; intros n recs errs; simpl.
  - exists []. rewrite app_nil_r. split; [reflexivity|constructor].
  - destruct (hrec_from_line l (Some (n + 1))) as [r|e] eqn:E.
    + destruct (h_contains (hkey r) recs).
      * destruct (IH (n + 1) recs (errs ++ [mkerr T_HEADER_DUPLICATE_KEYS (Some (n + 1))])) as (added & -> & Ha).
        exists (mkerr T_HEADER_DUPLICATE_KEYS (Some (n + 1)) :: added). rewrite <- app_assoc. split; [reflexivity|].
        constructor.
        -- exists O, l. simpl. replace (n + 0 + 1) with (n + 1) by lia. split; [reflexivity|]. split; [reflexivity|].
           right. split; [reflexivity|]. eauto.
        -- eapply Forall_impl; [|exact Ha]. intros e. apply about_header_line_cons.
      * destruct (IH (n + 1) (dset (hkey r) r recs) errs) as (added & -> & Ha).
        exists added. split; [reflexivity|].
        eapply Forall_impl; [|exact Ha]. intros e. apply about_header_line_cons.
    + destruct (IH (n + 1) recs (errs ++ [e])) as (added & -> & Ha).
      exists (e :: added). rewrite <- app_assoc. split; [reflexivity|].
      constructor.
      * exists O, l. simpl. replace (n + 0 + 1) with (n + 1) by lia. split; [reflexivity|]. split.
        -- unfold hrec_from_line in E.
           repeat match type of E with
                  | context [if ?b then _ else _] => destruct b
                  | context [match ?x with _ => _ end] => destruct x
                  end; try discriminate; injection E as <-; reflexivity.
        -- left. exact E.
      * eapply Forall_impl; [|exact Ha]. intros e'. apply about_header_line_cons.
Qed.

Section Lines.
  Context {C W : Type}.
  Variable sem : colsem C W.
  Notation cls := (cls C).
  Notation scheme := (scheme cls).
  Notation mrec := (mrec C W).
  Notation payload := (payload C W).
  Variable registry : list scheme.
  Context {K : Type}.
  Variable key_of : sorder -> list str -> rec payload -> res K.
  Variable key_lt : K -> K -> bool.
  Hypothesis key_total : forall o cs r, match key_of o cs r with Ok _ => True | Raise e => e = ValueError end.
  Hypothesis registry_wf : Forall scheme_wf registry.

  Definition no_line (es : list verr) : Prop := Forall (fun e => eline e = None) es.

  Lemma validate_errs_no_line recs sch : no_line (validate_errs registry recs sch).
  Proof.
    unfold validate_errs, no_line. apply Forall_app. split.
    - destruct (assoc K_VERSION recs) as [r|]; [|repeat constructor].
      destruct (existsb _ registry); repeat constructor.
    - destruct (match sch with Some s => s_is_basic s | None => false end).
      + destruct (h_contains K_ANNOT recs); repeat constructor.
      + destruct (assoc K_ANNOT recs) as [r|]; [|repeat constructor].
        destruct (existsb _ registry); repeat constructor.
  Qed.

  (* the errors from_lines collects: pragma-line errors, then header-level ones *)
  Lemma hfl_core_errs (hl : list str) :
    exists perrs verrs, snd (hfl_core registry hl) = perrs ++ verrs /\
      Forall (about_header_line 0 hl) perrs /\ no_line verrs.
  Proof.
    unfold hfl_core.
    destruct (parse_header_lines_about hl 0 [] []) as (added & E & Ha).
    destruct (parse_header_lines 0 hl [] []) as [recs errs]. simpl in E. subst errs.
    destruct (reapply_contigs_ok recs) as [recs' ->].
    destruct (h_scheme_ok registry recs') as [sch ->]. simpl.
    exists added, (validate_errs registry recs' sch). repeat split; auto. apply validate_errs_no_line.
  Qed.

  Lemma h_scheme_in recs s : h_scheme registry recs = Ok (Some s) -> In s registry.
  Proof.
    unfold h_scheme, find_scheme, find_scheme_class.
    destruct (falsy_ostr (h_version recs) && falsy_ostr (h_annotation recs)); [discriminate|].
    destruct (falsy_ostr (h_annotation recs)).
    { destruct (find _ registry) as [s'|] eqn:F; [|discriminate].
      destruct (s_norestr s'); [discriminate|]. intros H; injection H as <-. eapply find_some; eauto. }
    destruct (falsy_ostr (h_version recs)).
    { destruct (find _ registry) as [s'|] eqn:F; [|discriminate].
      destruct (s_norestr s'); [discriminate|]. intros H; injection H as <-. eapply find_some; eauto. }
    destruct (find _ registry) as [s'|] eqn:F; [|discriminate].
    destruct (s_norestr s'); [discriminate|]. intros H; injection H as <-. eapply find_some; eauto.
  Qed.

  Definition column_line_error (H : nat) (e : verr) : Prop :=
    eline e = Some (phys_column H) /\
    (etpe e = T_SCHEME_MISMATCHING_NUMBER_OF_COLUMN_NAMES \/ etpe e = T_SCHEME_MISMATCHING_COLUMN_NAMES).

  Lemma name_mismatches_at a b ln : Forall (fun e => eline e = ln /\ etpe e = T_SCHEME_MISMATCHING_COLUMN_NAMES)
                                           (name_mismatches a b ln).
  Proof.
    revert b. induction a as [|x a IH]; intros b; simpl; [constructor|].
    destruct b as [|y b]; [constructor|]. apply Forall_app. split; [|apply IH].
    destruct (str_eqb x y); repeat constructor.
  Qed.

  Lemma col_errs_ok names expected (H : nat) :
    Forall (column_line_error H)
      (if negb (Nat.eqb (length names) (length expected))
       then [mkerr T_SCHEME_MISMATCHING_NUMBER_OF_COLUMN_NAMES (Some (0 + Z.of_nat H + 1))]
       else name_mismatches names expected (Some (0 + Z.of_nat H + 1))).
  Proof.
    destruct (negb _).
    - constructor; [|constructor]. split; [simpl; unfold phys_column; f_equal; lia|left; reflexivity].
    - eapply Forall_impl; [|apply name_mismatches_at].
      intros e [H1 H2]. split; [rewrite H1; unfold phys_column; f_equal; lia|auto].
  Qed.

  Lemma mismatch_no_line (o : scheme) (hs : option scheme) :
    no_line (match hs with
             | Some s => if negb (str_eqb (s_version o) (s_version s))
                         then [mkerr T_HEADER_MISMATCH_SCHEME None] else []
             | None => []
             end).
  Proof. destruct hs as [s|]; [destruct (negb _)|]; repeat constructor. Qed.

  Lemma chosen_scheme_wf (o : scheme) names : scheme_wf o -> scheme_wf (if s_norestr o then no_restrictions names else o).
  Proof. intros Ho. destruct (s_norestr o); [apply no_restrictions_nodup|exact Ho]. Qed.

  (* the plan of __init__ against the shape of the file *)
  Lemma plan_shape lines (override : option scheme) :
    (forall o, override = Some o -> scheme_wf o) ->
    let hdr := fst (split_file lines) in
    let H := length hdr in
    let p := plan_of registry lines override in
    ip_recs p = fst (hfl_core registry (map rstrip_crlf hdr)) /\
    ip_herrs p = snd (hfl_core registry (map rstrip_crlf hdr)) /\
    exists mid post, ip_errs p = ip_herrs p ++ mid ++ post /\ no_line mid /\
      match snd (split_file lines) with
      | None =>
          ip_next p = None /\ post = [mkerr T_HEADER_MISSING_COLUMN_NAMES (Some (phys_column H))]
      | Some (c, data) =>
          Forall (column_line_error H) post /\
          (exists s, ip_scheme p = Some s /\ scheme_wf s) /\
          ip_next p = match data with [] => None | d :: _ => Some (rstrip_crlf d) end /\
          ip_pending p = tl data /\
          ip_lineno p = phys_column H + match data with [] => 0 | _ => 1 end
      end.
  Proof.
    intros Hov hdr H p. subst p. unfold plan_of.
    rewrite read_header_lines_spec. fold hdr. cbn [app].
    destruct (hfl_core registry (map rstrip_crlf hdr)) as [recs herrs] eqn:EH.
    destruct (h_scheme_ok registry recs) as [hs Ehs]. rewrite Ehs.
    unfold phys_column. fold H.
    destruct (snd (split_file lines)) as [[c data]|].
    - (* a column line *)
      set (names := split TAB (rstrip_crlf c)).
      assert (Hhs : forall s, hs = Some s -> scheme_wf s).
      { intros s ->. apply h_scheme_in in Ehs. rewrite Forall_forall in registry_wf. auto. }
      destruct data as [|d ds]; destruct override as [o|]; cbn [ip_recs ip_herrs ip_errs ip_next ip_scheme ip_pending ip_lineno tl];
        (split; [reflexivity|]); (split; [reflexivity|]).
      all: rewrite <- ?app_assoc.
      1,3: eexists _, _; (split; [reflexivity|]); (split; [apply mismatch_no_line|]);
           (split; [apply col_errs_ok|]);
           (split; [eexists; split; [reflexivity|apply chosen_scheme_wf; auto]|]);
           repeat split; lia.
      all: exists []; eexists; (split; [reflexivity|]); (split; [constructor|]);
           (split; [apply col_errs_ok|]);
           (split; [eexists; split; [reflexivity|];
                    destruct hs as [s0|]; [apply chosen_scheme_wf; auto|apply no_restrictions_nodup]|]);
           repeat split; lia.
    - (* no column line *)
      destruct override as [o|]; cbn [ip_recs ip_herrs ip_errs ip_next ip_scheme ip_pending ip_lineno];
        (split; [reflexivity|]); (split; [reflexivity|]).
      + eexists _, _. rewrite <- app_assoc. split; [reflexivity|]. split.
        * destruct hs as [s0|]; [destruct (negb _)|]; repeat constructor.
        * split; [reflexivity|]. repeat f_equal. lia.
      + exists [], [mkerr T_HEADER_MISSING_COLUMN_NAMES (Some (0 + Z.of_nat H + 0 + 1))]. split; [reflexivity|].
        split; [constructor|]. split; [reflexivity|]. repeat f_equal. lia.
  Qed.

  (* ---------- opening: which exceptions, which reader ---------- *)
  Lemma process_raises m lg es l e :
    process m lg es = (l, Raise e) -> m = Strict /\ exists e0, e = format_of e0.
  Proof.
    destruct es as [|e0 er]; [discriminate|]. destruct m; simpl; try discriminate.
    intros H. injection H as _ <-. split; [reflexivity|exists e0; reflexivity].
  Qed.

  Lemma reader_init_result lines m override lg r :
    reader_init registry lines (Some m) override = (lg, r) ->
    match r with
    | Ok rd => rd = mk_reader m (plan_of registry lines override)
    | Raise e => m = Strict /\ exists e0, e = format_of e0
    end.
  Proof.
    rewrite reader_init_unfold. cbv zeta.
    set (p := plan_of registry lines override).
    destruct (process m LgRoot (ip_herrs p)) as [l1 [[]|e1]] eqn:E1; simpl.
    - destruct (process m LgReader (ip_errs p)) as [l2 [[]|e2]] eqn:E2; simpl.
      + intros H. injection H as _ <-. reflexivity.
      + intros H. injection H as _ <-. eapply process_raises; eauto.
    - intros H. injection H as _ <-. eapply process_raises; eauto.
  Qed.

  Notation iterate := (iterate sem key_of key_lt).
  Notation read_run := (read_run sem registry key_of key_lt).
  Notation read_all := (read_all sem registry key_of key_lt).

  Lemma iterate_length_le pending : forall cur n sch m o cs last,
    (length (tr_recs (iterate cur n pending sch m o cs last)) <= S (length pending))%nat.
  Proof.
    induction pending as [|l pending IH]; intros; rewrite iterate_eq;
      destruct (from_line sem cur None sch (Some n) (Some m) LgRoot) as [lg [r|e]]; unfold tr_recs; simpl; try lia;
      destruct (check_order key_of key_lt o cs last r); simpl; try lia.
    specialize (IH (rstrip_crlf l) (n + 1) sch m o cs (Some r)). unfold tr_recs in IH. lia.
  Qed.

  Definition wf_override (override : option scheme) : Prop := forall o, override = Some o -> scheme_wf o.

  (* the header the pragma lines parse to declares a coordinate-type order *)
  Definition declares_sortable (lines : list str) : Prop :=
    forall h, snd (header_from_lines registry (map rstrip_crlf (fst (split_file lines))) (Some Silent) LgRoot) = Ok h ->
              so_is_coord (fst (h_sort_order (hrecs h))) = true.

  Definition data_line_count (lines : list str) : nat :=
    match snd (split_file lines) with Some (_, d) => length d | None => O end.

  (* C16 *)
  Lemma read_all_total lines m override :
    wf_override override ->
    match read_all lines m override with
    | Ok rs => length rs = data_line_count lines
    | Raise (MafFormat _ _) => m = Some Strict
    | Raise ValueError => declares_sortable lines
    | Raise _ => False
    end.
  Proof.
    intros Hov.
    assert (G : forall md, match read_all lines (Some md) override with
                           | Ok rs => length rs = data_line_count lines
                           | Raise (MafFormat _ _) => md = Strict
                           | Raise ValueError => declares_sortable lines
                           | Raise _ => False
                           end).
    { intros md. unfold Reader.read_all, Reader.read_run.
      destruct (reader_init registry lines (Some md) override) as [lg [rd|e]] eqn:EI;
        apply reader_init_result in EI.
      2:{ simpl. destruct EI as (-> & e0 & ->). reflexivity. }
      subst rd. rewrite reader_iterate_mk.
      destruct (plan_shape lines override Hov) as (Hrecs & Hherrs & mid & post & Herrs & Hmid & Hshape).
      unfold data_line_count.
      destruct (snd (split_file lines)) as [[c data]|].
      - destruct Hshape as (_ & (s & Hs & Hwf) & Hnext & Hpend & Hno).
        rewrite Hnext. destruct data as [|d ds]; [reflexivity|].
        rewrite Hs, Hpend. cbn [tl].
        pose proof (iterate_total sem key_of key_lt key_total ds (rstrip_crlf d)
                      (ip_lineno (plan_of registry lines override)) s md
                      (fst (h_sort_order (ip_recs (plan_of registry lines override))))
                      (snd (h_sort_order (ip_recs (plan_of registry lines override)))) None Hwf) as [Ht _].
        unfold tr_end, tr_recs in Ht.
        destruct (iterate (rstrip_crlf d) _ ds (Some s) md _ _ None) as [[[lg' rs] en] es]. simpl in *.
        destruct en as [|e]; [exact Ht|].
        destruct e; try exact Ht.
        intros h Hh. rewrite header_from_lines_silent in Hh. simpl in Hh. injection Hh as <-. simpl.
        rewrite <- Hrecs. exact Ht.
      - destruct Hshape as (Hnext & _). rewrite Hnext. reflexivity. }
    destruct m as [md|].
    - specialize (G md). destruct (read_all lines (Some md) override) as [rs|e]; [exact G|].
      destruct e; try exact G. now subst.
    - specialize (G Silent). change (read_all lines None override) with (read_all lines (Some Silent) override).
      destruct (read_all lines (Some Silent) override) as [rs|e]; [exact G|].
      destruct e; try exact G. discriminate.
  Qed.

  (* ---------- C17: every number is the physical number ---------- *)
  Lemma split_file_data_index lines c data j :
    snd (split_file lines) = Some (c, data) ->
    nth_error lines (length (fst (split_file lines)) + 1 + j) = nth_error data j.
  Proof.
    intros E. pose proof (split_file_app lines) as Ha.
    destruct (split_file lines) as [h t]. simpl in *. subst t.
    rewrite Ha at 1. rewrite nth_error_app2 by lia.
    replace (length h + 1 + j - length h)%nat with (S j) by lia. reflexivity.
  Qed.

  Lemma split_file_header_index lines k :
    (k < length (fst (split_file lines)))%nat ->
    nth_error lines k = nth_error (fst (split_file lines)) k.
  Proof.
    intros Hk. pose proof (split_file_app lines) as Ha.
    destruct (split_file lines) as [h t]. simpl in *.
    rewrite Ha at 1. now rewrite nth_error_app1.
  Qed.

  Lemma reader_line_numbers lines override :
    wf_override override ->
    let hdr := fst (split_file lines) in
    let H := length hdr in
    let r := read_run lines (Some Silent) override in
    exists rd, run_init r = Ok rd /\
      (exists perrs mid post, rd_errs rd = perrs ++ mid ++ post /\
          Forall (about_header_line 0 (map rstrip_crlf hdr)) perrs /\ no_line mid /\
          match snd (split_file lines) with
          | None => post = [mkerr T_HEADER_MISSING_COLUMN_NAMES (Some (phys_column H))]
          | Some _ => Forall (column_line_error H) post
          end) /\
      (forall j rj, nth_error (run_recs r) j = Some rj ->
          exists c data l, snd (split_file lines) = Some (c, data) /\ nth_error data j = Some l /\
            mline rj = Some (phys_data H j) /\ at_line (Some (phys_data H j)) (merrs rj) /\
            exists lg, from_line sem (rstrip_crlf l) None (rd_scheme rd) (Some (phys_data H j))
                                 (Some Silent) LgRoot = (lg, Ok rj)) /\
      (exists tail, run_errs r = rd_errs rd ++ concat (map (@merrs C W) (run_recs r)) ++ tail /\
                    at_line (Some (phys_data H (length (run_recs r)))) tail).
  Proof.
    intros Hov hdr H r. subst r. unfold Reader.read_run.
    destruct (reader_init_modes registry lines override) as (HS & _).
    rewrite HS. set (p := plan_of registry lines override).
    destruct (reader_iterate sem key_of key_lt (mk_reader Silent p)) as [[[lg' rs] en] es] eqn:EIT.
    rewrite reader_iterate_mk in EIT. cbn [run_init run_recs run_errs].
    exists (mk_reader Silent p). split; [reflexivity|].
    destruct (plan_shape lines override Hov) as (Hrecs & Hherrs & mid & post & Herrs & Hmid & Hshape).
    fold p in Hrecs, Hherrs, Herrs, Hshape. fold hdr in Hrecs, Hherrs, Hshape. fold H in Hshape.
    destruct (hfl_core_errs (map rstrip_crlf hdr)) as (perrs & verrs & Ehf & Hper & Hver).
    split.
    { exists perrs, (verrs ++ mid), post. cbn [rd_errs mk_reader].
      rewrite Herrs, Hherrs, Ehf, <- !app_assoc. split; [reflexivity|]. split; [exact Hper|].
      split; [apply Forall_app; split; assumption|].
      destruct (snd (split_file lines)) as [[c data]|]; [tauto|tauto]. }
    destruct (snd (split_file lines)) as [[c data]|] eqn:ET.
    - destruct Hshape as (_ & (s & Hs & Hwf) & Hnext & Hpend & Hno).
      rewrite Hnext in EIT. destruct data as [|d ds].
      + injection EIT as <- <- <- <-.
        split; [intros [|j] rj; discriminate|]. exists []. simpl. rewrite !app_nil_r. split; [reflexivity|constructor].
      + rewrite Hs, Hpend in EIT. cbn [tl] in EIT.
        pose proof (iterate_total sem key_of key_lt key_total ds (rstrip_crlf d) (ip_lineno p) s Silent
                      (fst (h_sort_order (ip_recs p))) (snd (h_sort_order (ip_recs p))) None Hwf)
          as (_ & Hrec & (tail & Htail & Hat)).
        pose proof (iterate_length_le ds (rstrip_crlf d) (ip_lineno p) (Some s) Silent
                      (fst (h_sort_order (ip_recs p))) (snd (h_sort_order (ip_recs p))) None) as Hlen.
        unfold tr_recs, tr_errs in *. rewrite EIT in *. cbn [fst snd] in Hrec, Htail, Hat, Hlen.
        assert (Hn : forall j, ip_lineno p + Z.of_nat j = phys_data H j)
          by (intros j; rewrite Hno; unfold phys_data, phys_column; lia).
        split.
        * intros j rj Hj. destruct (Hrec j rj Hj) as (J1 & J2 & lg & J3).
          assert (Hjl : (j < length (d :: ds))%nat).
          { assert (j < length rs)%nat by (apply nth_error_Some; congruence). simpl; lia. }
          destruct (nth_error (d :: ds) j) as [l|] eqn:El; [|apply nth_error_None in El; lia].
          exists c, (d :: ds), l. rewrite <- Hn. split; [reflexivity|]. split; [exact El|].
          split; [exact J1|]. split; [exact J2|]. exists lg. cbn [rd_scheme mk_reader]. rewrite Hs.
          replace (rstrip_crlf l) with (nth j (rstrip_crlf d :: map rstrip_crlf ds) []); [exact J3|].
          change (rstrip_crlf d :: map rstrip_crlf ds) with (map rstrip_crlf (d :: ds)).
          erewrite nth_error_nth; [reflexivity|]. rewrite nth_error_map, El. reflexivity.
        * exists tail. rewrite Htail, <- Hn. split; [reflexivity|exact Hat].
    - destruct Hshape as (Hnext & _). rewrite Hnext in EIT. injection EIT as <- <- <- <-.
      split; [intros [|j] rj; discriminate|]. exists []. simpl. rewrite !app_nil_r. split; [reflexivity|constructor].
  Qed.
End Lines.

(* the concrete sort key of the extracted run satisfies the key contract *)
Lemma skey_of_total {C W} (sem : colsem C W) (py_int : str -> option Z) o cs (r : rec (payload C W)) :
  match skey_of sem py_int o cs r with Ok _ => True | Raise e => e = ValueError end.
Proof.
  unfold skey_of. destruct (field_text sem r C_CHROM) as [name|]; [|exact I].
  destruct (nonempty cs); [|exact I]. destruct (index_of name cs 0); [exact I|reflexivity].
Qed.

(* "declares a sortable order", read through the header spec (uses C13) *)
From MafVerif Require Import proofs.HeaderSpec.
Lemma declares_sortable_spec {C} (registry : list (scheme (cls C))) lines :
  declares_sortable registry lines ->
  exists v, kept_value SP_SORT (fst (expected_header (map rstrip_crlf (fst (split_file lines))))) = Some v /\
            In v SP_COORD_NAMES.
Proof.
  intros Hd. unfold declares_sortable in Hd.
  rewrite header_from_lines_silent in Hd. specialize (Hd _ eq_refl). simpl in Hd.
  pose proof (accessors_spec registry (map rstrip_crlf (fst (split_file lines))) (Some Silent) LgRoot) as Ha.
  rewrite header_from_lines_silent in Ha. specialize (Ha _ _ eq_refl). simpl in Ha.
  destruct Ha as (_ & _ & _ & Hnone & Hsome).
  destruct (kept_value SP_SORT (fst (expected_header (map rstrip_crlf (fst (split_file lines)))))) as [v|].
  - exists v. split; [reflexivity|].
    destruct (Hsome v eq_refl) as (o & cs & _ & Hname & Hso). rewrite Hso in Hd. simpl in Hd.
    subst v. destruct o; try discriminate; simpl; auto.
  - rewrite (Hnone eq_refl) in Hd. discriminate.
Qed.

(* the self-consistency errors of MafRecord.validate (RECORD_OUT_OF_SYNC,
   RECORD_COLUMN_INDEX_OUT_OF_SYNC) carry the record's own line number, for
   any record whatsoever *)
Lemma sync_errs_at_line {C W} (r : rec (payload C W)) ln :
  Forall (fun e => eline e = ln /\
                   (etpe e = T_RECORD_OUT_OF_SYNC \/ etpe e = T_RECORD_COLUMN_INDEX_OUT_OF_SYNC))
         (sync_errs r ln).
Proof.
  unfold sync_errs. apply Forall_app. split.
  - destruct (_ || _); constructor; [split; [reflexivity|left; reflexivity]|constructor].
  - generalize 0. induction (rlist r) as [|[c|] l IH]; intros i; simpl; [constructor| |apply IH].
    apply Forall_app. split; [|apply IH].
    destruct (match cidx c with Some ci => ci =? i | None => false end);
      constructor; [split; [reflexivity|right; reflexivity]|constructor].
Qed.
